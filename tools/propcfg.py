"""Per-property configuration of `check`: non-triviality rule, distribution classes,
observable (a_P), Spec comparison, trusted base."""
import re

COMMON_TB = [
    "Lean 4.33.0 kernel (thorough tier: leanchecker re-check of the property module)",
    "axioms per theorem restricted to propext, Classical.choice, Quot.sound (audited by #print axioms on every run); no sorry/admit/axiom/native_decide/bv_decide",
    "hand-written Lean model of the Rust code (lean/DltVerif/Model): tied to /repo's working tree on every run by the differential correspondence check (Rust harness in-process vs compiled Lean driver on the same request lines) and by the regenerated constants tie",
    "Lean compiler (the driver executes the compiled definitions the theorems are about), the Rust harness and its canonical printer, the check script",
    "library code modelled by contract, not verified: nom 7.1.3 streaming primitives (modelled from source), memchr memmem, byteorder, bytes, std str::from_utf8",
]
COMMON_ASSUME = [
    "lengths, offsets and counters are Nat (no usize overflow, no allocation failure)",
    "log macros evaluate no arguments (no logger installed, as in the test-suite)",
]


_HINT = re.compile(r"(ERR INCOMPLETE|\bINCOMPLETE:?)[ :]?(\d+|\?)")
_REJ = re.compile(r"\b(HICKUP|UNRECOVERABLE)\b")


def canon_reject(ans):
    """the two rejection variants of DltParseError are one class ("rejection" / "an error")"""
    return _REJ.sub("REJECT", ans)


def canon(ans):
    """What no property distinguishes is not compared: the two rejection variants of DltParseError
    (the properties say "rejection" / "an error") and the value of an incomplete-size hint (its
    bound, at least 1 and at most the bytes missing, is checked by the oracles of C05 and C19)."""
    ans = re.sub(r"ERR INCOMPLETE \S+", "ERR INCOMPLETE", ans)
    return _REJ.sub("REJECT", ans)


def hexlen(tok):
    return (len(tok) - 1) // 2


_SINGLE_MESSAGE_OPS = {"PARSE", "NOPANIC", "CONS", "FILT", "STABLE"}


def ambiguous_framing(req):
    """For the single-message requests `<OP> <storage> ... <bytes>` and the skipper `CONSUME <bytes>`:
    is the buffer one for which the property texts allow BOTH 'incomplete' and 'rejection'?  That
    is the case when the length field can be read (4 bytes of the standard header are there), it is
    smaller than the headers the header-type byte announces, AND the buffer ends before those
    headers: "the buffer ends before the headers" and "the declared length is too small" both hold
    and no property ranks them."""
    t = req.split()
    if not t or not t[-1].startswith("x"):
        return False
    try:
        bs = bytes.fromhex(t[-1][1:])
    except ValueError:
        return False
    if t[0] == "CONSUME":
        # the skipper expects the storage header at the start of the buffer
        if len(bs) < 16 or bs[:4] != b"DLT\x01":
            return False
        bs = bs[16:]
    elif t[0] in _SINGLE_MESSAGE_OPS and len(t) >= 3:
        if t[1] == "1":
            k = bs.find(b"DLT\x01")
            if k < 0 or len(bs) - k < 16:
                return False
            bs = bs[k + 16:]
    else:
        return False
    if len(bs) < 4:
        return False
    h = bs[0]
    std = 4 + 4 * ((h >> 2) & 1) + 4 * ((h >> 3) & 1) + 4 * ((h >> 4) & 1)
    allh = std + 10 * (h & 1)
    declared = (bs[2] << 8) | bs[3]
    return declared < allh and len(bs) < allh


_VERDICT = re.compile(r"(?:\bERR |^)(INCOMPLETE( (?:\d+|-|\?))?|REJECT|HICKUP|UNRECOVERABLE)(?![\w-])")


class Cfg:
    rule = "every generated request line is a case; distinct by hash of the request; all count as non-trivial"
    observable = "the full answer line"
    exhaustive = False
    explanation = ""
    assumptions = COMMON_ASSUME
    trusted_base = COMMON_TB

    def nontrivial(self, req, ans, m=None):
        return True

    def classify(self, req, ans, m=None):
        return req.split(" ", 1)[0] + ":" + ans.split(" ", 1)[0]

    def spec_ok(self, req, ans, spec):
        """does the implementation's answer meet what the Spec expects (ORACLE via Spec)"""
        return True

    def project_corr(self, ans):
        """projection compared between implementation and model (a_P)"""
        return canon(ans)

    def corr_view(self, req, ans, spec=None, model_ans=None):
        """what of an answer is compared between implementation and model for THIS request: outside
        the domain the property quantifies over, only what the property still claims there (e.g.
        panic-freedom), so that a rewrite that changes behaviour the property leaves open is not
        reported"""
        v = self.project_corr(ans)
        if ambiguous_framing(req):
            v = _VERDICT.sub("INCOMPLETE-OR-REJECT", v)
        return v


class C01(Cfg):
    rule = ("RT <message> <suffix>: type-directed well-formed messages (every payload kind incl. network trace, both byte "
            "orders, all argument kinds x widths x VARI/TRAI/SCOD, ids of 0..4 bytes with multi-byte scalars, all header "
            "flag sets, storage header on/off, boundary lengths up to 65535) x suffixes (empty, random, another message, "
            "storage pattern); non-trivial = payload or suffix non-empty; distinct by request")
    observable = "(round trip holds?, parse result, remainder length, remainder == suffix)"
    explanation = ("C01_roundtrip proves parse(enc m ++ sfx) = (m, sfx) for every well-formed m and every sfx over the model; "
                   "the run ties Message::as_bytes and dlt_message to the model and evaluates the round trip on the crate")

    def nontrivial(self, req, ans, m=None):
        toks = req.split()
        return (m or {}).get("wf") == "1" and (hexlen(toks[-1]) > 0 or " V 0" not in req)

    def classify(self, req, ans, m=None):
        kind = "?"
        for k, name in ((" V ", "verbose"), (" N ", "nonverbose"), (" C ", "control"), (" T ", "nwtrace")):
            if k in req:
                kind = name
                break
        st = "storage" if req.startswith("RT +") else "nostorage"
        return "RT:%s:%s:%s:wf=%s" % (kind, st, ans.split(" ", 1)[0], (m or {}).get("wf", "?"))


class C02(Cfg):
    rule = ("ENC <message>: the type-directed well-formed messages of C01 (every payload kind incl. network trace, both "
            "byte orders, all 32 header flag sets, all MSIN nibbles, all argument kinds x widths x VARI/TRAI/SCOD, boundary "
            "lengths up to 65535); PARSE <storage> - <bytes>: the decode stream (canonical encodings, dialect rewrites, "
            "structured mutations of every length field, truncation at EVERY offset of a sample, splices, noise, junk in "
            "front, storage mode flipped); non-trivial = a message is decoded / encoded; distinct by request")
    observable = "ENC: the bytes; PARSE: verdict (item with every field and the remainder length | incomplete | reject)"
    explanation = ("C02_encode / C02_decode relate the writer / parser model to the reference codec of Spec/Codec.lean for "
                   "all messages / all byte strings; the run compares Message::as_bytes and dlt_message with the model AND "
                   "evaluates the reference codec on the same inputs against the crate's own answers")

    def nontrivial(self, req, ans, m=None):
        return ans.startswith("OK") or (req.startswith("ENC") and not ans.startswith("PANIC"))

    def classify(self, req, ans, m=None):
        t = ans.split()
        if req.startswith("ENC"):
            return "ENC:" + ("PANIC" if ans.startswith("PANIC") else "bytes")
        if t[0] == "OK":
            return "PARSE:" + " ".join(t[2:3])
        return "PARSE:" + " ".join(t[:2])

    def spec_ok(self, req, ans, spec):
        """the crate's own answer against the reference codec (Spec/Codec.lean)"""
        if req.startswith("ENC"):
            sp, wf = spec.split(" wf=")
            if wf != "1":
                return True
            return ans.split(" ", 1)[0] == sp
        if spec in ("INCOMPLETE", "REJECT") and ambiguous_framing(req):
            return ans.startswith("ERR")
        if spec == "INCOMPLETE":
            return ans.startswith("ERR INCOMPLETE")
        if spec == "REJECT":
            return ans.startswith("ERR HICKUP") or ans.startswith("ERR UNRECOVERABLE") or ans.startswith("ERR REJECT")
        return ans == spec

    def project_corr(self, ans):
        # the needed-hint of an incomplete verdict is C05's subject; rejection is one class
        return canon(ans)


class C03(Cfg):
    rule = ("NOPANIC/CONSUME/SKIPSH/FWD/ZTS requests over the malformed decode stream (canonical encodings, structured "
            "mutations of every length field, truncations, splices, noise, >64 KiB, guard-targeted lengths for all 32 flag "
            "sets, 65535-byte names) x storage mode x filter; non-trivial = input of at least 4 bytes; distinct by request")
    observable = "(outcome class incl. PANIC, re-serialisable?, arguments valid?)"
    explanation = ("C03 theorems: no model entry point takes the panic outcome and every returned message re-serialises "
                   "without overflow; the run compares panic behaviour and outcome class with the crate under catch_unwind")

    def nontrivial(self, req, ans, m=None):
        return hexlen(req.split()[-1]) >= 4

    def classify(self, req, ans, m=None):
        return req.split(" ", 1)[0] + ":" + ans.split(" ", 1)[0]

    def corr_view(self, req, ans, spec=None, model_ans=None):
        # the property is about crashes and about what is returned: WHICH error an input gets
        # (incomplete, one of the rejection variants) is the subject of C02 / C04 / C05
        v = super().corr_view(req, ans, spec, model_ans)
        return re.sub(r"(?:\bERR |^)(INCOMPLETE-OR-REJECT|INCOMPLETE( (?:\d+|-|\?))?|REJECT|HICKUP|UNRECOVERABLE)(?![\w-])", "no-message", v)


class C04(Cfg):
    rule = ("CONS <storage> <filter> <bytes> / CONSUME <bytes>: decode stream weighted towards verbose messages whose "
            "arguments are shorter / longer than the declared payload, junk in front in storage mode, filters; "
            "non-trivial = the call returned Ok; distinct by request")
    observable = "(Ok?, remainder length, kind item/filtered:n/invalid)"
    explanation = ("C04_consume proves for all byte strings that an Ok result's remainder starts exactly at the declared "
                   "end; the Spec oracle recomputes that position from HTYP and LEN alone (Spec.framing)")

    def nontrivial(self, req, ans, m=None):
        return ans.startswith("OK")

    def classify(self, req, ans, m=None):
        t = ans.split()
        k = t[2].split(":")[0] if len(t) > 2 and t[0] == "OK" and t[2].startswith("kind=") else ""
        return "%s:%s:%s" % (req.split(" ", 1)[0], t[0], k)

    def spec_ok(self, req, ans, spec):
        toks = req.split()
        n = hexlen(toks[-1])
        if toks[0] == "CONSUME":
            if ans.startswith("OK none"):
                return n == 0
            if ans.startswith("OK some"):
                m = re.match(r"OK some (\d+) rest=(\d+)", ans)
                c, rest = int(m.group(1)), int(m.group(2))
                return spec == "some %d rest=%d" % (c, rest) and c > 0 and c + rest == n
            return True
        if not ans.startswith("OK"):
            return True
        m = re.match(r"OK rest=(\d+) kind=(\S+)", ans)
        rest, kind = int(m.group(1)), m.group(2)
        ms = re.match(r"complete rest=(\d+) fl=(\d+)", spec)
        if not ms:
            return False
        if rest != int(ms.group(1)) or rest >= n:
            return False
        if kind.startswith("filtered:") and int(kind.split(":")[1]) != int(ms.group(2)):
            return False
        return kind != "invalid"


class C05(Cfg):
    rule = ("CUTALL <message>: well-formed messages, EVERY cut position 0..len-1 of each (exhaustive per message), both "
            "storage modes, parser and skipper; CUTS <step> <message>: messages whose length field is 32768, 65519..65521, "
            "65534, 65535 (both storage modes, minimal and full headers) at the first and last 64 cuts and every step-th "
            "in between; non-trivial = message longer than its headers; distinct by request")
    observable = "(number of cut positions not reported incomplete with a hint in [1, missing])"
    explanation = ("C05_prefix proves incompleteness with a safe hint for every proper prefix of every well-formed message; "
                   "fine_agreement compares a hash of the exact hints of all cuts (not an alarm condition)")

    def nontrivial(self, req, ans, m=None):
        return " V 0" not in req

    def classify(self, req, ans, m=None):
        mm = re.match(r"len=(\d+) bad=(\d+)", ans)
        if not mm:
            return "CUTALL:" + ans.split(" ", 1)[0]
        n = int(mm.group(1))
        if n > 30000:
            return "CUTS:len=%d:bad=%s" % (n, "0" if mm.group(2) == "0" else ">0")
        return "CUTALL:len<%d:bad=%s" % (50 * (n // 50 + 1), "0" if mm.group(2) == "0" else ">0")


class C11(Cfg):
    rule = ("FIBEXDOC: generated models over the full vocabulary (16 S_* names, 18 base types incl. unknown, custom signals "
            "through codings, redefinitions), shuffled element order, permuted sequence numbers incl. ties and descending, "
            "duplicate PDU / frame ids, 1..4 files, missing optional parts, dangling references, names needing XML escapes; "
            "compact rendering (the Spec's render must equal quick-xml's events) and pretty rendering (whitespace, comments, "
            "unrelated elements); 4 lookups each with / without extended header; non-trivial = at least one frame loaded; "
            "distinct by request")
    observable = "canonical sorted metadata (keyed map and id map with every field) or none, and the lookup results"
    explanation = ("C11_load / C11_load_gapped / C11_load_any_layout (loader on rendered documents = Spec.model, from the XML event list; passed-over events between elements; both child orders in instances), C11_vocabulary, C11_partition (any split into "
                   "files), C11_order_independent / C11_order_fails, C11_sorted (stable sort by sequence number), C11_first_wins, "
                   "C11_unknown_signal_skipped, C11_unknown_pdu_fails, C11_lookup; "
                   "the run loads real XML files with gather_fibex_data, feeds quick-xml's event dump of the same files to the "
                   "model, and evaluates Spec.model on the abstract documents")
    assumptions = COMMON_ASSUME + ["quick-xml 0.29 tokenizer / unescaping trusted: the model consumes its event dump "
                                   "(element names reduced to the matched vocabulary by the harness)"]

    def nontrivial(self, req, ans, m=None):
        return ans.startswith("MD") and " I 0 " not in ans

    def classify(self, req, ans, m=None):
        t = ans.split()
        return "FIBEXDOC:%s:%s" % (req.split()[1], " ".join(t[:3]) if t[0] == "MD" else t[0])

    def spec_ok(self, req, ans, spec):
        return ans == spec


class C12(Cfg):
    rule = ("FIBEX: the two repository documents and generated ones (compact and pretty) x truncation offsets (every 3rd / "
            "37th byte quick, every byte thorough) x deletion of elements / attributes / required tags x byte corruptions "
            "('<' '>' '\"' '&' NUL 0xFF ...), insertions; missing path, empty file, no path, intact + damaged pairs; every load "
            "runs under a 10 s watchdog; non-trivial = file non-empty; distinct by request")
    observable = "returned(model | none) | HANG | PANIC; for returned models the canonical metadata"
    explanation = ("C12_total (model or refusal, never panic, for all event lists), C12_readEvent_nopanic, C12_consumes, "
                   "C12_eof_in_pdu/frame, C12_missing_file; termination of every loader loop is Lean's own termination check. Partial: "
                   "promptness, quick-xml on arbitrary bytes and library panics are observed under the watchdog, not proved")
    assumptions = C11.assumptions

    def nontrivial(self, req, ans, m=None):
        return " + x" in req and " + x " not in req

    def classify(self, req, ans, m=None):
        return "FIBEX:" + ans.split(" ", 1)[0]

    def corr_view(self, req, ans, spec=None, model_ans=None):
        # "ends with a model or a refusal, never a hang or a panic": which of the two a damaged
        # document gets, and what the model then holds, is C11's subject for well-formed documents
        # and otherwise left open
        head = ans.split(" ", 1)[0]
        return head if head in ("HANG", "PANIC") else "returned"


class C13(Cfg):
    rule = ("NVA <order> <types> <payload>: every kind (and pair of kinds) x both byte orders x every truncation point "
            "(exhaustive for lists of length 1 and 2), random lists of 0..8 types with exact, short, over-long and "
            "corrupted payloads incl. invalid UTF-8 and fixed-point kinds; non-trivial = at least one type; distinct by request")
    observable = "the constructed arguments (every field) or ERR or PANIC"
    explanation = "C13_refines proves model = Spec.construct for all inputs; the run compares the crate with both"

    def nontrivial(self, req, ans, m=None):
        return req.split()[2] != "0"

    def classify(self, req, ans, m=None):
        return "NVA:n=%s:%s" % (req.split()[2], ans.split(" ", 1)[0])

    @staticmethod
    def has_fixed_point(req):
        t = req.split()
        n = int(t[2])
        return any(t[3 + 6 * k] in ("2", "4") for k in range(n))

    def corr_view(self, req, ans, spec=None, model_ans=None):
        # fixed-point kinds are not among the signal types the property lists: only "no input causes
        # a panic" is claimed for them
        if self.has_fixed_point(req):
            return "PANIC" if ans.startswith("PANIC") else "no-panic"
        return self.project_corr(ans)

    def spec_ok(self, req, ans, spec):
        if self.has_fixed_point(req):
            # the Spec (like today's code) refuses fixed-point kinds; the property does not say so
            return not ans.startswith("PANIC")
        return ans == spec


class C14(Cfg):
    rule = ("HTYP b / MSIN b for all 256 bytes each; TI w for ALL 2^18 low words (the decoder ignores bits 18..31) plus "
            "random words with high bits set; non-trivial = the word decodes; distinct by request")
    observable = "decoded fields and the re-encoded code"
    exhaustive = True
    explanation = ("C14_htyp / C14_msin: kernel-decided complete tables; C14_ti_*: all 2^32 words by case analysis; the run "
                   "enumerates the full HTYP, MSIN and low-18-bit type-info spaces against the crate")

    def nontrivial(self, req, ans, m=None):
        return ans != "none"

    def classify(self, req, ans, m=None):
        op = req.split(" ", 1)[0]
        if op == "TI":
            return "TI:" + ("refused" if ans == "none" else "kind" + ans.split(" ", 1)[0])
        return op

    def spec_ok(self, req, ans, spec):
        """TI: the crate accepts exactly the words the layout Spec supports (Spec/TypeInfo.lean) and its
        re-encoding differs from the word only inside the Spec's unused-bit mask for that kind"""
        t = req.split()
        if t[0] != "TI":
            return True
        if spec == "reject":
            return ans == "none"
        if ans == "none" or ans.startswith("PANIC"):
            return False
        mask = int(spec.split("mask=")[1])
        m = re.search(r" re=(\d+)", ans)
        if not m:
            return False
        w = int(t[1])
        return ((int(m.group(1)) ^ w) & ~mask & 0xFFFFFFFF) == 0


class C15(Cfg):
    rule = ("ARGLEN <argument> (well-formed arguments of every kind, both byte orders), NEW <config> (Message::new for "
            "every payload kind, optional fields, extended header present/absent), ADDSH <message> <time>, VALID "
            "<argument> (bool/float kinds with foreign values); non-trivial: all; distinct by request")
    observable = "(len, serialised lengths, valid) / built message and its consistency flags / bytes with storage header"
    explanation = ("C15_len, C15_payload_len, C15_new, C15_new_lengths (any configuration that fits, also ill-typed "
                   "arguments), C15_new_parses_back, C15_byte_len, C15_storage, C15_valid over the model; oracle evaluated on "
                   "the crate's own results")

    def classify(self, req, ans, m=None):
        return req.split(" ", 1)[0] + ":" + ("PANIC" if "PANIC" in ans else "ok")


class C16(Cfg):
    rule = ("STABLE <storage> <bytes>: the decode stream (canonical, dialect, mutated, spliced, noise); non-trivial = "
            "a message was parsed and its re-serialisation has the declared length; distinct by request")
    observable = "(message parsed?, re-serialised length == declared?, stable?)"
    explanation = "C16_stable over the model for all byte strings; oracle evaluated on the crate"

    def nontrivial(self, req, ans, m=None):
        return ans.startswith("item lenmatch=1")

    def classify(self, req, ans, m=None):
        return "STABLE:" + ans.replace(" ", ":")


class C17(Cfg):
    rule = ("FROMMS / FROMUS requests over boundary values (0, 999, 1000, 10^6 +- 1, (2^32-1)*unit+unit-1, "
            "first values outside the domain, all 2^k and 2^k-1) and random u64; non-trivial = inside the "
            "property's domain (whole seconds < 2^32) with a non-zero sub-second part; distinct by request")
    observable = "(seconds, microseconds) or PANIC"
    explanation = ("theorems C17_ms / C17_us are proved for all inputs by omega over the model with checked u32 "
                   "arithmetic; the correspondence run ties the model to DltTimeStamp::from_ms / from_us")
    assumptions = ["u64 inputs modelled as Nat (the theorems hold for all Nat, hence all u64)"]

    def nontrivial(self, req, ans, m=None):
        op, n = req.split()
        n = int(n)
        unit = 1000 if op == "FROMMS" else 1000000
        return n // unit < 2 ** 32 and n % unit != 0

    def corr_view(self, req, ans, spec=None, model_ans=None):
        # the property quantifies over counts whose whole seconds fit in 32 bits
        return self.project_corr(ans) if self.nontrivial_domain(req) else "out-of-domain"

    @staticmethod
    def nontrivial_domain(req):
        op, n = req.split()
        return int(n) // (1000 if op == "FROMMS" else 1000000) < 2 ** 32

    def classify(self, req, ans, m=None):
        op, n = req.split()
        n = int(n)
        unit = 1000 if op == "FROMMS" else 1000000
        dom = "in-domain" if n // unit < 2 ** 32 else "out-of-domain"
        return "%s:%s:%s" % (op, dom, "panic" if ans.startswith("PANIC") else "value")


class C18(Cfg):
    rule = ("REAL <argument>: every kind, every integer width, fixed-point data present/absent, quantizations incl. 0, "
            "subnormals, NaN, +-inf, negatives, 2^k, offsets incl. negative/min/max, values around 2^53, 2^63, 2^64; "
            "non-trivial = a real value is produced; distinct by request")
    observable = "none | some <u64> | PANIC"
    explanation = ("C18_exact: the model equals the value-level reference Spec/Fixed.lean (IEEE roundTiesToEven by "
                   "definition, Spec.nearestDouble) on every input in the property's premise; the reference is also "
                   "evaluated on the crate's own answers; the model's exact-integer product is compared bit-for-bit with "
                   "the hardware result through the crate on every case (trusted: the hardware implements IEEE 754)")
    assumptions = ["the f64 product and the saturating cast are modelled with exact integer arithmetic (F64.mul, F64.toU64)"]

    def nontrivial(self, req, ans, m=None):
        return ans.startswith("some")

    def classify(self, req, ans, m=None):
        spec = (m or {}).get("spec", "")
        what = "reference:exactly" if spec.startswith("some") else "reference:nothing" if spec == "none" else "reference:silent"
        return "REAL:" + ans.split(" ", 1)[0] + ":" + what

    def corr_view(self, req, ans, spec=None, model_ans=None):
        # where the property's premise does not hold (negative product, sum outside 0..2^63, 128-bit
        # values, non-finite quantization) only "never panics" is claimed
        if spec == "skip":
            return "PANIC" if ans.startswith("PANIC") else "no-panic"
        return self.project_corr(ans)

    def spec_ok(self, req, ans, spec):
        """the crate's answer against Spec/Fixed.lean (IEEE rounding by definition): `none` where the
        property demands nothing, the exact sum where it demands one"""
        if spec == "skip":
            return True
        return ans == spec


class C19(Cfg):
    rule = ("ZTS <size> <bytes>: ALL strings of length <= 3 (quick) / <= 4 (thorough) over {00,'a',C3,A9,E2,82,AC,F0,9F,98,80,"
            "C0,ED,A0,FF} x sizes 0..7 (exhaustive), random longer strings with sizes up to 65535; IDS <storage> <bytes>: raw "
            "messages whose four 4-byte id fields (storage ECU id, header ECU id, application id, context id) hold arbitrary "
            "bytes - every 4-byte string over the alphabet with a NUL in 2nd/3rd position (quick) / all 15^4 (thorough) plus "
            "random ones - parsed with dlt_message; non-trivial = input non-empty and size > 0 (ZTS), message parsed (IDS); "
            "distinct by request")
    observable = "(returned string bytes, remainder length) or (incomplete, hint)"
    exhaustive = True
    explanation = ("C19_zts / C19_zts_short / C19_utf8 / C19_spec (parser = Spec field) / C19_utf8_definition for all inputs; the run compares dlt_zero_terminated_string and the ids "
                   "returned by dlt_message with the model and with the Spec (RFC 3629 scalar decoding, longest valid prefix by search)")

    def nontrivial(self, req, ans, m=None):
        t = req.split()
        if t[0] == "IDS":
            return ans.startswith("OK")
        return t[1] != "0" and hexlen(t[2]) > 0

    def classify(self, req, ans, m=None):
        return req.split(" ", 1)[0] + ":" + " ".join(ans.split()[:2] if not ans.startswith("OK") else ["OK"])

    def spec_ok(self, req, ans, spec):
        """the crate's own answer against the Spec (Spec/Zts.lean): exact text and remainder for a
        complete field, hint within [1, missing] for an incomplete one; ids of a parsed message
        are what the Spec reads at the id offsets"""
        if spec == "skip":
            return True
        if req.startswith("IDS"):
            return (not ans.startswith("OK ")) or ans[3:] == spec
        if spec.startswith("OK"):
            return ans == spec
        missing = int(spec.split()[1])
        t = ans.split()
        if t[:2] != ["ERR", "INCOMPLETE"]:
            return False
        return t[2] == "?" or 1 <= int(t[2]) <= missing


class C06(Cfg):
    rule = ("FWD <bytes> (strings rich in pattern fragments: partial patterns at the end, overlapping starts 44 4C 44 4C 54 01, "
            "pattern at 0, several patterns, none), JUNK <junk> <message> <suffix> (junk of 0..40 bytes without an occurrence "
            "starting inside it, incl. lone 'D's and pattern fragments; and junk of 65535..140000 bytes, longer than a maximal "
            "message), JUNKF <filter> <junk> <message> <suffix> (the same through a filter: same verdict and remainder whether "
            "the message is delivered or dropped), STREAM of 1..6 messages with junk between; "
            "non-trivial = pattern present / junk non-empty; distinct by request")
    observable = "(offset | none, remainder length) / (same parse as without junk?, class) / (messages recovered, all equal?)"
    explanation = ("C06_search_some/none (first occurrence, exactly), C06_junk, C06_junk_any (every filter, every continuation), "
                   "C06_noD_junk, C06_no_border, C06_stream "
                   "(parseAll recovers all messages in order); Spec oracle for the search = index-based first occurrence")

    def nontrivial(self, req, ans, m=None):
        t = req.split()
        if t[0] == "FWD":
            return ans.startswith("some")
        if t[0] == "JUNK":
            return hexlen(t[1]) > 0
        return True

    def classify(self, req, ans, m=None):
        c = req.split(" ", 1)[0] + ":" + ans.split(" ", 1)[0]
        if req.startswith("JUNKF"):
            c += ":" + ans.split(" ")[-1].split(":")[0]
        return c

    def spec_ok(self, req, ans, spec):
        return not req.startswith("FWD") or spec == "skip" or ans == spec


class C07(Cfg):
    rule = ("READ <storage> <filter> <schedule> <stream>: streams of 0..5 well-formed messages (some mutated), truncations at "
            "arbitrary offsets, hostile LEN (0..5, 65535), noise; schedules: all-at-once, 1 byte at a time, random chunk "
            "sizes, bursts of Interrupted, chunk boundaries inside the 4-byte header, huge chunks; the crate reads through "
            "a Read implementation that fragments/interrupts per schedule; non-trivial = stream non-empty and schedule "
            "non-empty; distinct by request")
    observable = "sequence of per-call results (item with all fields | filtered n | error class | PANIC) until end of stream"
    explanation = ("C07_refines: for every schedule the model reader equals Spec.readStream (cut at declared lengths, parse "
                   "each piece); C07_readExact: read_exact contract for every schedule; C07_complete_prefix. Oracle on the "
                   "crate: same result as with the unfragmented source, no panic; Spec oracle: cut-and-parse")
    assumptions = COMMON_ASSUME + ["std::io::BufReader and Read::read_exact are represented by the abstract buffered source "
                                   "(Model/Reader.lean); capacity 10 MiB never limits an inner read (streams are smaller)"]

    def nontrivial(self, req, ans, m=None):
        t = req.split()
        return hexlen(t[-1]) > 0 and " 0 x" not in req[-(len(t[-1]) + 4):]

    def classify(self, req, ans, m=None):
        items = ans.split(" ; ")
        kinds = sorted(set(i.split(" ")[0] + ("" if i.split(" ")[0] != "E" else ":" + i.split(" ")[1]) for i in items))
        return req.split(" ", 1)[0] + ":" + ",".join(kinds)

    @staticmethod
    def tail_norm(seq, spec):
        """the delivered sequence without what the property leaves open at a truncated tail: where the
        Spec marks the tail `T` (an incomplete last message or fewer bytes than a header), the
        reader may end the stream at once or report one error first"""
        if spec is None or not seq.endswith("EOS") or not spec.endswith("EOS"):
            return seq
        sb = spec.split(" ; ")[:-1]
        body = seq.split(" ; ")[:-1]
        if sb and sb[-1] == "T":
            n = len(sb) - 1
            if len(body) == n + 1 and (body[-1].startswith("E ") or body[-1] == "T"):
                body = body[:-1]
        return " ; ".join(body + ["EOS"])

    @staticmethod
    def any_error(seq):
        """a piece that does not parse yields "an error": a piece is cut at its declared length, so
        'incomplete' arises for it only where the length field is smaller than the headers - where
        the property texts allow incomplete and rejection alike"""
        return re.sub(r"\bE (INCOMPLETE|HICKUP|UNRECOVERABLE|REJECT)\b", "E", seq)

    def corr_view(self, req, ans, spec=None, model_ans=None):
        return self.any_error(self.tail_norm(self.project_corr(ans), spec))

    def spec_ok(self, req, ans, spec):
        # the property speaks of "an error": the rejection variants are one class
        return self.any_error(self.tail_norm(canon(ans), spec)) == self.any_error(self.tail_norm(canon(spec), spec))


class C08(C07):
    rule = ("AREAD <storage> <filter> <schedule> <stream>: the C07 streams; schedules interleave Poll::Pending and "
            "Ready(k bytes) arbitrarily; the crate reads through an AsyncRead that returns Pending (and wakes itself) per "
            "schedule under futures::executor::block_on; non-trivial = stream and schedule non-empty; distinct by request")
    explanation = ("C08_equal: async reader = blocking reader = Spec.readStream for all schedules (poll-loop state machine "
                   "re-polled by an abstract executor). Oracle on the crate: async sequence == blocking sequence on the same "
                   "bytes (Rust vs Rust, incl. the error variant), no panic. Partial: wakers / the real executor / "
                   "futures BufReader internals are exercised, not proved")


class C09(Cfg):
    rule = ("FILT <storage> <config> <bytes>: configurations with each criterion absent/present, empty and non-empty id "
            "vectors with duplicates, level numbers 0..255, counts around the number of distinct ids; messages over a small "
            "id alphabet with all MSTP/MTIN incl. invalid levels, ECU id absent, no extended header, some mutated; "
            "SKIPLVL <message type> <level>: skip_with_level for every pair of 18 message types and 14 threshold levels "
            "(incl. thresholds no numeric configuration produces); "
            "non-trivial = the unfiltered parse yields a message; distinct by request")
    observable = "(class of unfiltered parse, class of filtered parse incl. marker payload length, kept message and remainder identical?)"
    explanation = ("C09_filter / C09_decision: for all byte strings the filtered parse is the unfiltered one with the marker "
                   "substituted exactly when Spec.drops (numeric config) says so; Spec oracle evaluated on the crate")

    def nontrivial(self, req, ans, m=None):
        return ans.startswith("ITEM")

    def corr_view(self, req, ans, spec=None, model_ans=None):
        # the property speaks about messages (the unfiltered parse yields one); what a filter does to
        # input that is not a message is left open
        if req.startswith("FILT") and not ans.startswith("ITEM"):
            return "not-a-message"
        return self.project_corr(ans)

    def classify(self, req, ans, m=None):
        if req.startswith("SKIPLVL"):
            return "SKIPLVL:" + ans
        return "FILT:" + re.sub(r"FILTERED:\d+", "FILTERED", ans)

    def spec_ok(self, req, ans, spec):
        return spec == "na" or ans == spec


class C10(Cfg):
    rule = ("STATS <storage> <part lengths> <merge expression> <stream>: streams of 0..60 well-formed messages over a "
            "7-id alphabet (collisions), all level codes, non-log types, missing ECU ids, no extended header; split at "
            "random message boundaries into 1..5 parts; random permutation and merge-tree shape, optionally below "
            "StatisticInfo::new(); non-trivial = at least 2 messages and 2 parts; distinct by request")
    observable = "sorted (id, 8 counters) lists for ECU / application / context ids and the non-verbose flag of the merged result"
    explanation = ("C10_tally, C10_total, C10_nonverbose, C10_merge_any_tree (any permutation, any tree) over the model; "
                   "Spec oracle = independent countP tally of the whole stream; crate oracle: merged parts == whole, ECU "
                   "totals == number of collector calls")
    assumptions = COMMON_ASSUME + ["FxHashMap modelled as association list; usize counters as Nat"]

    def nontrivial(self, req, ans, m=None):
        t = req.split()
        return int(t[2]) >= 2 and hexlen(t[-1]) > 40

    def classify(self, req, ans, m=None):
        t = req.split()
        return "STATS:parts=%s:%s" % (t[2], ans.split(" ", 1)[0])

    def spec_ok(self, req, ans, spec):
        if spec == "na":   # the parts are not cut at message boundaries of this (malformed) stream
            return True
        return re.sub(r" n=\d+$", "", spec) == ans

    def corr_view(self, req, ans, spec=None, model_ans=None):
        # the property quantifies over well-formed message streams: where the model refuses the
        # stream (truncated, damaged) nothing is claimed - an implementation may refuse it too, or
        # report what it has counted so far
        if model_ans is not None and model_ans.startswith("ERR"):
            return "not-a-well-formed-stream"
        return self.project_corr(ans)


REGISTRY = {c.__name__: c for c in (C01, C02, C03, C04, C05, C06, C11, C12, C07, C08, C09, C10, C13, C14, C15, C16, C17, C18, C19)}


def get(prop):
    return REGISTRY.get(prop, Cfg)()


# ---------------------------------------------------------------------------------------------
# Which tie theorems (tools/extract_consts.py: layout constants; tools/rs2lean.py: code tables
# translated from the source) are proof obligations of which property.  A constant or table that
# a property's statement does not depend on must not alarm it.
_CODEC = {"C01", "C02", "C03", "C04", "C05", "C06", "C09", "C10", "C14", "C15", "C16"}
_READERS = {"C07", "C08"}


def tie_relevant(prop, tie):
    name = tie[4:]
    if name.startswith("stats_"):
        return prop == "C10"                       # counter tables of the statistics collector
    if name.startswith("fibex_"):
        return prop == "C11"                       # the type vocabulary of the FIBEX loader
    if name == "skip_with_level":
        return prop == "C09"                       # the level criterion of the filter
    if name == "DEFAULT_ECU_ID":
        return prop == "C15"
    if name == "DEFAULT_MESSAGE_MAX_LEN":
        return prop in _READERS
    if name in ("HEADER_MIN_LENGTH", "STORAGE_HEADER_LENGTH"):
        return prop in _CODEC or prop in _READERS
    if name.startswith("LEVEL_") or name in ("u8_to_log_level", "LogLevel_try_from", "LogLevel_to_u8"):
        return prop in _CODEC                      # C09 / C10 read the level through these
    if name.startswith("TYPE_INFO_") or name.startswith("TypeInfo_") or name.startswith("type_len"):
        return prop in (_CODEC - {"C04", "C06", "C09", "C10"})
    return prop in _CODEC
