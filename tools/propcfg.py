"""Per-property configuration of `check`: non-triviality rule, distribution classes,
observable, trusted base."""

COMMON_TB = [
    "Lean 4.33.0 kernel (thorough tier: leanchecker re-check of the property module)",
    "axioms per theorem restricted to propext, Classical.choice, Quot.sound (audited by #print axioms on every run); no sorry/admit/axiom/native_decide/bv_decide",
    "hand-written Lean model of the Rust code: tied to /repo's working tree on every run by the differential correspondence check (Rust harness in-process vs compiled Lean driver on the same request lines) and by the regenerated constants tie",
    "Lean compiler (the driver executes the compiled definitions the theorems are about), the Rust harness and its canonical printer, the check script",
]


class Cfg:
    rule = "every generated request line is a case; distinct by hash of the request; all count as non-trivial"
    observable = "the full answer line"
    exhaustive = False
    explanation = ""
    assumptions = []
    trusted_base = COMMON_TB

    def nontrivial(self, req, ans):
        return True

    def classify(self, req, ans):
        return req.split(" ", 1)[0] + ":" + ans.split(" ", 1)[0]

    def project(self, ans):
        """projection of the implementation's answer compared with the Spec's answer"""
        return ans

    def project_corr(self, ans):
        """projection compared between implementation and model (a_P)"""
        return ans


class C17(Cfg):
    rule = ("FROMMS / FROMUS requests over boundary values (0, 999, 1000, 10^6 +- 1, (2^32-1)*unit+unit-1, "
            "first values outside the domain, all 2^k and 2^k-1) and random u64; non-trivial = inside the "
            "property's domain (whole seconds < 2^32) with a non-zero sub-second part; distinct by request")
    observable = "(seconds, microseconds) or PANIC"
    explanation = ("theorems C17_ms / C17_us are proved for all inputs by omega over the model with checked u32 "
                   "arithmetic; the correspondence run ties the model to DltTimeStamp::from_ms / from_us")
    assumptions = ["u64 inputs modelled as Nat (the theorems hold for all Nat, hence all u64)"]

    def nontrivial(self, req, ans):
        op, n = req.split()
        n = int(n)
        unit = 1000 if op == "FROMMS" else 1000000
        return n // unit < 2 ** 32 and n % unit != 0

    def classify(self, req, ans):
        op, n = req.split()
        n = int(n)
        unit = 1000 if op == "FROMMS" else 1000000
        dom = "in-domain" if n // unit < 2 ** 32 else "out-of-domain"
        return "%s:%s:%s" % (op, dom, "panic" if ans.startswith("PANIC") else "value")


REGISTRY = {"C17": C17}


def get(prop):
    return REGISTRY.get(prop, Cfg)()
