#!/usr/bin/env python3
"""seedtable.py — regenerate the table of DESIGN.md section 12 from seeded/*/meta.json and
detected.json (between the markers <!-- seedtable:begin --> and <!-- seedtable:end -->)."""
import json, os, re
V = os.path.dirname(os.path.dirname(os.path.abspath(__file__)))
rows = []
n = nfail = 0
for s in sorted(os.listdir(os.path.join(V, "seeded"))):
    d = os.path.join(V, "seeded", s)
    try:
        meta = json.load(open(os.path.join(d, "meta.json")))
        det = json.load(open(os.path.join(d, "detected.json")))
    except OSError:
        continue
    n += 1
    own = det["checks"].get(meta["property"], {})
    v = " ".join(own.get("violation_lines", []))
    m = re.search(r"oracle-failures (\d+)", own.get("summary", ""))
    if own.get("exit") == 1 and v and "no-failing-input-found" not in v:
        how = "%s failing input (%s)" % (meta["property"], m.group(1) if m else "?")
        nfail += 1
    elif own.get("exit") == 1:
        how = "%s model disagreement only (no-failing-input-found)" % meta["property"]
    else:
        how = "MISSED"
    need = meta["needs_to_manifest"]
    if len(need) > 170:
        need = need[:167] + "..."
    rows.append("| %s | %s | %s |" % (s, need.replace("|", "\\|"), how))
table = ("| seed | what it needs to manifest | caught by its own property's quick check (oracle failures in that run) |\n"
         "|---|---|---|\n" + "\n".join(rows))
p = os.path.join(V, "DESIGN.md")
t = open(p).read()
b, e = "<!-- seedtable:begin -->", "<!-- seedtable:end -->"
if b in t:
    t = t[:t.index(b) + len(b)] + "\n" + table + "\n" + t[t.index(e):]
    open(p, "w").write(t)
print("%d seeds, %d with failing input" % (n, nfail))
