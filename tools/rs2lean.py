#!/usr/bin/env python3
"""rs2lean.py - a translator for the table-like part of src/dlt.rs.

On every run the functions listed in FUNCS are located in /repo's CURRENT source, parsed
(a small Rust subset: integer / enum `match`, `let`, `if`, `x |= e`, `x += e`, shifts, masks,
`Ok/Some/None`, constants) and re-emitted as Lean definitions in
lean/DltVerif/Generated/SrcCodes.lean (namespace Dlt.Src).  lean/DltVerif/Props/CodesTie.lean is
generated next to it: one theorem per translated function stating that the translation of
what the source says NOW equals the hand-written model function the property theorems are
about, for ALL arguments (kernel evaluation over the complete finite domain).  A change of a
code table in the source therefore breaks a proof obligation at build time, not just a sample.

A function that can no longer be located or lies outside the subset is reported as
`untranslated` and skipped: for it the tie falls back to the correspondence check.  The
translation is semantic, not textual: a rewrite of a table that computes the same function
still satisfies the tie theorem.

Prints one summary line; `--json` prints the per-function status.
"""
import json
import os
import re
import sys

REPO = os.environ.get("VERIF_REPO", "/repo")
LEAN = os.environ.get("VERIF_LEAN_OUT") or os.path.join(os.path.dirname(os.path.abspath(__file__)), "..", "lean", "DltVerif")

# ----------------------------------------------------------------------------- lexer

TOK = re.compile(r"""
    (?P<ws>\s+|//[^\n]*|/\*.*?\*/)
  | (?P<num>0x[0-9a-fA-F_]+|0b[01_]+|[0-9][0-9_]*)(?P<suf>u8|u16|u32|u64|usize|i32|i64)?
  | (?P<id>[A-Za-z_][A-Za-z0-9_]*(?:::[A-Za-z_][A-Za-z0-9_]*)*!?)
  | (?P<str>"(?:[^"\\]|\\.)*")
  | (?P<op><<=|>>=|\|=|&=|\+=|-=|=>|==|!=|<=|>=|&&|\|\||<<|>>|::|[-+*/%&|^!<>=(){}\[\],;:.?])
""", re.X | re.S)


class Untranslatable(Exception):
    pass


def lex(s):
    out, i = [], 0
    while i < len(s):
        m = TOK.match(s, i)
        if not m:
            raise Untranslatable("cannot lex at: " + s[i:i + 30])
        i = m.end()
        if m.group("ws"):
            continue
        if m.group("num"):
            out.append(("num", int(m.group("num").replace("_", ""), 0)))
        elif m.group("id"):
            out.append(("id", m.group("id")))
        elif m.group("str"):
            out.append(("str", m.group("str")))
        else:
            out.append(("op", m.group("op")))
    return out


# ----------------------------------------------------------------------------- parser

BIN = {"||": 1, "&&": 2, "==": 3, "!=": 3, "<": 3, ">": 3, "<=": 3, ">=": 3, "|": 4, "^": 5,
       "&": 6, "<<": 7, ">>": 7, "+": 8, "-": 8, "*": 9, "/": 9, "%": 9}


class P:
    def __init__(self, toks):
        self.t, self.i = toks, 0

    def peek(self, k=0):
        return self.t[self.i + k] if self.i + k < len(self.t) else ("eof", None)

    def next(self):
        x = self.peek()
        self.i += 1
        return x

    def accept(self, kind, val=None):
        k, v = self.peek()
        if k == kind and (val is None or v == val):
            self.i += 1
            return True
        return False

    def expect(self, kind, val=None):
        k, v = self.next()
        if k != kind or (val is not None and v != val):
            raise Untranslatable("expected %s %s, got %s %s" % (kind, val, k, v))
        return v

    # ---- expressions
    def expr(self, minp=0, nostruct=False):
        lhs = self.unary(nostruct)
        while True:
            k, v = self.peek()
            if k == "id" and v == "as":
                self.next()
                ty = self.expect("id")
                lhs = ("cast", lhs, ty)
                continue
            if k == "op" and v in BIN and BIN[v] > minp:
                self.next()
                rhs = self.expr(BIN[v], nostruct)
                lhs = ("bin", v, lhs, rhs)
                continue
            if k == "op" and v == "?":
                self.next()
                lhs = ("try", lhs)
                continue
            return lhs

    def unary(self, nostruct):
        k, v = self.peek()
        if k == "op" and v in ("!", "*", "&", "-"):
            self.next()
            e = self.unary(nostruct)
            return e if v in ("*", "&") else ("un", v, e)
        return self.postfix(self.atom(nostruct))

    def postfix(self, e):
        while True:
            if self.accept("op", "."):
                name = self.expect("id")
                if self.accept("op", "("):
                    args = self.args(")")
                    e = ("method", e, name, args)
                else:
                    e = ("field", e, name)
            else:
                return e

    def args(self, close):
        a = []
        while not self.accept("op", close):
            a.append(self.expr())
            self.accept("op", ",")
        return a

    def atom(self, nostruct):
        k, v = self.next()
        if k == "num":
            return ("num", v)
        if k == "op" and v == "(":
            items = []
            while not self.accept("op", ")"):
                items.append(self.expr())
                self.accept("op", ",")
            return items[0] if len(items) == 1 else ("tuple", items)
        if k == "op" and v == "{":
            self.i -= 1
            return self.block()
        if k == "id" and v == "match":
            return self.match()
        if k == "id" and v == "if":
            c = self.expr(nostruct=True)
            a = self.block()
            b = None
            if self.accept("id", "else"):
                b = self.atom(nostruct) if self.peek() == ("id", "if") else self.block()
            return ("if", c, a, b)
        if k == "id":
            if v == "matches!":
                self.expect("op", "(")
                e = self.expr()
                self.expect("op", ",")
                pat = self.pattern()
                self.accept("op", ",")
                self.expect("op", ")")
                return ("match", e, [(pat, ("var", "true")), (("pwild",), ("var", "false"))])
            if v.endswith("!"):
                # macro call: skip balanced parens; value irrelevant (trace!, format!)
                self.expect("op", "(")
                depth = 1
                while depth:
                    kk, vv = self.next()
                    if kk == "eof":
                        raise Untranslatable("unbalanced macro")
                    if (kk, vv) == ("op", "("):
                        depth += 1
                    if (kk, vv) == ("op", ")"):
                        depth -= 1
                return ("macro", v)
            if self.accept("op", "("):
                return ("call", v, self.args(")"))
            if not nostruct and self.peek() == ("op", "{") and v[0].isupper() and self.peek(2) == ("op", ":"):
                self.next()
                fields = []
                while not self.accept("op", "}"):
                    f = self.expect("id")
                    if self.accept("op", ":"):
                        fields.append((f, self.expr()))
                    else:
                        fields.append((f, ("var", f)))
                    self.accept("op", ",")
                return ("struct", v, fields)
            return ("var", v)
        raise Untranslatable("unexpected token %s %s" % (k, v))

    def pattern(self):
        k, v = self.next()
        if k == "num":
            p = ("pnum", v)
        elif k == "op" and v == "(":
            items = []
            while not self.accept("op", ")"):
                items.append(self.pattern())
                self.accept("op", ",")
            p = ("ptuple", items)
        elif k == "id" and v == "_":
            p = ("pwild",)
        elif k == "id":
            if self.accept("op", "("):
                items = []
                while not self.accept("op", ")"):
                    items.append(self.pattern())
                    self.accept("op", ",")
                if len(items) == 1 and items[0][0] == "ptuple":
                    items = items[0][1]
                p = ("pctor", v, items)
            else:
                p = ("pname", v)
        else:
            raise Untranslatable("pattern %s %s" % (k, v))
        if self.peek() == ("op", "|"):
            alts = [p]
            while self.accept("op", "|"):
                alts.append(self.pattern())
            flat = []
            for a in alts:
                flat.extend(a[1] if a[0] == "por" else [a])
            return ("por", flat)
        return p

    def match(self):
        scrut = self.expr(nostruct=True)
        self.expect("op", "{")
        arms = []
        while not self.accept("op", "}"):
            pat = self.pattern()
            self.expect("op", "=>")
            body = self.stmt_or_expr()
            arms.append((pat, body))
            self.accept("op", ",")
        return ("match", scrut, arms)

    def stmt_or_expr(self):
        """an arm body: expression, or an assignment `x |= e`"""
        e = self.expr()
        k, v = self.peek()
        if k == "op" and v in ("|=", "+=", "=", "&="):
            self.next()
            r = self.expr()
            return ("assign", v, e, r)
        return e

    def block(self):
        self.expect("op", "{")
        stmts = []
        while not self.accept("op", "}"):
            if self.accept("id", "let"):
                self.accept("id", "mut")
                name = self.expect("id")
                ty = None
                if self.accept("op", ":"):
                    ty = self.expect("id")
                self.expect("op", "=")
                e = self.expr()
                self.expect("op", ";")
                stmts.append(("let", name, ty, e))
                continue
            if self.peek() == ("id", "fn"):
                raise Untranslatable("nested fn")
            e = self.stmt_or_expr()
            semi = self.accept("op", ";")
            stmts.append(("expr", e, semi))
        return ("block", stmts)


# ----------------------------------------------------------------------------- emitter

def lower_camel(s):
    return s[0].lower() + s[1:]


CTOR = {  # irregular constructor names of the model
    "TypeLength::BitLength8": "TypeLength.b8", "TypeLength::BitLength16": "TypeLength.b16",
    "TypeLength::BitLength32": "TypeLength.b32", "TypeLength::BitLength64": "TypeLength.b64",
    "TypeLength::BitLength128": "TypeLength.b128",
    "FloatWidth::Width32": "FloatWidth.w32", "FloatWidth::Width64": "FloatWidth.w64",
    "StringCoding::ASCII": "StringCoding.ascii", "StringCoding::UTF8": "StringCoding.utf8",
}
CTOR_ARGS = {"MessageType::Log": ["LogLevel"]}     # constructor arguments that are enums with a derived order
STRUCTS = {"TypeInfo": {"kind": "kind", "coding": "coding", "has_variable_info": "hasVariableInfo",
                        "has_trace_info": "hasTraceInfo"}}
ENUMS = {"LogLevel", "ApplicationTraceType", "NetworkTraceType", "ControlType", "MessageType",
         "TypeLength", "FloatWidth", "TypeInfoKind", "StringCoding"}


def ctor(path):
    if path in CTOR:
        return CTOR[path]
    parts = path.split("::")
    if len(parts) == 2 and parts[0] in ENUMS:
        return parts[0] + "." + lower_camel(parts[1])
    return None


class Emit:
    def __init__(self, consts, calls, fallible, selfmap=None, enumvars=None):
        self.enumvars = dict(enumvars or {})   # variable -> enum type with a generated derived order
        self.consts = consts        # NAME -> int
        self.calls = calls          # rust callee -> lean function name (infallible or Option)
        self.fallible = fallible    # this function returns Option (Ok -> some, Err -> none)
        self.selfmap = selfmap or {}

    def assigned(self, node):
        """variables assigned anywhere inside a statement-ish node"""
        out = set()
        if not isinstance(node, tuple):
            return out
        if node[0] == "assign":
            if node[2][0] != "var":
                raise Untranslatable("assignment to non-variable")
            out.add(node[2][1])
        for c in node[1:]:
            if isinstance(c, tuple):
                out |= self.assigned(c)
            elif isinstance(c, list):
                for x in c:
                    if isinstance(x, tuple):
                        out |= self.assigned(x)
                        for y in x:
                            if isinstance(y, tuple):
                                out |= self.assigned(y)
        return out

    def e(self, n):
        k = n[0]
        if k == "num":
            return str(n[1])
        if k == "var":
            v = n[1]
            if v in self.consts:
                return str(self.consts[v])
            if v in self.selfmap:
                return self.selfmap[v]
            c = ctor(v)
            if c:
                return c
            if v == "None":
                return "none"
            if "::" in v:
                raise Untranslatable("unknown path " + v)
            if v.upper() == v and any(c.isalpha() for c in v):
                raise Untranslatable("constant %s cannot be evaluated" % v)
            return v
        if k == "field":
            if n[1] == ("var", "self") and n[2] in self.selfmap:
                return self.selfmap[n[2]]
            raise Untranslatable("field access " + str(n[2]))
        if k == "method":
            if n[1] == ("var", "self") and ("." + n[2]) in self.selfmap and not n[3]:
                return self.selfmap["." + n[2]]
            raise Untranslatable("method call " + n[2])
        if k == "cast":
            inner = self.e(n[1])
            w = {"u8": 8, "u16": 16, "u32": 32, "u64": 64}.get(n[2])
            if w is None:
                raise Untranslatable("cast to " + n[2])
            return "(BitVec.setWidth %d (%s))" % (w, inner)
        if k == "un":
            if n[1] == "!":
                return "(!%s)" % self.e(n[2])
            raise Untranslatable("unary " + n[1])
        if k == "bin":
            op = {"|": "|||", "&": "&&&", "^": "^^^", "<<": "<<<", ">>": ">>>", "+": "+", "*": "*",
                  "==": "==", "!=": "!=", "&&": "&&", "||": "||", "<": "<", "<=": "≤"}.get(n[1])
            if op is None:
                raise Untranslatable("operator " + n[1])
            if n[1] == "<" and n[2][0] == "var" and n[3][0] == "var" and \
                    self.enumvars.get(n[2][1]) and self.enumvars.get(n[2][1]) == self.enumvars.get(n[3][1]):
                return "(%s_lt %s %s)" % (self.enumvars[n[2][1]], n[2][1], n[3][1])   # derived PartialOrd
            if n[1] in ("<", "<=") and (n[2] in [("var", v) for v in self.enumvars] or n[3] in [("var", v) for v in self.enumvars]):
                raise Untranslatable("comparison of enum values")
            a, b = self.e(n[2]), self.e(n[3])
            if op in ("<", "≤"):
                return "(decide (%s %s %s))" % (a, op, b)
            return "(%s %s %s)" % (a, op, b)
        if k == "tuple":
            return "(" + ", ".join(self.e(x) for x in n[1]) + ")"
        if k == "try":
            inner = n[1]
            if inner[0] == "call" and inner[1] in self.calls and not self.calls[inner[1]][1]:
                return self.e(inner)          # infallible callee: `f(x)?` is `f x`
            raise Untranslatable("`?` on a fallible callee")
        if k == "call":
            f, args = n[1], n[2]
            if f == "Ok" and len(args) == 1:
                return "(some %s)" % self.e(args[0]) if self.fallible else self.e(args[0])
            if f == "Err":
                if not self.fallible:
                    raise Untranslatable("Err in infallible function")
                return "none"
            if f == "Some" and len(args) == 1:
                return "(some %s)" % self.e(args[0])
            if f in self.calls:
                return "(%s %s)" % (self.calls[f][0], " ".join(self.e(a) for a in args))
            c = ctor(f)
            if c:
                flat = []
                for a in args:
                    flat.extend(a[1] if a[0] == "tuple" else [a])
                return "(%s %s)" % (c, " ".join(self.e(a) for a in flat))
            if f in self.calls:
                return "(%s %s)" % (self.calls[f][0], " ".join(self.e(a) for a in args))
            raise Untranslatable("call of " + f)
        if k == "macro":
            return "()"
        if k == "if":
            if n[3] is None:
                raise Untranslatable("if without else as a value")
            return "(if %s then %s else %s)" % (self.e(n[1]), self.e(n[2]), self.e(n[3]))
        if k == "match":
            return self.match(n, lambda body: self.e(body))
        if k == "block":
            return self.block(n[1])
        if k == "struct":
            if n[1] not in STRUCTS:
                raise Untranslatable("struct literal " + n[1])
            fm = STRUCTS[n[1]]
            return "({ %s : %s })" % (", ".join("%s := %s" % (fm[f], self.e(x)) for f, x in n[2]), n[1])
        raise Untranslatable("expression kind " + k)

    # ---- expressions containing `?`: translated into the Option monad, written out with binds
    def has_try(self, n):
        if isinstance(n, tuple):
            if n and n[0] == "try":
                inner = n[1]
                if inner[0] == "call" and inner[1] in self.calls and not self.calls[inner[1]][1] and not any(self.has_try(a) for a in inner[2]):
                    return False      # `?` on an infallible callee never leaves
                return True
            return any(self.has_try(c) for c in n[1:])
        if isinstance(n, list):
            return any(self.has_try(c) for c in n)
        return False

    def eo(self, n):
        """Lean term of type `Option t` (t = type of the Rust expression n): `none` = an inner `?` left the function"""
        if not self.has_try(n):
            return "(some %s)" % self.e(n)
        k = n[0]
        if k == "try":
            x = n[1]
            if self.has_try(x):
                return "(Option.bind %s id)" % self.eo(x)
            return self.e(x)
        if k == "call":
            f, args = n[1], n[2]
            names, out, closes = [], "", 0
            for i, a in enumerate(args):
                nm = "a%d__" % (len(out) + i)
                names.append(nm)
                out += "(Option.bind %s (fun %s => " % (self.eo(a), nm)
                closes += 2
            fake = ("call", f, [("var", nm) for nm in names])
            return out + "(some %s)" % self.e(fake) + ")" * closes
        if k == "if" and n[3] is not None and not self.has_try(n[1]):
            return "(if %s then %s else %s)" % (self.e(n[1]), self.eo(n[2]), self.eo(n[3]))
        if k == "match" and not self.has_try(n[1]):
            return self.match(n, lambda body: self.eo(body))
        if k == "block":
            out, closes = "", 0
            for idx, st in enumerate(n[1]):
                last = idx == len(n[1]) - 1
                if st[0] == "let":
                    if self.has_try(st[3]):
                        out += "(Option.bind %s (fun %s => " % (self.eo(st[3]), st[1])
                        closes += 2
                    else:
                        out += "(let %s := %s; " % (st[1], self.e(st[3]))
                        closes += 1
                    continue
                if st[1][0] == "macro":
                    continue
                if last and not st[2]:
                    return out + self.eo(st[1]) + ")" * closes
                raise Untranslatable("statement with `?` in a block")
            raise Untranslatable("block without value")
        raise Untranslatable("`?` inside " + k)

    def pat(self, p, arity=1):
        k = p[0]
        if k == "pwild":
            return ", ".join(["_"] * arity)
        if k == "pname":
            v = p[1]
            c = ctor(v)
            if c:
                return "." + c.split(".", 1)[1]
            if v == "None":
                return "none"
            if v in self.consts or "::" in v:
                raise Untranslatable("constant in constructor pattern")
            return v
        if k == "pctor":
            if p[1] == "Some":
                return "some " + " ".join(self.pat(x) for x in p[2])
            c = ctor(p[1])
            if not c:
                raise Untranslatable("pattern constructor " + p[1])
            for x, ty in zip(p[2], CTOR_ARGS.get(p[1], [])):
                if x[0] == "pname" and ty:
                    self.enumvars[x[1]] = ty
            for x in p[2]:
                if x[0] == "pname" and p[1] not in CTOR_ARGS:
                    self.enumvars.pop(x[1], None)        # an integer payload shadows an outer name
            return "." + c.split(".", 1)[1] + " " + " ".join(self.pat(x) for x in p[2])
        if k == "ptuple":
            return ", ".join(self.pat(x) for x in p[1])
        if k == "por":
            return " | ".join(self.pat(x) for x in p[1])
        raise Untranslatable("pattern " + k)

    def is_int_pat(self, p):
        return p[0] == "pnum" or (p[0] == "pname" and p[1] in self.consts) or \
            (p[0] == "por" and all(self.is_int_pat(x) for x in p[1]))

    def int_vals(self, p):
        if p[0] == "pnum":
            return [p[1]]
        if p[0] == "pname":
            return [self.consts[p[1]]]
        return [v for x in p[1] for v in self.int_vals(x)]

    def match(self, n, body):
        scrut, arms = n[1], n[2]
        if any(self.is_int_pat(p) for p, _ in arms):
            s = self.e(scrut)
            out, closes = "(let scrut__ := %s; " % s, 1
            seen_default = False
            for p, b in arms:
                if self.is_int_pat(p):
                    cond = " ∨ ".join("scrut__ = %d" % v for v in self.int_vals(p))
                    out += "if %s then %s else " % (cond, body(b))
                elif p[0] in ("pname", "pwild"):
                    if p[0] == "pname":
                        out += "(let %s := scrut__; %s)" % (p[1], body(b))
                    else:
                        out += body(b)
                    seen_default = True
                    break
                else:
                    raise Untranslatable("mixed integer / constructor patterns")
            if not seen_default:
                raise Untranslatable("integer match without default arm")
            return out + ")" * closes
        arity = 1
        if scrut[0] == "tuple":
            s = ", ".join(self.e(x) for x in scrut[1])
            arity = len(scrut[1])
        else:
            s = self.e(scrut)
        return "(match %s with %s)" % (s, " ".join("| %s => %s" % (self.pat(p, arity), body(b)) for p, b in arms))

    def block(self, stmts):
        """statement list with SSA shadowing of mutable variables; value = last expression"""
        out, closes = "", 0
        for idx, st in enumerate(stmts):
            last = idx == len(stmts) - 1
            if st[0] == "let":
                ty = {"u8": "BitVec 8", "u16": "BitVec 16", "u32": "BitVec 32", "bool": "Bool"}.get(st[2])
                out += "(let %s%s := %s; " % (st[1], " : " + ty if ty else "", self.e(st[3]))
                closes += 1
                continue
            e, semi = st[1], st[2]
            if e[0] == "macro":
                continue
            if last and not semi and not self.assigned(e):
                out += self.e(e)
                return out + ")" * closes
            vs = sorted(self.assigned(e))
            if len(vs) != 1:
                raise Untranslatable("statement assigning %d variables" % len(vs))
            v = vs[0]
            out += "(let %s := %s; " % (v, self.upd(e, v))
            closes += 1
        raise Untranslatable("block without value")

    def upd(self, n, v):
        """new value of variable v after statement n"""
        k = n[0]
        if k == "assign":
            r = self.e(n[3])
            return {"|=": "(%s ||| %s)" % (v, r), "+=": "(%s + %s)" % (v, r), "&=": "(%s &&& %s)" % (v, r), "=": r}[n[1]]
        if k == "if":
            a = self.upd(n[2], v)
            b = self.upd(n[3], v) if n[3] is not None else v
            return "(if %s then %s else %s)" % (self.e(n[1]), a, b)
        if k == "block":
            cur, out, closes = v, "", 0
            for st in n[1]:
                if st[0] == "let":
                    out += "(let %s := %s; " % (st[1], self.e(st[3]))
                    closes += 1
                elif st[1][0] == "macro":
                    continue
                else:
                    out += "(let %s := %s; " % (v, self.upd(st[1], v))
                    closes += 1
            return out + v + ")" * closes
        if k == "match":
            return self.match(n, lambda body: self.upd(body, v))
        if k == "tuple" and not n[1]:
            return v
        if k == "macro":
            return v
        raise Untranslatable("statement kind " + k)


# ----------------------------------------------------------------------------- functions

def find_body(src, header_re, fn_re=None):
    """text of the `{...}` body of the fn found after header_re (and then fn_re)"""
    m = re.search(header_re, src)
    if not m:
        raise Untranslatable("not found: " + header_re)
    pos = m.end()
    if fn_re:
        m = re.compile(fn_re).search(src, pos)
        if not m:
            raise Untranslatable("not found: " + fn_re)
        pos = m.end()
    i = src.index("{", pos - 1) if src[pos - 1] != "{" else pos - 1
    depth, j = 0, i
    while True:
        c = src[j]
        if c == "{":
            depth += 1
        elif c == "}":
            depth -= 1
            if depth == 0:
                return src[i:j + 1]
        j += 1


def strip_nested_fns(body):
    """remove nested `fn name(..) -> .. {..}` items from a body (translated separately)"""
    while True:
        m = re.search(r"\bfn\s+[a-z_0-9]+\s*\(", body[1:])
        if not m:
            return body
        s = m.start() + 1
        i = body.index("{", s)
        depth, j = 0, i
        while True:
            if body[j] == "{":
                depth += 1
            elif body[j] == "}":
                depth -= 1
                if depth == 0:
                    break
            j += 1
        body = body[:s] + body[j + 1:]


# name, locate (header regex, fn regex), Lean signature, fallible, self-map, tie statement
FUNCS = [
    ("u8_to_log_level", (r"fn u8_to_log_level\s*\([^)]*\)[^{]*\{", None),
     "(v : BitVec 8) : Option LogLevel", False, None,
     "∀ v : BitVec 8, Src.u8_to_log_level v = u8ToLogLevel v"),
    ("LogLevel_try_from", (r"impl TryFrom<u8> for LogLevel\s*\{", r"fn try_from\s*\([^)]*\)[^{]*\{"),
     "(message_info : BitVec 8) : LogLevel", False, None,
     "∀ b : BitVec 8, Src.LogLevel_try_from b = LogLevel.ofMsin b"),
    ("ApplicationTraceType_try_from", (r"impl TryFrom<u8> for ApplicationTraceType\s*\{", r"fn try_from\s*\([^)]*\)[^{]*\{"),
     "(message_info : BitVec 8) : ApplicationTraceType", False, None,
     "∀ b : BitVec 8, Src.ApplicationTraceType_try_from b = ApplicationTraceType.ofMsin b"),
    ("NetworkTraceType_try_from", (r"impl TryFrom<u8> for NetworkTraceType\s*\{", r"fn try_from\s*\([^)]*\)[^{]*\{"),
     "(message_info : BitVec 8) : NetworkTraceType", False, None,
     "∀ b : BitVec 8, Src.NetworkTraceType_try_from b = NetworkTraceType.ofMsin b"),
    ("ControlType_try_from", (r"impl TryFrom<u8> for ControlType\s*\{", r"fn try_from\s*\([^)]*\)[^{]*\{"),
     "(message_info : BitVec 8) : ControlType", False, None,
     "∀ b : BitVec 8, Src.ControlType_try_from b = ControlType.ofMsin b"),
    ("MessageType_try_from", (r"impl TryFrom<u8> for MessageType\s*\{", r"fn try_from\s*\([^)]*\)[^{]*\{"),
     "(message_info : BitVec 8) : MessageType", False, None,
     "∀ b : BitVec 8, Src.MessageType_try_from b = MessageType.ofMsin b"),
    ("LogLevel_to_u8", (r"impl From<&LogLevel> for u8\s*\{", r"fn from\s*\([^)]*\)[^{]*\{"),
     "(t : LogLevel) : BitVec 8", False, None,
     "(∀ n : BitVec 8, Src.LogLevel_to_u8 (.invalid n) = (LogLevel.invalid n).toU8) ∧ "
     "[LogLevel.fatal, .error, .warn, .info, .debug, .verbose].all (fun t => Src.LogLevel_to_u8 t == t.toU8) = true"),
    ("ApplicationTraceType_to_u8", (r"impl From<&ApplicationTraceType> for u8\s*\{", r"fn from\s*\([^)]*\)[^{]*\{"),
     "(t : ApplicationTraceType) : BitVec 8", False, None,
     "(∀ n : BitVec 8, Src.ApplicationTraceType_to_u8 (.invalid n) = (ApplicationTraceType.invalid n).toU8) ∧ "
     "[ApplicationTraceType.variable, .functionIn, .functionOut, .state, .vfb].all (fun t => Src.ApplicationTraceType_to_u8 t == t.toU8) = true"),
    ("NetworkTraceType_to_u8", (r"impl From<&NetworkTraceType> for u8\s*\{", r"fn from\s*\([^)]*\)[^{]*\{"),
     "(t : NetworkTraceType) : BitVec 8", False, None,
     "(∀ n : BitVec 8, Src.NetworkTraceType_to_u8 (.userDefined n) = (NetworkTraceType.userDefined n).toU8) ∧ "
     "[NetworkTraceType.invalid, .ipc, .can, .flexray, .most, .ethernet, .someip].all (fun t => Src.NetworkTraceType_to_u8 t == t.toU8) = true"),
    ("ControlType_to_u8", (r"impl From<&ControlType> for u8\s*\{", r"fn from\s*\([^)]*\)[^{]*\{"),
     "(t : ControlType) : BitVec 8", False, None,
     "(∀ n : BitVec 8, Src.ControlType_to_u8 (.unknown n) = (ControlType.unknown n).toU8) ∧ "
     "[ControlType.request, .response].all (fun t => Src.ControlType_to_u8 t == t.toU8) = true"),
    ("ControlType_value", (r"impl ControlType\s*\{", r"fn value\s*\([^)]*\)[^{]*\{"),
     "(self : ControlType) : BitVec 8", False, None,
     "(∀ n : BitVec 8, Src.ControlType_value (.unknown n) = (ControlType.unknown n).value) ∧ "
     "[ControlType.request, .response].all (fun t => Src.ControlType_value t == t.value) = true"),
    ("ControlType_from_value", (r"impl ControlType\s*\{", r"fn from_value\s*\([^)]*\)[^{]*\{"),
     "(t : BitVec 8) : ControlType", False, None,
     "∀ b : BitVec 8, Src.ControlType_from_value b = ControlType.fromValue b"),
    ("type_length_bits_float", (r"fn type_length_bits_float\s*\([^)]*\)[^{]*\{", None),
     "(len : FloatWidth) : BitVec 32", False, None,
     "[FloatWidth.w32, .w64].all (fun l => Src.type_length_bits_float l == typeLengthBitsFloat l) = true"),
    ("type_length_bits", (r"fn type_length_bits\s*\([^)]*\)[^{]*\{", None),
     "(len : TypeLength) : BitVec 32", False, None,
     "[TypeLength.b8, .b16, .b32, .b64, .b128].all (fun l => Src.type_length_bits l == typeLengthBits l) = true"),
    ("type_len", (r"fn type_len\s*\([^)]*\)[^{]*\{", None),
     "(info : BitVec 32) : Option TypeLength", True, None,
     "∀ v : BitVec 4, ∀ hi : BitVec 4, Src.type_len (BitVec.setWidth 32 (hi ++ v)) = typeLen (BitVec.setWidth 32 (hi ++ v))"),
    ("type_len_float", (r"fn type_len_float\s*\([^)]*\)[^{]*\{", None),
     "(info : BitVec 32) : Option FloatWidth", True, None,
     "∀ v : BitVec 4, ∀ hi : BitVec 4, Src.type_len_float (BitVec.setWidth 32 (hi ++ v)) = typeLenFloat (BitVec.setWidth 32 (hi ++ v))"),
    ("calculate_standard_header_length", (r"fn calculate_standard_header_length\s*\([^)]*\)[^{]*\{", None),
     "(header_type : BitVec 8) : Nat", False, None,
     "∀ b : BitVec 8, Src.calculate_standard_header_length b = calculateStandardHeaderLength b"),
    ("calculate_all_headers_length", (r"fn calculate_all_headers_length\s*\([^)]*\)[^{]*\{", None),
     "(header_type : BitVec 8) : Nat", False, None,
     "∀ b : BitVec 8, Src.calculate_all_headers_length b = calculateAllHeadersLength b"),
    ("MessageType_to_u8", (r"impl From<&MessageType> for u8\s*\{", r"fn from\s*\([^)]*\)[^{]*\{"),
     "(t : MessageType) : BitVec 8", False, None,
     "(∀ n : BitVec 8, Src.MessageType_to_u8 (.log (.invalid n)) = (MessageType.log (.invalid n)).toU8"
     " ∧ Src.MessageType_to_u8 (.applicationTrace (.invalid n)) = (MessageType.applicationTrace (.invalid n)).toU8"
     " ∧ Src.MessageType_to_u8 (.networkTrace (.userDefined n)) = (MessageType.networkTrace (.userDefined n)).toU8"
     " ∧ Src.MessageType_to_u8 (.control (.unknown n)) = (MessageType.control (.unknown n)).toU8)"
     " ∧ (∀ a b : BitVec 4, Src.MessageType_to_u8 (.unknown (BitVec.setWidth 8 a) (BitVec.setWidth 8 b)) = (MessageType.unknown (BitVec.setWidth 8 a) (BitVec.setWidth 8 b)).toU8)"
     " ∧ [MessageType.log .fatal, .log .error, .log .warn, .log .info, .log .debug, .log .verbose,"
     " .applicationTrace .variable, .applicationTrace .functionIn, .applicationTrace .functionOut, .applicationTrace .state, .applicationTrace .vfb,"
     " .networkTrace .invalid, .networkTrace .ipc, .networkTrace .can, .networkTrace .flexray, .networkTrace .most, .networkTrace .ethernet, .networkTrace .someip,"
     " .control .request, .control .response].all (fun t => Src.MessageType_to_u8 t == t.toU8) = true"),
]
KINDS = ("[TypeInfoKind.bool, .signed .b8, .signed .b16, .signed .b32, .signed .b64, .signed .b128, .signedFixedPoint .w32, "
         ".signedFixedPoint .w64, .unsigned .b8, .unsigned .b16, .unsigned .b32, .unsigned .b64, .unsigned .b128, "
         ".unsignedFixedPoint .w32, .unsignedFixedPoint .w64, .float .w32, .float .w64, .stringType, .raw]")
FUNCS += [
    ("TypeInfo_is_fixed_point", (r"pub fn is_fixed_point\s*\([^)]*\)[^{]*\{", None),
     "(self_ : TypeInfo) : Bool", False, {"kind": "self_.kind"},
     "∀ vi ti : Bool, %s.all (fun k => Src.TypeInfo_is_fixed_point ⟨k, .ascii, vi, ti⟩ == (TypeInfo.mk k .ascii vi ti).isFixedPoint) = true" % KINDS),
    ("TypeInfo_to_u32", (r"pub fn as_bytes<T: ByteOrder>\(self: &TypeInfo\)[^{]*\{", None),
     "(self_ : TypeInfo) : BitVec 32", False,
     {"kind": "self_.kind", "coding": "self_.coding", "has_variable_info": "self_.hasVariableInfo",
      "has_trace_info": "self_.hasTraceInfo", ".is_fixed_point": "(TypeInfo_is_fixed_point self_)"},
     "(∀ v : BitVec 8, ∀ vi ti : Bool, %s.all (fun k => Src.TypeInfo_to_u32 ⟨k, .reserved v, vi, ti⟩ == (TypeInfo.mk k (.reserved v) vi ti).toU32) = true)"
     " ∧ (∀ vi ti : Bool, %s.all (fun k => [StringCoding.ascii, .utf8].all (fun c => Src.TypeInfo_to_u32 ⟨k, c, vi, ti⟩ == (TypeInfo.mk k c vi ti).toU32)) = true)" % (KINDS, KINDS)),
    ("TypeInfo_try_from", (r"impl TryFrom<u32> for TypeInfo\s*\{", r"fn try_from\s*\([^)]*\)[^{]*\{"),
     "(info : BitVec 32) : Option TypeInfo", True, None,
     # complete over bits 0..12 (kind, width, VARI, FIXP: 8192 words); bits 13..18 (TRAI, STRU, coding, first reserved bit) in
     # all 64 combinations with 26 representative low words (every kind and width, accepted and refused). The full product
     # 2^18 is compared at run time by C14's exhaustive correspondence request; the kernel evaluation here is the static part.
     "(∀ lo : BitVec 13, Src.TypeInfo_try_from (BitVec.setWidth 32 lo) = TypeInfo.ofU32 (BitVec.setWidth 32 lo))"
     " ∧ (∀ hi : BitVec 6, [0x10, 0x21, 0x22, 0x23, 0x24, 0x25, 0x1023, 0x1024, 0x41, 0x42, 0x43, 0x44, 0x45, 0x1043, 0x1044, 0x83, 0x84, 0x200, 0x400, 0x0, 0x30, 0x26, 0x1021, 0x85, 0xA00, 0x1200].all"
     " (fun lo : Nat => Src.TypeInfo_try_from ((BitVec.setWidth 32 hi <<< 13) ||| BitVec.ofNat 32 lo) == TypeInfo.ofU32 ((BitVec.setWidth 32 hi <<< 13) ||| BitVec.ofNat 32 lo)) = true)"),
]
NAMED = "[LogLevel.fatal, .error, .warn, .info, .debug, .verbose]"
EH = "(ExtendedHeader.mk false 0 %s [] [])"
FUNCS += [
    ("skip_with_level", (r"pub fn skip_with_level\s*\([^)]*\)[^{]*\{", None),
     "(message_type : MessageType) (level : LogLevel) : Bool", False, {"message_type": "message_type"},
     # invalid against invalid: a message level comes from a 4-bit field, the configured level is any byte (4096 pairs);
     # and all bytes on the left against the boundary bytes on the right
     "(∀ a : BitVec 4, ∀ b : BitVec 8, Src.skip_with_level (.log (.invalid (BitVec.setWidth 8 a))) (.invalid b) = " + (EH % "(.log (.invalid (BitVec.setWidth 8 a)))") + ".skipWithLevel (.invalid b))"
     " ∧ (∀ a : BitVec 8, [0, 1, 7, 15, 16, 127, 128, 255].all (fun b : Nat => Src.skip_with_level (.log (.invalid a)) (.invalid (BitVec.ofNat 8 b)) == " + (EH % "(.log (.invalid a))") + ".skipWithLevel (.invalid (BitVec.ofNat 8 b))) = true)"
     " ∧ (∀ a : BitVec 8, " + NAMED + ".all (fun l => Src.skip_with_level (.log (.invalid a)) l == " + (EH % "(.log (.invalid a))") + ".skipWithLevel l"
     " && Src.skip_with_level (.log l) (.invalid a) == " + (EH % "(.log l)") + ".skipWithLevel (.invalid a)) = true)"
     " ∧ " + NAMED + ".all (fun x => " + NAMED + ".all (fun y => Src.skip_with_level (.log x) y == " + (EH % "(.log x)") + ".skipWithLevel y)) = true"
     " ∧ [MessageType.applicationTrace .variable, .networkTrace .ipc, .control .request, .unknown 4 0, .applicationTrace (.invalid 9)].all"
     " (fun mt => (LogLevel.invalid 0 :: LogLevel.invalid 200 :: " + NAMED + ").all (fun y => Src.skip_with_level mt y == " + (EH % "mt") + ".skipWithLevel y)) = true"),
]
ENUMVARS = {"skip_with_level": {"level": "LogLevel"}}
# body text is cut at this pattern (the rest is buffer handling) and the named variable is the value
CUT = {"TypeInfo_to_u32": (r"trace!\(\"writing type info|let mut buf\b", "info")}
# rust callee -> (lean name, fallible)
CALLS = {
    "u8_to_log_level": ("u8_to_log_level", False),
    "LogLevel::try_from": ("LogLevel_try_from", False),
    "ApplicationTraceType::try_from": ("ApplicationTraceType_try_from", False),
    "NetworkTraceType::try_from": ("NetworkTraceType_try_from", False),
    "ControlType::try_from": ("ControlType_try_from", False),
    "calculate_standard_header_length": ("calculate_standard_header_length", False),
    "u8::from": ("u8_from", False),
    "TypeInfo::type_length_bits_float": ("type_length_bits_float", False),
    "TypeInfo::type_length_bits": ("type_length_bits", False),
    "type_len": ("type_len", True),
    "type_len_float": ("type_len_float", True),
}


def consts_env(src_by_file):
    """every integer `const NAME: T = expr;` of the source files that can be evaluated (to a fixpoint,
    so constants defined through other constants resolve in any order)"""
    sys.path.insert(0, os.path.dirname(os.path.abspath(__file__)))
    import extract_consts as ec
    env = {}
    items = []
    for f, src in src_by_file.items():
        for m in re.finditer(r"\bconst\s+([A-Z_][A-Z0-9_]*)\s*:\s*(u8|u16|u32|u64|usize)\s*=\s*([^;]+);", src):
            items.append((m.group(1), " ".join(m.group(3).split())))
    progress = True
    while progress:
        progress = False
        for name, expr in items:
            if name in env:
                continue
            try:
                env[name] = ec.eval_nat(expr, env)
                progress = True
            except Exception:
                pass
    return env


def main():
    path = os.path.join(REPO, "src/dlt.rs")
    try:
        src = open(path).read()
    except OSError:
        src = ""
    files = {"src/dlt.rs": src}
    try:
        files["src/read.rs"] = open(os.path.join(REPO, "src/read.rs")).read()
    except OSError:
        pass
    consts = consts_env(files)
    defs, ties, status = [], [], {}
    # `u8::from(x)` inside From<&MessageType> dispatches on the argument's enum type: emitted
    # as an overloaded helper class so that Lean's elaborator resolves it like rustc does
    for name, (hdr, fn), sig, fallible, selfmap, stmt in FUNCS:
        try:
            body = strip_nested_fns(find_body(src, hdr, fn))
            if name in CUT:
                m = re.search(CUT[name][0], body)
                if not m:
                    raise Untranslatable("cut point not found")
                body = body[:m.start()] + CUT[name][1] + " }"
            ast = P(lex(body)).block()
            em = Emit(consts, CALLS, fallible, selfmap, ENUMVARS.get(name))
            if fallible and em.has_try(ast):
                lean = "(Option.bind %s id)" % em.eo(ast)
            else:
                lean = em.e(ast)
            defs.append((name, "def %s %s :=\n  %s" % (name, sig, lean)))
            ties.append("theorem tie_%s : %s := by decide +kernel" % (name, stmt))
            status[name] = "translated"
        except Untranslatable as ex:
            status[name] = "untranslated: " + str(ex)
        except Exception as ex:  # noqa
            status[name] = "untranslated: %s: %s" % (type(ex).__name__, ex)
    # dependencies: drop a function whose callee was not translated
    names = {n for n, _ in defs}
    changed = True
    while changed:
        changed = False
        for n, d in list(defs):
            for callee, (ln, _) in CALLS.items():
                if ln != "u8_from" and re.search(r"\(%s " % re.escape(ln), d) and ln not in names and ln != n:
                    defs = [(a, b) for a, b in defs if a != n]
                    ties = [t for t in ties if not t.startswith("theorem tie_%s " % n)]
                    names.discard(n)
                    status[n] = "untranslated: depends on " + ln
                    changed = True
                    break
    u8from = [n for n in ("LogLevel_to_u8", "ApplicationTraceType_to_u8", "NetworkTraceType_to_u8", "ControlType_to_u8") if n in names]
    order = ""
    try:
        em_ = re.search(r"pub enum LogLevel\s*\{(.*?)\n\}", src, re.S)
        body_ = re.sub(r"#\[[^\]]*\]|//[^\n]*", "", em_.group(1))
        vs_ = [v.strip() for v in body_.split(",") if v.strip()]
        rows = []
        for i_, v_ in enumerate(vs_):
            nm_ = re.match(r"(\w+)", v_).group(1)
            rows.append("| .%s%s => %d" % (lower_camel(nm_), " _" if "(" in v_ else "", i_))
        payload = [re.match(r"(\w+)", v_).group(1) for v_ in vs_ if "(" in v_]
        if len(payload) != 1 or len(vs_) != 7:
            raise Untranslatable("enum shape")
        pv = lower_camel(payload[0])
        order = ("/-- `#[derive(PartialOrd)]` on `LogLevel`: declaration order of the variants (read from the source), then the payload -/\n"
                 "def LogLevel_rank : LogLevel → Nat\n  %s\n"
                 "def LogLevel_lt (x y : LogLevel) : Bool :=\n  match x, y with\n  | .%s a, .%s b => decide (a < b)\n"
                 "  | _, _ => decide (LogLevel_rank x < LogLevel_rank y)\n" % ("\n  ".join(rows), pv, pv))
    except Exception:
        order = ""
    if not order:
        for n_ in [n for n, _ in defs if n == "skip_with_level"]:
            defs = [(a, b) for a, b in defs if a != n_]
            ties = [t for t in ties if not t.startswith("theorem tie_%s " % n_)]
            status[n_] = "untranslated: the derived order of LogLevel could not be read"
    pre = order + "class U8From (α : Type) where\n  conv : α → BitVec 8\ndef u8_from {α : Type} [U8From α] (x : α) : BitVec 8 := U8From.conv x\n"
    body = []
    for n, d in defs:
        if n == "MessageType_to_u8":
            if len(u8from) != 4:
                status[n] = "untranslated: depends on the sub-type encoders"
                ties = [t for t in ties if not t.startswith("theorem tie_MessageType_to_u8 ")]
                continue
            for u in u8from:
                body.append("instance : U8From %s := ⟨%s⟩" % (u.split("_")[0], u))
        body.append(d)
    gen = ("-- GENERATED by tools/rs2lean.py from src/dlt.rs on every run; do not edit.\n"
           "-- Translation of the table-like functions of the source into Lean (see tools/rs2lean.py).\n"
           "import DltVerif.Model.Types\nset_option linter.unusedVariables false\nnamespace Dlt.Src\nopen Dlt\n%s\n%s\nend Dlt.Src\n"
           % (pre, "\n\n".join(body)))
    import extract_consts as ec
    ec.write_if_changed(os.path.join(LEAN, "Generated", "SrcCodes.lean"), gen)
    # three modules, so that the two long kernel evaluations (type-info writer / decoder) build in parallel
    heavy = {"tie_TypeInfo_to_u32": "CodesTieEnc", "tie_TypeInfo_try_from": "CodesTieDec", "tie_skip_with_level": "CodesTieLvl"}
    groups = {"CodesTie": [], "CodesTieEnc": [], "CodesTieDec": [], "CodesTieLvl": []}
    for t in ties:
        nm = t.split()[1]
        groups[heavy.get(nm, "CodesTie")].append(t)
    for mod, ts in groups.items():
        tie = ("-- GENERATED by tools/rs2lean.py on every run; do not edit.\n"
               "-- Each function translated from the current source equals the model function the property\n"
               "-- theorems are about (kernel evaluation over the domain stated in the theorem).\n"
               "import DltVerif.Generated.SrcCodes\nimport DltVerif.Model.Bits\n%snamespace Dlt\n%s\nend Dlt\n"
               % ("import DltVerif.Model.Decode\n" if mod == "CodesTieLvl" else "", "\n".join(ts)))
        ec.write_if_changed(os.path.join(LEAN, "Props", mod + ".lean"), tie)
    ok = [n for n in status if status[n] == "translated"]
    if "--json" in sys.argv:
        print(json.dumps(status, indent=1))
    print("codes tie: %d functions translated from the source (%s)%s" % (
        len(ok), ", ".join(ok),
        "; untranslated: " + "; ".join("%s [%s]" % (n, s[14:]) for n, s in status.items() if s != "translated") if len(ok) < len(status) else ""))


if __name__ == "__main__":
    main()
