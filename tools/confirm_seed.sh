#!/bin/sh
# confirm_seed.sh <scratch-worktree> <seed-dir> [cargo test feature args]
# Confirms in a scratch worktree of /repo (never /repo itself) that a seeded change
#   (1) leaves its demonstration passing on the unmodified tree,
#   (2) makes the demonstration fail,
#   (3) still passes the existing test-suite.
# Prints one line: CONFIRMED or NOT-CONFIRMED with the three outcomes.
WT="$1"; SD="$2"; shift 2; FEAT="${*:---all-features}"
export CARGO_NET_OFFLINE=true
cd "$WT" || exit 2
git checkout -q -- . ; rm -f tests/seed_demo.rs
mkdir -p tests; cp "$SD/demo.rs" tests/seed_demo.rs
cargo test --offline --test seed_demo $FEAT >$WT/.confirm_1.log 2>&1; clean=$?
git apply "$SD/patch.diff" || { echo "NOT-CONFIRMED patch does not apply"; exit 1; }
cargo test --offline --test seed_demo $FEAT >$WT/.confirm_2.log 2>&1; patched=$?
rm -f tests/seed_demo.rs
cargo test --workspace --no-fail-fast --offline >$WT/.confirm_3.log 2>&1; suite=$?
npass=$(grep -h "^test result" $WT/.confirm_3.log | awk '{s+=$4} END{print s}')
git checkout -q -- . ; rm -f tests/seed_demo.rs
if [ $clean -eq 0 ] && [ $patched -ne 0 ] && [ $suite -eq 0 ]; then
  echo "CONFIRMED demo_clean=pass demo_patched=fail suite_patched=pass($npass tests)"
else
  echo "NOT-CONFIRMED demo_clean_rc=$clean demo_patched_rc=$patched suite_rc=$suite($npass tests)"; exit 1
fi
