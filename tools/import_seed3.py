#!/usr/bin/env python3
"""import_seed3.py <area-id> <variant>   (round 3: changes written per source area, the agent names
the property it breaks in the first line of notes.md: "property: Cxx[, Cyy]")
Confirms /tmp/seed3/<area>/<v> in the scratch worktree /tmp/wt/<area> and stores it as
seeded/<P><next free letter>/ with a meta.json."""
import json, os, re, shutil, subprocess, sys
V = os.path.dirname(os.path.dirname(os.path.abspath(__file__)))
area, var = sys.argv[1], sys.argv[2]
src = "/tmp/seed3/%s/%s" % (area, var)
wt = "/tmp/wt/%s" % area
first = open(os.path.join(src, "notes.md")).readline()
m = re.match(r"\s*property:\s*(C\d\d)((?:\s*,\s*C\d\d)*)", first)
if not m:
    sys.exit("no 'property: Cxx' line in notes.md: " + first)
prop = m.group(1)
also = re.findall(r"C\d\d", m.group(2))
p = subprocess.run([os.path.join(V, "tools", "confirm_seed.sh"), wt, src], stdout=subprocess.PIPE, stderr=subprocess.STDOUT)
out = p.stdout.decode().strip().splitlines()[-1]
print(area + var, prop, out)
if p.returncode != 0 or not out.startswith("CONFIRMED"):
    sys.exit(1)
letter = next(c for c in "efghijklmnop" if not os.path.exists(os.path.join(V, "seeded", prop + c)))
dst = os.path.join(V, "seeded", prop + letter)
os.makedirs(dst)
for f in ("patch.diff", "demo.rs", "notes.md"):
    shutil.copy(os.path.join(src, f), os.path.join(dst, f))
notes = open(os.path.join(src, "notes.md")).read().split("\n")
needs = " ".join(l.strip() for l in notes[1:8] if l.strip())[:400]
meta = {
    "id": prop + letter, "property": prop, "also_breaks": also, "needs_to_manifest": needs, "round": (5 if area.startswith("Z") else 4 if area.startswith("Y") else 3),
    "area": area + var,
    "origin": ("written by an independent sub-agent given the texts of all 19 properties, a KIND of change (casts, error handling, performance, well-meant behaviour changes, de-duplication, inputs with structure random generation rarely produces) and a scratch worktree of /repo; it chose the property to break (round 4)" if area.startswith("Y") else "written by an independent sub-agent given the texts of all 19 properties, a source area and a scratch worktree of /repo; it chose the property to break (round 3)"),
    "confirmed": "tools/confirm_seed.sh in a scratch worktree: demo passes on the unmodified tree, fails with the patch; the 54 baseline tests pass with the patch",
    "demo": "copy demo.rs to <repo>/tests/seed_demo.rs; cargo test --offline --test seed_demo --all-features",
    "detection": "tools/seedrun.py %s%s -> detected.json" % (prop, letter),
}
json.dump(meta, open(os.path.join(dst, "meta.json"), "w"), indent=1)
print("stored as", prop + letter)
