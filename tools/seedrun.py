#!/usr/bin/env python3
"""seedrun.py <seeded-id> [<property> ...]

Applies /verif/seeded/<id>/patch.diff to /repo's working tree, runs the quick check of the
listed properties (default: the property named in meta.json), reverts /repo, restores the
committed evidence files, and records the outcome in /verif/seeded/<id>/detected.json.
The patch is never committed to /repo.
"""
import json, os, re, shutil, subprocess, sys, time
VERIF = os.path.join(os.path.dirname(os.path.abspath(__file__)), "..")
VERIF = os.path.abspath(VERIF)
sid = sys.argv[1]
d = os.path.join(VERIF, "seeded", sid)
meta = json.load(open(os.path.join(d, "meta.json")))
props = sys.argv[2:] or [meta["property"]]
tier = os.environ.get("SEED_TIER", "quick")
st = subprocess.run(["git", "-C", "/repo", "status", "--porcelain", "--untracked-files=no"], capture_output=True, text=True).stdout.strip()
if st:
    sys.exit("refusing: /repo has local changes:\n" + st)
results = {}
subprocess.run(["git", "-C", "/repo", "apply", os.path.join(d, "patch.diff")], check=True)
try:
    for p in props:
        t0 = time.time()
        r = subprocess.run([os.path.join(VERIF, "check"), p, tier], capture_output=True, text=True, cwd=VERIF)
        out = r.stdout + r.stderr
        vio = [l for l in out.split("\n") if l.startswith("VIOLATION")]
        rec = {"exit": r.returncode, "violation_lines": vio, "summary": out.strip().split("\n")[-1], "wall_s": round(time.time() - t0, 1)}
        for v in vio:
            m = re.search(r"replay=(\S+)", v)
            if m and os.path.exists(os.path.join(VERIF, m.group(1))):
                rp = json.load(open(os.path.join(VERIF, m.group(1))))
                rec["replay"] = {k: (rp[k][:600] if isinstance(rp[k], str) else rp[k]) for k in rp if k in ("kind", "why", "request", "impl", "model", "failing_inputs_found", "corr_disagreements")}
        results[p] = rec
        print(sid, p, "exit", r.returncode, vio[:1], rec["summary"])
finally:
    subprocess.run(["git", "-C", "/repo", "checkout", "--", "."], check=True)
    subprocess.run(["git", "-C", VERIF, "checkout", "--", "evidence"], check=False)
    shutil.rmtree(os.path.join(VERIF, "replays"), ignore_errors=True)
json.dump({"tier": tier, "checks": results, "detected_by": [p for p in results if results[p]["exit"] == 1 and results[p]["violation_lines"]]},
          open(os.path.join(d, "detected.json"), "w"), indent=1)
