#!/usr/bin/env python3
"""mutate.py — mutation analysis of the checks (a development tool, not a registered check).

  mutate.py list   [--seed N] [--max N]           print the sampled mutants (file:line: before -> after)
  mutate.py run    [--seed N] [--max N] [--workers K] [--out DIR]

Each mutant is one small syntactic change to a source file of /repo the properties are anchored
in (relational / arithmetic / boolean operator swapped, integer literal +-1, `!` dropped, an
early `return`/`?` condition negated).  A worker owns a scratch copy of /repo and of /verif
(outside both), applies the mutant there, and runs the quick checks of the properties anchored in
the mutated file, stopping at the first VIOLATION.  Mutants no check reports are then run against
the crate's own test-suite; what survives both is written to <out>/survivors.json for reading by
hand: either the mutant breaks no property (equivalent / outside the properties) or a check has a
blind spot.

Nothing here touches /repo or /verif; scratch lives under --out (default /tmp/mut) and is removed
per worker at the end.
"""
import argparse
import json
import os
import random
import re
import shutil
import subprocess
import sys
import time
from concurrent.futures import ThreadPoolExecutor

V = os.path.dirname(os.path.dirname(os.path.abspath(__file__)))
REPO = os.environ.get("VERIF_REPO", "/repo")
FILES = ["src/dlt.rs", "src/parse.rs", "src/filtering.rs", "src/read.rs", "src/stream.rs",
         "src/statistics.rs", "src/fibex/mod.rs"]

sys.path.insert(0, os.path.join(V, "tools"))

REL = {"<=": ["<"], ">=": [">"], "==": ["!="], "!=": ["=="], "<": ["<="], ">": [">="]}
TOK = re.compile(r"(<<=|>>=|<=|>=|==|!=|&&|\|\||<<|>>|->|=>|::|\+=|-=|\*=|[-+*/<>!&|])")


def code_part(line):
    """the part of a line before a // comment (string literals are left alone, crudely)"""
    i = line.find("//")
    return line if i < 0 else line[:i]


def in_scope_lines(path, text):
    """line numbers (0-based) outside #[cfg(test)] modules, fmt::Display impls and attribute lines"""
    lines = text.split("\n")
    keep = [True] * len(lines)
    depth_stop = None
    depth = 0
    skip_next_block = False
    for i, l in enumerate(lines):
        s = l.strip()
        if depth_stop is None and (s.startswith("#[cfg(test)]") or re.match(r"impl(<.*>)?\s+(fmt::)?(Display|Debug)\s+for", s)
                                   or re.match(r"impl\s+.*AsRef<str>\s+for", s)):
            skip_next_block = True
        if skip_next_block and "{" in l and depth_stop is None:
            depth_stop = depth
            skip_next_block = False
        opens, closes = l.count("{"), l.count("}")
        if depth_stop is not None:
            keep[i] = False
        depth += opens - closes
        if depth_stop is not None and depth <= depth_stop and closes:
            depth_stop = None
        if s.startswith("#[") or s.startswith("//") or s.startswith("use ") or s.startswith("pub use "):
            keep[i] = False
        if "debug!(" in l or "trace!(" in l or "warn!(" in l or "error!(" in l or "info!(" in l:
            keep[i] = False
    return lines, keep


def mutants_of_line(line):
    """yield (col_start, col_end, replacement, description)"""
    code = code_part(line)
    # blank out string / byte-string / char literals (same length, so columns stay valid)
    code = re.sub(r'b?"(\\.|[^"\\])*"', lambda m: " " * len(m.group(0)), code)
    code = re.sub(r"b?'(\\.|[^'\\])'", lambda m: " " * len(m.group(0)), code)
    # operators
    for m in TOK.finditer(code):
        t = m.group(1)
        a, b = m.span(1)
        before = code[:a].rstrip()
        if t in REL:
            # `<` / `>` only where the line is a condition (not generics, arrows, shifts)
            if t in ("<", ">"):
                if not re.search(r"\b(if|while|assert|debug_assert)\b|&&|\|\|", code):
                    continue
                if not (before and (before[-1].isalnum() or before[-1] in ")]_")):
                    continue
                if re.search(r"(Vec|Option|Result|Box|HashMap|IResult|as|::)\s*$", before):
                    continue
            for r in REL[t]:
                yield a, b, r, "%s -> %s" % (t, r)
        elif t == "&&":
            yield a, b, "||", "&& -> ||"
        elif t == "||":
            if code[b:].lstrip().startswith("{") or before.endswith("(") or before.endswith(","):
                continue  # closure
            yield a, b, "&&", "|| -> &&"
        elif t == "+" and before and (before[-1].isalnum() or before[-1] in ")]_"):
            if code[b:b + 1] == "=":
                continue
            yield a, b, "-", "+ -> -"
        elif t == "-" and before and (before[-1].isalnum() or before[-1] in ")]_"):
            yield a, b, "+", "- -> +"
        elif t == "*" and before and (before[-1].isalnum() or before[-1] in ")]_"):
            yield a, b, "/", "* -> /"
        elif t == "<<":
            yield a, b, ">>", "<< -> >>"
        elif t == ">>" and before and (before[-1].isalnum() or before[-1] in ")]_") and "<" not in before[-12:]:
            yield a, b, "<<", ">> -> <<"
        elif t == "!" and code[b:b + 1] not in ("=", "(") and re.match(r"[a-zA-Z_(]", code[b:b + 1] or " "):
            if before.endswith("#") or re.search(r"\w$", before):
                continue  # attribute or macro!
            yield a, b, "", "! dropped"
    # integer literals
    for m in re.finditer(r"(?<![\w.])(0x[0-9a-fA-F_]+|0b[01_]+|\d[\d_]*)(usize|u8|u16|u32|u64|i32|i64)?(?![\w.])", code):
        lit = m.group(1)
        a, b = m.span(1)
        if code[:a].rstrip().endswith("[") and code[b:].lstrip().startswith(";"):
            continue
        try:
            v = int(lit.replace("_", ""), 0)
        except ValueError:
            continue
        for nv in ([v + 1, v - 1] if v > 0 else [1]):
            if lit.startswith("0x"):
                r = hex(nv)
            elif lit.startswith("0b"):
                r = bin(nv)
            else:
                r = str(nv)
            yield a, b, r, "%s -> %s" % (lit, r)
    # booleans
    for m in re.finditer(r"\b(true|false)\b", code):
        a, b = m.span(1)
        r = "false" if m.group(1) == "true" else "true"
        yield a, b, r, "%s -> %s" % (m.group(1), r)


def all_mutants():
    out = []
    for f in FILES:
        # the committed HEAD (what the workers clone), not the working tree
        r = subprocess.run(["git", "-C", REPO, "show", "HEAD:" + f], stdout=subprocess.PIPE, stderr=subprocess.DEVNULL)
        if r.returncode != 0:
            continue
        text = r.stdout.decode("utf-8", "replace")
        lines, keep = in_scope_lines(f, text)
        for i, l in enumerate(lines):
            if not keep[i]:
                continue
            for a, b, r, d in mutants_of_line(l):
                out.append({"file": f, "line": i + 1, "col": a, "end": b, "repl": r, "desc": d,
                            "src": l.strip()[:140]})
    return out


def sample(seed, mx):
    ms = all_mutants()
    rnd = random.Random(seed)
    rnd.shuffle(ms)
    # at most 2 mutants per source line, spread over files
    per_line = {}
    out = []
    for m in ms:
        k = (m["file"], m["line"])
        if per_line.get(k, 0) >= 2:
            continue
        per_line[k] = per_line.get(k, 0) + 1
        out.append(m)
        if len(out) >= mx:
            break
    return out


def props_for(file):
    import fingerprint
    return sorted(p for p, fs in fingerprint.anchors().items() if file in fs)


def sh(cmd, cwd=None, env=None, timeout=3600):
    p = subprocess.run(cmd, cwd=cwd, env=env, stdout=subprocess.PIPE, stderr=subprocess.STDOUT, timeout=timeout)
    return p.returncode, p.stdout.decode("utf-8", "replace")


class Worker:
    def __init__(self, root, idx):
        self.dir = os.path.join(root, "w%d" % idx)
        self.repo = os.path.join(self.dir, "repo")
        self.verif = os.path.join(self.dir, "verif")
        shutil.rmtree(self.dir, ignore_errors=True)
        os.makedirs(self.dir)
        sh(["git", "clone", "-q", "--no-hardlinks", REPO, self.repo])
        # (the committed HEAD of /repo is mutated, not its working tree)
        sh(["rsync", "-a", "--exclude", ".git", "--exclude", ".work", "--exclude", "evidence", "--exclude", "replays",
            "--exclude", "seeded", "--exclude", "harmless", V + "/", self.verif + "/"])
        ct = os.path.join(self.verif, "harness", "Cargo.toml")
        s = open(ct).read().replace('path = "/repo"', 'path = "%s"' % self.repo)
        open(ct, "w").write(s)
        self.env = dict(os.environ, VERIF_REPO=self.repo, CARGO_NET_OFFLINE="true")

    def run(self, m, props):
        p = os.path.join(self.repo, m["file"])
        orig = open(p).read()
        lines = orig.split("\n")
        l = lines[m["line"] - 1]
        lines[m["line"] - 1] = l[:m["col"]] + m["repl"] + l[m["end"]:]
        open(p, "w").write("\n".join(lines))
        res = {"mutant": m, "checks": {}, "killed_by": None, "tests": None}
        t0 = time.time()
        try:
            rc, out = sh(["cargo", "build", "--release", "--offline"], cwd=os.path.join(self.verif, "harness"),
                         env=self.env, timeout=1800)
            if rc != 0:
                res["killed_by"] = "does-not-compile"
                return res
            for pr in props:
                try:
                    rc, out = sh([os.path.join(self.verif, "check"), pr, "quick"], cwd=self.verif, env=self.env,
                                 timeout=1500)
                except subprocess.TimeoutExpired:
                    rc, out = 1, "TIMEOUT"
                v = [x for x in out.splitlines() if x.startswith("VIOLATION")]
                res["checks"][pr] = {"rc": rc, "violation": v[:1], "tail": out.strip().splitlines()[-1:] }
                if rc != 0:
                    res["killed_by"] = pr
                    break
            if res["killed_by"] is None:
                try:
                    rc, out = sh(["cargo", "test", "--workspace", "--no-fail-fast", "--offline"], cwd=self.repo,
                                 env=self.env, timeout=1800)
                except subprocess.TimeoutExpired:
                    rc, out = 1, "TIMEOUT"
                res["tests"] = "pass" if rc == 0 else "fail"
        finally:
            open(p, "w").write(orig)
            res["seconds"] = round(time.time() - t0, 1)
        return res

    def close(self):
        shutil.rmtree(self.dir, ignore_errors=True)


def main():
    ap = argparse.ArgumentParser()
    ap.add_argument("cmd", choices=["list", "run"])
    ap.add_argument("--seed", type=int, default=1)
    ap.add_argument("--max", type=int, default=200)
    ap.add_argument("--workers", type=int, default=4)
    ap.add_argument("--out", default="/tmp/mut")
    ap.add_argument("--files", default="")
    a = ap.parse_args()
    global FILES
    if a.files:
        FILES = a.files.split(",")
    ms = sample(a.seed, a.max)
    if a.cmd == "list":
        for m in ms:
            print("%s:%d: %s   | %s" % (m["file"], m["line"], m["desc"], m["src"]))
        print(len(ms), "of", len(all_mutants()))
        return
    os.makedirs(a.out, exist_ok=True)
    workers = [Worker(a.out, i) for i in range(a.workers)]
    free = list(workers)
    results = []
    log = open(os.path.join(a.out, "results.jsonl"), "a")

    def job(m):
        w = free.pop()
        try:
            r = w.run(m, props_for(m["file"]))
        finally:
            free.append(w)
        log.write(json.dumps(r) + "\n")
        log.flush()
        print("%-22s %-14s %-28s killed_by=%s tests=%s %ss" % (
            m["file"] + ":" + str(m["line"]), m["desc"], m["src"][:28], r["killed_by"], r["tests"], r.get("seconds")),
            flush=True)
        return r

    with ThreadPoolExecutor(max_workers=a.workers) as ex:
        results = list(ex.map(job, ms))
    for w in workers:
        w.close()
    surv = [r for r in results if r["killed_by"] is None]
    json.dump(surv, open(os.path.join(a.out, "survivors.json"), "w"), indent=1)
    print("mutants %d, killed by a check %d, not compiling %d, survived %d (of these the test-suite kills %d)" % (
        len(results), sum(1 for r in results if r["killed_by"] not in (None, "does-not-compile")),
        sum(1 for r in results if r["killed_by"] == "does-not-compile"), len(surv),
        sum(1 for r in surv if r["tests"] == "fail")))


if __name__ == "__main__":
    main()
