#!/usr/bin/env python3
"""harmlessrun.py <harmless-id> [<property> ...]

Applies /verif/harmless/<id>/patch.diff (a property-preserving rewrite of /repo written by an
independent sub-agent) to /repo's working tree, runs the quick check of ALL properties (or the
listed ones), reverts /repo, restores the committed evidence, and records the outcome in
/verif/harmless/<id>/result.json.  Expected: every check exits 0 (no false alarm).
"""
import json, os, shutil, subprocess, sys, time
VERIF = os.path.abspath(os.path.join(os.path.dirname(os.path.abspath(__file__)), ".."))
hid = sys.argv[1]
d = os.path.join(VERIF, "harmless", hid)
props = sys.argv[2:] or [json.loads(l)["id"] for l in open(os.path.join(VERIF, "properties.jsonl"))]
st = subprocess.run(["git", "-C", "/repo", "status", "--porcelain", "--untracked-files=no"], capture_output=True, text=True).stdout.strip()
if st:
    sys.exit("refusing: /repo has local changes:\n" + st)
results = {}
subprocess.run(["git", "-C", "/repo", "apply", os.path.join(d, "patch.diff")], check=True)
try:
    # the baseline suite must pass with the rewrite
    t = subprocess.run("cd /repo && CARGO_NET_OFFLINE=true cargo test --workspace --no-fail-fast --offline 2>&1 | grep -h '^test result' | awk '{p+=$4; f+=$6} END{print p, f}'",
                       shell=True, capture_output=True, text=True).stdout.strip()
    results["baseline_tests_pass_fail"] = t
    for p in props:
        t0 = time.time()
        r = subprocess.run([os.path.join(VERIF, "check"), p, "quick"], capture_output=True, text=True, cwd=VERIF)
        out = r.stdout + r.stderr
        vio = [l for l in out.split("\n") if l.startswith("VIOLATION")]
        results[p] = {"exit": r.returncode, "violation_lines": vio, "summary": out.strip().split("\n")[-1], "wall_s": round(time.time() - t0, 1)}
        if r.returncode != 0:
            for v in vio:
                import re
                m = re.search(r"replay=(\S+)", v)
                if m and os.path.exists(os.path.join(VERIF, m.group(1))):
                    rp = json.load(open(os.path.join(VERIF, m.group(1))))
                    results[p]["replay"] = {k: (rp[k][:500] if isinstance(rp[k], str) else rp[k]) for k in rp if k in ("kind", "why", "request", "impl", "model")}
        print(hid, p, "exit", r.returncode, vio[:1])
finally:
    subprocess.run(["git", "-C", "/repo", "checkout", "--", "."], check=True)
    subprocess.run(["git", "-C", VERIF, "checkout", "--", "evidence"], check=False)
    shutil.rmtree(os.path.join(VERIF, "replays"), ignore_errors=True)
alarms = [p for p in results if isinstance(results[p], dict) and results[p]["exit"] != 0]
json.dump({"checks": results, "false_alarms": alarms}, open(os.path.join(d, "result.json"), "w"), indent=1)
print(hid, "FALSE ALARMS:" if alarms else "no alarm", alarms)
