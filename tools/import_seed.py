#!/usr/bin/env python3
"""import_seed.py <property> <variant-letter> <round> <needs_to_manifest...>
Confirms /tmp/seed/<P>r<round>/<v> in the scratch worktree /tmp/wt/<P>r<round> (tools/confirm_seed.sh)
and, when confirmed, stores it as seeded/<P><v>/ with a meta.json."""
import json, os, shutil, subprocess, sys
V = os.path.dirname(os.path.dirname(os.path.abspath(__file__)))
prop, var, rnd = sys.argv[1], sys.argv[2], int(sys.argv[3])
needs = " ".join(sys.argv[4:])
src = "/tmp/seed/%sr%d/%s" % (prop, rnd, var)
wt = "/tmp/wt/%sr%d" % (prop, rnd)
p = subprocess.run([os.path.join(V, "tools", "confirm_seed.sh"), wt, src], stdout=subprocess.PIPE, stderr=subprocess.STDOUT)
out = p.stdout.decode().strip().splitlines()[-1]
print(prop + var, out)
if p.returncode != 0 or not out.startswith("CONFIRMED"):
    sys.exit(1)
dst = os.path.join(V, "seeded", prop + var)
os.makedirs(dst, exist_ok=True)
for f in ("patch.diff", "demo.rs", "notes.md"):
    if os.path.exists(os.path.join(src, f)):
        shutil.copy(os.path.join(src, f), os.path.join(dst, f))
meta = {
    "id": prop + var, "property": prop, "needs_to_manifest": needs, "round": rnd,
    "origin": "written by an independent sub-agent given only the property text and a scratch worktree of /repo (round %d)" % rnd,
    "confirmed": "tools/confirm_seed.sh in a scratch worktree: demo passes on the unmodified tree, fails with the patch; the 54 baseline tests pass with the patch",
    "demo": "copy demo.rs to <repo>/tests/seed_demo.rs; cargo test --offline --test seed_demo --all-features",
    "detection": "tools/seedrun.py %s%s -> detected.json" % (prop, var),
}
json.dump(meta, open(os.path.join(dst, "meta.json"), "w"), indent=1)
