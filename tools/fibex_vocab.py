#!/usr/bin/env python3
"""fibex_vocab.py - the FIBEX type vocabulary, translated from the source on every run.

`type_info_for_signal_ref` (src/fibex/mod.rs) maps the standard signal names (`S_*`) and the base
data types of codings (`A_*`) to type infos through two string `match`es and a dozen nested
helper functions.  This tool reads both tables out of /repo's CURRENT source and writes them as
Lean association lists (lean/DltVerif/Generated/SrcFibex.lean, namespace Dlt.Src) together with
lean/DltVerif/Props/FibexTie.lean: the tables of the source and the independent tables of the
Spec (`Spec.standardSignals`, `Spec.baseTypes`, which `C11_vocabulary` relates to the model) give
the same answer for every name that occurs in either.  A changed, added or dropped name breaks a
proof obligation of C11 at build time.  If the function no longer has the shape of two string
tables the tool says `untranslated` and writes empty modules (the correspondence check remains).
"""
import os
import re
import sys

REPO = os.environ.get("VERIF_REPO", "/repo")
LEAN = os.environ.get("VERIF_LEAN_OUT") or os.path.join(os.path.dirname(os.path.abspath(__file__)), "..", "lean", "DltVerif")

KIND = {
    "Bool": ".bool", "StringType": ".stringType", "Raw": ".raw",
}
LEN = {"BitLength8": ".b8", "BitLength16": ".b16", "BitLength32": ".b32", "BitLength64": ".b64", "BitLength128": ".b128"}
WID = {"Width32": ".w32", "Width64": ".w64"}
COD = {"ASCII": ".ascii", "UTF8": ".utf8"}


class Untranslatable(Exception):
    pass


def balanced(src, i):
    """index just behind the `}` matching the `{` at src[i]"""
    depth = 0
    for j in range(i, len(src)):
        if src[j] == "{":
            depth += 1
        elif src[j] == "}":
            depth -= 1
            if depth == 0:
                return j + 1
    raise Untranslatable("unbalanced braces")


def type_info(text):
    """Lean term for a Rust `TypeInfo { kind: .., coding: .., has_variable_info: .., has_trace_info: .. }`"""
    t = " ".join(text.split())
    m = re.fullmatch(r"TypeInfo \{ kind: TypeInfoKind::(\w+)(?:\((\w+)::(\w+)\))?, coding: StringCoding::(\w+), "
                     r"has_variable_info: (true|false), has_trace_info: (true|false),? \}", t)
    if not m:
        raise Untranslatable("type info literal: " + t[:80])
    k, argt, arg, cod, vi, ti = m.groups()
    if k in KIND and arg is None:
        kind = KIND[k]
    elif k in ("Signed", "Unsigned") and argt == "TypeLength" and arg in LEN:
        kind = "(.%s %s)" % (k.lower(), LEN[arg])
    elif k in ("Float", "SignedFixedPoint", "UnsignedFixedPoint") and argt == "FloatWidth" and arg in WID:
        kind = "(.%s %s)" % (k[0].lower() + k[1:], WID[arg])
    else:
        raise Untranslatable("kind " + k)
    if cod not in COD:
        raise Untranslatable("coding " + cod)
    return "{ kind := %s, coding := %s, hasVariableInfo := %s, hasTraceInfo := %s }" % (kind, COD[cod], vi, ti)


def arms(body, helpers, optional):
    """[(names, lean value)] of a `match x.as_ref() { "A" | "B" => value, ... default }` body (default arm excluded)"""
    out, i = [], 0
    body = re.sub(r"//[^\n]*", "", body)
    while True:
        m = re.compile(r'\s*((?:"[^"]*"\s*\|?\s*)+)=>\s*').match(body, i)
        if not m:
            break
        names = re.findall(r'"([^"]*)"', m.group(1))
        j = m.end()
        if body.startswith("Some(", j):
            # balanced parentheses
            depth, k = 0, j + 4
            while True:
                if body[k] == "(":
                    depth += 1
                elif body[k] == ")":
                    depth -= 1
                    if depth == 0:
                        break
                k += 1
            inner = body[j + 5:k].strip()
            hm = re.fullmatch(r"(\w+)\(\)", inner)
            val = helpers[hm.group(1)] if hm and hm.group(1) in helpers else type_info(inner)
            val = "some " + ("(%s : TypeInfo)" % val) if optional else "(%s : TypeInfo)" % val
            i = k + 1
        elif body.startswith("{", j):
            e = balanced(body, j)
            blk = re.sub(r"\b(warn|trace|debug|info)!\s*\((?:[^()]|\([^()]*\))*\)\s*;?", "", body[j + 1:e - 1]).strip()
            if blk != "None" or not optional:
                raise Untranslatable("arm block: " + blk[:60])
            val = "none"
            i = e
        elif body.startswith("None", j) and optional:
            val = "none"
            i = j + 4
        else:
            raise Untranslatable("arm value at: " + body[j:j + 40])
        out.append((names, val))
        m2 = re.compile(r"\s*,").match(body, i)
        if m2:
            i = m2.end()
    rest = body[i:].strip()
    if not re.match(r"[a-z_]\w*\s*=>", rest):
        raise Untranslatable("no binding default arm behind the table: " + rest[:40])
    return out, rest


def lean_bytes(name):
    return "[" + ", ".join("0x%02X#8" % b for b in name.encode()) + "]"


def write_if_changed(path, content):
    os.makedirs(os.path.dirname(path), exist_ok=True)
    try:
        if open(path).read() == content:
            return
    except FileNotFoundError:
        pass
    with open(path, "w") as f:
        f.write(content)


def translate():
    src = open(os.path.join(REPO, "src/fibex/mod.rs")).read()
    m = re.search(r"fn type_info_for_signal_ref\s*\([^)]*\)\s*->\s*Option<TypeInfo>\s*\{", src)
    if not m:
        raise Untranslatable("type_info_for_signal_ref not found")
    body = src[m.end() - 1:balanced(src, m.end() - 1)]
    helpers = {}
    for hm in re.finditer(r"fn (\w+)\(\)\s*->\s*TypeInfo\s*\{", body):
        e = balanced(body, hm.end() - 1)
        helpers[hm.group(1)] = type_info(body[hm.end():e - 1].strip())
    m1 = re.search(r"match signal_ref\.as_ref\(\)\s*\{", body)
    if not m1:
        raise Untranslatable("outer match not found")
    outer = body[m1.end():balanced(body, m1.end() - 1) - 1]
    std, rest = arms(outer, helpers, True)
    # the default arm: a chain signal -> coding -> base type, then the second table
    if not re.search(r"signals\s*\.get\(\w+\)\s*\.and_then\(\|\w+\|\s*codings\.get\(\w+\)\)", " ".join(rest.split())):
        raise Untranslatable("default arm is not the signal -> coding chain")
    m2 = re.search(r"match base_type\.as_ref\(\)\s*\{", rest)
    if not m2:
        raise Untranslatable("inner match not found")
    inner = rest[m2.end():balanced(rest, m2.end() - 1) - 1]
    base, _ = arms(inner, helpers, False)
    return std, base


def main():
    status = "translated"
    std, base = [], []
    try:
        std, base = translate()
    except Untranslatable as ex:
        status = "untranslated: " + str(ex)
    except Exception as ex:  # noqa
        status = "untranslated: %s: %s" % (type(ex).__name__, ex)
    ok = status == "translated"
    rows1 = ",\n  ".join("(%s, %s)" % (lean_bytes(n), v) for ns, v in std for n in ns)
    rows2 = ",\n  ".join("(%s, %s)" % (lean_bytes(n), v) for ns, v in base for n in ns)
    gen = ("-- GENERATED by tools/fibex_vocab.py from src/fibex/mod.rs on every run; do not edit.\n"
           "import DltVerif.Model.Types\nnamespace Dlt.Src\nopen Dlt\n"
           "/-- the first string table of `type_info_for_signal_ref` (standard signal names) -/\n"
           "def fibexStandardSignals : List (Bytes × Option TypeInfo) := [\n  %s]\n"
           "/-- its second string table (base data types of codings) -/\n"
           "def fibexBaseTypes : List (Bytes × TypeInfo) := [\n  %s]\nend Dlt.Src\n" % (rows1, rows2))
    ties = ""
    if ok:
        ties = (
            "/-- every name of either table gets the same answer from the source's table and from the Spec's -/\n"
            "theorem tie_fibex_standard_signals :\n"
            "    ∀ k ∈ Src.fibexStandardSignals.map Prod.fst ++ Fibex.Spec.standardSignals.map Prod.fst,\n"
            "      Fibex.Spec.lookupName k Src.fibexStandardSignals = Fibex.Spec.lookupName k Fibex.Spec.standardSignals := by decide +kernel\n"
            "theorem tie_fibex_base_types :\n"
            "    ∀ k ∈ Src.fibexBaseTypes.map Prod.fst ++ Fibex.Spec.baseTypes.map Prod.fst,\n"
            "      Fibex.Spec.lookupName k Src.fibexBaseTypes = Fibex.Spec.lookupName k Fibex.Spec.baseTypes := by decide +kernel\n")
    tie = ("-- GENERATED by tools/fibex_vocab.py on every run; do not edit.\n"
           "import DltVerif.Generated.SrcFibex\nimport DltVerif.Spec.Fibex\nnamespace Dlt\n%s\nend Dlt\n" % ties)
    write_if_changed(os.path.join(LEAN, "Generated", "SrcFibex.lean"), gen)
    write_if_changed(os.path.join(LEAN, "Props", "FibexTie.lean"), tie)
    n1, n2 = sum(len(ns) for ns, _ in std), sum(len(ns) for ns, _ in base)
    print("fibex vocabulary tie: %s (%d standard signal names, %d base data types)" % (status, n1, n2))


if __name__ == "__main__":
    main()
