#!/bin/sh
# import_r6c.sh <P> <letter-for-a> <letter-for-b>: confirm and store only (no check run)
cd "$(dirname "$0")/.."
P=$1
for pair in "a:$2" "b:$3"; do
  v=${pair%%:*}; L=${pair##*:}
  [ -f /tmp/seed/${P}r6/$v/patch.diff ] || { echo "$P$L: no patch"; continue; }
  rm -rf /tmp/seed/${P}r6/$L; cp -r /tmp/seed/${P}r6/$v /tmp/seed/${P}r6/$L
  needs=$(head -1 /tmp/seed/${P}r6/$L/notes.md | cut -c1-400)
  python3 tools/import_seed.py $P $L 6 "$needs"
done
