#!/usr/bin/env python3
"""Fingerprints of the source files each property is anchored in (comments and whitespace
removed).  `fingerprint.py --write` records the fingerprints of the tree the model was written
and reviewed against (tools/fingerprints.json, committed).  `changed(prop)` lists the anchored
files whose code differs from that record: the check then samples deeper (more campaigns with
fresh seeds), because a changed function is where a hand-written model can have gone stale.
It never raises an alarm by itself."""
import hashlib, json, os, re, sys

VERIF = os.path.abspath(os.path.join(os.path.dirname(os.path.abspath(__file__)), ".."))
REPO = os.environ.get("VERIF_REPO", "/repo")
STORE = os.path.join(VERIF, "tools", "fingerprints.json")


def normalise(src):
    src = re.sub(r"/\*.*?\*/", "", src, flags=re.S)
    src = re.sub(r"//[^\n]*", "", src)
    return re.sub(r"\s+", "", src)


def fp(path):
    try:
        return hashlib.sha256(normalise(open(path, encoding="utf-8", errors="replace").read()).encode()).hexdigest()[:16]
    except OSError:
        return "missing"


def anchors():
    out = {}
    for l in open(os.path.join(VERIF, "properties.jsonl")):
        d = json.loads(l)
        out[d["id"]] = sorted(set(d["anchors"].get("files", [])))
    return out


def current():
    files = sorted(set(f for fs in anchors().values() for f in fs))
    return {f: fp(os.path.join(REPO, f)) for f in files}


def changed(prop):
    try:
        base = json.load(open(STORE))
    except Exception:
        return []
    cur = current()
    return [f for f in anchors().get(prop, []) if base.get(f) != cur.get(f)]


if __name__ == "__main__":
    if "--write" in sys.argv:
        json.dump(current(), open(STORE, "w"), indent=1, sort_keys=True)
    print(json.dumps(current(), indent=1, sort_keys=True))
