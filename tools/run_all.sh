#!/bin/sh
# run_all.sh <quick|thorough>: setup, then every claimed check at that tier; summary lines only
cd "$(dirname "$0")/.."
./setup.sh >/dev/null 2>&1 || { echo "setup failed"; exit 2; }
rc=0
for p in C01 C02 C03 C04 C05 C06 C07 C08 C09 C10 C11 C12 C13 C14 C15 C16 C17 C18 C19; do
  out=$(./check $p "$1" 2>&1) || rc=1
  echo "$out" | tail -2
done
exit $rc
