#!/usr/bin/env python3
"""Regenerate MANIFEST.json from the list of claimed properties (tools/claims.json)."""
import json
import os

VERIF = os.path.join(os.path.dirname(os.path.abspath(__file__)), "..")
claims = json.load(open(os.path.join(VERIF, "tools", "claims.json")))
props = [json.loads(l) for l in open(os.path.join(VERIF, "properties.jsonl"))]
ids = [p["id"] for p in props]
checks = []
for pid in ids:
    c = claims["claimed"].get(pid)
    if not c:
        continue
    checks.append({
        "property_id": pid,
        "quick_cmd": "./check %s quick" % pid,
        "thorough_cmd": "./check %s thorough" % pid,
        "evidence_file": "evidence/%s.json" % pid,
        "replay_cmd_template": "./check %s --replay {path}" % pid,
        "engine": "lean-proof+correspondence",
        "level_claimed": {"category": "proof", "text": c["text"], "design_ref": c.get("design_ref", "DESIGN.md section 5")},
        "level_note": c["note"],
        "technique": c.get("technique", "Lean 4 theorems over a hand-written model, tied to the crate by a differential correspondence check"),
    })
na = [{"property_id": pid, "reason": claims["not_applicable"].get(pid, "not yet claimed: model and theorems for this property are still being built (see DESIGN.md section 9)")}
      for pid in ids if pid not in claims["claimed"]]
m = {
    "version": 1,
    "setup_cmd": "./setup.sh",
    "hooks": {
        "guard": "dlt_core_verif",
        "enable": "no hooks needed: every observation point is pub; the harness (harness/) is a separate crate with a path dependency on /repo (features fibex,statistics,stream), rebuilt from /repo's working tree by every check",
        "baseline_off_cmd": "cd /repo && cargo test --workspace --no-fail-fast --offline",
        "source_commits": [],
        "add_only": True,
    },
    "engines": [{
        "name": "lean-proof+correspondence",
        "path": "check",
        "serves_properties": [c["property_id"] for c in checks],
        "kind_free_text": "Lean 4 theorems (lean/DltVerif/Props) over a hand-written model (lean/DltVerif/Model) and spec (lean/DltVerif/Spec); differential correspondence between the compiled Lean driver (lean/Driver) and the crate (harness/) on generated request lines; constants tie regenerated from the source",
    }],
    "checks": checks,
    "not_applicable": na,
    "notes": claims.get("notes", ""),
}
json.dump(m, open(os.path.join(VERIF, "MANIFEST.json"), "w"), indent=1)
print("MANIFEST.json: %d checks, %d not claimed" % (len(checks), len(na)))
