#!/usr/bin/env python3
"""stats_tables.py - the counter tables of src/statistics.rs, translated from the source on every run.

`LevelDistribution::new` (which counter starts at 1 for which level), `add_for_level` (which counter
is incremented for which level) and `LevelDistribution::merge` (which counter is added to which)
are three small tables.  They are read out of /repo's CURRENT source and written as Lean functions
(lean/DltVerif/Generated/SrcStats.lean, namespace Dlt.Src); lean/DltVerif/Props/StatsTie.lean states
that they agree with the model's `LevelDistribution.new / bump / merge` (the functions C10's theorems
are about): `new` for every kind of level; `bump` and `merge` at distributions whose eight counters
are pairwise different (the translation only ever produces functions of the shape "add 1 to one
counter" / "add counter g of b to counter f of a", for which agreement at such a point is agreement
everywhere).  A counter bumped for the wrong level, or a merge that adds the wrong counter, breaks
a proof obligation of C10 at build time.  Anything outside the three table shapes: `untranslated`.
"""
import os
import re

REPO = os.environ.get("VERIF_REPO", "/repo")
LEAN = os.environ.get("VERIF_LEAN_OUT") or os.path.join(os.path.dirname(os.path.abspath(__file__)), "..", "lean", "DltVerif")
FIELDS = ["non_log", "log_fatal", "log_error", "log_warning", "log_info", "log_debug", "log_verbose", "log_invalid"]
LEVELS = {"Fatal": ".fatal", "Error": ".error", "Warn": ".warn", "Info": ".info", "Debug": ".debug", "Verbose": ".verbose"}


class Untranslatable(Exception):
    pass


def camel(f):
    p = f.split("_")
    return p[0] + "".join(x.capitalize() for x in p[1:])


def balanced(src, i):
    depth = 0
    for j in range(i, len(src)):
        if src[j] == "{":
            depth += 1
        elif src[j] == "}":
            depth -= 1
            if depth == 0:
                return j + 1
    raise Untranslatable("unbalanced braces")


def body_of(src, header_re):
    m = re.search(header_re, src)
    if not m:
        raise Untranslatable("not found: " + header_re)
    i = src.index("{", m.end() - 1)
    return src[i:balanced(src, i)]


def lean_pat(p):
    p = "".join(p.split())
    if p == "None":
        return "none"
    if p == "_":
        return "_"
    m = re.fullmatch(r"Some\(LogLevel::(\w+)(\(_\))?\)", p)
    if not m:
        raise Untranslatable("level pattern " + p)
    if m.group(1) == "Invalid" and m.group(2):
        return "some (.invalid _)"
    if m.group(1) in LEVELS and not m.group(2):
        return "some " + LEVELS[m.group(1)]
    raise Untranslatable("level pattern " + p)


def translate(src):
    src = re.sub(r"//[^\n]*", "", src)
    # LevelDistribution::new
    b = body_of(src, r"pub fn new\s*\(\s*level\s*:\s*Option<LogLevel>\s*\)\s*->\s*LevelDistribution\s*")
    m = re.search(r"match level\s*\{", b)
    if not m:
        raise Untranslatable("new: no match on level")
    arms = b[m.end():balanced(b, m.end() - 1) - 1]
    new_rows = []
    for am in re.finditer(r"([^=>{},]+?)=>\s*LevelDistribution\s*\{\s*(\w+)\s*:\s*1\s*,\s*\.\.\s*all_zero\s*,?\s*\}\s*,?", arms):
        if am.group(2) not in FIELDS:
            raise Untranslatable("new: field " + am.group(2))
        new_rows.append((lean_pat(am.group(1)), am.group(2)))
    rest = re.sub(r"([^=>{},]+?)=>\s*LevelDistribution\s*\{\s*(\w+)\s*:\s*1\s*,\s*\.\.\s*all_zero\s*,?\s*\}\s*,?", "", arms).strip()
    if rest or len(new_rows) < 2 or not re.search(r"let all_zero\s*=\s*Default::default\(\)", b):
        raise Untranslatable("new: unexpected arm text: " + rest[:50])
    # add_for_level
    b = body_of(src, r"fn add_for_level\s*\([^)]*\)\s*")
    if not re.search(r"if let Some\(n\)\s*=\s*ids\.get_mut\(&id\)", b) or not re.search(r"ids\.insert\(id,\s*LevelDistribution::new\(level\)\)", b):
        raise Untranslatable("add_for_level: not the get_mut / insert shape")
    m = re.search(r"match level\s*\{", b)
    arms = b[m.end():balanced(b, m.end() - 1) - 1]
    bump_rows = []
    pat = r"([^=>{}]+?)=>\s*\{\s*n\.(\w+)\s*\+=\s*1\s*;\s*\}\s*,?"
    for am in re.finditer(pat, arms):
        if am.group(2) not in FIELDS:
            raise Untranslatable("add_for_level: field " + am.group(2))
        bump_rows.append((lean_pat(am.group(1)), am.group(2)))
    rest = re.sub(pat, "", arms).strip()
    if rest or len(bump_rows) < 2:
        raise Untranslatable("add_for_level: unexpected arm text: " + rest[:50])
    # LevelDistribution::merge
    b = body_of(src, r"pub fn merge\s*\(\s*&mut self\s*,\s*outside\s*:\s*&LevelDistribution\s*\)\s*")
    merge_rows = re.findall(r"self\.(\w+)\s*\+=\s*outside\.(\w+)\s*;", b)
    rest = re.sub(r"self\.(\w+)\s*\+=\s*outside\.(\w+)\s*;", "", b).strip("{} \n\t")
    if rest or any(f not in FIELDS or g not in FIELDS for f, g in merge_rows):
        raise Untranslatable("merge: unexpected statement: " + rest[:50])
    return new_rows, bump_rows, merge_rows


def write_if_changed(path, content):
    os.makedirs(os.path.dirname(path), exist_ok=True)
    try:
        if open(path).read() == content:
            return
    except FileNotFoundError:
        pass
    with open(path, "w") as f:
        f.write(content)


def main():
    status, gen_body, ties = "translated", "", ""
    try:
        new_rows, bump_rows, merge_rows = translate(open(os.path.join(REPO, "src/statistics.rs")).read())
        gen_body = (
            "/-- `LevelDistribution::new` -/\ndef levelNew : Option LogLevel → LevelDistribution\n%s\n"
            "/-- the `match` of `add_for_level` on an existing entry -/\n"
            "def levelBump (n : LevelDistribution) : Option LogLevel → LevelDistribution\n%s\n"
            "/-- `LevelDistribution::merge`: the statements in source order -/\n"
            "def levelMerge (a b : LevelDistribution) : LevelDistribution :=\n%s  a\n" % (
                "\n".join("  | %s => { %s := 1 }" % (p, camel(f)) for p, f in new_rows),
                "\n".join("  | %s => { n with %s := n.%s + 1 }" % (p, camel(f), camel(f)) for p, f in bump_rows),
                "".join("  let a := { a with %s := a.%s + b.%s }\n" % (camel(f), camel(f), camel(g)) for f, g in merge_rows)))
        lv = "[none, some .fatal, some .error, some .warn, some .info, some .debug, some .verbose, some (.invalid 0), some (.invalid 7), some (.invalid 255)]"
        pa = "(⟨2, 3, 5, 7, 11, 13, 17, 19⟩ : LevelDistribution)"
        pb = "(⟨23, 29, 31, 37, 41, 43, 47, 53⟩ : LevelDistribution)"
        ties = (
            "theorem tie_stats_level_new : (%s : List (Option LogLevel)).all (fun l => Src.levelNew l == LevelDistribution.new l) = true := by decide +kernel\n"
            "theorem tie_stats_level_bump : (%s : List (Option LogLevel)).all (fun l => Src.levelBump %s l == (%s).bump l && Src.levelBump {} l == ({} : LevelDistribution).bump l) = true := by decide +kernel\n"
            "theorem tie_stats_level_merge : (Src.levelMerge %s %s == LevelDistribution.merge %s %s && Src.levelMerge %s %s == LevelDistribution.merge %s %s) = true := by decide +kernel\n"
            % (lv, lv, pa, pa, pa, pb, pa, pb, pb, pa, pb, pa))
    except Untranslatable as ex:
        status = "untranslated: " + str(ex)
    except Exception as ex:  # noqa
        status = "untranslated: %s: %s" % (type(ex).__name__, ex)
    gen = ("-- GENERATED by tools/stats_tables.py from src/statistics.rs on every run; do not edit.\n"
           "import DltVerif.Model.Stats\nnamespace Dlt.Src\nopen Dlt\n%s\nend Dlt.Src\n" % gen_body)
    tie = ("-- GENERATED by tools/stats_tables.py on every run; do not edit.\n"
           "import DltVerif.Generated.SrcStats\nimport DltVerif.Model.Stats\nnamespace Dlt\n%s\nend Dlt\n" % ties)
    write_if_changed(os.path.join(LEAN, "Generated", "SrcStats.lean"), gen)
    write_if_changed(os.path.join(LEAN, "Props", "StatsTie.lean"), tie)
    print("statistics tables tie: " + status)


if __name__ == "__main__":
    main()
