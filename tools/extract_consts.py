#!/usr/bin/env python3
"""Static constants tie: re-extract the layout constants from /repo/src on every run and
regenerate lean/DltVerif/Generated/SrcConsts.lean and lean/DltVerif/Props/ConstsTie.lean
(`theorem tie_X : Src.X = <model constant> := by decide`).  A constant whose value changed
breaks a proof obligation at build time; a constant that cannot be found is reported and
skipped (the binding tie is the correspondence check)."""
import os
import re
import sys

REPO = os.environ.get("VERIF_REPO", "/repo")
LEAN = os.path.join(os.path.dirname(os.path.abspath(__file__)), "..", "lean", "DltVerif")

# source constant -> (file, Lean expression of the model's value as a Nat / byte list)
NAT = {
    "STORAGE_HEADER_LENGTH": ("src/dlt.rs", "STORAGE_HEADER_LENGTH"),
    "HEADER_MIN_LENGTH": ("src/dlt.rs", "HEADER_MIN_LENGTH"),
    "EXTENDED_HEADER_LENGTH": ("src/dlt.rs", "EXTENDED_HEADER_LENGTH"),
    "TYPE_INFO_LENGTH": ("src/dlt.rs", "TYPE_INFO_LENGTH"),
    "WITH_EXTENDED_HEADER_FLAG": ("src/dlt.rs", "WITH_EXTENDED_HEADER_FLAG.toNat"),
    "BIG_ENDIAN_FLAG": ("src/dlt.rs", "BIG_ENDIAN_FLAG.toNat"),
    "WITH_ECU_ID_FLAG": ("src/dlt.rs", "WITH_ECU_ID_FLAG.toNat"),
    "WITH_SESSION_ID_FLAG": ("src/dlt.rs", "WITH_SESSION_ID_FLAG.toNat"),
    "WITH_TIMESTAMP_FLAG": ("src/dlt.rs", "WITH_TIMESTAMP_FLAG.toNat"),
    "VERBOSE_FLAG": ("src/dlt.rs", "VERBOSE_FLAG.toNat"),
    "TYPE_INFO_BOOL_FLAG": ("src/dlt.rs", "TYPE_INFO_BOOL_FLAG.toNat"),
    "TYPE_INFO_SINT_FLAG": ("src/dlt.rs", "TYPE_INFO_SINT_FLAG.toNat"),
    "TYPE_INFO_UINT_FLAG": ("src/dlt.rs", "TYPE_INFO_UINT_FLAG.toNat"),
    "TYPE_INFO_FLOAT_FLAG": ("src/dlt.rs", "TYPE_INFO_FLOAT_FLAG.toNat"),
    "TYPE_INFO_STRING_FLAG": ("src/dlt.rs", "TYPE_INFO_STRING_FLAG.toNat"),
    "TYPE_INFO_RAW_FLAG": ("src/dlt.rs", "TYPE_INFO_RAW_FLAG.toNat"),
    "TYPE_INFO_VARIABLE_INFO": ("src/dlt.rs", "TYPE_INFO_VARIABLE_INFO.toNat"),
    "TYPE_INFO_FIXED_POINT_FLAG": ("src/dlt.rs", "TYPE_INFO_FIXED_POINT_FLAG.toNat"),
    "TYPE_INFO_TRACE_INFO_FLAG": ("src/dlt.rs", "TYPE_INFO_TRACE_INFO_FLAG.toNat"),
    "LEVEL_FATAL": ("src/dlt.rs", "LEVEL_FATAL.toNat"),
    "LEVEL_ERROR": ("src/dlt.rs", "LEVEL_ERROR.toNat"),
    "LEVEL_WARN": ("src/dlt.rs", "LEVEL_WARN.toNat"),
    "LEVEL_INFO": ("src/dlt.rs", "LEVEL_INFO.toNat"),
    "LEVEL_DEBUG": ("src/dlt.rs", "LEVEL_DEBUG.toNat"),
    "LEVEL_VERBOSE": ("src/dlt.rs", "LEVEL_VERBOSE.toNat"),
    "DLT_TYPE_LOG": ("src/dlt.rs", "DLT_TYPE_LOG.toNat"),
    "DLT_TYPE_APP_TRACE": ("src/dlt.rs", "DLT_TYPE_APP_TRACE.toNat"),
    "DLT_TYPE_NW_TRACE": ("src/dlt.rs", "DLT_TYPE_NW_TRACE.toNat"),
    "DLT_TYPE_CONTROL": ("src/dlt.rs", "DLT_TYPE_CONTROL.toNat"),
    "CTRL_TYPE_REQUEST": ("src/dlt.rs", "CTRL_TYPE_REQUEST.toNat"),
    "CTRL_TYPE_RESPONSE": ("src/dlt.rs", "CTRL_TYPE_RESPONSE.toNat"),
    "DEFAULT_MESSAGE_MAX_LEN": ("src/read.rs", "DEFAULT_MESSAGE_MAX_LEN"),
}
BYTES = {
    "DLT_PATTERN": ("src/parse.rs", "DLT_PATTERN.map (·.toNat)"),
    "DEFAULT_ECU_ID": ("src/dlt.rs", "DEFAULT_ECU_ID.map (·.toNat)"),
}


def find_const(src, name):
    m = re.search(r"\bconst\s+" + name + r"\s*:\s*[^=]+=\s*([^;]+);", src)
    return m.group(1).strip() if m else None


def eval_nat(expr, env):
    e = re.sub(r"\bas\s+(usize|u8|u16|u32|u64|i64)\b", "", expr)
    e = e.replace("u16::MAX", "65535").replace("u8::MAX", "255").replace("u32::MAX", "4294967295")
    e = re.sub(r"(\d)(usize|u8|u16|u32|u64)\b", r"\1", e)
    e = re.sub(r"\b([A-Z][A-Z0-9_]+)\b", lambda m: str(env[m.group(1)]) if m.group(1) in env else m.group(0), e)
    if not re.fullmatch(r"[0-9a-fA-FxXbB_\s<>+*()\-|&]+", e):
        raise ValueError("unsupported expression: " + expr)
    return int(eval(e.replace("_", ""), {"__builtins__": {}}, {}))


def eval_bytes(expr):
    m = re.fullmatch(r'b?"([^"\\]*)"', expr)
    if m:
        return list(m.group(1).encode())
    m = re.fullmatch(r"&\s*\[([^\]]*)\]", expr)
    if m:
        return [int(x.strip(), 0) for x in m.group(1).split(",") if x.strip()]
    raise ValueError("unsupported byte expression: " + expr)


def write_if_changed(path, content):
    os.makedirs(os.path.dirname(path), exist_ok=True)
    try:
        if open(path).read() == content:
            return
    except FileNotFoundError:
        pass
    with open(path, "w") as f:
        f.write(content)


def main():
    srcs = {}
    env, found, missing = {}, [], []
    defs, ties = [], []
    for name, (f, model) in list(NAT.items()):
        if f not in srcs:
            try:
                srcs[f] = open(os.path.join(REPO, f)).read()
            except OSError:
                srcs[f] = ""
        expr = find_const(srcs[f], name)
        if expr is None:
            missing.append(name)
            continue
        try:
            v = eval_nat(expr, env)
        except Exception as ex:  # noqa
            missing.append(name + "(" + str(ex) + ")")
            continue
        env[name] = v
        found.append(name)
        defs.append("def %s : Nat := %d" % (name, v))
        if name == "DEFAULT_MESSAGE_MAX_LEN":
            # the readers slice `buffer[..total_len]` with total_len <= 16 + 65535: the property needs the
            # buffer to be at least that long; a larger one is as good (the model's bound is the minimum)
            ties.append("theorem tie_%s : %s ≤ Src.%s := by decide" % (name, model, name))
            continue
        ties.append("theorem tie_%s : Src.%s = %s := by decide" % (name, name, model))
    for name, (f, model) in BYTES.items():
        if f not in srcs:
            srcs[f] = open(os.path.join(REPO, f)).read()
        expr = find_const(srcs[f], name)
        if expr is None:
            missing.append(name)
            continue
        try:
            v = eval_bytes(expr)
        except Exception as ex:  # noqa
            missing.append(name + "(" + str(ex) + ")")
            continue
        found.append(name)
        defs.append("def %s : List Nat := [%s]" % (name, ", ".join(str(x) for x in v)))
        ties.append("theorem tie_%s : Src.%s = %s := by decide" % (name, name, model))
    gen = ("-- GENERATED by tools/extract_consts.py from %s on every run; do not edit.\n"
           "namespace Dlt.Src\n%s\nend Dlt.Src\n" % (REPO, "\n".join(defs)))
    tie = ("-- GENERATED by tools/extract_consts.py on every run; do not edit.\n"
           "-- Each source constant equals the constant the model (and every theorem) uses.\n"
           "import DltVerif.Generated.SrcConsts\nimport DltVerif.Model.Types\n"
           "import DltVerif.Model.Reader\n"
           "namespace Dlt\n%s\nend Dlt\n" % "\n".join(ties))
    write_if_changed(os.path.join(LEAN, "Generated", "SrcConsts.lean"), gen)
    write_if_changed(os.path.join(LEAN, "Props", "ConstsTie.lean"), tie)
    print("constants tie: %d found and tied; missing/skipped: %s" % (len(found), ", ".join(missing) or "none"))


if __name__ == "__main__":
    main()
