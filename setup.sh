#!/bin/sh
# Build the framework offline from files on disk: Lean library (all property theorems),
# the driver executable, and the Rust harness against /repo's working tree.
set -e
cd "$(dirname "$0")"
export CARGO_NET_OFFLINE=true
python3 tools/extract_consts.py
(cd lean && lake build DltVerif driver)
(cd harness && cargo build --release --offline)
echo "setup ok"
