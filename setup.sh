#!/bin/sh
# Build the framework offline from files on disk: Lean library (all property theorems),
# the driver executable, and the Rust harness against /repo's working tree.
set -e
cd "$(dirname "$0")"
export CARGO_NET_OFFLINE=true
python3 tools/extract_consts.py
python3 tools/rs2lean.py
python3 tools/fibex_vocab.py
python3 tools/stats_tables.py
(cd lean && lake build DltVerif driver)
# the tie modules are generated from /repo's source; whether they check is reported by the checks
(cd lean && lake build DltVerif.Props.ConstsTie DltVerif.Props.CodesTie DltVerif.Props.CodesTieEnc DltVerif.Props.CodesTieDec DltVerif.Props.CodesTieLvl DltVerif.Props.FibexTie DltVerif.Props.StatsTie) || echo "note: a tie module does not build against the current source (reported by ./check)"
(cd harness && cargo build --release --offline)
echo "setup ok"
