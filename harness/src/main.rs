//! dlt-verif-harness: generates request lines for a property and executes request
//! lines against the real crate (in-process).
//!   harness gen <Cxx> <quick|thorough> <seed> <cases-out>
//!   harness run <cases-in> <answers-out> [threads]
mod cases;
mod fibex;
mod gen;
mod ops;
mod reader;
mod stats;
mod wire;

use std::io::{BufRead, BufWriter, Write};

fn run(cases_in: &str, out: &str, threads: usize) -> std::io::Result<()> {
    let lines: Vec<String> = std::io::BufReader::new(std::fs::File::open(cases_in)?)
        .lines()
        .collect::<Result<_, _>>()?;
    let n = lines.len();
    let mut answers: Vec<String> = vec![String::new(); n];
    let chunk = ((n + threads - 1) / threads.max(1)).max(1);
    std::thread::scope(|s| {
        for (lc, ac) in lines.chunks(chunk).zip(answers.chunks_mut(chunk)) {
            s.spawn(move || {
                for (l, a) in lc.iter().zip(ac.iter_mut()) {
                    *a = ops::handle_line(l);
                }
            });
        }
    });
    let mut w = BufWriter::new(std::fs::File::create(out)?);
    for a in answers {
        writeln!(w, "{}", a)?;
    }
    w.flush()
}

fn main() {
    // panics are outcomes here, not diagnostics
    std::panic::set_hook(Box::new(|_| {}));
    let args: Vec<String> = std::env::args().collect();
    let usage = "usage: harness gen <Cxx> <quick|thorough> <seed> <out> | run <in> <out> [threads]";
    match args.get(1).map(|s| s.as_str()) {
        Some("gen") if args.len() == 6 => {
            let seed: u64 = args[4].parse().expect("seed");
            let thorough = args[3] == "thorough";
            let f = std::fs::File::create(&args[5]).expect("create cases file");
            let mut w = BufWriter::new(f);
            cases::generate(&args[2], thorough, seed, &mut w).expect("generate");
            w.flush().expect("flush");
        }
        Some("run") if args.len() >= 4 => {
            let threads = args.get(4).and_then(|s| s.parse().ok()).unwrap_or(16);
            run(&args[2], &args[3], threads).expect("run");
        }
        _ => {
            eprintln!("{}", usage);
            std::process::exit(2);
        }
    }
}
