//! Execute one request line against the real crate. Every call into the crate runs
//! under `catch_unwind`; a panic is the answer `PANIC`.
//! Answer line: `<answer>[ @@ oracle=<ok|FAIL:why>]`.
use crate::wire::*;
use byteorder::{BigEndian, LittleEndian};
use dlt_core::dlt::*;
use dlt_core::filtering::ProcessedDltFilterConfig;
use dlt_core::parse::*;
use std::convert::TryFrom;
use std::panic::{catch_unwind, AssertUnwindSafe};

pub fn guard<T>(f: impl FnOnce() -> T) -> Option<T> {
    catch_unwind(AssertUnwindSafe(f)).ok()
}

fn oracle(ok: bool, why: &str) -> String {
    if ok {
        " @@ oracle=ok".to_string()
    } else {
        format!(" @@ oracle=FAIL:{}", why.replace(' ', "_"))
    }
}

pub fn arg_bytes(a: &Argument, e: Endianness) -> Vec<u8> {
    match e {
        Endianness::Big => a.as_bytes::<BigEndian>(),
        Endianness::Little => a.as_bytes::<LittleEndian>(),
    }
}

fn p_time(n: u64, unit_per_s: u64, r: Option<DltTimeStamp>) -> String {
    let in_domain = n / unit_per_s < (1u64 << 32);
    match r {
        None => format!("PANIC{}", oracle(!in_domain, "panic")),
        Some(ts) => {
            let us_in = (n as u128) * (1_000_000u128 / unit_per_s as u128);
            let ok = !in_domain
                || ((ts.seconds as u128) * 1_000_000 + ts.microseconds as u128 == us_in
                    && ts.microseconds < 1_000_000);
            format!(
                "{} {}{}",
                ts.seconds,
                ts.microseconds,
                oracle(ok, "not the same instant")
            )
        }
    }
}

/// a parseable non-verbose message whose first byte is `htyp`
fn htyp_probe(b: u8) -> Vec<u8> {
    let mut hl = 4usize;
    for bit in [2u8, 3, 4] {
        if b & (1 << bit) != 0 {
            hl += 4;
        }
    }
    if b & 1 != 0 {
        hl += 10;
    }
    let total = hl + 4;
    let mut v = vec![0u8; total];
    v[0] = b;
    v[2] = (total >> 8) as u8;
    v[3] = (total & 0xff) as u8;
    v
}

fn op_htyp(b: u8) -> String {
    let bytes = htyp_probe(b);
    let r = guard(|| match dlt_message(&bytes, None, false) {
        Ok((_, ParsedMessage::Item(m))) => {
            let h = &m.header;
            format!(
                "{} {} {} {} {} {} hl={} re={}",
                h.version,
                p_endian(h.endianness),
                p_bool(h.has_extended_header),
                p_bool(h.ecu_id.is_some()),
                p_bool(h.session_id.is_some()),
                p_bool(h.timestamp.is_some()),
                h.overall_length() - h.payload_length,
                h.header_type_byte()
            )
        }
        other => format!("UNEXPECTED {:?}", other.map(|x| x.1)),
    });
    match r {
        Some(s) => {
            let ok = s.ends_with(&format!("re={}", b));
            format!("{}{}", s, oracle(ok, "re-encoded byte differs"))
        }
        None => format!("PANIC{}", oracle(false, "panic")),
    }
}

fn op_msin(b: u8) -> String {
    // standard header with UEH only, extended header with MSIN = b, NOAR = 0, 4 payload bytes
    let mut bytes = vec![0x01u8, 0, 0, 18];
    bytes.extend_from_slice(&[b, 0, b'A', 0, 0, 0, b'C', 0, 0, 0]);
    bytes.extend_from_slice(&[0, 0, 0, 0]);
    let r = guard(|| {
        let direct = MessageType::try_from(b).ok();
        match dlt_message(&bytes, None, false) {
            Ok((_, ParsedMessage::Item(m))) => {
                let eh = m.extended_header.as_ref().expect("ext");
                let re = eh.as_bytes()[0];
                let direct_ok = direct.as_ref() == Some(&eh.message_type)
                    && direct.as_ref().map(u8::from).map(|x| x | (b & 1)) == Some(re);
                (
                    format!(
                        "{} {} re={}",
                        p_bool(eh.verbose),
                        p_message_type(&eh.message_type),
                        re
                    ),
                    re == b && direct_ok,
                )
            }
            other => (format!("UNEXPECTED {:?}", other.map(|x| x.1)), false),
        }
    });
    match r {
        Some((s, ok)) => format!("{}{}", s, oracle(ok, "msin does not re-encode")),
        None => format!("PANIC{}", oracle(false, "panic")),
    }
}

fn op_ti(w: u32) -> String {
    let r = guard(|| match TypeInfo::try_from(w) {
        Err(_) => ("none".to_string(), true),
        Ok(t) => {
            let le = t.as_bytes::<LittleEndian>();
            let be = t.as_bytes::<BigEndian>();
            let re = u32::from_le_bytes([le[0], le[1], le[2], le[3]]);
            let mut rev = le.clone();
            rev.reverse();
            let again = TypeInfo::try_from(re).ok();
            let ok = rev == be && again.as_ref() == Some(&t);
            (
                format!("{} re={} le={} be={}", p_type_info(&t), re, hex(&le), hex(&be)),
                ok,
            )
        }
    });
    match r {
        Some((s, ok)) => format!("{}{}", s, oracle(ok, "type info not stable")),
        None => format!("PANIC{}", oracle(false, "panic")),
    }
}

fn op_zts(n: usize, s: &[u8]) -> String {
    let r = guard(|| match dlt_zero_terminated_string(s, n) {
        Ok((rest, st)) => format!("OK {} rest={}", hex(st.as_bytes()), rest.len()),
        Err(e) => p_error(&e),
    });
    match r {
        Some(s) => s,
        None => format!("PANIC{}", oracle(false, "panic")),
    }
}

pub fn enc(m: &Message) -> Option<(Vec<u8>, u16)> {
    guard(|| (m.as_bytes(), m.byte_len()))
}

fn op_enc(m: &Message) -> String {
    match enc(m) {
        Some((b, l)) => format!("{} blen={}", hex(&b), l),
        None => "PANIC".to_string(),
    }
}

pub fn processed(f: &Option<dlt_core::filtering::DltFilterConfig>, borrowed: bool)
    -> Option<ProcessedDltFilterConfig> {
    f.as_ref().map(|c| {
        if borrowed {
            ProcessedDltFilterConfig::from(c)
        } else {
            ProcessedDltFilterConfig::from(c.clone())
        }
    })
}

fn op_parse(w: bool, f: Option<dlt_core::filtering::DltFilterConfig>, bs: &[u8]) -> String {
    let pf = processed(&f, bs.len() % 2 == 0);
    match guard(|| p_parse_result(&dlt_message(bs, pf.as_ref(), w))) {
        Some(s) => s,
        None => "PANIC".to_string(),
    }
}

fn op_real(a: &Argument) -> String {
    match guard(|| a.to_real_value()) {
        Some(Some(v)) => format!("some {}", v),
        Some(None) => "none".to_string(),
        None => format!("PANIC{}", oracle(false, "panic")),
    }
}

pub fn dispatch(op: &str, t: &mut Toks) -> R<String> {
    let out = match op {
        "FROMMS" => {
            let n: u64 = t.num()?;
            p_time(n, 1000, guard(|| DltTimeStamp::from_ms(n)))
        }
        "FROMUS" => {
            let n: u64 = t.num()?;
            p_time(n, 1_000_000, guard(|| DltTimeStamp::from_us(n)))
        }
        "REAL" => op_real(&t.argument()?),
        "HTYP" => op_htyp(t.num()?),
        "MSIN" => op_msin(t.num()?),
        "TI" => op_ti(t.num()?),
        "ZTS" => {
            let n: usize = t.num()?;
            let s = t.bytes()?;
            op_zts(n, &s)
        }
        "ENC" => op_enc(&t.message()?),
        "PARSE" => {
            let w = t.boolean()?;
            let f = t.opt(|t| t.filter())?;
            let bs = t.bytes()?;
            op_parse(w, f, &bs)
        }
        _ => return Err(format!("unknown op {}", op)),
    };
    if !t.done() {
        return Err("trailing tokens".to_string());
    }
    Ok(out)
}

pub fn handle_line(line: &str) -> String {
    let mut t = Toks::new(line);
    match t.tok() {
        Err(_) => "BADREQ empty".to_string(),
        Ok(op) => match dispatch(op, &mut t) {
            Ok(s) => s,
            Err(e) => format!("BADREQ {}", e),
        },
    }
}
