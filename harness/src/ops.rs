//! Execute one request line against the real crate. Every call into the crate runs
//! under `catch_unwind`; a panic is the answer `PANIC`.
//! Answer line: `<answer>[ @@ oracle=<ok|FAIL:why>]`.
use crate::wire::*;
use byteorder::{BigEndian, LittleEndian};
use dlt_core::dlt::*;
use dlt_core::filtering::ProcessedDltFilterConfig;
use dlt_core::parse::*;
use std::convert::TryFrom;
use std::panic::{catch_unwind, AssertUnwindSafe};

pub fn guard<T>(f: impl FnOnce() -> T) -> Option<T> {
    catch_unwind(AssertUnwindSafe(f)).ok()
}

fn oracle(ok: bool, why: &str) -> String {
    if ok {
        " @@ oracle=ok".to_string()
    } else {
        format!(" @@ oracle=FAIL:{}", why.replace(' ', "_"))
    }
}

pub fn arg_bytes(a: &Argument, e: Endianness) -> Vec<u8> {
    match e {
        Endianness::Big => a.as_bytes::<BigEndian>(),
        Endianness::Little => a.as_bytes::<LittleEndian>(),
    }
}

fn p_time(n: u64, unit_per_s: u64, r: Option<DltTimeStamp>) -> String {
    let in_domain = n / unit_per_s < (1u64 << 32);
    match r {
        None => format!("PANIC{}", oracle(!in_domain, "panic")),
        Some(ts) => {
            let us_in = (n as u128) * (1_000_000u128 / unit_per_s as u128);
            let ok = !in_domain
                || ((ts.seconds as u128) * 1_000_000 + ts.microseconds as u128 == us_in
                    && ts.microseconds < 1_000_000);
            format!(
                "{} {}{}",
                ts.seconds,
                ts.microseconds,
                oracle(ok, "not the same instant")
            )
        }
    }
}

/// a parseable non-verbose message whose first byte is `htyp`
fn htyp_probe(b: u8) -> Vec<u8> {
    let mut hl = 4usize;
    for bit in [2u8, 3, 4] {
        if b & (1 << bit) != 0 {
            hl += 4;
        }
    }
    if b & 1 != 0 {
        hl += 10;
    }
    let total = hl + 4;
    let mut v = vec![0u8; total];
    v[0] = b;
    v[2] = (total >> 8) as u8;
    v[3] = (total & 0xff) as u8;
    v
}

fn op_htyp(b: u8) -> String {
    let bytes = htyp_probe(b);
    let r = guard(|| match dlt_message(&bytes, None, false) {
        Ok((_, ParsedMessage::Item(m))) => {
            let h = &m.header;
            format!(
                "{} {} {} {} {} {} hl={} re={}",
                h.version,
                p_endian(h.endianness),
                p_bool(h.has_extended_header),
                p_bool(h.ecu_id.is_some()),
                p_bool(h.session_id.is_some()),
                p_bool(h.timestamp.is_some()),
                h.overall_length() - h.payload_length,
                h.header_type_byte()
            )
        }
        other => format!("UNEXPECTED {:?}", other.map(|x| x.1)),
    });
    match r {
        Some(s) => {
            let ok = s.ends_with(&format!("re={}", b));
            format!("{}{}", s, oracle(ok, "re-encoded byte differs"))
        }
        None => format!("PANIC{}", oracle(false, "panic")),
    }
}

fn op_msin(b: u8) -> String {
    // standard header with UEH only, extended header with MSIN = b, NOAR = 0, 4 payload bytes
    let mut bytes = vec![0x01u8, 0, 0, 18];
    bytes.extend_from_slice(&[b, 0, b'A', 0, 0, 0, b'C', 0, 0, 0]);
    bytes.extend_from_slice(&[0, 0, 0, 0]);
    let r = guard(|| {
        let direct = MessageType::try_from(b).ok();
        match dlt_message(&bytes, None, false) {
            Ok((_, ParsedMessage::Item(m))) => {
                let eh = m.extended_header.as_ref().expect("ext");
                let re = eh.as_bytes()[0];
                let direct_ok = direct.as_ref() == Some(&eh.message_type)
                    && direct.as_ref().map(u8::from).map(|x| x | (b & 1)) == Some(re);
                (
                    format!(
                        "{} {} re={}",
                        p_bool(eh.verbose),
                        p_message_type(&eh.message_type),
                        re
                    ),
                    re == b && direct_ok,
                )
            }
            other => (format!("UNEXPECTED {:?}", other.map(|x| x.1)), false),
        }
    });
    match r {
        Some((s, ok)) => format!("{}{}", s, oracle(ok, "msin does not re-encode")),
        None => format!("PANIC{}", oracle(false, "panic")),
    }
}

fn op_ti(w: u32) -> String {
    let r = guard(|| match TypeInfo::try_from(w) {
        Err(_) => ("none".to_string(), true),
        Ok(t) => {
            let le = t.as_bytes::<LittleEndian>();
            let be = t.as_bytes::<BigEndian>();
            let re = u32::from_le_bytes([le[0], le[1], le[2], le[3]]);
            let mut rev = le.clone();
            rev.reverse();
            let again = TypeInfo::try_from(re).ok();
            let ok = rev == be && again.as_ref() == Some(&t);
            (
                format!("{} re={} le={} be={}", p_type_info(&t), re, hex(&le), hex(&be)),
                ok,
            )
        }
    });
    match r {
        Some((s, ok)) => format!("{}{}", s, oracle(ok, "type info not stable")),
        None => format!("PANIC{}", oracle(false, "panic")),
    }
}

fn op_zts(n: usize, s: &[u8]) -> String {
    let r = guard(|| match dlt_zero_terminated_string(s, n) {
        Ok((rest, st)) => format!("OK {} rest={}", hex(st.as_bytes()), rest.len()),
        Err(e) => p_error(&e),
    });
    match r {
        Some(s) => s,
        None => format!("PANIC{}", oracle(false, "panic")),
    }
}

fn p_opt_str(s: Option<&String>) -> String {
    match s {
        Some(s) => format!("+ {}", hex(s.as_bytes())),
        None => "-".into(),
    }
}

/// C19: the id fields of the message parsed from `bs`
fn op_ids(w: bool, bs: &[u8]) -> String {
    let r = guard(|| match dlt_message(bs, None, w) {
        Ok((_, ParsedMessage::Item(m))) => format!(
            "OK sh={} ecu={} app={} ctx={}",
            p_opt_str(m.storage_header.as_ref().map(|s| &s.ecu_id)),
            p_opt_str(m.header.ecu_id.as_ref()),
            p_opt_str(m.extended_header.as_ref().map(|e| &e.application_id)),
            p_opt_str(m.extended_header.as_ref().map(|e| &e.context_id)),
        ),
        Ok(_) => "OTHER".to_string(),
        Err(e) => p_error(&e),
    });
    match r {
        Some(s) => s,
        None => format!("PANIC{}", oracle(false, "panic")),
    }
}

pub fn enc(m: &Message) -> Option<(Vec<u8>, u16)> {
    guard(|| (m.as_bytes(), m.byte_len()))
}

fn op_enc(m: &Message) -> String {
    match enc(m) {
        Some((b, l)) => format!("{} blen={}", hex(&b), l),
        None => "PANIC".to_string(),
    }
}

pub fn processed(f: &Option<dlt_core::filtering::DltFilterConfig>, borrowed: bool)
    -> Option<ProcessedDltFilterConfig> {
    f.as_ref().map(|c| {
        if borrowed {
            ProcessedDltFilterConfig::from(c)
        } else {
            ProcessedDltFilterConfig::from(c.clone())
        }
    })
}

fn op_parse(w: bool, f: Option<dlt_core::filtering::DltFilterConfig>, bs: &[u8]) -> String {
    let pf = processed(&f, bs.len() % 2 == 0);
    match guard(|| p_parse_result(&dlt_message(bs, pf.as_ref(), w))) {
        Some(s) => s,
        None => "PANIC".to_string(),
    }
}

fn op_real(a: &Argument) -> String {
    match guard(|| a.to_real_value()) {
        Some(Some(v)) => format!("some {}", v),
        Some(None) => "none".to_string(),
        None => format!("PANIC{}", oracle(false, "panic")),
    }
}

fn p_class(r: &Result<(&[u8], ParsedMessage), DltParseError>) -> String {
    match r {
        Ok((_, ParsedMessage::Item(_))) => "ITEM".into(),
        Ok((_, ParsedMessage::FilteredOut(n))) => format!("FILTERED:{}", n),
        Ok((_, ParsedMessage::Invalid)) => "INVALID".into(),
        Err(DltParseError::IncompleteParse { .. }) => "INCOMPLETE".into(),
        Err(DltParseError::ParsingHickup(_)) => "HICKUP".into(),
        Err(DltParseError::Unrecoverable(_)) => "UNRECOVERABLE".into(),
    }
}

/// bit-for-bit equality of messages (floats by bit pattern): equality of the canonical print
pub fn same_msg(a: &Message, b: &Message) -> bool {
    p_message(a) == p_message(b)
}

fn op_rt(m: &Message, sfx: &[u8]) -> String {
    let r = guard(|| {
        let mut input = m.as_bytes();
        input.extend_from_slice(sfx);
        let r = dlt_message(&input, None, m.storage_header.is_some());
        match &r {
            Ok((rest, ParsedMessage::Item(m2))) if same_msg(m, m2) && *rest == sfx => {
                format!("rt=1 rest={}", rest.len())
            }
            _ => format!("rt=0 {}", p_parse_result(&r)),
        }
    });
    match r {
        Some(s) => {
            let ok = s.starts_with("rt=1");
            format!("{}{}", s, oracle(ok, "does not parse back to the same message and suffix"))
        }
        None => format!("PANIC{}", oracle(false, "panic")),
    }
}

fn use_message(m: &Message) -> (String, bool) {
    let reser = guard(|| {
        let _ = m.as_bytes();
        let _ = m.byte_len();
        if let PayloadContent::Verbose(args) = &m.payload {
            for a in args {
                let _ = a.len();
                let _ = a.as_bytes::<LittleEndian>();
                let _ = a.as_bytes::<BigEndian>();
            }
        }
    })
    .is_some();
    let valid = guard(|| match &m.payload {
        PayloadContent::Verbose(args) => args.iter().all(|a| a.valid()),
        _ => true,
    });
    (
        format!(
            "reser={} valid={}",
            if reser { "ok" } else { "PANIC" },
            match valid {
                Some(v) => p_bool(v),
                None => "PANIC",
            }
        ),
        reser && valid == Some(true),
    )
}

fn op_nopanic(w: bool, f: Option<dlt_core::filtering::DltFilterConfig>, bs: &[u8]) -> String {
    let pf = processed(&f, bs.len() % 2 == 0);
    let r = guard(|| {
        let r = dlt_message(bs, pf.as_ref(), w);
        match &r {
            Ok((_, ParsedMessage::Item(m))) => {
                let (s, ok) = use_message(m);
                (format!("{} {}", p_class(&r), s), ok)
            }
            _ => (format!("{} reser=na valid=na", p_class(&r)), true),
        }
    });
    match r {
        Some((s, ok)) => format!("{}{}", s, oracle(ok, "returned message cannot be used")),
        None => format!("PANIC reser=na valid=na{}", oracle(false, "parser panics")),
    }
}

fn p_consume(r: &Result<(&[u8], Option<u64>), DltParseError>) -> String {
    match r {
        Ok((rest, None)) => format!("OK none rest={}", rest.len()),
        Ok((rest, Some(c))) => format!("OK some {} rest={}", c, rest.len()),
        Err(DltParseError::IncompleteParse { .. }) => "ERR INCOMPLETE".into(),
        Err(DltParseError::ParsingHickup(_)) => "ERR HICKUP".into(),
        Err(DltParseError::Unrecoverable(_)) => "ERR UNRECOVERABLE".into(),
    }
}

fn no_panic(r: Option<String>) -> String {
    match r {
        Some(s) => s,
        None => format!("PANIC{}", oracle(false, "panic")),
    }
}

fn op_consume(bs: &[u8]) -> String {
    no_panic(guard(|| p_consume(&dlt_consume_msg(bs))))
}

fn op_skipsh(bs: &[u8]) -> String {
    no_panic(guard(|| match skip_storage_header(bs) {
        Ok((rest, n)) => format!("OK {} rest={}", n, rest.len()),
        Err(DltParseError::IncompleteParse { .. }) => "ERR INCOMPLETE".into(),
        Err(DltParseError::ParsingHickup(_)) => "ERR HICKUP".into(),
        Err(DltParseError::Unrecoverable(_)) => "ERR UNRECOVERABLE".into(),
    }))
}

fn op_fwd(bs: &[u8]) -> String {
    no_panic(guard(|| match forward_to_next_storage_header(bs) {
        None => "none".to_string(),
        Some((n, rest)) => {
            let ok = (n as usize) <= bs.len() && rest == &bs[n as usize..];
            format!("some {} rest={}{}", n, rest.len(), oracle(ok, "rest is not the input from the offset on"))
        }
    }))
}

fn hint_ok(missing: usize, hint: &Option<std::num::NonZeroUsize>) -> bool {
    match hint {
        None => true,
        Some(n) => n.get() >= 1 && n.get() <= missing,
    }
}

fn fnv(h: u64, x: u64) -> u64 {
    (h ^ x).wrapping_mul(1099511628211)
}

fn op_cutall(m: &Message, step: usize) -> String {
    let r = guard(|| {
        let bs = m.as_bytes();
        let w = m.storage_header.is_some();
        let n = bs.len();
        let mut bad: Vec<String> = vec![];
        let mut nbad = 0usize;
        let mut h: u64 = 14695981039346656037;
        for k in 0..n {
            if !(step == 1 || k < 64 || k + 64 >= n || k % step == 0) {
                continue;
            }
            let pre = &bs[..k];
            let r = guard(|| dlt_message(pre, None, w));
            let (ok_msg, cls, hv) = match &r {
                Some(r @ Err(DltParseError::IncompleteParse { needed })) => (
                    hint_ok(n - k, needed),
                    p_class(r),
                    needed.map(|x| x.get() as u64 + 1).unwrap_or(0),
                ),
                Some(r) => (false, p_class(r), 999999),
                None => (false, "PANIC".to_string(), 999999),
            };
            h = fnv(h, hv);
            let c = guard(|| dlt_consume_msg(pre));
            let (ok_cons, cstr) = match &c {
                None => (false, "PANIC".to_string()),
                Some(c) => {
                    let s = p_consume(c);
                    let ok = if !w {
                        true
                    } else if k == 0 {
                        matches!(c, Ok((_, None)))
                    } else {
                        match c {
                            Err(DltParseError::IncompleteParse { needed }) => hint_ok(n - k, needed),
                            _ => false,
                        }
                    };
                    (ok, s)
                }
            };
            if !(ok_msg && ok_cons) {
                nbad += 1;
                if bad.len() < 3 {
                    bad.push(format!("{}:{}:{}", k, cls, cstr).replace(' ', "_"));
                }
            }
        }
        (
            format!("len={} bad={} [{}]", n, nbad, bad.join(", ")),
            nbad == 0,
            h,
        )
    });
    match r {
        Some((s, ok, h)) => format!("{}{} @@ fine={}", s, oracle(ok, "a proper prefix is not reported incomplete with a safe hint"), h),
        None => format!("PANIC{}", oracle(false, "panic")),
    }
}

fn op_stable(w: bool, bs: &[u8]) -> String {
    let r = guard(|| match dlt_message(bs, None, w) {
        Ok((_, ParsedMessage::Item(m))) => {
            let b2 = match guard(|| m.as_bytes()) {
                Some(b) => b,
                None => return ("item PANIC".to_string(), false),
            };
            let declared = (if w { 16 } else { 0 }) + m.header.overall_length() as usize;
            if b2.len() != declared {
                return ("item lenmatch=0".to_string(), true);
            }
            match dlt_message(&b2, None, w) {
                Ok((rest, ParsedMessage::Item(m2))) => {
                    let st = same_msg(&m, &m2) && rest.is_empty() && m2.as_bytes() == b2;
                    (format!("item lenmatch=1 stable={}", p_bool(st)), st)
                }
                _ => ("item lenmatch=1 stable=0".to_string(), false),
            }
        }
        _ => ("na".to_string(), true),
    });
    match r {
        Some((s, ok)) => format!("{}{}", s, oracle(ok, "re-serialisation does not parse back to the same message")),
        None => format!("PANIC{}", oracle(false, "panic")),
    }
}

fn op_arglen(a: &Argument) -> String {
    let r = guard(|| {
        let le = a.as_bytes::<LittleEndian>().len();
        let be = a.as_bytes::<BigEndian>().len();
        (a.len(), le, be)
    });
    let valid = a.valid();
    match r {
        Some((l, le, be)) => format!(
            "len={} le={} be={} valid={} ok{}",
            l,
            le,
            be,
            p_bool(valid),
            oracle(l == le && l == be, "reported length differs from the serialised length")
        ),
        None => format!(
            "len={} le=? be=? valid={} PANIC{}",
            guard(|| a.len()).map(|x| x.to_string()).unwrap_or("?".into()),
            p_bool(valid),
            oracle(false, "panic")
        ),
    }
}

fn message_config(t: &mut Toks) -> R<MessageConfig> {
    let version: u8 = t.num()?;
    let counter: u8 = t.num()?;
    let endianness = t.endian()?;
    let ecu_id = t.opt(|t| t.string())?;
    let session_id = t.opt(|t| t.num::<u32>())?;
    let timestamp = t.opt(|t| t.num::<u32>())?;
    let payload = t.payload()?;
    let extended_header_info = t.opt(|t| {
        let message_type = t.message_type()?;
        let app_id = t.string()?;
        let context_id = t.string()?;
        Ok(ExtendedHeaderConfig {
            message_type,
            app_id,
            context_id,
        })
    })?;
    Ok(MessageConfig {
        version,
        counter,
        endianness,
        ecu_id,
        session_id,
        timestamp,
        payload,
        extended_header_info,
    })
}

pub fn p_message_config(c: &MessageConfig) -> String {
    format!(
        "{} {} {} {} {} {} {} {}",
        c.version,
        c.counter,
        p_endian(c.endianness),
        p_opt(&c.ecu_id, p_str),
        p_opt(&c.session_id, |v| v.to_string()),
        p_opt(&c.timestamp, |v| v.to_string()),
        p_payload(&c.payload),
        p_opt(&c.extended_header_info, |e| format!(
            "{} {} {}",
            p_message_type(&e.message_type),
            p_str(&e.app_id),
            p_str(&e.context_id)
        ))
    )
}

fn op_new(c: MessageConfig, sh: Option<StorageHeader>, require_rt: bool) -> String {
    let r = guard(|| {
        let m = Message::new(c, sh);
        let e = m.header.endianness;
        let pl = match e {
            Endianness::Big => payload_bytes_be(&m),
            Endianness::Little => payload_bytes_le(&m),
        };
        let plen_ok = m.header.payload_length as usize == pl;
        let mut no_sh = m.clone();
        no_sh.storage_header = None;
        let blen_ok = m.byte_len() as usize == no_sh.as_bytes().len();
        let bytes = m.as_bytes();
        let back = match dlt_message(&bytes, None, m.storage_header.is_some()) {
            Ok((rest, ParsedMessage::Item(m2))) => same_msg(&m, &m2) && rest.is_empty(),
            _ => false,
        };
        (
            format!(
                "{} plen_ok={} blen_ok={} rt={}",
                p_message(&m),
                p_bool(plen_ok),
                p_bool(blen_ok),
                p_bool(back)
            ),
            plen_ok && blen_ok && (back || !require_rt),
        )
    });
    match r {
        Some((s, ok)) => format!("{}{}", s, oracle(ok, "built message is not self-consistent")),
        None => format!("PANIC{}", oracle(false, "panic")),
    }
}

/// serialised payload length = whole message minus headers (the payload writer is crate-private)
fn payload_bytes_le(m: &Message) -> usize {
    payload_len_via_bytes(m)
}
fn payload_bytes_be(m: &Message) -> usize {
    payload_len_via_bytes(m)
}
fn payload_len_via_bytes(m: &Message) -> usize {
    let mut no_sh = m.clone();
    no_sh.storage_header = None;
    let hl = 4
        + if m.header.ecu_id.is_some() { 4 } else { 0 }
        + if m.header.session_id.is_some() { 4 } else { 0 }
        + if m.header.timestamp.is_some() { 4 } else { 0 }
        + if m.extended_header.is_some() { 10 } else { 0 };
    no_sh.as_bytes().len() - hl
}

fn op_addsh(m: Message, s: u32, us: u32) -> String {
    let r = guard(|| {
        let mut no_sh = m.clone();
        no_sh.storage_header = None;
        let base = no_sh.as_bytes();
        let ecu = m.header.ecu_id.clone().unwrap_or_else(|| "ECU".to_string());
        let m2 = m.add_storage_header(Some(DltTimeStamp {
            seconds: s,
            microseconds: us,
        }));
        let b = m2.as_bytes();
        // expected: 16 bytes storage header in front of the unchanged message
        let mut exp = vec![0x44u8, 0x4c, 0x54, 0x01];
        exp.extend_from_slice(&s.to_le_bytes());
        exp.extend_from_slice(&us.to_le_bytes());
        let mut id = ecu.into_bytes();
        while id.len() < 4 {
            id.push(0);
        }
        let id_len = id.len();
        exp.extend_from_slice(&id);
        exp.extend_from_slice(&base);
        let ok = b == exp && (id_len != 4 || b.len() == base.len() + 16);
        (hex(&b), ok)
    });
    match r {
        Some((s, ok)) => format!("{}{}", s, oracle(ok, "storage header is not a 16 byte prefix with time and ecu id")),
        None => format!("PANIC{}", oracle(false, "panic")),
    }
}

pub fn dispatch(op: &str, t: &mut Toks) -> R<String> {
    let out = match op {
        "FROMMS" => {
            let n: u64 = t.num()?;
            p_time(n, 1000, guard(|| DltTimeStamp::from_ms(n)))
        }
        "FROMUS" => {
            let n: u64 = t.num()?;
            p_time(n, 1_000_000, guard(|| DltTimeStamp::from_us(n)))
        }
        "REAL" => op_real(&t.argument()?),
        "HTYP" => op_htyp(t.num()?),
        "MSIN" => op_msin(t.num()?),
        "TI" => op_ti(t.num()?),
        "ZTS" => {
            let n: usize = t.num()?;
            let s = t.bytes()?;
            op_zts(n, &s)
        }
        "IDS" => {
            let w = t.boolean()?;
            let bs = t.bytes()?;
            op_ids(w, &bs)
        }
        "ENC" => op_enc(&t.message()?),
        "PARSE" => {
            let w = t.boolean()?;
            let f = t.opt(|t| t.filter())?;
            let bs = t.bytes()?;
            op_parse(w, f, &bs)
        }
        "RT" => {
            let m = t.message()?;
            let sfx = t.bytes()?;
            op_rt(&m, &sfx)
        }
        "NOPANIC" => {
            let w = t.boolean()?;
            let f = t.opt(|t| t.filter())?;
            let bs = t.bytes()?;
            op_nopanic(w, f, &bs)
        }
        "CONSUME" => op_consume(&t.bytes()?),
        "CONS" => {
            let w = t.boolean()?;
            let f = t.opt(|t| t.filter())?;
            let bs = t.bytes()?;
            let pf = processed(&f, bs.len() % 2 == 0);
            match guard(|| match dlt_message(&bs, pf.as_ref(), w) {
                Ok((rest, pm)) => {
                    // the remainder must be a suffix of the input (same allocation, ends at its end)
                    let is_suffix = rest.len() <= bs.len()
                        && rest.as_ptr() as usize == bs.as_ptr() as usize + (bs.len() - rest.len());
                    let kind = match pm {
                        ParsedMessage::Item(_) => "item".to_string(),
                        ParsedMessage::FilteredOut(n) => format!("filtered:{}", n),
                        ParsedMessage::Invalid => "invalid".to_string(),
                    };
                    format!(
                        "OK rest={} kind={}{}",
                        rest.len(),
                        kind,
                        oracle(is_suffix || rest.is_empty(), "remainder is not a suffix of the input")
                    )
                }
                Err(_) => "ERR".to_string(),
            }) {
                Some(s) => s,
                None => format!("PANIC{}", oracle(false, "panic")),
            }
        }
        "NVA" => {
            let e = t.endian()?;
            let n: usize = t.num()?;
            let mut tis = Vec::with_capacity(n);
            for _ in 0..n {
                tis.push(t.type_info()?);
            }
            let d = t.bytes()?;
            match guard(|| match construct_arguments(e, &tis, &d) {
                Ok(args) => {
                    let mut s = format!("OK {}", args.len());
                    for a in &args {
                        s.push(' ');
                        s.push_str(&p_argument(a));
                    }
                    s
                }
                Err(_) => "ERR".to_string(),
            }) {
                Some(s) => s,
                None => format!("PANIC{}", oracle(false, "panic")),
            }
        }
        "SKIPSH" => op_skipsh(&t.bytes()?),
        "FWD" => op_fwd(&t.bytes()?),
        "CUTALL" => op_cutall(&t.message()?, 1),
        // the same for long messages: the first and last 64 cuts and every `step`-th in between
        "CUTS" => {
            let step: usize = t.num()?;
            op_cutall(&t.message()?, step.max(1))
        }
        "JUNK" => {
            let j = t.bytes()?;
            let m = t.message()?;
            let sfx = t.bytes()?;
            match guard(|| {
                let enc = m.as_bytes();
                let mut a = j.clone();
                a.extend_from_slice(&enc);
                a.extend_from_slice(&sfx);
                let mut b = enc.clone();
                b.extend_from_slice(&sfx);
                let ra = dlt_message(&a, None, true);
                let rb = dlt_message(&b, None, true);
                let same = match (&ra, &rb) {
                    (Ok((r1, ParsedMessage::Item(m1))), Ok((r2, ParsedMessage::Item(m2)))) => {
                        same_msg(m1, m2) && r1 == r2 && same_msg(m1, &m)
                    }
                    _ => false,
                };
                (format!("same={} {}", p_bool(same), p_class(&ra)), same)
            }) {
                Some((s, ok)) => format!("{}{}", s, oracle(ok, "junk in front of the pattern changes the parse")),
                None => format!("PANIC{}", oracle(false, "panic")),
            }
        }
        // the same with a filter: the result (item / filtered out) and the remainder must not depend
        // on the junk in front
        "JUNKF" => {
            let f = t.opt(|t| t.filter())?;
            let j = t.bytes()?;
            let m = t.message()?;
            let sfx = t.bytes()?;
            let pf = processed(&f, j.len() % 2 == 0);
            match guard(|| {
                let enc = m.as_bytes();
                let mut a = j.clone();
                a.extend_from_slice(&enc);
                a.extend_from_slice(&sfx);
                let mut b = enc.clone();
                b.extend_from_slice(&sfx);
                let ra = dlt_message(&a, pf.as_ref(), true);
                let rb = dlt_message(&b, pf.as_ref(), true);
                let same = match (&ra, &rb) {
                    (Ok((r1, ParsedMessage::Item(m1))), Ok((r2, ParsedMessage::Item(m2)))) => {
                        same_msg(m1, m2) && r1 == r2 && same_msg(m1, &m) && *r1 == &sfx[..]
                    }
                    (Ok((r1, ParsedMessage::FilteredOut(n1))), Ok((r2, ParsedMessage::FilteredOut(n2)))) => {
                        n1 == n2 && r1 == r2 && *r1 == &sfx[..]
                    }
                    _ => false,
                };
                (format!("same={} {}", p_bool(same), p_class(&ra)), same)
            }) {
                Some((s, ok)) => format!("{}{}", s, oracle(ok, "junk in front of the pattern changes the filtered parse")),
                None => format!("PANIC{}", oracle(false, "panic")),
            }
        }
        "STREAM" => {
            let n: usize = t.num()?;
            let mut items = vec![];
            for _ in 0..n {
                let j = t.bytes()?;
                let m = t.message()?;
                items.push((j, m));
            }
            match guard(|| {
                let mut bs = vec![];
                for (j, m) in &items {
                    bs.extend_from_slice(j);
                    bs.extend(m.as_bytes());
                }
                let mut got: Vec<ParsedMessage> = vec![];
                let mut rest: &[u8] = &bs;
                for _ in 0..=bs.len() {
                    match dlt_message(rest, None, true) {
                        Ok((r, pm)) => {
                            got.push(pm);
                            rest = r;
                        }
                        Err(_) => break,
                    }
                }
                let ok = got.len() == items.len()
                    && got.iter().zip(items.iter()).all(|(g, (_, m))| match g {
                        ParsedMessage::Item(x) => same_msg(x, m),
                        _ => false,
                    });
                (format!("count={} match={}", got.len(), p_bool(ok)), ok)
            }) {
                Some((s, ok)) => format!("{}{}", s, oracle(ok, "stream with junk is not recovered completely and in order")),
                None => format!("PANIC{}", oracle(false, "panic")),
            }
        }
        "STABLE" => {
            let w = t.boolean()?;
            let bs = t.bytes()?;
            op_stable(w, &bs)
        }
        "ARGLEN" => op_arglen(&t.argument()?),
        "VALID" => {
            let a = t.argument()?;
            let v = a.valid();
            let matches = match (&a.type_info.kind, &a.value) {
                (TypeInfoKind::Bool, Value::Bool(_)) => true,
                (TypeInfoKind::Float(FloatWidth::Width32), Value::F32(_)) => true,
                (TypeInfoKind::Float(FloatWidth::Width64), Value::F64(_)) => true,
                (TypeInfoKind::Bool, _) | (TypeInfoKind::Float(_), _) => false,
                _ => v,
            };
            format!("valid={}{}", p_bool(v), oracle(v == matches, "validity check wrong for bool/float kind"))
        }
        "NEW" => {
            let c = message_config(t)?;
            let sh = t.opt(|t| t.storage_header())?;
            op_new(c, sh, true)
        }
        // a configuration whose verbose arguments need not be well-typed: the recorded lengths must
        // still equal the serialised ones (parsing back to an equal message is not demanded)
        "NEWX" => {
            let c = message_config(t)?;
            let sh = t.opt(|t| t.storage_header())?;
            op_new(c, sh, false)
        }
        "ADDSH" => {
            let m = t.message()?;
            let s: u32 = t.num()?;
            let us: u32 = t.num()?;
            op_addsh(m, s, us)
        }
        "READ" | "AREAD" => {
            let w = t.boolean()?;
            let f = t.opt(|t| t.filter())?;
            let sched = crate::reader::steps(t)?;
            let data = t.bytes()?;
            if op == "READ" {
                crate::reader::op_read(w, f, sched, data)
            } else {
                crate::reader::op_aread(w, f, sched, data)
            }
        }
        // `ExtendedHeader::skip_with_level` itself, for every pair of message type and threshold
        // (also thresholds no numeric configuration produces)
        "SKIPLVL" => {
            let mt = t.message_type()?;
            let l = t.log_level()?;
            let eh = ExtendedHeader {
                verbose: false,
                argument_count: 0,
                message_type: mt,
                application_id: String::new(),
                context_id: String::new(),
            };
            match guard(|| eh.skip_with_level(l)) {
                Some(b) => format!("skip={}", p_bool(b)),
                None => "PANIC".to_string(),
            }
        }
        "FILT" => {
            let w = t.boolean()?;
            let f = t.filter()?;
            let bs = t.bytes()?;
            let borrowed = bs.len() % 2 == 0;
            let pf = processed(&Some(f), borrowed);
            match guard(|| {
                let plain = dlt_message(&bs, None, w);
                let filtered = dlt_message(&bs, pf.as_ref(), w);
                let same = match (&plain, &filtered) {
                    (Ok((r, ParsedMessage::Item(m))), Ok((r2, ParsedMessage::Item(m2)))) => {
                        p_bool(same_msg(m, m2) && r.len() == r2.len()).to_string()
                    }
                    (Ok((r, _)), Ok((r2, _))) => p_bool(r.len() == r2.len()).to_string(),
                    _ => "na".to_string(),
                };
                format!("{} -> {} same={}", p_class(&plain), p_class(&filtered), same)
            }) {
                Some(s) => s,
                None => format!("PANIC{}", oracle(false, "panic")),
            }
        }
        "STATS" => {
            let w = t.boolean()?;
            let k: usize = t.num()?;
            let mut lens = Vec::with_capacity(k);
            for _ in 0..k {
                lens.push(t.num::<usize>()?);
            }
            let nt: usize = t.num()?;
            let mut tree = Vec::with_capacity(nt);
            for _ in 0..nt {
                tree.push(t.tok()?);
            }
            let bytes = t.bytes()?;
            crate::stats::op_stats(w, &lens, &tree, &bytes)
        }
        _ => return Err(format!("unknown op {}", op)),
    };
    if !t.done() {
        return Err("trailing tokens".to_string());
    }
    Ok(out)
}

pub fn handle_line(line: &str) -> String {
    if line.starts_with("FIBEX") {
        let (head, tail) = match line.split_once(" EV") {
            Some(x) => x,
            None => return "BADREQ no EV".to_string(),
        };
        let mut t = Toks::new(head);
        let op = t.tok().unwrap_or("");
        let r = if op == "FIBEX" {
            crate::fibex::op_fibex(&mut t, tail)
        } else {
            let _flag = t.tok();
            crate::fibex::op_fibexdoc(&mut t, tail)
        };
        return match r {
            Ok(s) => s,
            Err(e) => format!("BADREQ {}", e),
        };
    }
    let mut t = Toks::new(line);
    match t.tok() {
        Err(_) => "BADREQ empty".to_string(),
        Ok(op) => match dispatch(op, &mut t) {
            Ok(s) => s,
            Err(e) => format!("BADREQ {}", e),
        },
    }
}
