//! Schedule-driven byte sources for the blocking and the asynchronous reader (C07, C08).
use crate::ops::{guard, processed};
use crate::wire::*;
use dlt_core::filtering::DltFilterConfig;
use dlt_core::parse::{DltParseError, ParsedMessage};
use std::collections::VecDeque;
use std::io::Read;
use std::pin::Pin;
use std::task::{Context, Poll};

#[derive(Clone, Copy, Debug)]
pub enum Step {
    Chunk(usize),
    Stall,
}

pub fn p_steps(s: &[Step]) -> String {
    let mut out = s.len().to_string();
    for x in s {
        match x {
            Step::Chunk(k) => out.push_str(&format!(" c{}", k)),
            Step::Stall => out.push_str(" s"),
        }
    }
    out
}

pub fn steps(t: &mut Toks) -> R<Vec<Step>> {
    let n: usize = t.num()?;
    let mut v = Vec::with_capacity(n);
    for _ in 0..n {
        let tok = t.tok()?;
        if tok == "s" {
            v.push(Step::Stall);
        } else if let Some(k) = tok.strip_prefix('c') {
            v.push(Step::Chunk(k.parse().map_err(|_| "bad step".to_string())?));
        } else {
            return Err(format!("bad step {}", tok));
        }
    }
    Ok(v)
}

pub struct SchedSource {
    data: Vec<u8>,
    pos: usize,
    sched: VecDeque<Step>,
}

impl SchedSource {
    pub fn new(data: Vec<u8>, sched: &[Step]) -> Self {
        SchedSource {
            data,
            pos: 0,
            sched: sched.iter().copied().collect(),
        }
    }
    fn deliver(&mut self, buf: &mut [u8], limit: usize) -> usize {
        let n = limit.min(buf.len()).min(self.data.len() - self.pos);
        buf[..n].copy_from_slice(&self.data[self.pos..self.pos + n]);
        self.pos += n;
        n
    }
}

impl Read for SchedSource {
    fn read(&mut self, buf: &mut [u8]) -> std::io::Result<usize> {
        match self.sched.pop_front() {
            None => Ok(self.deliver(buf, usize::MAX)),
            Some(Step::Chunk(k)) => Ok(self.deliver(buf, k.max(1))),
            Some(Step::Stall) => Err(std::io::ErrorKind::Interrupted.into()),
        }
    }
}

impl futures::AsyncRead for SchedSource {
    fn poll_read(
        mut self: Pin<&mut Self>,
        cx: &mut Context<'_>,
        buf: &mut [u8],
    ) -> Poll<std::io::Result<usize>> {
        match self.sched.pop_front() {
            None => Poll::Ready(Ok(self.deliver(buf, usize::MAX))),
            Some(Step::Chunk(k)) => Poll::Ready(Ok(self.deliver(buf, k.max(1)))),
            Some(Step::Stall) => {
                cx.waker().wake_by_ref();
                Poll::Pending
            }
        }
    }
}

fn p_delivered(r: &Result<Option<ParsedMessage>, DltParseError>) -> Option<String> {
    match r {
        Ok(None) => None,
        Ok(Some(pm)) => Some(format!("P {}", p_parsed(pm))),
        Err(DltParseError::IncompleteParse { .. }) => Some("E INCOMPLETE".into()),
        Err(DltParseError::ParsingHickup(_)) => Some("E HICKUP".into()),
        Err(DltParseError::Unrecoverable(_)) => Some("E UNRECOVERABLE".into()),
    }
}

const MAX_CALLS: usize = 100_000;

/// the blocking reader: one entry per `read_message` call until `Ok(None)`
pub fn run_blocking(w: bool, f: &Option<DltFilterConfig>, sched: &[Step], data: &[u8]) -> Vec<String> {
    let pf = processed(f, data.len() % 2 == 0);
    let mut out = vec![];
    let src = SchedSource::new(data.to_vec(), sched);
    // default capacities, the smallest permitted buffer (= the maximal message), and one in between
    const MAX_LEN: usize = 16 + 65535;
    let mut reader = match data.len() % 3 {
        0 => dlt_core::read::DltMessageReader::new(src, w),
        1 => dlt_core::read::DltMessageReader::with_capacity(MAX_LEN, MAX_LEN, src, w),
        _ => dlt_core::read::DltMessageReader::with_capacity(MAX_LEN + 4096, MAX_LEN, src, w),
    };
    for _ in 0..MAX_CALLS {
        let r = guard(|| dlt_core::read::read_message(&mut reader, pf.as_ref()));
        match r {
            None => {
                out.push("PANIC".to_string());
                return out;
            }
            Some(r) => match p_delivered(&r) {
                None => {
                    out.push("EOS".to_string());
                    return out;
                }
                Some(s) => out.push(s),
            },
        }
    }
    out.push("NO-END".to_string());
    out
}

/// the asynchronous reader under `futures::executor::block_on`
pub fn run_async(w: bool, f: &Option<DltFilterConfig>, sched: &[Step], data: &[u8]) -> Vec<String> {
    let pf = processed(f, data.len() % 2 == 0);
    let mut out = vec![];
    let src = SchedSource::new(data.to_vec(), sched);
    const MAX_LEN: usize = 16 + 65535;
    let mut reader = match data.len() % 3 {
        0 => dlt_core::stream::DltStreamReader::new(src, w),
        1 => dlt_core::stream::DltStreamReader::with_capacity(MAX_LEN, MAX_LEN, src, w),
        _ => dlt_core::stream::DltStreamReader::with_capacity(MAX_LEN + 4096, MAX_LEN, src, w),
    };
    for _ in 0..MAX_CALLS {
        let r = guard(|| {
            futures::executor::block_on(dlt_core::stream::read_message(&mut reader, pf.as_ref()))
        });
        match r {
            None => {
                out.push("PANIC".to_string());
                return out;
            }
            Some(r) => match p_delivered(&r) {
                None => {
                    out.push("EOS".to_string());
                    return out;
                }
                Some(s) => out.push(s),
            },
        }
    }
    out.push("NO-END".to_string());
    out
}

fn oracle(ok: bool, why: &str) -> String {
    if ok {
        " @@ oracle=ok".to_string()
    } else {
        format!(" @@ oracle=FAIL:{}", why.replace(' ', "_"))
    }
}

pub fn op_read(w: bool, f: Option<DltFilterConfig>, sched: Vec<Step>, data: Vec<u8>) -> String {
    let seq = run_blocking(w, &f, &sched, &data);
    // schedule independence, evaluated on the crate itself: the same bytes delivered at once
    let plain = run_blocking(w, &f, &[], &data);
    let no_panic = !seq.iter().any(|s| s == "PANIC" || s == "NO-END");
    format!(
        "{}{}",
        seq.join(" ; "),
        oracle(
            no_panic && seq == plain,
            if no_panic { "fragmentation changes what is delivered" } else { "panic or no end of stream" }
        )
    )
}

pub fn op_aread(w: bool, f: Option<DltFilterConfig>, sched: Vec<Step>, data: Vec<u8>) -> String {
    let seq = run_async(w, &f, &sched, &data);
    // blocking reader on the same bytes; Pending has no blocking counterpart, so the blocking
    // source delivers the same chunks without the stalls
    let chunks: Vec<Step> = sched.iter().copied().filter(|s| matches!(s, Step::Chunk(_))).collect();
    let blocking = run_blocking(w, &f, &chunks, &data);
    let no_panic = !seq.iter().any(|s| s == "PANIC" || s == "NO-END");
    format!(
        "{}{}",
        seq.join(" ; "),
        oracle(
            no_panic && seq == blocking,
            if no_panic { "async reader delivers something else than the blocking reader" } else { "panic or no end of stream" }
        )
    )
}
