//! FIBEX (C11, C12): abstract documents, XML rendering, quick-xml event dump, loading under a
//! watchdog, canonical printing.
use crate::gen::Rng;
use crate::wire::*;
use dlt_core::dlt::ExtendedHeader;
use dlt_core::fibex::{extract_metadata, gather_fibex_data, FibexConfig, FibexMetadata, FrameMetadata};
use quick_xml::events::Event as XmlEvent;
use quick_xml::Reader as XmlReader;
use std::sync::atomic::{AtomicUsize, Ordering};

// ------------------------------------------------------------------ documents

#[derive(Clone, Debug)]
pub struct Inst {
    pub id: String,
    pub seq: usize,
    pub r: String,
    /// layout only: the reference element is written before the SEQUENCE-NUMBER element
    pub ref_first: bool,
}

#[derive(Clone, Debug)]
pub struct PduDoc {
    pub id: String,
    pub short_name: Option<String>,
    pub desc: Option<String>,
    pub byte_length: usize,
    pub signals: Vec<Inst>,
}

#[derive(Clone, Debug)]
pub struct ExtDoc {
    pub message_type: Option<String>,
    pub message_info: Option<String>,
    pub application_id: Option<String>,
    pub context_id: Option<String>,
}

#[derive(Clone, Debug)]
pub struct FrameDoc {
    pub id: String,
    pub short_name: String,
    /// a DESC element of the frame (must never become the description of a PDU)
    pub desc: Option<String>,
    pub byte_length: usize,
    pub pdus: Vec<Inst>,
    pub ext: Option<ExtDoc>,
}

#[derive(Clone, Debug)]
pub enum Elem {
    Pdu(PduDoc),
    Frame(FrameDoc),
    Signal(String, String),
    Coding(String, String),
}

fn ps(s: &str) -> String {
    hex(s.as_bytes())
}

fn p_insts(v: &[Inst]) -> String {
    let mut s = v.len().to_string();
    for i in v {
        s.push_str(&format!(" {} {} {} {}", ps(&i.id), i.seq, ps(&i.r), if i.ref_first { 1 } else { 0 }));
    }
    s
}

pub fn p_doc(d: &[Elem]) -> String {
    let mut s = d.len().to_string();
    for e in d {
        s.push(' ');
        match e {
            Elem::Pdu(p) => s.push_str(&format!(
                "P {} {} {} {} {}",
                ps(&p.id),
                p_opt(&p.short_name, |x| ps(x)),
                p_opt(&p.desc, |x| ps(x)),
                p.byte_length,
                p_insts(&p.signals)
            )),
            Elem::Frame(f) => s.push_str(&format!(
                "F {} {} {} {} {} {}",
                ps(&f.id),
                ps(&f.short_name),
                p_opt(&f.desc, |y| ps(y)),
                f.byte_length,
                p_insts(&f.pdus),
                p_opt(&f.ext, |x| format!(
                    "{} {} {} {}",
                    p_opt(&x.message_type, |y| ps(y)),
                    p_opt(&x.message_info, |y| ps(y)),
                    p_opt(&x.application_id, |y| ps(y)),
                    p_opt(&x.context_id, |y| ps(y))
                ))
            )),
            Elem::Signal(id, c) => s.push_str(&format!("S {} {}", ps(id), ps(c))),
            Elem::Coding(id, b) => s.push_str(&format!("C {} {}", ps(id), ps(b))),
        }
    }
    s
}

fn esc(s: &str) -> String {
    s.replace('&', "&amp;")
        .replace('<', "&lt;")
        .replace('>', "&gt;")
        .replace('"', "&quot;")
}

fn text_elem(tag: &str, s: &str) -> String {
    format!("<{}>{}</{}>", tag, esc(s), tag)
}

/// compact rendering (no whitespace between elements), element order of tests/dlt-messages.xml
pub fn render_xml(d: &[Elem]) -> String {
    let mut x = String::from("<?xml version=\"1.0\" encoding=\"UTF-8\"?><fx:FIBEX x=\"y\"><fx:ELEMENTS>");
    for e in d {
        match e {
            Elem::Pdu(p) => {
                x.push_str(&format!("<fx:PDU ID=\"{}\">", esc(&p.id)));
                if let Some(s) = &p.short_name {
                    x.push_str(&text_elem("ho:SHORT-NAME", s));
                }
                if let Some(s) = &p.desc {
                    x.push_str(&text_elem("ho:DESC", s));
                }
                x.push_str(&text_elem("fx:BYTE-LENGTH", &p.byte_length.to_string()));
                x.push_str(&text_elem("fx:PDU-TYPE", "OTHER"));
                if !p.signals.is_empty() {
                    x.push_str("<fx:SIGNAL-INSTANCES>");
                    for i in &p.signals {
                        let seq = text_elem("fx:SEQUENCE-NUMBER", &i.seq.to_string());
                        let rf = format!("<fx:SIGNAL-REF ID-REF=\"{}\"/>", esc(&i.r));
                        let (a, b) = if i.ref_first { (rf, seq) } else { (seq, rf) };
                        x.push_str(&format!("<fx:SIGNAL-INSTANCE ID=\"{}\">{}{}</fx:SIGNAL-INSTANCE>", esc(&i.id), a, b));
                    }
                    x.push_str("</fx:SIGNAL-INSTANCES>");
                }
                x.push_str("</fx:PDU>");
            }
            Elem::Frame(f) => {
                x.push_str(&format!("<fx:FRAME ID=\"{}\">", esc(&f.id)));
                x.push_str(&text_elem("ho:SHORT-NAME", &f.short_name));
                if let Some(d) = &f.desc {
                    x.push_str(&text_elem("ho:DESC", d));
                }
                x.push_str(&text_elem("fx:BYTE-LENGTH", &f.byte_length.to_string()));
                x.push_str(&text_elem("fx:FRAME-TYPE", "OTHER"));
                x.push_str("<fx:PDU-INSTANCES>");
                for i in &f.pdus {
                    let seq = text_elem("fx:SEQUENCE-NUMBER", &i.seq.to_string());
                    let rf = format!("<fx:PDU-REF ID-REF=\"{}\"/>", esc(&i.r));
                    // (the repository's documents write a PDU instance's reference first)
                    let (a, b) = if i.ref_first { (seq, rf) } else { (rf, seq) };
                    x.push_str(&format!("<fx:PDU-INSTANCE ID=\"{}\">{}{}</fx:PDU-INSTANCE>", esc(&i.id), a, b));
                }
                x.push_str("</fx:PDU-INSTANCES>");
                if let Some(e) = &f.ext {
                    x.push_str("<fx:MANUFACTURER-EXTENSION>");
                    if let Some(s) = &e.message_type {
                        x.push_str(&text_elem("MESSAGE_TYPE", s));
                    }
                    if let Some(s) = &e.message_info {
                        x.push_str(&text_elem("MESSAGE_INFO", s));
                    }
                    if let Some(s) = &e.application_id {
                        x.push_str(&text_elem("APPLICATION_ID", s));
                    }
                    if let Some(s) = &e.context_id {
                        x.push_str(&text_elem("CONTEXT_ID", s));
                    }
                    x.push_str("</fx:MANUFACTURER-EXTENSION>");
                }
                x.push_str("</fx:FRAME>");
            }
            Elem::Signal(id, c) => x.push_str(&format!(
                "<fx:SIGNAL ID=\"{}\">{}<fx:CODING-REF ID-REF=\"{}\"/></fx:SIGNAL>",
                esc(id),
                text_elem("ho:SHORT-NAME", id),
                esc(c)
            )),
            Elem::Coding(id, b) => x.push_str(&format!(
                "<fx:CODING ID=\"{}\">{}<ho:CODED-TYPE ho:BASE-DATA-TYPE=\"{}\" CATEGORY=\"STANDARD-LENGTH-TYPE\"/></fx:CODING>",
                esc(id),
                text_elem("ho:SHORT-NAME", id),
                esc(b)
            )),
        }
    }
    x.push_str("</fx:ELEMENTS></fx:FIBEX>");
    x
}

/// the same document with whitespace, comments and irrelevant elements between the elements
pub fn prettify(r: &mut Rng, xml: &str) -> String {
    let mut out: Vec<u8> = Vec::new();
    let mut depth = 0usize;
    let mut prev_open = false;
    let bytes = xml.as_bytes();
    let mut i = 0;
    while i < bytes.len() {
        if bytes[i] == b'<' && i + 1 < bytes.len() {
            let close = bytes[i + 1] == b'/';
            let end = xml[i..].find('>').map(|k| i + k + 1).unwrap_or(bytes.len());
            let selfclose = end >= 2 && bytes[end - 2] == b'/';
            let decl = bytes[i + 1] == b'?';
            // only put whitespace in front of a tag that follows another tag (never inside text)
            // never between an opening tag and its own closing tag (an empty element stays empty)
            let after_tag = i > 0 && bytes[i - 1] == b'>' && !(close && prev_open);
            if after_tag || i == 0 {
                if close && depth > 0 {
                    depth -= 1;
                }
                if i > 0 {
                    out.push(b'\n');
                    for _ in 0..depth {
                        out.extend_from_slice(b"  ");
                    }
                    if r.chance(1, 12) {
                        out.extend_from_slice(b"<!-- note -->");
                    }
                    if r.chance(1, 25) && !close {
                        out.extend_from_slice(b"<fx:UNRELATED a=\"1\">z</fx:UNRELATED>");
                    }
                }
                if !close && !selfclose && !decl {
                    depth += 1;
                }
            } else if close && depth > 0 {
                depth -= 1;
            }
            if !close && !decl && r.chance(1, 5) {
                // attributes the loader does not know, with names close to the ones it looks for
                // (FIBEX elements carry an OID next to their ID): in front of the known attributes
                // and behind them
                const DECOYS: &[&str] = &[
                    " OID=\"o-1\"", " UUID=\"u\"", " XID=\"ID_9\"", " MY-ID=\"k\"", " ID-REF-OLD=\"ID_1\"",
                    " NO=\"7\"", " SOURCE=\"x\"",
                    " T=\"S_BOOL\"", " xsi:typo=\"t\"", " DATA-TYPE=\"A_UINT8\"", " REF=\"r\"", " D=\"\"",
                    " IE=\"P_1\"", " ID-REG=\"q\"", " BASE-DATA-TYPO=\"A_INT8\"",
                ];
                let tag = &bytes[i..end];
                let name_end = tag.iter().position(|b| *b == b' ' || *b == b'>' || *b == b'/').unwrap_or(tag.len());
                let tail_start = if selfclose { tag.len() - 2 } else { tag.len() - 1 };
                out.extend_from_slice(&tag[..name_end]);
                if r.flip() {
                    out.extend_from_slice(r.pick(&DECOYS[..7]).as_bytes());
                }
                out.extend_from_slice(&tag[name_end..tail_start.max(name_end)]);
                if r.flip() {
                    out.extend_from_slice(r.pick(&DECOYS[7..]).as_bytes());
                }
                out.extend_from_slice(&tag[tail_start.max(name_end)..]);
            } else {
                out.extend_from_slice(&bytes[i..end]);
            }
            prev_open = !close && !selfclose && !decl;
            i = end;
        } else {
            out.push(bytes[i]);
            i += 1;
        }
    }
    String::from_utf8(out).expect("prettify keeps utf-8")
}

// ------------------------------------------------------------------ generation

const SIGNAL_NAMES: &[&str] = &[
    "S_BOOL", "S_SINT8", "S_UINT8", "S_SINT16", "S_UINT16", "S_SINT32", "S_UINT32", "S_SINT64",
    "S_UINT64", "S_FLOA16", "S_FLOA32", "S_FLOA64", "S_STRG_ASCII", "S_STRG_UTF8", "S_RAWD", "S_RAW",
];
const BASE_TYPES: &[&str] = &[
    "A_UINT8", "A_INT8", "A_SINT8", "A_UINT16", "A_INT16", "A_SINT16", "A_UINT32", "A_INT32",
    "A_SINT32", "A_UINT64", "A_INT64", "A_SINT64", "A_FLOAT32", "A_FLOAT64", "A_ASCIISTRING",
    "A_UNICODE2STRING", "A_BYTEFIELD", "other",
];

fn name(r: &mut Rng) -> String {
    const PARTS: &[&str] = &["a", "B", "msg", "x1", "é", "<", "&", "q\"", " ", "-", "_Z"];
    let n = r.range(1, 3);
    (0..n).map(|_| *r.pick(PARTS)).collect()
}

pub struct Model {
    pub files: Vec<Vec<Elem>>,
    pub lookups: Vec<(u32, Option<(String, String)>)>,
}

pub fn gen_model(r: &mut Rng) -> Model {
    let n_sig = r.below(4) as usize;
    let n_cod = r.below(4) as usize;
    let mut sig_ids: Vec<String> = (0..n_sig).map(|i| format!("SIG_{}", i)).collect();
    // a catalogue that also lists SIGNAL elements under standard names (the built-in meaning of
    // a standard name must win over such an entry)
    if r.chance(1, 3) {
        for _ in 0..r.range(1, 3) {
            sig_ids.push(r.pick(SIGNAL_NAMES).to_string());
        }
    }
    let cod_ids: Vec<String> = (0..n_cod).map(|i| format!("COD_{}", i)).collect();
    let mut elems: Vec<Elem> = vec![];
    for id in &sig_ids {
        let c = if !cod_ids.is_empty() && r.chance(5, 6) { r.pick(&cod_ids).clone() } else { "COD_missing".to_string() };
        elems.push(Elem::Signal(id.clone(), c));
        if r.chance(1, 8) {
            // redefinition: the last one is in force
            elems.push(Elem::Signal(id.clone(), if cod_ids.is_empty() { "X".into() } else { r.pick(&cod_ids).clone() }));
        }
    }
    for id in &cod_ids {
        elems.push(Elem::Coding(id.clone(), r.pick(BASE_TYPES).to_string()));
        if r.chance(1, 8) {
            elems.push(Elem::Coding(id.clone(), r.pick(BASE_TYPES).to_string()));
        }
    }
    let n_pdu = r.below(6) as usize;
    let pdu_ids: Vec<String> = (0..n_pdu).map(|i| format!("ID_{}", 4000 + i)).collect();
    let seq = |r: &mut Rng, k: usize| -> usize {
        match r.below(7) {
            0 => r.below(3) as usize,           // ties
            1 => 1000 - k,                        // descending
            // numbers are `usize`: values around 2^16, 2^31, 2^32, 2^63 and the largest one
            2 => *r.pick(&[65535usize, 65536, (1 << 31) - 1, 1 << 31, u32::MAX as usize, (u32::MAX as usize) + 1,
                           (1usize << 32) + 7, 1usize << 63, usize::MAX - 1, usize::MAX]),
            _ => r.below(20) as usize,
        }
    };
    let blen = |r: &mut Rng| -> usize {
        if r.chance(1, 8) {
            *r.pick(&[255usize, 256, 65535, 65536, u32::MAX as usize, (u32::MAX as usize) + 1, usize::MAX])
        } else {
            r.below(64) as usize
        }
    };
    for (pi, id) in pdu_ids.iter().enumerate() {
        let ns = r.below(5) as usize;
        let signals = (0..ns)
            .map(|k| Inst {
                ref_first: r.chance(1, 3),
                id: format!("I{}_{}", pi, k),
                seq: seq(r, k),
                r: match r.below(10) {
                    0 if !sig_ids.is_empty() => r.pick(&sig_ids).clone(),
                    1 if !sig_ids.is_empty() => r.pick(&sig_ids).clone(),
                    2 => "S_UNKNOWN".to_string(),
                    _ => r.pick(SIGNAL_NAMES).to_string(),
                },
            })
            .collect();
        let p = PduDoc {
            id: id.clone(),
            short_name: r.chance(5, 6).then(|| name(r)),
            desc: match r.below(4) {
                0 => None,
                1 => Some(String::new()),
                _ => Some(name(r)),
            },
            byte_length: blen(r),
            signals,
        };
        elems.push(Elem::Pdu(p.clone()));
        if r.chance(1, 10) {
            // duplicate PDU id: the first definition wins
            let mut q = p.clone();
            q.desc = Some("dup".into());
            q.signals.reverse();
            elems.push(Elem::Pdu(q));
        }
    }
    let n_frame = r.below(5) as usize;
    let mut frame_ids: Vec<u32> = vec![];
    let mut exts: Vec<(u32, Option<(String, String)>)> = vec![];
    for fi in 0..n_frame {
        let idn = 60 + r.below(6) as u32; // collisions on purpose
        let repeated = frame_ids.contains(&idn);
        frame_ids.push(idn);
        let np = if pdu_ids.is_empty() { 0 } else { r.below(5) as usize };
        let pdus = (0..np)
            .map(|k| Inst {
                ref_first: r.chance(1, 3),
                id: format!("PI{}_{}", fi, k),
                seq: seq(r, k),
                // a dangling reference must fail loading also in a repeated definition of a frame
                r: if r.chance(1, if repeated { 8 } else { 40 }) { "ID_dangling".to_string() } else { r.pick(&pdu_ids).clone() },
            })
            .collect();
        let ext = r.chance(3, 4).then(|| ExtDoc {
            message_type: r.chance(3, 4).then(|| "DLT_TYPE_LOG".to_string()),
            message_info: r.chance(3, 4).then(|| "DLT_LOG_WARN".to_string()),
            application_id: r.chance(5, 6).then(|| r.pick(&["DR", "APP", "A&B", "APP", "DR", "APP\u{e9}", "LONGAPPID", "\u{c4}\u{d6}\u{dc}", "AB\u{20ac}D"]).to_string()),
            context_id: r.chance(5, 6).then(|| r.pick(&["CTX1", "C", "T<1", "CTX1", "C", "CT\u{20ac}1", "CONTEXT-LONG", "\u{1f600}", "abc\u{e9}\u{e9}"]).to_string()),
        });
        if let Some(e) = &ext {
            if let (Some(a), Some(c)) = (&e.application_id, &e.context_id) {
                exts.push((idn, Some((a.clone(), c.clone()))));
            }
        }
        elems.push(Elem::Frame(FrameDoc {
            id: format!("ID_{}", idn),
            short_name: name(r),
            desc: match r.below(4) {
                0 => Some(name(r)),
                1 => Some(String::new()),
                _ => None,
            },
            byte_length: blen(r),
            pdus,
            ext,
        }));
    }
    // element order inside the documents does not matter: shuffle
    if r.chance(2, 3) {
        for i in (1..elems.len()).rev() {
            let j = r.below(i as u64 + 1) as usize;
            elems.swap(i, j);
        }
    }
    // distribution over 1..4 files
    let nf = r.range(1, 4) as usize;
    let mut files: Vec<Vec<Elem>> = vec![vec![]; nf];
    for e in elems {
        let k = r.below(nf as u64) as usize;
        files[k].push(e);
    }
    let mut lookups = vec![];
    for _ in 0..4 {
        let id = if !frame_ids.is_empty() && r.chance(3, 4) { *r.pick(&frame_ids) } else { r.below(100) as u32 };
        let e = match r.below(5) {
            0 => None,
            1 if !exts.is_empty() => r.pick(&exts).1.clone(),
            // an extended header is supplied, but one or both of its ids are empty: still a keyed lookup
            2 => Some((String::new(), String::new())),
            3 => if r.flip() { Some(("DR".to_string(), String::new())) } else { Some((String::new(), "CTX1".to_string())) },
            _ => Some(("DR".to_string(), "CTX1".to_string())),
        };
        lookups.push((id, e));
    }
    Model { files, lookups }
}

pub fn p_lookups(l: &[(u32, Option<(String, String)>)]) -> String {
    let mut s = l.len().to_string();
    for (id, e) in l {
        s.push_str(&format!(" {} {}", id, p_opt(e, |(a, c)| format!("{} {}", ps(a), ps(c)))));
    }
    s
}

// ------------------------------------------------------------------ event dump

fn tag_token(local: &[u8]) -> &'static str {
    const TAGS: &[&str] = &[
        "PDU", "SHORT-NAME", "BYTE-LENGTH", "SIGNAL-INSTANCE", "SEQUENCE-NUMBER", "SIGNAL-REF",
        "PDU-TYPE", "FRAME-TYPE", "FRAME", "PDU-INSTANCE", "PDU-REF", "MANUFACTURER-EXTENSION",
        "APPLICATION_ID", "CONTEXT_ID", "MESSAGE_INFO", "MESSAGE_TYPE", "DESC", "CODING", "SIGNAL",
        "CODED-TYPE", "CODING-REF",
    ];
    for t in TAGS {
        if t.as_bytes() == local {
            return t;
        }
    }
    "other"
}

fn dump_attrs(e: &quick_xml::events::BytesStart) -> String {
    let mut items: Vec<String> = vec![];
    for a in e.attributes() {
        match a {
            Ok(attr) => {
                let v = attr.unescape_value().ok().map(|c| c.into_owned());
                items.push(format!("A {} {}", hex(attr.key.as_ref()), p_opt(&v, |x| hex(x.as_bytes()))));
            }
            Err(_) => {
                items.push("AE".to_string());
                break;
            }
        }
    }
    let mut s = items.len().to_string();
    for i in items {
        s.push(' ');
        s.push_str(&i);
    }
    s
}

/// the results of successive `read_event_into` calls of quick-xml (same version and
/// configuration as the crate: `Reader::from_file`, defaults) until `Eof`
pub fn dump_events(path: &std::path::Path) -> Option<String> {
    let mut reader = XmlReader::from_file(path).ok()?;
    let mut buf = Vec::new();
    let mut evs: Vec<String> = vec![];
    let mut errors = 0usize;
    loop {
        if evs.len() > 2_000_000 {
            break;
        }
        match reader.read_event_into(&mut buf) {
            Ok(XmlEvent::Start(e)) => evs.push(format!("S {} {}", tag_token(e.local_name().as_ref()), dump_attrs(&e))),
            Ok(XmlEvent::Empty(e)) => evs.push(format!("E {} {}", tag_token(e.local_name().as_ref()), dump_attrs(&e))),
            Ok(XmlEvent::End(e)) => evs.push(format!("X {}", tag_token(e.local_name().as_ref()))),
            Ok(XmlEvent::Text(e)) => {
                let t = e.unescape().ok().map(|c| c.into_owned());
                evs.push(format!("T {}", p_opt(&t, |x| hex(x.as_bytes()))));
            }
            Ok(XmlEvent::Eof) => break,
            Ok(_) => evs.push("O".to_string()),
            Err(_) => {
                evs.push("R".to_string());
                errors += 1;
                // the loader reads at most two more events after an error (DESC swallows one)
                if errors >= 4 {
                    break;
                }
            }
        }
        buf.clear();
    }
    let mut s = evs.len().to_string();
    for e in evs {
        s.push(' ');
        s.push_str(&e);
    }
    Some(s)
}

// ------------------------------------------------------------------ files

static COUNTER: AtomicUsize = AtomicUsize::new(0);

pub struct Scratch {
    pub dir: std::path::PathBuf,
}

impl Scratch {
    pub fn new() -> Self {
        let n = COUNTER.fetch_add(1, Ordering::SeqCst);
        let dir = std::env::temp_dir().join(format!("dltverif_fibex_{}_{}", std::process::id(), n));
        std::fs::create_dir_all(&dir).expect("scratch dir");
        Scratch { dir }
    }
    pub fn write(&self, i: usize, content: &[u8]) -> std::path::PathBuf {
        let p = self.dir.join(format!("f{}.xml", i));
        std::fs::write(&p, content).expect("write xml");
        p
    }
    pub fn missing(&self, i: usize) -> std::path::PathBuf {
        self.dir.join(format!("missing{}.xml", i))
    }
}

impl Drop for Scratch {
    fn drop(&mut self) {
        let _ = std::fs::remove_dir_all(&self.dir);
    }
}

/// request text for a list of files (`None` = a path that cannot be opened)
pub fn request_files(files: &[Option<Vec<u8>>]) -> (String, String) {
    let sc = Scratch::new();
    let mut marks = String::new();
    let mut evs = String::new();
    for (i, f) in files.iter().enumerate() {
        match f {
            None => marks.push_str(" -"),
            Some(b) => {
                let p = sc.write(i, b);
                marks.push_str(&format!(" + {}", hex(b)));
                evs.push(' ');
                evs.push_str(&dump_events(&p).unwrap_or_else(|| "0".to_string()));
            }
        }
    }
    (marks, evs)
}

// ------------------------------------------------------------------ loading and printing

fn p_pdu(p: &dlt_core::fibex::PduMetadata) -> String {
    let mut s = format!("{} {}", p_opt(&p.description, |x| ps(x)), p.signal_types.len());
    for t in &p.signal_types {
        s.push(' ');
        s.push_str(&p_type_info(t));
    }
    s
}

fn p_frame(f: &FrameMetadata) -> String {
    let mut s = format!(
        "{} {} {} {} {} {}",
        ps(&f.short_name),
        p_opt(&f.application_id, |x| ps(x)),
        p_opt(&f.context_id, |x| ps(x)),
        p_opt(&f.message_type, |x| ps(x)),
        p_opt(&f.message_info, |x| ps(x)),
        f.pdus.len()
    );
    for p in &f.pdus {
        s.push(' ');
        s.push_str(&p_pdu(p));
    }
    s
}

fn p_meta(md: &FibexMetadata) -> String {
    let mut ks: Vec<_> = md.frame_map_with_key.iter().collect();
    ks.sort_by(|a, b| {
        (a.0.context_id.as_bytes(), a.0.app_id.as_bytes(), a.0.frame_id.as_bytes())
            .cmp(&(b.0.context_id.as_bytes(), b.0.app_id.as_bytes(), b.0.frame_id.as_bytes()))
    });
    let mut is: Vec<_> = md.frame_map.iter().collect();
    is.sort_by(|a, b| a.0.as_bytes().cmp(b.0.as_bytes()));
    let mut s = format!("MD K {}", ks.len());
    for (k, f) in ks {
        s.push_str(&format!(" {} {} {} {}", ps(&k.context_id), ps(&k.app_id), ps(&k.frame_id), p_frame(f)));
    }
    s.push_str(&format!(" I {}", is.len()));
    for (id, f) in is {
        s.push_str(&format!(" {} {}", ps(id), p_frame(f)));
    }
    s
}

fn load_and_print(paths: Vec<String>, lookups: Vec<(u32, Option<(String, String)>)>) -> String {
    match gather_fibex_data(FibexConfig { fibex_file_paths: paths }) {
        None => "none".to_string(),
        Some(md) => {
            let mut s = p_meta(&md);
            s.push_str(" | L");
            for (id, e) in &lookups {
                let eh = e.as_ref().map(|(app, ctx)| ExtendedHeader {
                    verbose: false,
                    argument_count: 0,
                    message_type: dlt_core::dlt::MessageType::Log(dlt_core::dlt::LogLevel::Info),
                    application_id: app.clone(),
                    context_id: ctx.clone(),
                });
                match extract_metadata(&md, *id, eh.as_ref()) {
                    Some(f) => s.push_str(&format!(" + {} {}", ps(&f.short_name), f.pdus.len())),
                    None => s.push_str(" -"),
                }
            }
            s
        }
    }
}

static HANGS: AtomicUsize = AtomicUsize::new(0);
const WATCHDOG_SECS: u64 = 10;

/// run the load on its own thread; a result that does not arrive in time is a hang
fn watched(paths: Vec<String>, lookups: Vec<(u32, Option<(String, String)>)>) -> String {
    if HANGS.load(Ordering::SeqCst) >= 6 {
        return "SKIPPED-AFTER-HANGS @@ oracle=FAIL:earlier_loads_did_not_terminate".to_string();
    }
    let (tx, rx) = std::sync::mpsc::channel();
    std::thread::spawn(move || {
        let r = std::panic::catch_unwind(std::panic::AssertUnwindSafe(|| load_and_print(paths, lookups)));
        let _ = tx.send(r);
    });
    match rx.recv_timeout(std::time::Duration::from_secs(WATCHDOG_SECS)) {
        Ok(Ok(s)) => s,
        Ok(Err(_)) => "PANIC @@ oracle=FAIL:panic".to_string(),
        Err(_) => {
            HANGS.fetch_add(1, Ordering::SeqCst);
            "HANG @@ oracle=FAIL:loading_does_not_terminate".to_string()
        }
    }
}

fn lookups(t: &mut Toks) -> R<Vec<(u32, Option<(String, String)>)>> {
    let n: usize = t.num()?;
    let mut v = vec![];
    for _ in 0..n {
        let id: u32 = t.num()?;
        let e = t.opt(|t| {
            let a = t.string()?;
            let c = t.string()?;
            Ok((a, c))
        })?;
        v.push((id, e));
    }
    Ok(v)
}

/// `FIBEX <n> (- | + x<xml>)* <lookups> EV <events>`: write the files, load, print; the
/// events in the request must be what quick-xml yields for these files now
pub fn op_fibex(t: &mut Toks, rest_of_line_after_ev: &str) -> R<String> {
    let n: usize = t.num()?;
    let sc = Scratch::new();
    let mut paths = vec![];
    let mut dumped = String::new();
    for i in 0..n {
        match t.tok()? {
            "-" => paths.push(sc.missing(i).to_string_lossy().into_owned()),
            "+" => {
                let b = t.bytes()?;
                let p = sc.write(i, &b);
                dumped.push(' ');
                dumped.push_str(&dump_events(&p).unwrap_or_else(|| "0".to_string()));
                paths.push(p.to_string_lossy().into_owned());
            }
            x => return Err(format!("bad file marker {}", x)),
        }
    }
    let ls = lookups(t)?;
    if dumped.trim() != rest_of_line_after_ev.trim() {
        return Ok("EVENTS-DIFFER @@ oracle=FAIL:request_events_are_not_what_quick_xml_yields".to_string());
    }
    Ok(watched(paths, ls))
}

/// `FIBEXDOC <n> (<doc> x<xml>)* <lookups> EV <events>`
pub fn op_fibexdoc(t: &mut Toks, rest_of_line_after_ev: &str) -> R<String> {
    let n: usize = t.num()?;
    let sc = Scratch::new();
    let mut paths = vec![];
    let mut dumped = String::new();
    for i in 0..n {
        skip_doc(t)?;
        let b = t.bytes()?;
        let p = sc.write(i, &b);
        dumped.push(' ');
        dumped.push_str(&dump_events(&p).unwrap_or_else(|| "0".to_string()));
        paths.push(p.to_string_lossy().into_owned());
    }
    let ls = lookups(t)?;
    if dumped.trim() != rest_of_line_after_ev.trim() {
        return Ok("EVENTS-DIFFER @@ oracle=FAIL:request_events_are_not_what_quick_xml_yields".to_string());
    }
    Ok(watched(paths, ls))
}

fn skip_opt_bytes(t: &mut Toks) -> R<()> {
    t.opt(|t| t.bytes().map(|_| ())).map(|_| ())
}

fn skip_insts(t: &mut Toks) -> R<()> {
    let n: usize = t.num()?;
    for _ in 0..n {
        t.bytes()?;
        let _: usize = t.num()?;
        t.bytes()?;
        t.boolean()?;
    }
    Ok(())
}

fn skip_doc(t: &mut Toks) -> R<()> {
    let n: usize = t.num()?;
    for _ in 0..n {
        match t.tok()? {
            "P" => {
                t.bytes()?;
                skip_opt_bytes(t)?;
                skip_opt_bytes(t)?;
                let _: usize = t.num()?;
                skip_insts(t)?;
            }
            "F" => {
                t.bytes()?;
                t.bytes()?;
                skip_opt_bytes(t)?;
                let _: usize = t.num()?;
                skip_insts(t)?;
                t.opt(|t| {
                    for _ in 0..4 {
                        skip_opt_bytes(t)?;
                    }
                    Ok(())
                })?;
            }
            "S" | "C" => {
                t.bytes()?;
                t.bytes()?;
            }
            x => return Err(format!("bad element {}", x)),
        }
    }
    Ok(())
}
