//! One PRNG, type-directed generators for well-formed values, and mutators.
use dlt_core::dlt::*;
use dlt_core::filtering::DltFilterConfig;

#[derive(Clone)]
pub struct Rng(pub u64);

impl Rng {
    pub fn new(seed: u64) -> Self {
        Rng(seed.wrapping_mul(0x9E3779B97F4A7C15) ^ 0xD1B54A32D192ED03)
    }
    pub fn next(&mut self) -> u64 {
        self.0 = self.0.wrapping_add(0x9E3779B97F4A7C15);
        let mut z = self.0;
        z = (z ^ (z >> 30)).wrapping_mul(0xBF58476D1CE4E5B9);
        z = (z ^ (z >> 27)).wrapping_mul(0x94D049BB133111EB);
        z ^ (z >> 31)
    }
    /// uniform in 0..n (n > 0)
    pub fn below(&mut self, n: u64) -> u64 {
        self.next() % n
    }
    pub fn range(&mut self, lo: u64, hi_incl: u64) -> u64 {
        lo + self.below(hi_incl - lo + 1)
    }
    pub fn chance(&mut self, num: u64, den: u64) -> bool {
        self.below(den) < num
    }
    pub fn flip(&mut self) -> bool {
        self.next() & 1 == 1
    }
    pub fn pick<'a, T>(&mut self, xs: &'a [T]) -> &'a T {
        &xs[self.below(xs.len() as u64) as usize]
    }
    pub fn bytes(&mut self, n: usize) -> Vec<u8> {
        (0..n).map(|_| self.next() as u8).collect()
    }
    /// integers biased to boundaries of the given bit width
    pub fn int_bits(&mut self, bits: u32) -> u128 {
        let mask: u128 = if bits == 128 { u128::MAX } else { (1u128 << bits) - 1 };
        let r = ((self.next() as u128) << 64) | self.next() as u128;
        match self.below(8) {
            0 => 0,
            1 => mask,
            2 => 1,
            3 => (mask >> 1) + 1, // sign bit only
            4 => mask >> 1,
            5 => r & mask & 0xff,
            _ => r & mask,
        }
    }
}

const SCALARS: &[&str] = &[
    "a", "Z", "0", " ", "~", "\u{1}", "\u{7f}", "é", "ß", "\u{80}", "\u{7ff}", "€", "\u{800}",
    "\u{ffff}", "\u{d7ff}", "\u{e000}", "😀", "\u{10000}", "\u{10ffff}",
];

/// valid UTF-8 without NUL of at most `max_bytes` bytes
pub fn utf8_no_nul(r: &mut Rng, max_bytes: usize) -> String {
    let mut s = String::new();
    let target = r.below(max_bytes as u64 + 1) as usize;
    let mut tries = 0;
    while s.len() < target && tries < 4 * max_bytes + 8 {
        tries += 1;
        let c = if r.chance(3, 4) {
            *r.pick(&SCALARS[..5])
        } else {
            *r.pick(SCALARS)
        };
        if s.len() + c.len() <= target {
            s.push_str(c);
        }
    }
    s
}

pub fn id(r: &mut Rng) -> String {
    match r.below(10) {
        0 => String::new(),
        1..=5 => {
            let n = r.range(1, 4) as usize;
            (0..n)
                .map(|_| *r.pick(&['A', 'B', 'C', 'x', '1', ' ', '_']))
                .collect()
        }
        _ => utf8_no_nul(r, 4),
    }
}

/// random bytes; one time in six (when they fit) the storage-header pattern is embedded, so that
/// payloads, raw values and network-trace slices contain `DLT\x01` themselves
pub fn blob_bytes(r: &mut Rng, n: usize) -> Vec<u8> {
    let mut v = r.bytes(n);
    if n >= 4 && r.chance(1, 6) {
        let at = r.below((n - 3) as u64) as usize;
        v[at..at + 4].copy_from_slice(&[0x44, 0x4c, 0x54, 0x01]);
    }
    v
}

pub fn text(r: &mut Rng, big: bool) -> String {
    match r.below(20) {
        0 => String::new(),
        1 if big => {
            let n = r.range(200, 3000) as usize;
            "x".repeat(n)
        }
        2..=4 => utf8_no_nul(r, 40),
        5 => format!("{}DLT\u{1}{}", utf8_no_nul(r, 6), utf8_no_nul(r, 6)),
        _ => utf8_no_nul(r, 8),
    }
}

pub fn type_length(r: &mut Rng) -> TypeLength {
    *r.pick(&[
        TypeLength::BitLength8,
        TypeLength::BitLength16,
        TypeLength::BitLength32,
        TypeLength::BitLength64,
        TypeLength::BitLength128,
    ])
}

pub fn float_width(r: &mut Rng) -> FloatWidth {
    *r.pick(&[FloatWidth::Width32, FloatWidth::Width64])
}

pub fn coding(r: &mut Rng) -> StringCoding {
    match r.below(4) {
        0 => StringCoding::ASCII,
        1 => StringCoding::UTF8,
        _ => StringCoding::Reserved(r.range(2, 7) as u8),
    }
}

pub fn kind(r: &mut Rng) -> TypeInfoKind {
    match r.below(8) {
        0 => TypeInfoKind::Bool,
        1 => TypeInfoKind::Signed(type_length(r)),
        2 => TypeInfoKind::SignedFixedPoint(float_width(r)),
        3 => TypeInfoKind::Unsigned(type_length(r)),
        4 => TypeInfoKind::UnsignedFixedPoint(float_width(r)),
        5 => TypeInfoKind::Float(float_width(r)),
        6 => TypeInfoKind::StringType,
        _ => TypeInfoKind::Raw,
    }
}

pub fn type_info(r: &mut Rng) -> TypeInfo {
    TypeInfo {
        kind: kind(r),
        coding: if r.chance(1, 2) { StringCoding::ASCII } else { coding(r) },
        has_variable_info: r.chance(1, 3),
        has_trace_info: r.chance(1, 5),
    }
}

pub fn f32_bits(r: &mut Rng) -> u32 {
    const SPECIAL: &[u32] = &[
        0, 0x8000_0000, 0x3f80_0000, 0xbf80_0000, 0x7f80_0000, 0xff80_0000, 0x7fc0_0000,
        0x7f80_0001, 0xffc0_0001, 0x7fa0_0000, 0xff80_0001, 0x7fbf_ffff, 0xffbf_ffff, 1, 0x007f_ffff, 0x0080_0000, 0x7f7f_ffff, 0x3c23_d70a,
        0x3f00_0000, 0x4b00_0000, 0x5f00_0000, 0x5f80_0000, 0x4f80_0000, 0x3e80_0000,
    ];
    if r.chance(1, 2) {
        *r.pick(SPECIAL)
    } else {
        r.next() as u32
    }
}

pub fn f64_bits(r: &mut Rng) -> u64 {
    const SPECIAL: &[u64] = &[
        0, 0x8000_0000_0000_0000, 0x3ff0_0000_0000_0000, 0x7ff0_0000_0000_0000,
        0xfff0_0000_0000_0000, 0x7ff8_0000_0000_0000, 0x7ff0_0000_0000_0001, 0xfff4_0000_0000_0000, 1,
    ];
    if r.chance(1, 3) {
        *r.pick(SPECIAL)
    } else {
        r.next()
    }
}

pub fn int_value(r: &mut Rng, signed: bool, l: TypeLength) -> Value {
    let bits = l as u32;
    let v = r.int_bits(bits);
    match (signed, l) {
        (false, TypeLength::BitLength8) => Value::U8(v as u8),
        (false, TypeLength::BitLength16) => Value::U16(v as u16),
        (false, TypeLength::BitLength32) => Value::U32(v as u32),
        (false, TypeLength::BitLength64) => Value::U64(v as u64),
        (false, TypeLength::BitLength128) => Value::U128(v),
        (true, TypeLength::BitLength8) => Value::I8(v as u8 as i8),
        (true, TypeLength::BitLength16) => Value::I16(v as u16 as i16),
        (true, TypeLength::BitLength32) => Value::I32(v as u32 as i32),
        (true, TypeLength::BitLength64) => Value::I64(v as u64 as i64),
        (true, TypeLength::BitLength128) => Value::I128(v as i128),
    }
}

fn fw_to_tl(w: FloatWidth) -> TypeLength {
    match w {
        FloatWidth::Width32 => TypeLength::BitLength32,
        FloatWidth::Width64 => TypeLength::BitLength64,
    }
}

pub fn fixed_point(r: &mut Rng, w: FloatWidth) -> FixedPoint {
    FixedPoint {
        quantization: f32::from_bits(f32_bits(r)),
        offset: match w {
            FloatWidth::Width32 => FixedPointValue::I32(r.int_bits(32) as u32 as i32),
            FloatWidth::Width64 => FixedPointValue::I64(r.int_bits(64) as u64 as i64),
        },
    }
}

/// well-formed argument for the given type info
pub fn argument_for(r: &mut Rng, ti: TypeInfo, big: bool) -> Argument {
    let vari = ti.has_variable_info;
    let name = if vari { Some(text(r, big)) } else { None };
    let (unit, fixed_point, value) = match ti.kind {
        TypeInfoKind::Bool => (None, None, Value::Bool(if r.chance(1, 4) { r.next() as u8 } else { r.below(2) as u8 })),
        TypeInfoKind::Signed(l) => (vari.then(|| text(r, false)), None, int_value(r, true, l)),
        TypeInfoKind::Unsigned(l) => (vari.then(|| text(r, false)), None, int_value(r, false, l)),
        TypeInfoKind::SignedFixedPoint(w) => (
            vari.then(|| text(r, false)),
            Some(fixed_point(r, w)),
            int_value(r, true, fw_to_tl(w)),
        ),
        TypeInfoKind::UnsignedFixedPoint(w) => (
            vari.then(|| text(r, false)),
            Some(fixed_point(r, w)),
            int_value(r, false, fw_to_tl(w)),
        ),
        TypeInfoKind::Float(FloatWidth::Width32) => (
            vari.then(|| text(r, false)),
            None,
            Value::F32(f32::from_bits(f32_bits(r))),
        ),
        TypeInfoKind::Float(FloatWidth::Width64) => (
            vari.then(|| text(r, false)),
            None,
            Value::F64(f64::from_bits(f64_bits(r))),
        ),
        TypeInfoKind::StringType => (None, None, Value::StringVal(text(r, big))),
        TypeInfoKind::Raw => {
            let n = match r.below(12) {
                0 => 0,
                1 if big => r.range(100, 2000) as usize,
                _ => r.below(12) as usize,
            };
            (None, None, Value::Raw(blob_bytes(r, n)))
        }
    };
    Argument {
        type_info: ti,
        name,
        unit,
        fixed_point,
        value,
    }
}

pub fn argument(r: &mut Rng, big: bool) -> Argument {
    let ti = type_info(r);
    argument_for(r, ti, big)
}

pub fn log_level(r: &mut Rng) -> LogLevel {
    match r.below(9) {
        0 => LogLevel::Fatal,
        1 => LogLevel::Error,
        2 => LogLevel::Warn,
        3 => LogLevel::Info,
        4 => LogLevel::Debug,
        5 => LogLevel::Verbose,
        6 => LogLevel::Invalid(0),
        _ => LogLevel::Invalid(r.range(7, 15) as u8),
    }
}

pub fn control_type_msin(r: &mut Rng) -> ControlType {
    match r.below(4) {
        0 => ControlType::Request,
        1 => ControlType::Response,
        2 => ControlType::Unknown(0),
        _ => ControlType::Unknown(r.range(3, 15) as u8),
    }
}

/// canonical message types; `allow_nw` / `allow_control` select the kinds permitted
pub fn message_type(r: &mut Rng, allow_nw: bool, allow_control: bool) -> MessageType {
    loop {
        match r.below(5) {
            0 => return MessageType::Log(log_level(r)),
            1 => {
                return MessageType::ApplicationTrace(match r.below(7) {
                    0 => ApplicationTraceType::Variable,
                    1 => ApplicationTraceType::FunctionIn,
                    2 => ApplicationTraceType::FunctionOut,
                    3 => ApplicationTraceType::State,
                    4 => ApplicationTraceType::Vfb,
                    5 => ApplicationTraceType::Invalid(0),
                    _ => ApplicationTraceType::Invalid(r.range(6, 15) as u8),
                })
            }
            2 if allow_nw => return MessageType::NetworkTrace(network_type(r)),
            3 if allow_control => return MessageType::Control(control_type_msin(r)),
            4 => return MessageType::Unknown((r.range(4, 7) as u8, r.below(16) as u8)),
            _ => {}
        }
    }
}

pub fn network_type(r: &mut Rng) -> NetworkTraceType {
    match r.below(8) {
        0 => NetworkTraceType::Ipc,
        1 => NetworkTraceType::Can,
        2 => NetworkTraceType::Flexray,
        3 => NetworkTraceType::Most,
        4 => NetworkTraceType::Ethernet,
        5 => NetworkTraceType::Someip,
        6 => NetworkTraceType::Invalid,
        _ => NetworkTraceType::UserDefined(r.range(7, 15) as u8),
    }
}

pub struct MsgOpts {
    pub storage: Option<bool>,
    pub big: bool,
    pub max_args: usize,
}

impl Default for MsgOpts {
    fn default() -> Self {
        MsgOpts {
            storage: None,
            big: false,
            max_args: 6,
        }
    }
}

pub fn storage_header(r: &mut Rng) -> StorageHeader {
    StorageHeader {
        timestamp: DltTimeStamp {
            seconds: r.int_bits(32) as u32,
            microseconds: r.int_bits(32) as u32,
        },
        ecu_id: id(r),
    }
}

/// serialised length of a well-formed argument, computed independently of the crate
pub fn arg_wire_len(a: &Argument) -> usize {
    let s = |o: &Option<String>| o.as_ref().map(|x| 2 + x.len() + 1).unwrap_or(0);
    let fp = match &a.fixed_point {
        Some(FixedPoint { offset: FixedPointValue::I32(_), .. }) => 8,
        Some(FixedPoint { offset: FixedPointValue::I64(_), .. }) => 12,
        None => 0,
    };
    4 + s(&a.name)
        + s(&a.unit)
        + fp
        + match &a.value {
            Value::Bool(_) | Value::U8(_) | Value::I8(_) => 1,
            Value::U16(_) | Value::I16(_) => 2,
            Value::U32(_) | Value::I32(_) | Value::F32(_) => 4,
            Value::U64(_) | Value::I64(_) | Value::F64(_) => 8,
            Value::U128(_) | Value::I128(_) => 16,
            Value::StringVal(x) => 2 + x.len() + 1,
            Value::Raw(x) => 2 + x.len(),
        }
}

pub fn payload_len(p: &PayloadContent) -> usize {
    match p {
        PayloadContent::Verbose(args) => args.iter().map(arg_wire_len).sum(),
        PayloadContent::NonVerbose(_, b) => 4 + b.len(),
        PayloadContent::ControlMsg(_, b) => 1 + b.len(),
        PayloadContent::NetworkTrace(s) => s.iter().map(|x| 6 + x.len()).sum(),
    }
}

/// a well-formed message (C01's quantifier)
pub fn message(r: &mut Rng, o: &MsgOpts) -> Message {
    let endianness = if r.flip() { Endianness::Big } else { Endianness::Little };
    let has_ext = r.chance(4, 5);
    let ecu_id = r.chance(1, 2).then(|| id(r));
    let session_id = r.chance(1, 2).then(|| r.int_bits(32) as u32);
    let timestamp = r.chance(1, 2).then(|| r.int_bits(32) as u32);
    let hdr_len = 4
        + if ecu_id.is_some() { 4 } else { 0 }
        + if session_id.is_some() { 4 } else { 0 }
        + if timestamp.is_some() { 4 } else { 0 }
        + if has_ext { 10 } else { 0 };
    let budget = 65535 - hdr_len;
    let blob = |r: &mut Rng, fixed: usize| -> Vec<u8> {
        let n = match r.below(16) {
            0 => 0,
            1 if o.big => budget - fixed,
            2 if o.big => r.range(1000, (budget - fixed) as u64) as usize,
            _ => r.below(24) as usize,
        };
        blob_bytes(r, n)
    };
    let (payload, ext): (PayloadContent, Option<(bool, MessageType)>) = if !has_ext {
        (
            PayloadContent::NonVerbose(r.int_bits(32) as u32, blob(r, 4)),
            None,
        )
    } else {
        match r.below(8) {
            0 | 1 => {
                let mt = message_type(r, true, false);
                (
                    PayloadContent::NonVerbose(r.int_bits(32) as u32, blob(r, 4)),
                    Some((false, mt)),
                )
            }
            2 => {
                let ct = {
                    let b = match r.below(4) {
                        0 => 1u8,
                        1 => 2u8,
                        _ => r.next() as u8,
                    };
                    // built by hand, not with the crate's own `from_value`: a change to that
                    // function must not change which messages are generated
                    match b {
                        1 => ControlType::Request,
                        2 => ControlType::Response,
                        n => ControlType::Unknown(n),
                    }
                };
                (
                    PayloadContent::ControlMsg(ct, blob(r, 1)),
                    Some((false, MessageType::Control(control_type_msin(r)))),
                )
            }
            3 => {
                let n = r.below(o.max_args as u64 + 1) as usize;
                let mut slices = Vec::new();
                let mut used = 0usize;
                for _ in 0..n {
                    let k = if o.big && r.chance(1, 6) {
                        r.range(500, 20000) as usize
                    } else {
                        r.below(10) as usize
                    };
                    if used + 6 + k > budget {
                        break;
                    }
                    used += 6 + k;
                    slices.push(blob_bytes(r, k));
                }
                (
                    PayloadContent::NetworkTrace(slices),
                    Some((true, MessageType::NetworkTrace(network_type(r)))),
                )
            }
            _ => {
                let n = if o.big && r.chance(1, 10) {
                    r.range(100, 255) as usize
                } else {
                    r.below(o.max_args as u64 + 1) as usize
                };
                let mut args = Vec::new();
                let mut used = 0usize;
                for _ in 0..n {
                    let a = argument(r, o.big);
                    if used + arg_wire_len(&a) > budget {
                        break;
                    }
                    used += arg_wire_len(&a);
                    args.push(a);
                }
                (
                    PayloadContent::Verbose(args),
                    Some((true, message_type(r, false, true))),
                )
            }
        }
    };
    let plen = payload_len(&payload);
    assert!(plen <= budget);
    let argument_count = match &payload {
        PayloadContent::Verbose(a) => a.len() as u8,
        PayloadContent::NetworkTrace(s) => s.len() as u8,
        _ => {
            if r.chance(1, 3) {
                r.next() as u8
            } else {
                0
            }
        }
    };
    let extended_header = ext.map(|(verbose, message_type)| ExtendedHeader {
        verbose,
        argument_count,
        message_type,
        application_id: id(r),
        context_id: id(r),
    });
    let storage = match o.storage {
        Some(b) => b,
        None => r.flip(),
    };
    Message {
        storage_header: storage.then(|| storage_header(r)),
        header: StandardHeader {
            version: r.below(8) as u8,
            endianness,
            has_extended_header: has_ext,
            message_counter: r.next() as u8,
            ecu_id,
            session_id,
            timestamp,
            payload_length: plen as u16,
        },
        extended_header,
        payload,
    }
}

/// a well-formed verbose (or network-trace) message with exactly `count` arguments (slices):
/// the one-byte argument count at and next to its limit
pub fn message_with_count(r: &mut Rng, nw: bool, count: usize) -> Message {
    loop {
        let mut m = message(r, &MsgOpts { storage: None, big: false, max_args: 3 });
        let Some(eh) = m.extended_header.as_mut() else { continue };
        match (&mut m.payload, nw) {
            (PayloadContent::Verbose(args), false) => {
                args.clear();
                while args.len() < count {
                    let a = argument(r, false);
                    if arg_wire_len(&a) <= 40 {
                        args.push(a);
                    }
                }
            }
            (PayloadContent::NetworkTrace(sl), true) => {
                sl.clear();
                for _ in 0..count {
                    let k = r.below(6) as usize;
                    sl.push(r.bytes(k));
                }
            }
            _ => continue,
        }
        eh.argument_count = count as u8;
        m.header.payload_length = payload_len(&m.payload) as u16;
        return m;
    }
}

/// a well-formed verbose message with one argument whose name (0), unit (1) or string value (2)
/// has `n` bytes
pub fn message_with_long_text(r: &mut Rng, which: usize, n: usize) -> Message {
    let long: String = std::iter::repeat('q').take(n).collect();
    loop {
        let mut m = message(r, &MsgOpts { storage: None, big: false, max_args: 3 });
        let Some(eh) = m.extended_header.as_mut() else { continue };
        let PayloadContent::Verbose(args) = &mut m.payload else { continue };
        let a = match which {
            0 => Argument {
                type_info: TypeInfo { kind: TypeInfoKind::Bool, coding: StringCoding::ASCII, has_variable_info: true, has_trace_info: false },
                name: Some(long.clone()),
                unit: None,
                fixed_point: None,
                value: Value::Bool(1),
            },
            1 => Argument {
                type_info: TypeInfo {
                    kind: TypeInfoKind::Unsigned(TypeLength::BitLength16),
                    coding: StringCoding::ASCII,
                    has_variable_info: true,
                    has_trace_info: false,
                },
                name: Some("n".to_string()),
                unit: Some(long.clone()),
                fixed_point: None,
                value: Value::U16(7),
            },
            _ => Argument {
                type_info: TypeInfo { kind: TypeInfoKind::StringType, coding: StringCoding::UTF8, has_variable_info: false, has_trace_info: false },
                name: None,
                unit: None,
                fixed_point: None,
                value: Value::StringVal(long.clone()),
            },
        };
        args.clear();
        args.push(a);
        eh.argument_count = 1;
        m.header.payload_length = payload_len(&m.payload) as u16;
        return m;
    }
}

pub fn filter(r: &mut Rng, ids: &[String]) -> DltFilterConfig {
    let id_vec = |r: &mut Rng| -> Vec<String> {
        let n = r.below(5) as usize;
        (0..n)
            .map(|_| {
                let base = if r.chance(3, 4) && !ids.is_empty() { r.pick(ids).clone() } else { id(r) };
                // configured ids that are NOT the message's id but look like it: padded with NUL or
                // blanks, other case, one character more (the allowed set is the configured set,
                // byte for byte)
                match r.below(14) {
                    0 => format!("{}\0", base),
                    1 => format!("{} ", base),
                    2 => format!(" {}", base),
                    3 => base.to_uppercase(),
                    4 => base.to_lowercase(),
                    5 => format!("{}1", base),
                    _ => base,
                }
            })
            .collect()
    };
    let min_log_level = r.chance(2, 3).then(|| {
        if r.chance(3, 4) {
            r.range(0, 8) as u8
        } else {
            r.next() as u8
        }
    });
    let app_ids = r.chance(1, 2).then(|| id_vec(r));
    let ecu_ids = r.chance(1, 2).then(|| id_vec(r));
    let context_ids = r.chance(1, 2).then(|| id_vec(r));
    let count = |r: &mut Rng, v: &Option<Vec<String>>| -> i64 {
        let n = v.as_ref().map(|x| x.len()).unwrap_or(0) as i64;
        n + r.range(0, 4) as i64 - 2
    };
    let app_id_count = count(r, &app_ids);
    let context_id_count = count(r, &context_ids);
    DltFilterConfig {
        min_log_level,
        app_ids,
        ecu_ids,
        context_ids,
        app_id_count,
        context_id_count,
    }
}

// ------------------------------------------------------------- malformed streams

/// structured mutation of an encoded message (length fields, flags, truncation, flips)
pub fn mutate(r: &mut Rng, bytes: &[u8], storage: bool) -> Vec<u8> {
    let mut v = bytes.to_vec();
    let base = if storage { 16 } else { 0 };
    let n_mut = r.range(1, 3);
    for _ in 0..n_mut {
        if v.is_empty() {
            break;
        }
        match r.below(15) {
            0 => {
                // bit flip anywhere
                let i = r.below(v.len() as u64) as usize;
                v[i] ^= 1 << r.below(8);
            }
            1 => {
                // byte replace
                let i = r.below(v.len() as u64) as usize;
                v[i] = *r.pick(&[0u8, 1, 0xff, 0x7f, 0x80, 0x44]);
            }
            2 => {
                // truncate
                let k = r.below(v.len() as u64) as usize;
                v.truncate(k);
            }
            3 | 4 => {
                // corrupt the LEN field to a boundary value
                if v.len() >= base + 4 {
                    let cur = ((v[base + 2] as usize) << 8) | v[base + 3] as usize;
                    let hl = {
                        let h = v[base];
                        4 + [2u8, 3, 4].iter().filter(|b| h & (1 << **b) != 0).count() * 4
                            + if h & 1 != 0 { 10 } else { 0 }
                    };
                    let cands = [
                        0usize, 1, 3, 4, hl.saturating_sub(1), hl, hl + 1, hl + 3, hl + 4,
                        cur.saturating_sub(1), cur + 1, cur.saturating_sub(4), cur + 4, 65535,
                        v.len() - base, (v.len() - base).saturating_sub(1), v.len() - base + 1,
                    ];
                    let nv = (*r.pick(&cands)).min(65535);
                    v[base + 2] = (nv >> 8) as u8;
                    v[base + 3] = (nv & 0xff) as u8;
                }
            }
            5 => {
                // HTYP flags
                if v.len() > base {
                    v[base] ^= 1 << r.below(8);
                }
            }
            6 => {
                // extended header MSIN / NOAR
                if v.len() > base {
                    let h = v[base];
                    let off = base
                        + 4
                        + [2u8, 3, 4].iter().filter(|b| h & (1 << **b) != 0).count() * 4;
                    if h & 1 != 0 && v.len() > off + 1 {
                        if r.flip() {
                            v[off] ^= 1 << r.below(8);
                        } else {
                            v[off + 1] = match r.below(4) {
                                0 => 0,
                                1 => v[off + 1].wrapping_add(1),
                                2 => v[off + 1].wrapping_sub(1),
                                _ => 255,
                            };
                        }
                    }
                }
            }
            7 => {
                // inside payload: set a 16-bit field to a boundary value
                if v.len() >= base + 8 {
                    let i = r.range((base + 4) as u64, (v.len() - 2) as u64) as usize;
                    let nv: u16 = *r.pick(&[0u16, 1, 2, 0xff, 0x100, 0x7fff, 0xffff, 0xfffe]);
                    let b = if r.flip() { nv.to_le_bytes() } else { nv.to_be_bytes() };
                    v[i] = b[0];
                    v[i + 1] = b[1];
                }
            }
            8 => {
                // insert bytes
                let i = r.below(v.len() as u64 + 1) as usize;
                let k = r.range(1, 6) as usize;
                let ins = r.bytes(k);
                v.splice(i..i, ins);
            }
            9 => {
                // delete bytes
                let i = r.below(v.len() as u64) as usize;
                let k = (r.range(1, 6) as usize).min(v.len() - i);
                v.drain(i..i + k);
            }
            10 => {
                // append trailing bytes / another pattern
                if r.flip() {
                    v.extend_from_slice(&[0x44, 0x4c, 0x54, 0x01]);
                }
                let k = r.below(20) as usize;
                v.extend(r.bytes(k));
            }
            11 | 12 | 13 => {
                // dialect / damage of the FIRST type-info word of a verbose payload: unused and
                // reserved bits set (STRU, bits 18..31, TYLE / FIXP where the kind has none), or one
                // arbitrary bit flipped; the word is in the byte order announced by MSBF
                if v.len() > base {
                    let h = v[base];
                    let off = base + 4 + [2u8, 3, 4].iter().filter(|b| h & (1 << **b) != 0).count() * 4
                        + if h & 1 != 0 { 10 } else { 0 };
                    if h & 1 != 0 && v.len() >= off + 4 {
                        let be = h & 2 != 0;
                        let mut w = if be {
                            u32::from_be_bytes([v[off], v[off + 1], v[off + 2], v[off + 3]])
                        } else {
                            u32::from_le_bytes([v[off], v[off + 1], v[off + 2], v[off + 3]])
                        };
                        match r.below(4) {
                            0 => w |= 1 << r.range(18, 31),
                            1 => w |= 1 << 14,
                            2 => w ^= 1 << r.below(18),
                            _ => w |= (r.below(1 << 14) as u32) << 18,
                        }
                        let nb = if be { w.to_be_bytes() } else { w.to_le_bytes() };
                        v[off..off + 4].copy_from_slice(&nb);
                    }
                }
            }
            _ => {
                // NUL into an id / string
                let i = r.below(v.len() as u64) as usize;
                v[i] = 0;
            }
        }
    }
    v
}

pub fn noise(r: &mut Rng) -> Vec<u8> {
    let n = match r.below(10) {
        0 => 0,
        1 => r.range(1, 4) as usize,
        2 => r.range(60, 300) as usize,
        _ => r.range(4, 60) as usize,
    };
    let mut v = r.bytes(n);
    if r.chance(1, 3) && v.len() >= 4 {
        // plausible header start
        v[0] &= 0x3f;
        let l = r.below(v.len() as u64 + 8);
        v[2] = (l >> 8) as u8;
        v[3] = l as u8;
    }
    v
}
