//! Wire format of the line protocol (same as lean/Driver/Wire.lean):
//! whitespace separated tokens; bytes `x<hex>`; option `-` | `+ value`; bool 0|1;
//! numbers decimal (bit patterns for signed integers and floats).
use dlt_core::dlt::*;
use dlt_core::filtering::DltFilterConfig;
use dlt_core::parse::{DltParseError, ParsedMessage};

pub fn hex(b: &[u8]) -> String {
    let mut s = String::with_capacity(1 + 2 * b.len());
    s.push('x');
    for x in b {
        s.push(char::from_digit((x >> 4) as u32, 16).unwrap());
        s.push(char::from_digit((x & 15) as u32, 16).unwrap());
    }
    s
}

pub fn p_bool(b: bool) -> &'static str {
    if b {
        "1"
    } else {
        "0"
    }
}

pub fn p_opt<T>(o: &Option<T>, f: impl Fn(&T) -> String) -> String {
    match o {
        None => "-".to_string(),
        Some(v) => format!("+ {}", f(v)),
    }
}

pub fn p_endian(e: Endianness) -> &'static str {
    match e {
        Endianness::Little => "L",
        Endianness::Big => "B",
    }
}

pub fn p_log_level(l: &LogLevel) -> String {
    match l {
        LogLevel::Fatal => "0 0".into(),
        LogLevel::Error => "1 0".into(),
        LogLevel::Warn => "2 0".into(),
        LogLevel::Info => "3 0".into(),
        LogLevel::Debug => "4 0".into(),
        LogLevel::Verbose => "5 0".into(),
        LogLevel::Invalid(n) => format!("6 {}", n),
    }
}

pub fn p_message_type(t: &MessageType) -> String {
    match t {
        MessageType::Log(l) => format!("0 {}", p_log_level(l)),
        MessageType::ApplicationTrace(a) => match a {
            ApplicationTraceType::Variable => "1 0 0".into(),
            ApplicationTraceType::FunctionIn => "1 1 0".into(),
            ApplicationTraceType::FunctionOut => "1 2 0".into(),
            ApplicationTraceType::State => "1 3 0".into(),
            ApplicationTraceType::Vfb => "1 4 0".into(),
            ApplicationTraceType::Invalid(n) => format!("1 5 {}", n),
        },
        MessageType::NetworkTrace(a) => match a {
            NetworkTraceType::Ipc => "2 0 0".into(),
            NetworkTraceType::Can => "2 1 0".into(),
            NetworkTraceType::Flexray => "2 2 0".into(),
            NetworkTraceType::Most => "2 3 0".into(),
            NetworkTraceType::Ethernet => "2 4 0".into(),
            NetworkTraceType::Someip => "2 5 0".into(),
            NetworkTraceType::Invalid => "2 6 0".into(),
            NetworkTraceType::UserDefined(n) => format!("2 7 {}", n),
        },
        MessageType::Control(c) => format!("3 {}", p_control_type(c)),
        MessageType::Unknown((a, b)) => format!("4 {} {}", a, b),
    }
}

pub fn p_control_type(c: &ControlType) -> String {
    match c {
        ControlType::Request => "0 0".into(),
        ControlType::Response => "1 0".into(),
        ControlType::Unknown(n) => format!("2 {}", n),
    }
}

pub fn p_type_info(t: &TypeInfo) -> String {
    let (k, w) = match t.kind {
        TypeInfoKind::Bool => (0, 0),
        TypeInfoKind::Signed(l) => (1, l as usize),
        TypeInfoKind::SignedFixedPoint(w) => (2, w as usize),
        TypeInfoKind::Unsigned(l) => (3, l as usize),
        TypeInfoKind::UnsignedFixedPoint(w) => (4, w as usize),
        TypeInfoKind::Float(w) => (5, w as usize),
        TypeInfoKind::StringType => (6, 0),
        TypeInfoKind::Raw => (7, 0),
    };
    let c = match t.coding {
        StringCoding::ASCII => "0 0".to_string(),
        StringCoding::UTF8 => "1 0".to_string(),
        StringCoding::Reserved(v) => format!("2 {}", v),
    };
    format!(
        "{} {} {} {} {}",
        k,
        w,
        c,
        p_bool(t.has_variable_info),
        p_bool(t.has_trace_info)
    )
}

pub fn p_fixed_point(fp: &FixedPoint) -> String {
    match fp.offset {
        FixedPointValue::I32(v) => format!("{} 32 {}", fp.quantization.to_bits(), v as u32),
        FixedPointValue::I64(v) => format!("{} 64 {}", fp.quantization.to_bits(), v as u64),
    }
}

pub fn p_value(v: &Value) -> String {
    match v {
        Value::Bool(x) => format!("0 {}", x),
        Value::U8(x) => format!("1 {}", x),
        Value::U16(x) => format!("2 {}", x),
        Value::U32(x) => format!("3 {}", x),
        Value::U64(x) => format!("4 {}", x),
        Value::U128(x) => format!("5 {}", x),
        Value::I8(x) => format!("6 {}", *x as u8),
        Value::I16(x) => format!("7 {}", *x as u16),
        Value::I32(x) => format!("8 {}", *x as u32),
        Value::I64(x) => format!("9 {}", *x as u64),
        Value::I128(x) => format!("10 {}", *x as u128),
        Value::F32(x) => format!("11 {}", x.to_bits()),
        Value::F64(x) => format!("12 {}", x.to_bits()),
        Value::StringVal(s) => format!("13 {}", hex(s.as_bytes())),
        Value::Raw(b) => format!("14 {}", hex(b)),
    }
}

pub fn p_str(s: &String) -> String {
    hex(s.as_bytes())
}

pub fn p_argument(a: &Argument) -> String {
    format!(
        "{} {} {} {} {}",
        p_type_info(&a.type_info),
        p_opt(&a.name, p_str),
        p_opt(&a.unit, p_str),
        p_opt(&a.fixed_point, p_fixed_point),
        p_value(&a.value)
    )
}

pub fn p_payload(p: &PayloadContent) -> String {
    match p {
        PayloadContent::Verbose(args) => {
            let mut s = format!("V {}", args.len());
            for a in args {
                s.push(' ');
                s.push_str(&p_argument(a));
            }
            s
        }
        PayloadContent::NonVerbose(id, b) => format!("N {} {}", id, hex(b)),
        PayloadContent::ControlMsg(t, b) => format!("C {} {}", p_control_type(t), hex(b)),
        PayloadContent::NetworkTrace(ss) => {
            let mut s = format!("T {}", ss.len());
            for x in ss {
                s.push(' ');
                s.push_str(&hex(x));
            }
            s
        }
    }
}

pub fn p_storage_header(h: &StorageHeader) -> String {
    format!(
        "{} {} {}",
        h.timestamp.seconds,
        h.timestamp.microseconds,
        p_str(&h.ecu_id)
    )
}

pub fn p_standard_header(h: &StandardHeader) -> String {
    format!(
        "{} {} {} {} {} {} {} {}",
        h.version,
        p_endian(h.endianness),
        p_bool(h.has_extended_header),
        h.message_counter,
        p_opt(&h.ecu_id, p_str),
        p_opt(&h.session_id, |v| v.to_string()),
        p_opt(&h.timestamp, |v| v.to_string()),
        h.payload_length
    )
}

pub fn p_extended_header(h: &ExtendedHeader) -> String {
    format!(
        "{} {} {} {} {}",
        p_bool(h.verbose),
        h.argument_count,
        p_message_type(&h.message_type),
        p_str(&h.application_id),
        p_str(&h.context_id)
    )
}

pub fn p_message(m: &Message) -> String {
    format!(
        "{} {} {} {}",
        p_opt(&m.storage_header, p_storage_header),
        p_standard_header(&m.header),
        p_opt(&m.extended_header, p_extended_header),
        p_payload(&m.payload)
    )
}

pub fn p_filter(f: &DltFilterConfig) -> String {
    let ids = |v: &Vec<String>| {
        let mut s = v.len().to_string();
        for x in v {
            s.push(' ');
            s.push_str(&p_str(x));
        }
        s
    };
    format!(
        "{} {} {} {} {} {}",
        p_opt(&f.min_log_level, |v| v.to_string()),
        p_opt(&f.app_ids, ids),
        p_opt(&f.ecu_ids, ids),
        p_opt(&f.context_ids, ids),
        f.app_id_count,
        f.context_id_count
    )
}

pub fn p_error(e: &DltParseError) -> String {
    match e {
        DltParseError::IncompleteParse { needed } => match needed {
            Some(n) => format!("ERR INCOMPLETE {}", n),
            None => "ERR INCOMPLETE ?".to_string(),
        },
        DltParseError::ParsingHickup(_) => "ERR HICKUP".to_string(),
        DltParseError::Unrecoverable(_) => "ERR UNRECOVERABLE".to_string(),
    }
}

pub fn p_parsed(p: &ParsedMessage) -> String {
    match p {
        ParsedMessage::Item(m) => format!("ITEM {}", p_message(m)),
        ParsedMessage::FilteredOut(n) => format!("FILTERED {}", n),
        ParsedMessage::Invalid => "INVALID".to_string(),
    }
}

pub fn p_parse_result(r: &Result<(&[u8], ParsedMessage), DltParseError>) -> String {
    match r {
        Ok((rest, pm)) => format!("OK rest={} {}", rest.len(), p_parsed(pm)),
        Err(e) => p_error(e),
    }
}

// ---------------------------------------------------------------- parsing

pub struct Toks<'a> {
    it: std::iter::Peekable<std::str::SplitAsciiWhitespace<'a>>,
}

pub type R<T> = Result<T, String>;

impl<'a> Toks<'a> {
    pub fn new(s: &'a str) -> Self {
        Toks {
            it: s.split_ascii_whitespace().peekable(),
        }
    }
    pub fn tok(&mut self) -> R<&'a str> {
        self.it.next().ok_or_else(|| "unexpected end of line".to_string())
    }
    pub fn done(&mut self) -> bool {
        self.it.peek().is_none()
    }
    pub fn num<T: std::str::FromStr>(&mut self) -> R<T> {
        let t = self.tok()?;
        t.parse::<T>().map_err(|_| format!("not a number: {}", t))
    }
    pub fn boolean(&mut self) -> R<bool> {
        match self.tok()? {
            "0" => Ok(false),
            "1" => Ok(true),
            t => Err(format!("not a bool: {}", t)),
        }
    }
    pub fn bytes(&mut self) -> R<Vec<u8>> {
        let t = self.tok()?;
        let b = t.as_bytes();
        if b.is_empty() || b[0] != b'x' || b.len() % 2 != 1 {
            return Err(format!("not a byte string: {}", t));
        }
        let mut out = Vec::with_capacity(b.len() / 2);
        let hv = |c: u8| -> R<u8> {
            (c as char)
                .to_digit(16)
                .map(|d| d as u8)
                .ok_or_else(|| "bad hex".to_string())
        };
        let mut i = 1;
        while i < b.len() {
            out.push(hv(b[i])? * 16 + hv(b[i + 1])?);
            i += 2;
        }
        Ok(out)
    }
    pub fn string(&mut self) -> R<String> {
        String::from_utf8(self.bytes()?).map_err(|_| "string is not utf-8".to_string())
    }
    pub fn opt<T>(&mut self, f: impl FnOnce(&mut Self) -> R<T>) -> R<Option<T>> {
        match self.tok()? {
            "-" => Ok(None),
            "+" => Ok(Some(f(self)?)),
            t => Err(format!("not an option marker: {}", t)),
        }
    }
    pub fn endian(&mut self) -> R<Endianness> {
        match self.tok()? {
            "L" => Ok(Endianness::Little),
            "B" => Ok(Endianness::Big),
            t => Err(format!("not an endianness: {}", t)),
        }
    }
    pub fn log_level(&mut self) -> R<LogLevel> {
        let i: u8 = self.num()?;
        let n: u8 = self.num()?;
        Ok(match i {
            0 => LogLevel::Fatal,
            1 => LogLevel::Error,
            2 => LogLevel::Warn,
            3 => LogLevel::Info,
            4 => LogLevel::Debug,
            5 => LogLevel::Verbose,
            6 => LogLevel::Invalid(n),
            _ => return Err("bad log level".into()),
        })
    }
    pub fn control_type(&mut self) -> R<ControlType> {
        let a: u8 = self.num()?;
        let b: u8 = self.num()?;
        Ok(match a {
            0 => ControlType::Request,
            1 => ControlType::Response,
            2 => ControlType::Unknown(b),
            _ => return Err("bad control type".into()),
        })
    }
    pub fn message_type(&mut self) -> R<MessageType> {
        let k: u8 = self.num()?;
        match k {
            0 => Ok(MessageType::Log(self.log_level()?)),
            1 => {
                let a: u8 = self.num()?;
                let b: u8 = self.num()?;
                Ok(MessageType::ApplicationTrace(match a {
                    0 => ApplicationTraceType::Variable,
                    1 => ApplicationTraceType::FunctionIn,
                    2 => ApplicationTraceType::FunctionOut,
                    3 => ApplicationTraceType::State,
                    4 => ApplicationTraceType::Vfb,
                    5 => ApplicationTraceType::Invalid(b),
                    _ => return Err("bad app trace".into()),
                }))
            }
            2 => {
                let a: u8 = self.num()?;
                let b: u8 = self.num()?;
                Ok(MessageType::NetworkTrace(match a {
                    0 => NetworkTraceType::Ipc,
                    1 => NetworkTraceType::Can,
                    2 => NetworkTraceType::Flexray,
                    3 => NetworkTraceType::Most,
                    4 => NetworkTraceType::Ethernet,
                    5 => NetworkTraceType::Someip,
                    6 => NetworkTraceType::Invalid,
                    7 => NetworkTraceType::UserDefined(b),
                    _ => return Err("bad nw trace".into()),
                }))
            }
            3 => Ok(MessageType::Control(self.control_type()?)),
            4 => {
                let a: u8 = self.num()?;
                let b: u8 = self.num()?;
                Ok(MessageType::Unknown((a, b)))
            }
            _ => Err("bad message type".into()),
        }
    }
    pub fn type_info(&mut self) -> R<TypeInfo> {
        let k: u8 = self.num()?;
        let w: u32 = self.num()?;
        let ci: u8 = self.num()?;
        let cn: u8 = self.num()?;
        let vari = self.boolean()?;
        let trai = self.boolean()?;
        let tl = || -> R<TypeLength> {
            Ok(match w {
                8 => TypeLength::BitLength8,
                16 => TypeLength::BitLength16,
                32 => TypeLength::BitLength32,
                64 => TypeLength::BitLength64,
                128 => TypeLength::BitLength128,
                _ => return Err("bad type length".into()),
            })
        };
        let fw = || -> R<FloatWidth> {
            Ok(match w {
                32 => FloatWidth::Width32,
                64 => FloatWidth::Width64,
                _ => return Err("bad float width".into()),
            })
        };
        let kind = match k {
            0 => TypeInfoKind::Bool,
            1 => TypeInfoKind::Signed(tl()?),
            2 => TypeInfoKind::SignedFixedPoint(fw()?),
            3 => TypeInfoKind::Unsigned(tl()?),
            4 => TypeInfoKind::UnsignedFixedPoint(fw()?),
            5 => TypeInfoKind::Float(fw()?),
            6 => TypeInfoKind::StringType,
            7 => TypeInfoKind::Raw,
            _ => return Err("bad kind".into()),
        };
        let coding = match ci {
            0 => StringCoding::ASCII,
            1 => StringCoding::UTF8,
            2 => StringCoding::Reserved(cn),
            _ => return Err("bad coding".into()),
        };
        Ok(TypeInfo {
            kind,
            coding,
            has_variable_info: vari,
            has_trace_info: trai,
        })
    }
    pub fn fixed_point(&mut self) -> R<FixedPoint> {
        let q: u32 = self.num()?;
        let w: u8 = self.num()?;
        let offset = match w {
            32 => FixedPointValue::I32(self.num::<u32>()? as i32),
            64 => FixedPointValue::I64(self.num::<u64>()? as i64),
            _ => return Err("bad fixed point width".into()),
        };
        Ok(FixedPoint {
            quantization: f32::from_bits(q),
            offset,
        })
    }
    pub fn value(&mut self) -> R<Value> {
        let k: u8 = self.num()?;
        Ok(match k {
            0 => Value::Bool(self.num()?),
            1 => Value::U8(self.num()?),
            2 => Value::U16(self.num()?),
            3 => Value::U32(self.num()?),
            4 => Value::U64(self.num()?),
            5 => Value::U128(self.num()?),
            6 => Value::I8(self.num::<u8>()? as i8),
            7 => Value::I16(self.num::<u16>()? as i16),
            8 => Value::I32(self.num::<u32>()? as i32),
            9 => Value::I64(self.num::<u64>()? as i64),
            10 => Value::I128(self.num::<u128>()? as i128),
            11 => Value::F32(f32::from_bits(self.num()?)),
            12 => Value::F64(f64::from_bits(self.num()?)),
            13 => Value::StringVal(self.string()?),
            14 => Value::Raw(self.bytes()?),
            _ => return Err("bad value kind".into()),
        })
    }
    pub fn argument(&mut self) -> R<Argument> {
        let type_info = self.type_info()?;
        let name = self.opt(|t| t.string())?;
        let unit = self.opt(|t| t.string())?;
        let fixed_point = self.opt(|t| t.fixed_point())?;
        let value = self.value()?;
        Ok(Argument {
            type_info,
            name,
            unit,
            fixed_point,
            value,
        })
    }
    pub fn payload(&mut self) -> R<PayloadContent> {
        match self.tok()? {
            "V" => {
                let n: usize = self.num()?;
                let mut v = Vec::with_capacity(n);
                for _ in 0..n {
                    v.push(self.argument()?);
                }
                Ok(PayloadContent::Verbose(v))
            }
            "N" => {
                let id: u32 = self.num()?;
                Ok(PayloadContent::NonVerbose(id, self.bytes()?))
            }
            "C" => {
                let t = self.control_type()?;
                Ok(PayloadContent::ControlMsg(t, self.bytes()?))
            }
            "T" => {
                let n: usize = self.num()?;
                let mut v = Vec::with_capacity(n);
                for _ in 0..n {
                    v.push(self.bytes()?);
                }
                Ok(PayloadContent::NetworkTrace(v))
            }
            t => Err(format!("bad payload tag {}", t)),
        }
    }
    pub fn storage_header(&mut self) -> R<StorageHeader> {
        let seconds: u32 = self.num()?;
        let microseconds: u32 = self.num()?;
        let ecu_id = self.string()?;
        Ok(StorageHeader {
            timestamp: DltTimeStamp {
                seconds,
                microseconds,
            },
            ecu_id,
        })
    }
    pub fn standard_header(&mut self) -> R<StandardHeader> {
        let version: u8 = self.num()?;
        let endianness = self.endian()?;
        let has_extended_header = self.boolean()?;
        let message_counter: u8 = self.num()?;
        let ecu_id = self.opt(|t| t.string())?;
        let session_id = self.opt(|t| t.num::<u32>())?;
        let timestamp = self.opt(|t| t.num::<u32>())?;
        let payload_length: u16 = self.num()?;
        Ok(StandardHeader {
            version,
            endianness,
            has_extended_header,
            message_counter,
            ecu_id,
            session_id,
            timestamp,
            payload_length,
        })
    }
    pub fn extended_header(&mut self) -> R<ExtendedHeader> {
        let verbose = self.boolean()?;
        let argument_count: u8 = self.num()?;
        let message_type = self.message_type()?;
        let application_id = self.string()?;
        let context_id = self.string()?;
        Ok(ExtendedHeader {
            verbose,
            argument_count,
            message_type,
            application_id,
            context_id,
        })
    }
    pub fn message(&mut self) -> R<Message> {
        let storage_header = self.opt(|t| t.storage_header())?;
        let header = self.standard_header()?;
        let extended_header = self.opt(|t| t.extended_header())?;
        let payload = self.payload()?;
        Ok(Message {
            storage_header,
            header,
            extended_header,
            payload,
        })
    }
    pub fn id_list(&mut self) -> R<Vec<String>> {
        let n: usize = self.num()?;
        let mut v = Vec::with_capacity(n);
        for _ in 0..n {
            v.push(self.string()?);
        }
        Ok(v)
    }
    pub fn filter(&mut self) -> R<DltFilterConfig> {
        let min_log_level = self.opt(|t| t.num::<u8>())?;
        let app_ids = self.opt(|t| t.id_list())?;
        let ecu_ids = self.opt(|t| t.id_list())?;
        let context_ids = self.opt(|t| t.id_list())?;
        let app_id_count: i64 = self.num()?;
        let context_id_count: i64 = self.num()?;
        Ok(DltFilterConfig {
            min_log_level,
            app_ids,
            ecu_ids,
            context_ids,
            app_id_count,
            context_id_count,
        })
    }
}
