//! C10: statistics over a stream split into parts, merged along a postfix merge expression.
use crate::ops::guard;
use crate::wire::*;
use dlt_core::read::DltMessageReader;
use dlt_core::statistics::common::{LevelDistribution, StatisticInfo, StatisticInfoCollector};
use dlt_core::statistics::{collect_statistics, Statistic, StatisticCollector};

fn p_dist(d: &LevelDistribution) -> String {
    format!(
        "{},{},{},{},{},{},{},{}",
        d.non_log, d.log_fatal, d.log_error, d.log_warning, d.log_info, d.log_debug, d.log_verbose, d.log_invalid
    )
}

fn p_map(m: &[(String, LevelDistribution)]) -> String {
    let mut v: Vec<&(String, LevelDistribution)> = m.iter().collect();
    v.sort_by(|a, b| a.0.as_bytes().cmp(b.0.as_bytes()));
    let mut s = m.len().to_string();
    for (id, d) in v {
        s.push_str(&format!(" {}:{}", hex(id.as_bytes()), p_dist(d)));
    }
    s
}

fn p_info(i: &StatisticInfo) -> String {
    format!(
        "E {} A {} C {} nv={}",
        p_map(&i.ecu_ids),
        p_map(&i.app_ids),
        p_map(&i.context_ids),
        p_bool(i.contained_non_verbose)
    )
}

/// counts how often the collector is called (each message must be visited exactly once)
struct Counting {
    inner: StatisticInfoCollector,
    calls: usize,
}

impl StatisticCollector for Counting {
    fn collect_statistic(&mut self, s: Statistic) -> Result<(), dlt_core::parse::DltParseError> {
        self.calls += 1;
        self.inner.collect_statistic(s)
    }
}

/// a source that hands out the bytes in fragments of varying size (so that messages straddle the
/// refills of the reader's buffer); which sizes is a function of the bytes alone
struct Fragments<'a> {
    data: &'a [u8],
    pos: usize,
    step: usize,
}

impl<'a> std::io::Read for Fragments<'a> {
    fn read(&mut self, buf: &mut [u8]) -> std::io::Result<usize> {
        const SIZES: [usize; 9] = [7, 1, 64, 3, 1000, 13, 2, 29, 5];
        let want = SIZES[self.step % SIZES.len()];
        self.step += 1;
        let n = want.min(buf.len()).min(self.data.len() - self.pos);
        buf[..n].copy_from_slice(&self.data[self.pos..self.pos + n]);
        self.pos += n;
        Ok(n)
    }
}

fn collect(w: bool, bytes: &[u8]) -> Option<(StatisticInfo, usize)> {
    // every other stream is read through a fragmenting source
    if bytes.len() % 2 == 1 {
        let mut reader = DltMessageReader::new(Fragments { data: bytes, pos: 0, step: bytes.len() }, w);
        let mut c = Counting {
            inner: StatisticInfoCollector::default(),
            calls: 0,
        };
        return match collect_statistics(&mut reader, &mut c) {
            Ok(()) => Some((c.inner.collect(), c.calls)),
            Err(_) => None,
        };
    }
    let mut reader = DltMessageReader::new(bytes, w);
    let mut c = Counting {
        inner: StatisticInfoCollector::default(),
        calls: 0,
    };
    match collect_statistics(&mut reader, &mut c) {
        Ok(()) => Some((c.inner.collect(), c.calls)),
        Err(_) => None,
    }
}

pub fn op_stats(w: bool, lens: &[usize], tree: &[&str], bytes: &[u8]) -> String {
    let r = guard(|| {
        let mut parts: Vec<Option<StatisticInfo>> = vec![];
        let mut pos = 0usize;
        let mut failed = false;
        for l in lens {
            let end = (pos + l).min(bytes.len());
            match collect(w, &bytes[pos..end]) {
                Some((i, _)) => parts.push(Some(i)),
                None => {
                    failed = true;
                    parts.push(None)
                }
            }
            pos = end;
        }
        if failed {
            return ("ERR".to_string(), true);
        }
        let mut stack: Vec<StatisticInfo> = vec![];
        for t in tree {
            match *t {
                "m" => {
                    let b = stack.pop();
                    let a = stack.pop();
                    match (a, b) {
                        (Some(mut a), Some(b)) => {
                            a.merge(b);
                            stack.push(a)
                        }
                        _ => return ("BADTREE".to_string(), true),
                    }
                }
                "n" => stack.push(StatisticInfo::new()),
                t => match t.parse::<usize>().ok().and_then(|i| parts.get_mut(i)).and_then(|p| p.take()) {
                    Some(p) => stack.push(p),
                    None => return ("BADTREE".to_string(), true),
                },
            }
        }
        if stack.len() != 1 {
            return ("BADTREE".to_string(), true);
        }
        let merged = p_info(&stack[0]);
        // the property speaks of parts cut at message boundaries: with a (deliberately) damaged
        // length field the generated part lengths need not be boundaries of the stream any more;
        // then nothing is expected of the merge
        let shl = if w { 16 } else { 0 };
        let mut bounds = vec![0usize];
        let mut o = 0usize;
        while o + shl + 4 <= bytes.len() {
            let len = ((bytes[o + shl + 2] as usize) << 8) | bytes[o + shl + 3] as usize;
            if len < 4 || o + shl + len > bytes.len() {
                break;
            }
            o += shl + len;
            bounds.push(o);
        }
        let mut e = 0usize;
        let aligned = lens.iter().all(|l| {
            e += l;
            bounds.contains(&e)
        });
        if !aligned {
            return (merged, true);
        }
        // oracle on the crate itself: merging the parts gives the statistics of the whole,
        // and every ECU bucket total equals the number of collector calls
        let ok = match collect(w, bytes) {
            Some((whole, calls)) => {
                let total: usize = whole
                    .ecu_ids
                    .iter()
                    .map(|(_, d)| {
                        d.non_log + d.log_fatal + d.log_error + d.log_warning + d.log_info + d.log_debug
                            + d.log_verbose + d.log_invalid
                    })
                    .sum();
                p_info(&whole) == merged && total == calls
            }
            None => false,
        };
        (merged, ok)
    });
    match r {
        Some((s, ok)) => format!(
            "{} @@ oracle={}",
            s,
            if ok { "ok" } else { "FAIL:merged_parts_differ_from_whole_or_totals_wrong" }
        ),
        None => "PANIC @@ oracle=FAIL:panic".to_string(),
    }
}
