//! Per-property case generation: request lines for the line protocol.
use crate::gen::*;
use crate::wire::*;
use dlt_core::dlt::*;
use std::io::Write;

type W<'a> = &'a mut dyn Write;

pub fn generate(prop: &str, thorough: bool, seed: u64, w: W) -> std::io::Result<()> {
    let mut r = Rng::new(seed ^ prop_salt(prop));
    match prop {
        "C01" => c01(&mut r, thorough, w),
        "C02" => c02(&mut r, thorough, w),
        "C03" => c03(&mut r, thorough, w),
        "C04" => c04(&mut r, thorough, w),
        "C05" => c05(&mut r, thorough, w),
        "C06" => c06(&mut r, thorough, w),
        "C13" => c13(&mut r, thorough, w),
        "C10" => c10(&mut r, thorough, w),
        "C11" => c11(&mut r, thorough, w),
        "C12" => c12(&mut r, thorough, w),
        "C09" => c09(&mut r, thorough, w),
        "C07" => c07(&mut r, thorough, w, "READ"),
        "C08" => c07(&mut r, thorough, w, "AREAD"),
        "C15" => c15(&mut r, thorough, w),
        "C16" => c16(&mut r, thorough, w),
        "C14" => c14(&mut r, thorough, w),
        "C17" => c17(&mut r, thorough, w),
        "C18" => c18(&mut r, thorough, w),
        "C19" => c19(&mut r, thorough, w),
        _ => {
            eprintln!("no generator for {}", prop);
            std::process::exit(2);
        }
    }
}

fn prop_salt(p: &str) -> u64 {
    p.bytes().fold(0xcbf29ce484222325u64, |h, b| (h ^ b as u64).wrapping_mul(0x100000001b3))
}

fn c17(r: &mut Rng, thorough: bool, w: W) -> std::io::Result<()> {
    let n = if thorough { 400_000 } else { 6_000 };
    for (op, unit) in [("FROMMS", 1000u64), ("FROMUS", 1_000_000u64)] {
        let top = (1u64 << 32) * unit; // first value outside the property's domain
        let mut fixed: Vec<u64> = vec![
            0, 1, 999, 1000, 1001, 999_999, 1_000_000, 1_000_001, 1_000_123, 1_500_000,
            4_294_967, 4_294_968, 4_294_967_295, 4_294_967_296, 4_294_968_000,
            top - 1, top - unit, top - unit - 1, top - unit + 1, top / 2, top / 2 + 1,
            top, top + 1, u64::MAX, u64::MAX - 1,
        ];
        for k in 0..64u32 {
            fixed.push(1u64 << k);
            fixed.push((1u64 << k).wrapping_sub(1));
            fixed.push((1u64 << k) + 1);
            // a power of two of whole seconds, and one sub-second unit to either side
            if let Some(x) = (1u64 << k).checked_mul(unit) {
                fixed.extend([x, x - 1, x + 1, x + unit - 1]);
            }
            // 2^k microseconds / milliseconds expressed in the other unit's boundaries
            fixed.push((1u64 << k) / unit * unit);
            fixed.push(((1u64 << k) / unit * unit).wrapping_sub(1));
        }
        // decimal boundaries: d * 10^j and its neighbours
        let mut p10 = 1u64;
        for _ in 0..19 {
            for d in 1..=9u64 {
                if let Some(x) = p10.checked_mul(d) {
                    fixed.extend([x - 1, x, x + 1]);
                }
            }
            p10 *= 10;
        }
        // the 32-bit limits of either field, as seconds and as sub-second parts
        for s in [u32::MAX as u64, u32::MAX as u64 - 1, i32::MAX as u64, i32::MAX as u64 + 1, 65535, 65536] {
            if let Some(x) = s.checked_mul(unit) {
                fixed.extend([x, x + 1, x + unit - 1, x + unit / 2]);
            }
        }
        for v in fixed {
            writeln!(w, "{} {}", op, v)?;
        }
        for _ in 0..n {
            let v = match r.below(8) {
                0 => r.next(),
                1 => r.below(unit * 3),
                2 => top - 1 - r.below(unit * 2),
                3 => r.below(1 << 20) * unit + r.below(unit),
                _ => r.below(top),
            };
            writeln!(w, "{} {}", op, v)?;
        }
    }
    Ok(())
}

fn c18(r: &mut Rng, thorough: bool, w: W) -> std::io::Result<()> {
    let n = if thorough { 600_000 } else { 12_000 };
    // the case the fix was made for, first
    let seedcase = Argument {
        type_info: TypeInfo {
            kind: TypeInfoKind::SignedFixedPoint(FloatWidth::Width32),
            coding: StringCoding::ASCII,
            has_variable_info: false,
            has_trace_info: false,
        },
        name: None,
        unit: None,
        fixed_point: Some(FixedPoint {
            quantization: 1.0,
            offset: FixedPointValue::I32(-200),
        }),
        value: Value::I32(1000),
    };
    writeln!(w, "REAL {}", p_argument(&seedcase))?;
    // exact ties of the premise: the sum is 0 (the offset cancels the product), 1, 2^63 - 1
    for (v, q, off) in [
        (5i64, 1.0f32, -5i64), (1000, 0.5, -500), (7, 0.25, -1), (0, 1.0, 0), (1, 1.0, 0), (200, 1.0, -199),
        (4, 2.0, -8), (1 << 40, 1.0, -(1 << 40)), (3, 1.0, i64::MAX - 3), (0, 123.5, i64::MAX), (1, 0.0, 0), (9, 0.0, 7),
    ] {
        for signed in [false, true] {
            for wide in [false, true] {
                if !wide && (off > i32::MAX as i64 || off < i32::MIN as i64 || v > i32::MAX as i64) {
                    continue;
                }
                let mut a = seedcase.clone();
                a.type_info.kind = if signed {
                    TypeInfoKind::SignedFixedPoint(if wide { FloatWidth::Width64 } else { FloatWidth::Width32 })
                } else {
                    TypeInfoKind::UnsignedFixedPoint(if wide { FloatWidth::Width64 } else { FloatWidth::Width32 })
                };
                a.fixed_point = Some(FixedPoint {
                    quantization: q,
                    offset: if wide { FixedPointValue::I64(off) } else { FixedPointValue::I32(off as i32) },
                });
                a.value = match (signed, wide) {
                    (true, true) => Value::I64(v),
                    (true, false) => Value::I32(v as i32),
                    (false, true) => Value::U64(v as u64),
                    (false, false) => Value::U32(v as u32),
                };
                writeln!(w, "REAL {}", p_argument(&a))?;
            }
        }
    }
    for _ in 0..n {
        let a = match r.below(10) {
            0 | 1 => argument(r, false),
            _ => {
                // fixed-point kinds with every value variant, offsets and quantizations
                let wdt = float_width(r);
                let kind = if r.flip() {
                    TypeInfoKind::SignedFixedPoint(wdt)
                } else {
                    TypeInfoKind::UnsignedFixedPoint(wdt)
                };
                let value = match r.below(12) {
                    0 => Value::Bool(1),
                    1 => Value::U128(r.int_bits(128)),
                    2 => Value::F32(1.5),
                    3 => Value::StringVal("7".into()),
                    _ => {
                        let signed = r.flip();
                        let l = *r.pick(&[
                            TypeLength::BitLength8,
                            TypeLength::BitLength16,
                            TypeLength::BitLength32,
                            TypeLength::BitLength64,
                        ]);
                        let mut v = int_value(r, signed, l);
                        if r.chance(1, 3) {
                            // values around 2^53 / 2^63 / small
                            let base: u64 = *r.pick(&[
                                1u64 << 53, (1u64 << 53) + 1, (1u64 << 54) + 2, 1u64 << 63,
                                (1u64 << 63) - 1, u64::MAX, 1000, 7785, 3, (1u64 << 62) + 12345,
                            ]);
                            let d = r.below(5);
                            v = if signed {
                                Value::I64(base.wrapping_add(d) as i64)
                            } else {
                                Value::U64(base.wrapping_add(d))
                            };
                        }
                        v
                    }
                };
                let fp = if r.chance(1, 12) {
                    None
                } else {
                    let q = match r.below(6) {
                        0 => 1.0f32.to_bits(),
                        1 => 0.01f32.to_bits(),
                        2 => (r.below(1 << 10) as f32).to_bits(),
                        3 => (1.0f32 / (1 + r.below(64)) as f32).to_bits(),
                        _ => f32_bits(r),
                    };
                    let off_small = r.range(0, 2000) as i64 - 1000;
                    let offset = match (r.flip(), r.below(4)) {
                        (true, 0) => FixedPointValue::I32(off_small as i32),
                        (true, 1) => FixedPointValue::I32(*r.pick(&[i32::MIN, i32::MAX, -1, 0, 1, -50])),
                        (true, _) => FixedPointValue::I32(r.int_bits(32) as u32 as i32),
                        (false, 0) => FixedPointValue::I64(off_small),
                        (false, 1) => FixedPointValue::I64(*r.pick(&[i64::MIN, i64::MAX, -1, 0, 1, -50])),
                        (false, _) => FixedPointValue::I64(r.int_bits(64) as u64 as i64),
                    };
                    Some(FixedPoint {
                        quantization: f32::from_bits(q),
                        offset,
                    })
                };
                Argument {
                    type_info: TypeInfo {
                        kind,
                        coding: StringCoding::ASCII,
                        has_variable_info: false,
                        has_trace_info: false,
                    },
                    name: None,
                    unit: None,
                    fixed_point: fp,
                    value,
                }
            }
        };
        writeln!(w, "REAL {}", p_argument(&a))?;
    }
    Ok(())
}

fn c14(r: &mut Rng, thorough: bool, w: W) -> std::io::Result<()> {
    for b in 0..=255u32 {
        writeln!(w, "HTYP {}", b)?;
    }
    for b in 0..=255u32 {
        writeln!(w, "MSIN {}", b)?;
    }
    // the decode result depends on bits 0..17 only: all 2^18 low words
    for x in 0..(1u32 << 18) {
        writeln!(w, "TI {}", x)?;
    }
    let n = if thorough { 1_000_000 } else { 20_000 };
    for _ in 0..n {
        let lo = r.next() as u32 & 0x3ffff;
        let hi = match r.below(4) {
            0 => 0xfffc_0000u32,
            1 => 1u32 << r.range(18, 31),
            _ => (r.next() as u32) & 0xfffc_0000,
        };
        writeln!(w, "TI {}", lo | hi)?;
    }
    Ok(())
}

fn c19(r: &mut Rng, thorough: bool, w: W) -> std::io::Result<()> {
    const ALPHA: &[u8] = &[
        0x00, b'a', 0xC3, 0xA9, 0xE2, 0x82, 0xAC, 0xF0, 0x9F, 0x98, 0x80, 0xC0, 0xED, 0xA0, 0xFF,
    ];
    let max_len = if thorough { 4 } else { 3 };
    // exhaustive: all strings over ALPHA up to max_len, sizes 0..=7
    let mut cur: Vec<usize> = vec![];
    loop {
        let s: Vec<u8> = cur.iter().map(|i| ALPHA[*i]).collect();
        for n in 0..=7usize {
            writeln!(w, "ZTS {} {}", n, hex(&s))?;
        }
        // next string in length-lexicographic order
        let mut i = cur.len();
        loop {
            if i == 0 {
                cur = vec![0; cur.len() + 1];
                break;
            }
            i -= 1;
            if cur[i] + 1 < ALPHA.len() {
                cur[i] += 1;
                for c in cur.iter_mut().skip(i + 1) {
                    *c = 0;
                }
                break;
            }
        }
        if cur.len() > max_len {
            break;
        }
    }
    let n = if thorough { 400_000 } else { 10_000 };
    for _ in 0..n {
        let len = match r.below(10) {
            0 => r.range(100, 4000) as usize,
            1 => r.range(65000, 66000) as usize,
            _ => r.below(24) as usize,
        };
        // inputs around 64 KiB are 130 KB of hex each: a few hundred of them per run are enough
        let len = if len > 4000 && (!thorough || !r.chance(1, 100)) { r.below(300) as usize } else { len };
        let mut s: Vec<u8> = match r.below(4) {
            0 => r.bytes(len),
            1 => utf8_no_nul(r, len).into_bytes(),
            _ => (0..len).map(|_| *r.pick(ALPHA)).collect(),
        };
        if r.chance(1, 3) && !s.is_empty() {
            let i = r.below(s.len() as u64) as usize;
            s[i] = 0;
        }
        let n = match r.below(6) {
            0 => s.len(),
            1 => s.len() + r.range(1, 5) as usize,
            2 => r.below(65536) as usize,
            3 => s.len().saturating_sub(r.range(1, 4) as usize),
            _ => r.below(s.len() as u64 + 3) as usize,
        };
        writeln!(w, "ZTS {} {}", n, hex(&s))?;
    }
    // the 4-byte ids as seen through dlt_message: raw messages whose id fields hold arbitrary
    // bytes (NUL in the middle, bytes behind the first NUL, multi-byte scalars, invalid UTF-8)
    let id_field = |r: &mut Rng| -> Vec<u8> {
        match r.below(8) {
            0 => r.bytes(4),
            1 => {
                // text, NUL, then more non-NUL bytes
                let mut f: Vec<u8> = (0..4).map(|_| *r.pick(&ALPHA[1..])).collect();
                f[r.below(3) as usize] = 0;
                f
            }
            2 => {
                let mut f = utf8_no_nul(r, 4).into_bytes();
                f.truncate(4);
                while f.len() < 4 {
                    f.push(0);
                }
                f
            }
            _ => (0..4).map(|_| *r.pick(ALPHA)).collect(),
        }
    };
    let ids_msg = |r: &mut Rng, fixed: Option<(usize, Vec<u8>)>| -> (bool, Vec<u8>) {
        let storage = r.flip();
        let weid = r.chance(3, 4);
        let wsid = r.flip();
        let wtms = r.flip();
        let ueh = r.chance(3, 4);
        let mut fields: Vec<Vec<u8>> = (0..4).map(|_| id_field(r)).collect();
        if let Some((i, f)) = fixed {
            fields[i] = f;
        }
        let mut b = vec![];
        if storage {
            b.extend_from_slice(&[0x44, 0x4C, 0x54, 0x01]);
            b.extend_from_slice(&r.bytes(8));
            b.extend_from_slice(&fields[0]);
        }
        let htyp = (ueh as u8) | ((r.flip() as u8) << 1) | ((weid as u8) << 2) | ((wsid as u8) << 3)
            | ((wtms as u8) << 4) | (1 << 5);
        let plen = 4 + r.below(6) as usize;
        let payload = r.bytes(plen);
        let len = 4 + 4 * (weid as usize + wsid as usize + wtms as usize) + 10 * (ueh as usize) + payload.len();
        b.push(htyp);
        b.push(r.below(256) as u8);
        b.extend_from_slice(&(len as u16).to_be_bytes());
        if weid {
            b.extend_from_slice(&fields[1]);
        }
        if wsid {
            b.extend_from_slice(&r.bytes(4));
        }
        if wtms {
            b.extend_from_slice(&r.bytes(4));
        }
        if ueh {
            // non-verbose log message
            b.push((r.below(7) as u8) << 4);
            b.push(0);
            b.extend_from_slice(&fields[2]);
            b.extend_from_slice(&fields[3]);
        }
        b.extend_from_slice(&payload);
        if r.chance(1, 4) {
            let k = r.below(6) as usize;
            b.extend_from_slice(&r.bytes(k));
        }
        (storage, b)
    };
    let n = if thorough { 200_000 } else { 8_000 };
    for _ in 0..n {
        let (st, b) = ids_msg(r, None);
        writeln!(w, "IDS {} {}", p_bool(st), hex(&b))?;
    }
    // every 4-byte string over the alphabet in one of the four fields (thorough: all 15^4;
    // quick: all strings with a NUL in second or third position, 2 * 15^3)
    let mut idx = [0usize; 4];
    'outer: loop {
        let f: Vec<u8> = idx.iter().map(|i| ALPHA[*i]).collect();
        if thorough || f[1] == 0 || f[2] == 0 {
            let which = 1 + (idx[0] + idx[3]) % 3;
            let (st, b) = ids_msg(r, Some((which, f)));
            writeln!(w, "IDS {} {}", p_bool(st), hex(&b))?;
        }
        let mut i = 4;
        loop {
            if i == 0 {
                break 'outer;
            }
            i -= 1;
            if idx[i] + 1 < ALPHA.len() {
                idx[i] += 1;
                for c in idx.iter_mut().skip(i + 1) {
                    *c = 0;
                }
                break;
            }
        }
    }
    Ok(())
}

/// bytes of a message, computed by the crate (generation only needs *some* realistic bytes to
/// mutate; nothing is concluded from them)
fn enc(m: &Message) -> Vec<u8> {
    std::panic::catch_unwind(std::panic::AssertUnwindSafe(|| m.as_bytes())).unwrap_or_default()
}

fn suffix(r: &mut Rng) -> Vec<u8> {
    match r.below(8) {
        6 => {
            // bytes that do not start a storage header, with the pattern further behind
            let n = r.range(1, 12) as usize;
            let mut v = r.bytes(n);
            if v[0] == 0x44 {
                v[0] = 0x45;
            }
            v.extend_from_slice(&[0x44, 0x4c, 0x54, 0x01]);
            let k = r.below(24) as usize;
            v.extend(r.bytes(k));
            v
        }
        7 => {
            // a few stray bytes and then another message (with its storage header half of the time)
            let n = r.range(1, 6) as usize;
            let mut v = vec![0x20; n];
            let storage = if r.flip() { Some(true) } else { None };
            v.extend(enc(&message(r, &MsgOpts { storage, ..MsgOpts::default() })));
            v
        }
        0 | 1 => vec![],
        2 => {
            let n = r.range(1, 20) as usize;
            r.bytes(n)
        }
        3 => enc(&message(r, &MsgOpts::default())),
        4 => {
            let mut v = vec![0x44, 0x4c, 0x54, 0x01];
            let n = r.below(20) as usize;
            v.extend(r.bytes(n));
            v
        }
        _ => vec![0x44, 0x4c, 0x54],
    }
}

fn c01(r: &mut Rng, thorough: bool, w: W) -> std::io::Result<()> {
    let n = if thorough { 300_000 } else { 4_000 };
    let nbig = if thorough { 1_500 } else { 40 };
    for i in 0..n {
        let big = i < nbig;
        let m = message(r, &MsgOpts { storage: None, big, max_args: if big { 12 } else { 6 } });
        let sfx = suffix(r);
        writeln!(w, "RT {} {}", p_message(&m), hex(&sfx))?;
    }
    // the one-byte argument count at its limit
    for count in [254usize, 255] {
        for nw in [false, true] {
            let m = crate::gen::message_with_count(r, nw, count);
            writeln!(w, "RT {} {}", p_message(&m), hex(&suffix(r)))?;
        }
    }
    // names / units / strings whose 16-bit length (terminator included) is 32767, 32768, 65000
    for total in [32767usize, 32768, 65000] {
        for which in 0..3 {
            let m = crate::gen::message_with_long_text(r, which, total - 1);
            writeln!(w, "RT {} {}", p_message(&m), hex(&suffix(r)))?;
        }
    }
    Ok(())
}

fn c02(r: &mut Rng, thorough: bool, w: W) -> std::io::Result<()> {
    // encoding: the type-directed well-formed messages of C01 (every payload kind, both byte
    // orders, all flag sets, all argument kinds and widths, boundary lengths)
    let n = if thorough { 200_000 } else { 4_000 };
    let nbig = if thorough { 1_000 } else { 30 };
    for i in 0..n {
        let big = i < nbig;
        let m = message(r, &MsgOpts { storage: None, big, max_args: if big { 12 } else { 6 } });
        writeln!(w, "ENC {}", p_message(&m))?;
    }
    for count in [254usize, 255] {
        for nw in [false, true] {
            let m = crate::gen::message_with_count(r, nw, count);
            writeln!(w, "ENC {}", p_message(&m))?;
            let ws = m.storage_header.is_some();
            writeln!(w, "PARSE {} - {}", p_bool(ws), hex(&enc(&m)))?;
        }
    }
    // decoding: canonical, dialect, mutated, truncated, spliced, arbitrary; both storage modes
    let n = if thorough { 1_000_000 } else { 10_000 };
    for i in 0..n {
        let (ws, v) = decode_stream(r, i % 500 == 0);
        writeln!(w, "PARSE {} - {}", p_bool(ws), hex(&v))?;
        // every truncation of some of them (the incomplete / reject boundary)
        if i % 40 == 0 && v.len() < 200 {
            for k in 0..v.len() {
                writeln!(w, "PARSE {} - {}", p_bool(ws), hex(&v[..k]))?;
            }
        }
    }
    Ok(())
}

/// the malformed / dialect decode stream shared by C02, C03, C04, C16
pub fn decode_stream(r: &mut Rng, big: bool) -> (bool, Vec<u8>) {
    let storage = r.flip();
    let m = message(r, &MsgOpts { storage: Some(storage), big, max_args: 5 });
    let bytes = enc(&m);
    let v = match r.below(10) {
        0 => bytes,
        1 => {
            let mut b = bytes;
            b.extend(suffix(r));
            b
        }
        2 => {
            if r.flip() {
                noise(r)
            } else {
                // a payload of 0..5 bytes behind a random header shape / message kind
                let mp = minimal_payloads(r.below(32) as u8);
                let mut b = if storage {
                    vec![0x44, 0x4c, 0x54, 0x01, 1, 0, 0, 0, 2, 0, 0, 0, b'E', b'C', b'U', 0]
                } else {
                    vec![]
                };
                b.extend_from_slice(&r.pick(&mp).1);
                b
            }
        }
        3 if r.chance(1, 4) => {
            // dialect: a verbose NETWORK-TRACE message whose raw slices carry names (VARI) and that
            // also contains non-raw arguments
            let be = r.flip();
            let mut b = if storage {
                vec![0x44, 0x4c, 0x54, 0x01, 1, 0, 0, 0, 2, 0, 0, 0, b'E', b'C', b'U', 0]
            } else {
                vec![]
            };
            let mut p: Vec<u8> = vec![];
            let nargs = r.range(1, 3) as usize;
            for _ in 0..nargs {
                let named = r.flip();
                let dl = r.below(6) as usize;
                let data = r.bytes(dl);
                let ti: u32 = 0x400 | if named { 0x800 } else { 0 };
                p.extend_from_slice(&if be { ti.to_be_bytes() } else { ti.to_le_bytes() });
                let l = data.len() as u16;
                p.extend_from_slice(&if be { l.to_be_bytes() } else { l.to_le_bytes() });
                if named {
                    let nl = 3u16;
                    p.extend_from_slice(&if be { nl.to_be_bytes() } else { nl.to_le_bytes() });
                    p.extend_from_slice(b"ca\0");
                }
                p.extend_from_slice(&data);
            }
            let len = (4 + 10 + p.len()) as u16;
            b.extend_from_slice(&[0x21 | if be { 2 } else { 0 }, 9, (len >> 8) as u8, len as u8]);
            b.extend_from_slice(&[0x25, nargs as u8, b'A', b'P', b'P', 0, b'C', b'T', b'X', 0]);
            b.extend_from_slice(&p);
            b
        }
        5 if r.chance(1, 2) => named_arg_dialect(r, storage),
        3 => {
            // junk in front (storage mode resync)
            let k = r.range(1, 12) as usize;
            let mut b = r.bytes(k);
            b.extend(bytes);
            b
        }
        4 => {
            // splice two messages
            let m2 = message(r, &MsgOpts { storage: Some(storage), big: false, max_args: 3 });
            let b2 = enc(&m2);
            let cut = r.below(bytes.len() as u64 + 1) as usize;
            let mut b = bytes[..cut].to_vec();
            let cut2 = r.below(b2.len() as u64 + 1) as usize;
            b.extend_from_slice(&b2[cut2..]);
            b
        }
        _ => mutate(r, &bytes, storage),
    };
    // storage mode is sometimes flipped relative to the bytes
    let w = if r.chance(1, 10) { !storage } else { storage };
    (w, v)
}

/// dialect: one verbose argument with variable info, written by hand, whose name / unit / string
/// fields are terminated, UNTERMINATED (no NUL among the announced bytes), cut by an early NUL,
/// empty or all NUL - what other writers produce and the crate's own writer never does
fn named_arg_dialect(r: &mut Rng, storage: bool) -> Vec<u8> {
    let be = r.flip();
    let p16 = |n: usize| -> [u8; 2] { if be { (n as u16).to_be_bytes() } else { (n as u16).to_le_bytes() } };
    let text = |r: &mut Rng| -> Vec<u8> {
        let base: &[u8] = *r.pick(&[&b"abc"[..], b"x", b"name", b"\xc3\xa9t", b"ab\xff"]);
        match r.below(6) {
            0 => { let mut v = base.to_vec(); v.push(0); v }        // terminated
            1 => base.to_vec(),                                      // unterminated
            2 => { let mut v = base.to_vec(); v.push(0); v.extend_from_slice(b"zz"); v.push(0); v } // early NUL
            3 => vec![],                                             // declared length 0
            4 => vec![0, 0],                                         // only NULs
            _ => { let mut v = base.to_vec(); v.extend_from_slice(b"\0\0"); v } // doubly terminated
        }
    };
    let kind = r.below(6);
    let tyle = r.range(1, 5) as u32;
    let ti: u32 = 0x800
        | match kind {
            0 => 0x10 | 1,
            1 => 0x20 | tyle,
            2 => 0x40 | tyle,
            3 => 0x80 | if r.flip() { 3 } else { 4 },
            4 => 0x200 | if r.flip() { 0x8000 } else { 0 },
            _ => 0x400,
        };
    let mut p: Vec<u8> = if be { ti.to_be_bytes().to_vec() } else { ti.to_le_bytes().to_vec() };
    let name = text(r);
    match kind {
        0 => {
            p.extend_from_slice(&p16(name.len()));
            p.extend_from_slice(&name);
            p.push(r.below(3) as u8);
        }
        1..=3 => {
            let unit = text(r);
            p.extend_from_slice(&p16(name.len()));
            p.extend_from_slice(&p16(unit.len()));
            p.extend_from_slice(&name);
            p.extend_from_slice(&unit);
            let w = match ti & 0xF { 1 => 1, 2 => 2, 3 => 4, 4 => 8, _ => 16 };
            p.extend(r.bytes(w));
        }
        4 => {
            let sv = text(r);
            p.extend_from_slice(&p16(sv.len()));
            p.extend_from_slice(&p16(name.len()));
            p.extend_from_slice(&name);
            p.extend_from_slice(&sv);
        }
        _ => {
            let k = r.below(5) as usize;
            let data = r.bytes(k);
            p.extend_from_slice(&p16(data.len()));
            p.extend_from_slice(&p16(name.len()));
            p.extend_from_slice(&name);
            p.extend_from_slice(&data);
        }
    }
    let mut b = if storage {
        vec![0x44, 0x4c, 0x54, 0x01, 1, 0, 0, 0, 2, 0, 0, 0, b'E', b'C', b'U', 0]
    } else {
        vec![]
    };
    let len = (4 + 10 + p.len()) as u16;
    b.extend_from_slice(&[0x21 | if be { 2 } else { 0 }, 9, (len >> 8) as u8, len as u8]);
    b.extend_from_slice(&[0x41, 1, b'A', b'P', b'P', 0, b'C', b'T', b'X', 0]);
    b.extend_from_slice(&p);
    if r.chance(1, 5) {
        b.extend(suffix(r));
    }
    b
}

/// messages whose declared length leaves a payload of 0..5 bytes, for one header flag set and each
/// message kind (non-verbose log, verbose log, control, verbose network trace) x NOAR 0 / 1 / 255
pub fn minimal_payloads(flags: u8) -> Vec<(usize, Vec<u8>)> {
    let mut out = vec![];
    let ueh = flags & 1 != 0;
    let hl = 4 + 4 * ((flags >> 2) & 1) as usize + 4 * ((flags >> 3) & 1) as usize + 4 * ((flags >> 4) & 1) as usize
        + if ueh { 10 } else { 0 };
    let kinds: &[(u8, u8)] = if ueh { &[(0x10, 0), (0x11, 0), (0x11, 1), (0x16, 0), (0x16, 255), (0x25, 1), (0x41, 0)] } else { &[(0, 0)] };
    for (msin, noar) in kinds {
        for k in 0..=5usize {
            let len = (hl + k) as u16;
            let mut v = vec![flags | 0x20, 7, (len >> 8) as u8, len as u8];
            for _ in 0..((flags >> 2) & 1) + ((flags >> 3) & 1) + ((flags >> 4) & 1) {
                v.extend_from_slice(b"AB\0\0");
            }
            if ueh {
                v.push(*msin);
                v.push(*noar);
                v.extend_from_slice(b"APP\0CTX\0");
            }
            for i in 0..k {
                v.push(0x30 + i as u8);
            }
            out.push((k, v.clone()));
            // the same with bytes of a following message behind it
            v.extend_from_slice(&[0x35, 1, 0, 4]);
            out.push((k, v));
        }
    }
    out
}

fn c03(r: &mut Rng, thorough: bool, w: W) -> std::io::Result<()> {
    let n = if thorough { 400_000 } else { 8_000 };
    // guard-targeted: declared length below the header length, for all 32 flag sets
    for flags in 0..32u8 {
        for len in [0u16, 1, 3, 4, 5, 13, 14, 15, 17, 18, 25, 26, 27] {
            let mut v = vec![flags, 0, (len >> 8) as u8, len as u8];
            v.extend(vec![0u8; 40]);
            writeln!(w, "NOPANIC 0 - {}", hex(&v))?;
            let mut s = vec![0x44, 0x4c, 0x54, 0x01, 0, 0, 0, 0, 0, 0, 0, 0, b'E', b'C', b'U', 0];
            s.extend(&v);
            writeln!(w, "NOPANIC 1 - {}", hex(&s))?;
            writeln!(w, "CONSUME {}", hex(&s))?;
        }
    }
    // guard-targeted: payloads of 0..5 bytes behind every header shape and message kind (control
    // messages need 1 byte, non-verbose ones 4; a verbose message with NOAR > 0 needs arguments)
    for flags in 0..32u8 {
        for (k, b) in minimal_payloads(flags) {
            let _ = k;
            writeln!(w, "NOPANIC 0 - {}", hex(&b))?;
            let mut s = vec![0x44, 0x4c, 0x54, 0x01, 0, 0, 0, 0, 0, 0, 0, 0, b'E', b'C', b'U', 0];
            s.extend(&b);
            writeln!(w, "NOPANIC 1 - {}", hex(&s))?;
            writeln!(w, "CONSUME {}", hex(&s))?;
        }
    }
    // a string argument whose invalid bytes, if REPLACED instead of cut (x3 as U+FFFD, x2 as
    // Latin-1 -> UTF-8), would make the text reach the 16-bit length limit on re-serialisation
    for be in [false, true] {
        for (factor, delta) in [(3usize, 0isize), (3, -1), (3, 1), (2, 0), (2, 1)] {
            // k invalid bytes and m ASCII bytes with factor*k + m = 65535 + delta, k + m + 1 = field size
            let k = 4000usize;
            let m = (65535isize + delta) as usize - factor * k;
            let field = k + m + 1;
            let htyp: u8 = 0x21 | if be { 0x02 } else { 0 };
            let len = 4 + 10 + 4 + 2 + field;
            let mut v = vec![htyp, 0, (len >> 8) as u8, len as u8, 0x01, 1, b'A', 0, 0, 0, b'C', 0, 0, 0];
            let ti: u32 = 0x0000_0200;
            v.extend_from_slice(&if be { ti.to_be_bytes() } else { ti.to_le_bytes() });
            let fl = field as u16;
            v.extend_from_slice(&if be { fl.to_be_bytes() } else { fl.to_le_bytes() });
            // invalid bytes spread through the text (not only at the end)
            for i in 0..(k + m) {
                v.push(if i % ((k + m) / k) == 0 && i / ((k + m) / k) < k { 0xFF } else { b'a' });
            }
            v.push(0);
            writeln!(w, "NOPANIC 0 - {}", hex(&v))?;
        }
    }
    // 65535-byte names / strings inside a verbose payload, > 64 KiB inputs
    for be in [false, true] {
        for ti in [0x0000_0a00u32, 0x0000_0810, 0x0000_0c00, 0x0000_0823] {
            let htyp: u8 = 0x01 | if be { 0x02 } else { 0 };
            let mut v = vec![htyp, 0, 0xff, 0xff, 0x01, 1, b'A', 0, 0, 0, b'C', 0, 0, 0];
            let tib = if be { ti.to_be_bytes() } else { ti.to_le_bytes() };
            v.extend_from_slice(&tib);
            v.extend_from_slice(&[0xff, 0xff, 0xff, 0xff]);
            v.extend(vec![b'n'; 70_000]);
            writeln!(w, "NOPANIC 0 - {}", hex(&v))?;
            v.truncate(65535);
            writeln!(w, "NOPANIC 0 - {}", hex(&v))?;
        }
    }
    // complete messages whose length field is at and near its 16-bit limit, parsed with and without
    // storage header (with one the stored message is longer than 65535 bytes) and followed by more
    // input: what is returned must be re-serialisable and measurable. Built by hand, byte for byte
    // (a generator that called the crate's writer would change together with it).
    for storage in [true, false] {
        for full_header in [false, true] {
            for total in [65519usize, 65520, 65521, 65534, 65535] {
                for shape in 0..2 {
                    let be = total % 2 == 0;
                    let verbose = shape == 1 && full_header;
                    let mut v: Vec<u8> = Vec::with_capacity(total + 32);
                    if storage {
                        v.extend_from_slice(&[0x44, 0x4c, 0x54, 0x01, 9, 0, 0, 0, 8, 0, 0, 0, b'E', b'C', 0, 0]);
                    }
                    let htyp: u8 = (1 << 5) | if be { 0x02 } else { 0 } | if full_header { 0x01 | 0x04 | 0x08 | 0x10 } else { 0 };
                    v.extend_from_slice(&[htyp, 200, (total >> 8) as u8, total as u8]);
                    if full_header {
                        v.extend_from_slice(b"ECU9");
                        v.extend_from_slice(&77u32.to_be_bytes());
                        v.extend_from_slice(&99u32.to_be_bytes());
                        v.extend_from_slice(&[if verbose { 0x41 } else { 0x50 }, if verbose { 1 } else { 0 }]);
                        v.extend_from_slice(b"APP\0CTX\0");
                    }
                    let head = 4 + if full_header { 12 + 10 } else { 0 };
                    if verbose {
                        let ti: u32 = 0x0000_0400;
                        let n = (total - head - 6) as u16;
                        v.extend_from_slice(&if be { ti.to_be_bytes() } else { ti.to_le_bytes() });
                        v.extend_from_slice(&if be { n.to_be_bytes() } else { n.to_le_bytes() });
                        v.extend(std::iter::repeat(0xA5u8).take(n as usize));
                    } else {
                        let id: u32 = 0x01020304;
                        v.extend_from_slice(&if be { id.to_be_bytes() } else { id.to_le_bytes() });
                        v.extend(std::iter::repeat(0x5Au8).take(total - head - 4));
                    }
                    v.extend_from_slice(&[0x44, 0x4c, 0x54, 0x01, 0, 0]);
                    writeln!(w, "NOPANIC {} - {}", p_bool(storage), hex(&v))?;
                    if storage {
                        writeln!(w, "CONSUME {}", hex(&v))?;
                    }
                }
            }
        }
    }
    for i in 0..n {
        let (ws, v) = decode_stream(r, i % 500 == 0);
        let ids = vec!["A".to_string(), "ABC".to_string(), "x".to_string()];
        let f = if r.chance(1, 3) { Some(filter(r, &ids)) } else { None };
        writeln!(w, "NOPANIC {} {} {}", p_bool(ws), p_opt(&f, p_filter), hex(&v))?;
        match r.below(8) {
            0 => writeln!(w, "CONSUME {}", hex(&v))?,
            1 => writeln!(w, "SKIPSH {}", hex(&v))?,
            2 => writeln!(w, "FWD {}", hex(&v))?,
            3 => {
                let k = match r.below(4) {
                    0 => v.len(),
                    1 => v.len() + 1,
                    2 => r.below(70000) as usize,
                    _ => r.below(v.len() as u64 + 2) as usize,
                };
                writeln!(w, "ZTS {} {}", k, hex(&v))?
            }
            _ => {}
        }
    }
    Ok(())
}

fn c05(r: &mut Rng, thorough: bool, w: W) -> std::io::Result<()> {
    let n = if thorough { 12_000 } else { 350 };
    // the shortest messages there are (every cut then lies close to every header boundary, and in
    // storage mode fewer than 16 bytes are missing while the cut is still inside the storage header)
    for storage in [false, true] {
        for big_endian in [false, true] {
            for shape in 0..5 {
                let (payload, ext): (PayloadContent, Option<ExtendedHeaderConfig>) = match shape {
                    0 => (PayloadContent::NonVerbose(7, vec![]), None),
                    1 => (PayloadContent::NonVerbose(7, vec![1]), None),
                    2 => (
                        PayloadContent::Verbose(vec![]),
                        Some(ExtendedHeaderConfig { message_type: MessageType::Log(LogLevel::Info), app_id: "A".into(), context_id: "".into() }),
                    ),
                    3 => (
                        PayloadContent::ControlMsg(ControlType::Request, vec![]),
                        Some(ExtendedHeaderConfig { message_type: MessageType::Control(ControlType::Request), app_id: "AB".into(), context_id: "CTX1".into() }),
                    ),
                    _ => (
                        PayloadContent::NonVerbose(9, vec![]),
                        Some(ExtendedHeaderConfig { message_type: MessageType::Log(LogLevel::Warn), app_id: "".into(), context_id: "C".into() }),
                    ),
                };
                let sh = storage.then(|| StorageHeader {
                    timestamp: DltTimeStamp { seconds: 1, microseconds: 2 },
                    ecu_id: "E".into(),
                });
                let m = Message::new(
                    MessageConfig {
                        version: 1,
                        counter: 3,
                        endianness: if big_endian { Endianness::Big } else { Endianness::Little },
                        ecu_id: None,
                        session_id: None,
                        timestamp: None,
                        payload,
                        extended_header_info: ext,
                    },
                    sh,
                );
                writeln!(w, "CUTALL {}", p_message(&m))?;
            }
        }
    }
    for _ in 0..n {
        let m = message(r, &MsgOpts { storage: None, big: false, max_args: 4 });
        writeln!(w, "CUTALL {}", p_message(&m))?;
    }
    // messages that carry the storage-header pattern in their own payload (non-verbose payload, raw
    // argument, string argument, network-trace slice, application / context id), every cut
    for storage in [true, false] {
        for shape in 0..5 {
            for at in [0usize, 1, 5] {
                let mut blob = vec![0x11u8; at];
                blob.extend_from_slice(&[0x44, 0x4c, 0x54, 0x01]);
                blob.extend_from_slice(&[0x22; 6]);
                let log = MessageType::Log(LogLevel::Info);
                let ext = |mt: MessageType| Some(ExtendedHeaderConfig { message_type: mt, app_id: "DLT\u{1}".into(), context_id: "C".into() });
                let (payload, ext): (PayloadContent, Option<ExtendedHeaderConfig>) = match shape {
                    0 => (PayloadContent::NonVerbose(0x0154_4c44, blob.clone()), None),
                    1 => (PayloadContent::NonVerbose(7, blob.clone()), ext(log)),
                    2 => (
                        PayloadContent::Verbose(vec![Argument {
                            type_info: TypeInfo { kind: TypeInfoKind::Raw, coding: StringCoding::ASCII, has_variable_info: false, has_trace_info: false },
                            name: None,
                            unit: None,
                            fixed_point: None,
                            value: Value::Raw(blob.clone()),
                        }]),
                        ext(log),
                    ),
                    3 => (
                        PayloadContent::Verbose(vec![Argument {
                            type_info: TypeInfo { kind: TypeInfoKind::StringType, coding: StringCoding::UTF8, has_variable_info: false, has_trace_info: false },
                            name: None,
                            unit: None,
                            fixed_point: None,
                            value: Value::StringVal(format!("{}DLT\u{1}tail", "x".repeat(at))),
                        }]),
                        ext(log),
                    ),
                    _ => (PayloadContent::NetworkTrace(vec![blob.clone(), vec![1, 2]]), ext(MessageType::NetworkTrace(NetworkTraceType::Can))),
                };
                let sh = storage.then(|| StorageHeader { timestamp: DltTimeStamp { seconds: 5, microseconds: 6 }, ecu_id: "ECU".into() });
                let m = Message::new(
                    MessageConfig {
                        version: 1,
                        counter: 1,
                        endianness: if at == 1 { Endianness::Big } else { Endianness::Little },
                        ecu_id: (at == 5).then(|| "DLT\u{1}".to_string()),
                        session_id: None,
                        timestamp: None,
                        payload,
                        extended_header_info: ext,
                    },
                    sh,
                );
                writeln!(w, "CUTALL {}", p_message(&m))?;
            }
        }
    }
    // the longest messages there are: the 16-bit length field at and near its limit (with a storage
    // header the whole message is longer than 65535 bytes)
    for storage in [true, false] {
        for full_header in [false, true] {
            for total in [32768usize, 65519, 65520, 65521, 65534, 65535] {
                let head = 4 + if full_header { 12 + 10 } else { 0 };
                let sh = storage.then(|| StorageHeader {
                    timestamp: DltTimeStamp { seconds: 9, microseconds: 8 },
                    ecu_id: "EC".into(),
                });
                let m = Message::new(
                    MessageConfig {
                        version: 1,
                        counter: 200,
                        endianness: if r.flip() { Endianness::Big } else { Endianness::Little },
                        ecu_id: full_header.then(|| "ECU9".to_string()),
                        session_id: full_header.then_some(77),
                        timestamp: full_header.then_some(99),
                        payload: PayloadContent::NonVerbose(0x01020304, vec![0x5A; total - head - 4]),
                        extended_header_info: full_header.then(|| ExtendedHeaderConfig {
                            message_type: MessageType::Log(LogLevel::Debug),
                            app_id: "APP".into(),
                            context_id: "CTX".into(),
                        }),
                    },
                    sh,
                );
                writeln!(w, "CUTS {} {}", if thorough { 257 } else { 8191 }, p_message(&m))?;
            }
        }
    }
    Ok(())
}

fn message_config(r: &mut Rng) -> (MessageConfig, Option<StorageHeader>) {
    let big = r.chance(1, 50);
    let m = message(r, &MsgOpts { storage: None, big, max_args: 6 });
    config_of(m)
}

fn config_of(m: Message) -> (MessageConfig, Option<StorageHeader>) {
    let ext = m.extended_header.as_ref().map(|e| ExtendedHeaderConfig {
        message_type: e.message_type.clone(),
        app_id: e.application_id.clone(),
        context_id: e.context_id.clone(),
    });
    (
        MessageConfig {
            version: m.header.version,
            counter: m.header.message_counter,
            endianness: m.header.endianness,
            ecu_id: m.header.ecu_id.clone(),
            session_id: m.header.session_id,
            timestamp: m.header.timestamp,
            payload: m.payload.clone(),
            extended_header_info: ext,
        },
        m.storage_header.clone(),
    )
}

fn c15(r: &mut Rng, thorough: bool, w: W) -> std::io::Result<()> {
    let n = if thorough { 300_000 } else { 6_000 };
    for count in [254usize, 255] {
        for nw in [false, true] {
            let (c, sh) = config_of(crate::gen::message_with_count(r, nw, count));
            writeln!(w, "NEW {} {}", crate::ops::p_message_config(&c), p_opt(&sh, p_storage_header))?;
        }
    }
    for i in 0..n {
        match i % 4 {
            0 | 1 => {
                let a = argument(r, i % 200 == 0);
                writeln!(w, "ARGLEN {}", p_argument(&a))?;
            }
            2 if i % 16 == 2 => {
                // a verbose configuration with arguments whose value / optional parts do not match
                // their type info
                let (mut c, sh) = message_config(r);
                let mut args: Vec<Argument> = (0..r.range(1, 4)).map(|_| argument(r, false)).collect();
                let k = r.below(args.len() as u64) as usize;
                let a = &mut args[k];
                match r.below(6) {
                    0 => a.type_info.kind = crate::gen::kind(r),
                    1 => a.value = argument(r, false).value,
                    2 => a.type_info.has_variable_info = !a.type_info.has_variable_info,
                    3 => a.fixed_point = None,
                    4 => a.unit = None,
                    _ => {
                        a.type_info.kind = crate::gen::kind(r);
                        a.type_info.has_variable_info = !a.type_info.has_variable_info;
                    }
                }
                c.payload = PayloadContent::Verbose(args);
                writeln!(
                    w,
                    "NEWX {} {}",
                    crate::ops::p_message_config(&c),
                    p_opt(&sh, p_storage_header)
                )?;
            }
            2 => {
                let (c, sh) = message_config(r);
                writeln!(
                    w,
                    "NEW {} {}",
                    crate::ops::p_message_config(&c),
                    p_opt(&sh, p_storage_header)
                )?;
            }
            _ => {
                if r.chance(1, 3) {
                    // validity check: bool / float kinds carrying another value variant
                    let mut a = argument(r, false);
                    let k = r
                        .pick(&[
                            TypeInfoKind::Bool,
                            TypeInfoKind::Float(FloatWidth::Width32),
                            TypeInfoKind::Float(FloatWidth::Width64),
                        ])
                        .clone();
                    a.type_info.kind = k;
                    a.type_info.has_variable_info = false;
                    a.name = None;
                    a.unit = None;
                    a.fixed_point = None;
                    writeln!(w, "VALID {}", p_argument(&a))?;
                } else {
                    let st = r.chance(1, 4);
                    let m = message(r, &MsgOpts { storage: Some(st), big: false, max_args: 4 });
                    writeln!(
                        w,
                        "ADDSH {} {} {}",
                        p_message(&m),
                        r.int_bits(32) as u32,
                        r.int_bits(32) as u32
                    )?;
                }
            }
        }
    }
    Ok(())
}

fn c16(r: &mut Rng, thorough: bool, w: W) -> std::io::Result<()> {
    let n = if thorough { 600_000 } else { 12_000 };
    for count in [254usize, 255] {
        for nw in [false, true] {
            let m = crate::gen::message_with_count(r, nw, count);
            writeln!(w, "STABLE {} {}", p_bool(m.storage_header.is_some()), hex(&enc(&m)))?;
        }
    }
    for i in 0..n {
        let (ws, v) = decode_stream(r, i % 500 == 0);
        writeln!(w, "STABLE {} {}", p_bool(ws), hex(&v))?;
    }
    Ok(())
}

fn c04(r: &mut Rng, thorough: bool, w: W) -> std::io::Result<()> {
    let n = if thorough { 500_000 } else { 10_000 };
    // complete messages whose length field is at and near its limit, followed by more input
    for total in [65519usize, 65520, 65521, 65534, 65535] {
        let m = Message::new(
            MessageConfig {
                version: 1,
                counter: 5,
                endianness: Endianness::Big,
                ecu_id: None,
                session_id: None,
                timestamp: None,
                payload: PayloadContent::NonVerbose(7, vec![0x33; total - 8]),
                extended_header_info: None,
            },
            Some(StorageHeader { timestamp: DltTimeStamp { seconds: 3, microseconds: 4 }, ecu_id: "EC".into() }),
        );
        let mut b = enc(&m);
        b.extend_from_slice(&[0x44, 0x4c, 0x54, 0x01, 9, 9, 9]);
        writeln!(w, "CONSUME {}", hex(&b))?;
        writeln!(w, "CONS 1 - {}", hex(&b))?;
        writeln!(w, "CONS 0 - {}", hex(&b[16..]))?;
    }
    let ids = vec!["A".to_string(), "ABC".to_string(), "x".to_string(), "".to_string()];
    for i in 0..n {
        // weighted towards verbose messages whose arguments are shorter / longer than declared
        let (ws, v) = if r.chance(1, 3) {
            let storage = r.flip();
            let mut m = message(r, &MsgOpts { storage: Some(storage), big: false, max_args: 5 });
            let delta = *r.pick(&[-9i32, -4, -2, -1, 1, 2, 4, 7, 20]);
            let pl = m.header.payload_length as i32 + delta;
            if pl >= 0 && pl <= 60000 {
                m.header.payload_length = pl as u16;
            }
            let mut b = enc(&m);
            if delta > 0 {
                // make the declared bytes available
                let extra = delta as usize + r.below(6) as usize;
                b.extend(r.bytes(extra));
            } else {
                b.extend(suffix(r));
            }
            if storage && r.chance(1, 3) {
                let k = r.range(1, 9) as usize;
                let mut j = r.bytes(k);
                j.extend(b);
                b = j;
            }
            (storage, b)
        } else {
            decode_stream(r, i % 1000 == 0)
        };
        let f = if r.chance(1, 2) { Some(filter(r, &ids)) } else { None };
        writeln!(w, "CONS {} {} {}", p_bool(ws), p_opt(&f, p_filter), hex(&v))?;
        if ws && r.chance(1, 3) {
            writeln!(w, "CONSUME {}", hex(&v))?;
        }
    }
    writeln!(w, "CONSUME x")?;
    Ok(())
}

fn nv_type(r: &mut Rng) -> TypeInfo {
    TypeInfo {
        kind: if r.chance(1, 12) {
            kind(r) // includes the fixed-point kinds (not part of the vocabulary: always an error)
        } else {
            match r.below(6) {
                0 => TypeInfoKind::Bool,
                1 => TypeInfoKind::Signed(type_length(r)),
                2 => TypeInfoKind::Unsigned(type_length(r)),
                3 => TypeInfoKind::Float(float_width(r)),
                4 => TypeInfoKind::StringType,
                _ => TypeInfoKind::Raw,
            }
        },
        coding: if r.flip() { StringCoding::ASCII } else { StringCoding::UTF8 },
        has_variable_info: false,
        has_trace_info: false,
    }
}

fn nv_field(r: &mut Rng, e: Endianness, t: &TypeInfo) -> Vec<u8> {
    let put16 = |n: u16| if e == Endianness::Big { n.to_be_bytes() } else { n.to_le_bytes() };
    match t.kind {
        TypeInfoKind::Bool => vec![r.below(3) as u8],
        TypeInfoKind::Signed(l) | TypeInfoKind::Unsigned(l) => r.bytes(l as usize / 8),
        TypeInfoKind::Float(w) | TypeInfoKind::SignedFixedPoint(w) | TypeInfoKind::UnsignedFixedPoint(w) => {
            r.bytes(w as usize / 8)
        }
        TypeInfoKind::StringType => {
            let s = match r.below(12) {
                0 => r.bytes(3),
                // NUL bytes are part of a non-verbose string like any other: at the end, inside, alone
                1 => { let mut v = utf8_no_nul(r, 6).into_bytes(); v.push(0); v }
                2 => { let mut v = utf8_no_nul(r, 4).into_bytes(); v.extend_from_slice(b"\0\0"); v }
                3 => { let mut v = utf8_no_nul(r, 3).into_bytes(); v.push(0); v.extend(utf8_no_nul(r, 3).into_bytes()); v }
                4 => vec![0],
                _ => utf8_no_nul(r, 10).into_bytes(),
            };
            let mut v = put16(s.len() as u16).to_vec();
            v.extend(s);
            v
        }
        TypeInfoKind::Raw => {
            let n = r.below(10) as usize;
            let mut v = put16(n as u16).to_vec();
            v.extend(r.bytes(n));
            v
        }
    }
}

fn c13(r: &mut Rng, thorough: bool, w: W) -> std::io::Result<()> {
    let all_kinds: Vec<TypeInfoKind> = {
        let mut v = vec![TypeInfoKind::Bool, TypeInfoKind::StringType, TypeInfoKind::Raw];
        for l in [
            TypeLength::BitLength8,
            TypeLength::BitLength16,
            TypeLength::BitLength32,
            TypeLength::BitLength64,
            TypeLength::BitLength128,
        ] {
            v.push(TypeInfoKind::Signed(l));
            v.push(TypeInfoKind::Unsigned(l));
        }
        for f in [FloatWidth::Width32, FloatWidth::Width64] {
            v.push(TypeInfoKind::Float(f));
            v.push(TypeInfoKind::SignedFixedPoint(f));
            v.push(TypeInfoKind::UnsignedFixedPoint(f));
        }
        v
    };
    let mk = |k: &TypeInfoKind| TypeInfo {
        kind: k.clone(),
        coding: StringCoding::ASCII,
        has_variable_info: false,
        has_trace_info: false,
    };
    // exhaustive: every kind (and pair of kinds) x both orders x every truncation point
    for e in [Endianness::Little, Endianness::Big] {
        for k1 in &all_kinds {
            let t1 = mk(k1);
            let f1 = nv_field(r, e, &t1);
            for cut in 0..=f1.len() + 1 {
                let mut d = f1.clone();
                d.push(0xAB);
                d.truncate(cut);
                writeln!(w, "NVA {} 1 {} {}", p_endian(e), p_type_info(&t1), hex(&d))?;
            }
            for k2 in &all_kinds {
                let t2 = mk(k2);
                let mut d = f1.clone();
                d.extend(nv_field(r, e, &t2));
                d.push(0xCD);
                let step = if thorough { 1 } else { 3 };
                let mut cut = 0;
                while cut <= d.len() {
                    writeln!(
                        w,
                        "NVA {} 2 {} {} {}",
                        p_endian(e),
                        p_type_info(&t1),
                        p_type_info(&t2),
                        hex(&d[..cut])
                    )?;
                    cut += step;
                }
            }
        }
    }
    // an EMPTY string / raw field: alone, last, in the middle, with and without a trailing byte
    for e in [Endianness::Little, Endianness::Big] {
        for k in [TypeInfoKind::Raw, TypeInfoKind::StringType] {
            let t = mk(&k);
            let u16t = mk(&TypeInfoKind::Unsigned(TypeLength::BitLength16));
            writeln!(w, "NVA {} 1 {} x0000", p_endian(e), p_type_info(&t))?;
            writeln!(w, "NVA {} 1 {} x000077", p_endian(e), p_type_info(&t))?;
            writeln!(w, "NVA {} 1 {} x00", p_endian(e), p_type_info(&t))?;
            writeln!(w, "NVA {} 2 {} {} x12340000", p_endian(e), p_type_info(&u16t), p_type_info(&t))?;
            writeln!(w, "NVA {} 2 {} {} x00001234", p_endian(e), p_type_info(&t), p_type_info(&u16t))?;
            writeln!(w, "NVA {} 3 {} {} {} x000000000000", p_endian(e), p_type_info(&t), p_type_info(&t), p_type_info(&t))?;
        }
    }
    // the extreme declared lengths of a string / raw signal (the 16-bit prefix at its limit):
    // content complete, one byte short, prefix only, followed / preceded by another signal
    for e in [Endianness::Little, Endianness::Big] {
        let put16 = |n: u16| if e == Endianness::Big { n.to_be_bytes() } else { n.to_le_bytes() };
        for k in [TypeInfoKind::Raw, TypeInfoKind::StringType] {
            let t = mk(&k);
            let u8t = mk(&TypeInfoKind::Unsigned(TypeLength::BitLength8));
            for len in [0x7FFFu16, 0x8000, 0xFFFC, 0xFFFD, 0xFFFE, 0xFFFF] {
                let fill = 0x41 + r.below(26) as u8;
                for have in [0usize, 1, len as usize - 1, len as usize, len as usize + 1] {
                    let mut d = put16(len).to_vec();
                    d.extend(std::iter::repeat(fill).take(have));
                    writeln!(w, "NVA {} 1 {} {}", p_endian(e), p_type_info(&t), hex(&d))?;
                    if have >= len as usize - 1 {
                        writeln!(w, "NVA {} 2 {} {} {}", p_endian(e), p_type_info(&t), p_type_info(&u8t), hex(&d))?;
                        let mut d2 = vec![0x07u8];
                        d2.extend(&d);
                        writeln!(w, "NVA {} 2 {} {} {}", p_endian(e), p_type_info(&u8t), p_type_info(&t), hex(&d2))?;
                    }
                }
            }
        }
    }
    let n = if thorough { 600_000 } else { 12_000 };
    for _ in 0..n {
        let e = if r.flip() { Endianness::Big } else { Endianness::Little };
        let k = r.below(9) as usize;
        let tis: Vec<TypeInfo> = (0..k).map(|_| nv_type(r)).collect();
        let mut d = vec![];
        for t in &tis {
            d.extend(nv_field(r, e, t));
        }
        match r.below(5) {
            0 => {
                let c = r.below(d.len() as u64 + 1) as usize;
                d.truncate(c);
            }
            1 => {
                let k = r.range(1, 9) as usize;
                d.extend(r.bytes(k))
            }
            2 => {
                if !d.is_empty() {
                    let i = r.below(d.len() as u64) as usize;
                    d[i] = r.next() as u8;
                }
            }
            _ => {}
        }
        let mut line = format!("NVA {} {}", p_endian(e), tis.len());
        for t in &tis {
            line.push(' ');
            line.push_str(&p_type_info(t));
        }
        writeln!(w, "{} {}", line, hex(&d))?;
    }
    Ok(())
}

use crate::reader::{p_steps, Step};

fn schedule(r: &mut Rng, len: usize) -> Vec<Step> {
    match r.below(7) {
        0 => vec![],
        1 => (0..len + 2).map(|_| Step::Chunk(1)).collect(),
        2 => {
            // random chunk sizes
            let n = r.below(len as u64 / 2 + 3) as usize;
            (0..n).map(|_| Step::Chunk(r.range(1, 40) as usize)).collect()
        }
        3 => {
            // bursts of stalls between chunks
            let n = r.below(30) as usize + 1;
            let mut v = vec![];
            for _ in 0..n {
                for _ in 0..r.below(4) {
                    v.push(Step::Stall);
                }
                v.push(Step::Chunk(r.range(1, 25) as usize));
            }
            v
        }
        4 => {
            // chunk boundaries inside the 4-byte header: 1..3 bytes, then the rest
            let mut v = vec![];
            for _ in 0..r.below(12) + 1 {
                v.push(Step::Chunk(r.range(1, 3) as usize));
                if r.flip() {
                    v.push(Step::Stall);
                }
                v.push(Step::Chunk(r.range(1, 300) as usize));
            }
            v
        }
        5 => (0..r.below(10)).map(|_| Step::Stall).collect(),
        _ => {
            let n = r.below(60) as usize;
            (0..n)
                .map(|_| if r.chance(1, 4) { Step::Stall } else { Step::Chunk(r.range(0, 70000) as usize) })
                .collect()
        }
    }
}

fn c07(r: &mut Rng, thorough: bool, w: W, op: &str) -> std::io::Result<()> {
    let n = if thorough { 120_000 } else { 2_500 };
    let ids = vec!["A".to_string(), "ABC".to_string(), "x".to_string()];
    // hostile length fields first (the defect repaired in read.rs / stream.rs)
    for len in 0u8..6 {
        for storage in [false, true] {
            let mut v = vec![];
            if storage {
                v.extend_from_slice(&[0x44, 0x4c, 0x54, 0x01, 1, 2, 3, 4, 5, 6, 7, 8, b'E', b'C', b'U', 0]);
            }
            v.extend_from_slice(&[0x00, 0x07, 0x00, len, 9, 9, 9, 9, 9]);
            writeln!(w, "{} {} - 0 {}", op, p_bool(storage), hex(&v))?;
            writeln!(w, "{} {} - 3 c1 s c2 {}", op, p_bool(storage), hex(&v))?;
        }
    }
    // maximal messages (length field 65535, 65534) between small ones: whole, in chunks that end
    // exactly at / one byte around the message boundaries, and truncated inside the big one
    for storage in [false, true] {
        for total in [65535usize, 65534] {
            let small = |r: &mut Rng| enc(&message(r, &MsgOpts { storage: Some(storage), big: false, max_args: 2 }));
            let bigm = Message::new(
                MessageConfig {
                    version: 1,
                    counter: 1,
                    endianness: Endianness::Little,
                    ecu_id: None,
                    session_id: None,
                    timestamp: None,
                    payload: PayloadContent::NonVerbose(42, vec![0xA5; total - 8]),
                    extended_header_info: None,
                },
                storage.then(|| StorageHeader { timestamp: DltTimeStamp { seconds: 1, microseconds: 2 }, ecu_id: "E".into() }),
            );
            let a = small(r);
            let b = enc(&bigm);
            let c = small(r);
            let mut v = a.clone();
            v.extend_from_slice(&b);
            v.extend_from_slice(&c);
            let la = a.len();
            let lb = b.len();
            writeln!(w, "{} {} - 0 {}", op, p_bool(storage), hex(&v))?;
            writeln!(w, "{} {} - 3 c{} c{} c{} {}", op, p_bool(storage), la, lb, c.len(), hex(&v))?;
            writeln!(w, "{} {} - 4 c{} s c{} c70000 {}", op, p_bool(storage), la + 1, lb - 2, hex(&v))?;
            writeln!(w, "{} {} - 3 c4096 c65551 c7 {}", op, p_bool(storage), hex(&v))?;
            writeln!(w, "{} {} - 2 c{} c65536 {}", op, p_bool(storage), la + 3, hex(&v[..la + lb - 1]))?;
        }
    }
    for i in 0..n {
        let storage = r.flip();
        let k = r.below(6) as usize;
        let mut v = vec![];
        for _ in 0..k {
            let m = message(r, &MsgOpts { storage: Some(storage), big: i % 300 == 0, max_args: 4 });
            let mut b = enc(&m);
            if r.chance(1, 12) {
                b = mutate(r, &b, storage);
            }
            v.extend(b);
        }
        match r.below(8) {
            0 => {
                // truncation at an arbitrary offset
                let c = r.below(v.len() as u64 + 1) as usize;
                v.truncate(c);
            }
            1 => v.extend(noise(r)),
            2 => {
                // hostile LEN somewhere
                if v.len() > 8 {
                    let base = if storage { 16 } else { 0 };
                    if v.len() > base + 4 {
                        v[base + 2] = 0;
                        v[base + 3] = r.below(4) as u8;
                    }
                }
            }
            3 => {
                if v.len() > 4 {
                    let base = if storage { 16 } else { 0 };
                    if v.len() > base + 4 {
                        v[base + 2] = 0xff;
                        v[base + 3] = 0xff;
                    }
                }
            }
            _ => {}
        }
        let f = if r.chance(1, 4) { Some(filter(r, &ids)) } else { None };
        let sched = schedule(r, v.len());
        writeln!(
            w,
            "{} {} {} {} {}",
            op,
            p_bool(storage),
            p_opt(&f, p_filter),
            p_steps(&sched),
            hex(&v)
        )?;
    }
    Ok(())
}

/// random merge expression (postfix) over `k` parts: random order, random tree shape,
/// optionally starting from `StatisticInfo::new()`
fn merge_tree(r: &mut Rng, k: usize) -> Vec<String> {
    let mut order: Vec<usize> = (0..k).collect();
    for i in (1..k).rev() {
        let j = r.below(i as u64 + 1) as usize;
        order.swap(i, j);
    }
    let mut toks: Vec<String> = vec![];
    let mut depth = 0usize;
    if k == 0 || r.chance(1, 3) {
        toks.push("n".to_string());
        depth += 1;
    }
    let mut it = order.into_iter().peekable();
    while it.peek().is_some() || depth > 1 {
        let can_push = it.peek().is_some();
        let can_merge = depth >= 2;
        if can_push && (!can_merge || r.flip()) {
            toks.push(it.next().unwrap().to_string());
            depth += 1;
        } else {
            toks.push("m".to_string());
            depth -= 1;
        }
    }
    toks
}

fn c10(r: &mut Rng, thorough: bool, w: W) -> std::io::Result<()> {
    let n = if thorough { 150_000 } else { 3_000 };
    let alphabet = ["", "A", "B", "AB", "ECU", "ECU1", "é"];
    for i in 0..n {
        let storage = r.flip();
        let count = match r.below(10) {
            0 => 0,
            1 => 1,
            _ => r.below(if thorough && i % 50 == 0 { 60 } else { 14 }) as usize,
        };
        let mut lens_msgs: Vec<usize> = vec![];
        let mut bytes: Vec<u8> = vec![];
        for _ in 0..count {
            let mut m = message(r, &MsgOpts { storage: Some(storage), big: false, max_args: 2 });
            // small id alphabet to force collisions
            if let Some(e) = m.header.ecu_id.as_mut() {
                *e = r.pick(&alphabet).to_string();
            }
            if let Some(eh) = m.extended_header.as_mut() {
                eh.application_id = r.pick(&alphabet).to_string();
                eh.context_id = r.pick(&alphabet).to_string();
            }
            let b = enc(&m);
            lens_msgs.push(b.len());
            bytes.extend(b);
        }
        if r.chance(1, 40) && !bytes.is_empty() {
            // a malformed stream: both sides must refuse (ERR), nothing is concluded
            let c = r.below(bytes.len() as u64) as usize;
            bytes[c] ^= 0x5a;
        }
        // split at message boundaries into k parts
        let k = if count == 0 { r.below(2) as usize } else { r.range(1, count.min(5) as u64) as usize };
        let mut cuts: Vec<usize> = (0..k.saturating_sub(1)).map(|_| r.below(count as u64 + 1) as usize).collect();
        cuts.sort();
        let mut lens: Vec<usize> = vec![];
        let mut prev = 0usize;
        for c in cuts.iter().chain(std::iter::once(&count)) {
            lens.push(lens_msgs[prev..*c].iter().sum());
            prev = *c;
        }
        if k == 0 {
            lens.clear();
        }
        let tree = merge_tree(r, lens.len());
        writeln!(
            w,
            "STATS {} {} {} {} {} {}",
            p_bool(storage),
            lens.len(),
            lens.iter().map(|x| x.to_string()).collect::<Vec<_>>().join(" "),
            tree.len(),
            tree.join(" "),
            hex(&bytes)
        )?;
    }
    Ok(())
}

fn c09(r: &mut Rng, thorough: bool, w: W) -> std::io::Result<()> {
    let n = if thorough { 600_000 } else { 12_000 };
    // the level comparison itself: every message-info byte's type x every threshold level
    {
        let mut levels = vec![
            LogLevel::Fatal, LogLevel::Error, LogLevel::Warn, LogLevel::Info, LogLevel::Debug, LogLevel::Verbose,
        ];
        for k in [0u8, 7, 8, 9, 14, 15, 16, 255] {
            levels.push(LogLevel::Invalid(k));
        }
        let mut types: Vec<MessageType> = levels.iter().map(|l| MessageType::Log(*l)).collect();
        types.push(MessageType::ApplicationTrace(ApplicationTraceType::State));
        types.push(MessageType::NetworkTrace(NetworkTraceType::Can));
        types.push(MessageType::Control(ControlType::Response));
        types.push(MessageType::Unknown((5, 3)));
        for mt in &types {
            for l in &levels {
                writeln!(w, "SKIPLVL {} {}", p_message_type(mt), p_log_level(l))?;
            }
        }
    }
    let alphabet = ["", "A", "B", "AB", "ECU", "ECU1", "é", "x"];
    for i in 0..n {
        let storage = r.flip();
        let mut m = message(r, &MsgOpts { storage: Some(storage), big: false, max_args: 3 });
        if let Some(e) = m.header.ecu_id.as_mut() {
            *e = r.pick(&alphabet).to_string();
        }
        if let Some(eh) = m.extended_header.as_mut() {
            eh.application_id = r.pick(&alphabet).to_string();
            eh.context_id = r.pick(&alphabet).to_string();
            if r.chance(1, 2) {
                // all level codes incl. invalid ones
                eh.message_type = MessageType::Log(log_level(r));
            }
        }
        let mut bytes = enc(&m);
        if i % 25 == 0 {
            bytes = mutate(r, &bytes, storage);
        }
        if r.chance(1, 5) {
            // id dialect on the wire: bytes behind the first NUL of an id field (the id is the text
            // before the first NUL), an id field starting with NUL
            let base = if storage { 16 } else { 0 };
            if bytes.len() > base {
                let h = bytes[base];
                let mut offs = vec![];
                if h & 4 != 0 {
                    offs.push(base + 4);
                }
                let eo = base + 4 + [2u8, 3, 4].iter().filter(|b| h & (1 << **b) != 0).count() * 4;
                if h & 1 != 0 {
                    offs.push(eo + 2);
                    offs.push(eo + 6);
                }
                for o in offs {
                    if r.chance(1, 2) && bytes.len() >= o + 4 {
                        match r.below(3) {
                            0 => {
                                // keep a prefix, NUL, then garbage
                                let k = r.below(3) as usize;
                                bytes[o + k] = 0;
                                for j in k + 1..4 {
                                    bytes[o + j] = *r.pick(&[b'X', b'B', 0, b'1']);
                                }
                            }
                            1 => {
                                bytes[o] = 0;
                                bytes[o + 1] = b'P';
                            }
                            _ => {
                                bytes[o + 3] = b'Z';
                            }
                        }
                    }
                }
            }
        }
        bytes.extend(suffix(r));
        let ids: Vec<String> = alphabet.iter().map(|s| s.to_string()).collect();
        let mut f = filter(r, &ids);
        if r.chance(1, 4) {
            // duplicates in the id vectors, counts around the number of distinct entries
            if let Some(v) = f.app_ids.as_mut() {
                let extra: Vec<String> = v.clone();
                v.extend(extra);
                f.app_id_count = v.len() as i64 / 2 + r.range(0, 2) as i64 - 1;
            }
            if let Some(v) = f.context_ids.as_mut() {
                if let Some(x) = v.first().cloned() {
                    v.push(x);
                }
            }
        }
        writeln!(w, "FILT {} {} {}", p_bool(storage), p_filter(&f), hex(&bytes))?;
    }
    Ok(())
}

use crate::fibex;

fn c11(r: &mut Rng, thorough: bool, w: W) -> std::io::Result<()> {
    let n = if thorough { 30_000 } else { 500 };
    for i in 0..n {
        let m = fibex::gen_model(r);
        let pretty = i % 3 == 2;
        let xmls: Vec<Vec<u8>> = m
            .files
            .iter()
            .map(|d| {
                let x = fibex::render_xml(d);
                if pretty { fibex::prettify(r, &x).into_bytes() } else { x.into_bytes() }
            })
            .collect();
        let files: Vec<Option<Vec<u8>>> = xmls.iter().cloned().map(Some).collect();
        let (_marks, evs) = fibex::request_files(&files);
        let mut line = format!("FIBEXDOC {} {}", if pretty { "p" } else { "c" }, m.files.len());
        for (d, x) in m.files.iter().zip(xmls.iter()) {
            line.push_str(&format!(" {} {}", fibex::p_doc(d), hex(x)));
        }
        writeln!(w, "{} {} EV{}", line, fibex::p_lookups(&m.lookups), evs)?;
    }
    Ok(())
}

fn damage(r: &mut Rng, x: &[u8]) -> Vec<u8> {
    let mut v = x.to_vec();
    if v.is_empty() {
        return v;
    }
    match r.below(15) {
        0 | 1 | 2 => {
            let c = r.below(v.len() as u64) as usize;
            v.truncate(c);
        }
        13 | 14 => {
            // the text of any text-valued element replaced by texts of other lengths with multi-byte
            // characters at every alignment (ids longer than the 4 bytes of a DLT id, characters that
            // straddle the 4th byte, empty texts, blanks), or the file cut right behind its start tag
            let s = String::from_utf8_lossy(&v).into_owned();
            let tags = [
                "<APPLICATION_ID>", "<CONTEXT_ID>", "<MESSAGE_TYPE>", "<MESSAGE_INFO>", "<ho:SHORT-NAME>", "<ho:DESC>",
                "<fx:PDU-TYPE>", "<fx:FRAME-TYPE>", "<fx:BYTE-LENGTH>", "<fx:SEQUENCE-NUMBER>",
            ];
            let tag = *r.pick(&tags);
            let occ: Vec<usize> = s.match_indices(tag).map(|(i, _)| i + tag.len()).collect();
            if !occ.is_empty() {
                let i = *r.pick(&occ);
                if r.chance(1, 5) {
                    let mut t = s[..i].to_string();
                    t.push_str(*r.pick(&["", "<!-- c -->", "<?pi x?>", "<!-- a --><?p?>", " "]));
                    v = t.into_bytes();
                } else if let Some(e) = s[i..].find('<') {
                    const TEXTS: &[&str] = &[
                        "APP\u{e9}", "CT\u{20ac}1", "AB\u{1f600}", "A\u{1f600}", "\u{e9}\u{e9}\u{e9}", "\u{c4}\u{d6}\u{dc}", "ABC\u{e9}X",
                        "AB\u{20ac}", "A\u{20ac}BC", "LONGER-THAN-FOUR", "", " ", "abcd\u{e9}", "\u{20ac}\u{20ac}", "a\u{308}a\u{308}a\u{308}",
                    ];
                    v = format!("{}{}{}", &s[..i], r.pick(TEXTS), &s[i + e..]).into_bytes();
                }
            }
        }
        10 | 11 | 12 => {
            // numbers and error positions: replace the text of a BYTE-LENGTH / SEQUENCE-NUMBER by
            // something that is not a usize (too many digits, sign, blanks, multi-byte characters at
            // every alignment), optionally behind a UTF-8 byte-order mark; drop a required ID next to
            // a non-ASCII attribute
            let s = String::from_utf8_lossy(&v).into_owned();
            let mut t = s.clone();
            let tags = ["<fx:BYTE-LENGTH>", "<fx:SEQUENCE-NUMBER>"];
            let tag = *r.pick(&tags);
            let occ: Vec<usize> = s.match_indices(tag).map(|(i, _)| i + tag.len()).collect();
            if !occ.is_empty() && r.chance(3, 4) {
                let i = *r.pick(&occ);
                if let Some(e) = s[i..].find('<') {
                    const TEXTS: &[&str] = &[
                        "18446744073709551615", "18446744073709551616", "340282366920938463463374607431768211455",
                        "9999999999999999999999999999999999999999999999999999999999999999", "+5", "-1", " 7", "7 ",
                        "0x10", "", "8 \u{b5}s ", "\u{b0}", "1\u{20ac}", "\u{20ac}\u{20ac}1", "12\u{1f600}", "\u{e9}\u{e9}\u{e9}",
                    ];
                    t = format!("{}{}{}", &s[..i], r.pick(TEXTS), &s[i + e..]);
                }
            } else {
                let occ: Vec<usize> = s.match_indices(" ID=\"").map(|(i, _)| i).collect();
                if !occ.is_empty() {
                    let i = *r.pick(&occ);
                    if let Some(e) = s[i + 5..].find('"') {
                        const ATTRS: &[&str] = &[" UNIT=\"\u{b0}\"", " U=\"\u{b5}\u{b5}\"", " X=\"a\u{20ac}\"", " N=\"\u{1f600}\""];
                        t = format!("{}{}{}", &s[..i], r.pick(ATTRS), &s[i + 5 + e + 1..]);
                    }
                }
            }
            v = t.into_bytes();
            if r.chance(1, 2) {
                let mut b = vec![0xEF, 0xBB, 0xBF];
                b.extend(v);
                v = b;
            }
        }
        8 | 9 => {
            // attribute names: misspell one keeping its length, prefix it, or put another attribute
            // (of the same or another length) in front of it
            let s = String::from_utf8_lossy(&v).into_owned();
            let names = [" ID=\"", " ID-REF=\"", "BASE-DATA-TYPE=\""];
            let p = *r.pick(&names);
            let occ: Vec<usize> = s.match_indices(p).map(|(i, _)| i).collect();
            if !occ.is_empty() {
                let i = *r.pick(&occ);
                let repl = match (p, r.below(5)) {
                    (" ID=\"", 0) => " IE=\"".to_string(),
                    (" ID=\"", 1) => " NO=\"7\" ID=\"".to_string(),
                    (" ID=\"", 2) => " xy:ID=\"".to_string(),
                    (" ID=\"", 3) => " IDX=\"1\" ID=\"".to_string(),
                    (" ID-REF=\"", 0) => " ID_REF=\"".to_string(),
                    (" ID-REF=\"", 1) => " ABCDEF=\"q\" ID-REF=\"".to_string(),
                    (" ID-REF=\"", 2) => " a:ID-REF=\"".to_string(),
                    ("BASE-DATA-TYPE=\"", 0) => "BASE_DATA-TYPE=\"".to_string(),
                    ("BASE-DATA-TYPE=\"", 1) => "CASE-DATA-TYPE=\"x\" BASE-DATA-TYPE=\"".to_string(),
                    _ => format!(" Z=\"\"{}", p),
                };
                let mut t = s[..i].to_string();
                t.push_str(&repl);
                t.push_str(&s[i + p.len()..]);
                v = t.into_bytes();
            }
        }
        3 => {
            // delete an element or attribute: cut between two '<' or remove an attribute value
            let s = String::from_utf8_lossy(&v).into_owned();
            let idxs: Vec<usize> = s.match_indices('<').map(|(i, _)| i).collect();
            if idxs.len() > 3 {
                let a = r.below(idxs.len() as u64 - 1) as usize;
                let b = (a + 1 + r.below(3) as usize).min(idxs.len() - 1);
                let mut t = s[..idxs[a]].to_string();
                t.push_str(&s[idxs[b]..]);
                v = t.into_bytes();
            }
        }
        4 => {
            let s = String::from_utf8_lossy(&v).into_owned();
            let pats = [" ID=\"", " ID-REF=\"", " ho:BASE-DATA-TYPE=\"", "<fx:BYTE-LENGTH>", "<fx:SEQUENCE-NUMBER>", "<ho:SHORT-NAME>"];
            let p = *r.pick(&pats);
            let occ: Vec<usize> = s.match_indices(p).map(|(i, _)| i).collect();
            if !occ.is_empty() {
                let i = *r.pick(&occ);
                let mut t = s[..i].to_string();
                t.push_str(&s[i + p.len()..]);
                v = t.into_bytes();
            }
        }
        5 | 6 => {
            let k = r.range(1, 3);
            for _ in 0..k {
                let i = r.below(v.len() as u64) as usize;
                v[i] = *r.pick(&[b'<', b'>', b'"', b'&', 0u8, 0xff, b'/', b' ', b'=', b'x', b'9']);
            }
        }
        _ => {
            let i = r.below(v.len() as u64) as usize;
            let k = r.range(1, 5) as usize;
            let ins = r.bytes(k);
            v.splice(i..i, ins);
        }
    }
    v
}

fn c12(r: &mut Rng, thorough: bool, w: W) -> std::io::Result<()> {
    let repo_docs: Vec<Vec<u8>> = ["/repo/tests/dlt-messages.xml", "/repo/tests/robustness.xml"]
        .iter()
        .filter_map(|p| std::fs::read(p).ok())
        .collect();
    let emit = |w: W, files: Vec<Option<Vec<u8>>>| -> std::io::Result<()> {
        let (marks, evs) = fibex::request_files(&files);
        writeln!(w, "FIBEX {}{} 0 EV{}", files.len(), marks, evs)
    };
    // missing path, empty file, no path at all, intact repository documents
    emit(w, vec![None])?;
    emit(w, vec![Some(vec![])])?;
    emit(w, vec![])?;
    for d in &repo_docs {
        emit(w, vec![Some(d.clone())])?;
        emit(w, vec![Some(d.clone()), None])?;
    }
    // every truncation offset of the small repository document (thorough: of both), and of a generated one
    for (di, d) in repo_docs.iter().enumerate() {
        // quick: about 500 evenly spread offsets per document (odd step, so all residues occur)
        let _ = di;
        let step = if thorough { 1 } else { (d.len() / 500).max(1) | 1 };
        let mut k = 0;
        while k < d.len() {
            emit(w, vec![Some(d[..k].to_vec())])?;
            k += step;
        }
    }
    let n = if thorough { 30_000 } else { 1_200 };
    for i in 0..n {
        let base: Vec<u8> = if i % 4 == 0 && !repo_docs.is_empty() {
            r.pick(&repo_docs).clone()
        } else {
            let m = fibex::gen_model(r);
            let d: Vec<fibex::Elem> = m.files.into_iter().flatten().collect();
            let x = fibex::render_xml(&d);
            if r.flip() { fibex::prettify(r, &x).into_bytes() } else { x.into_bytes() }
        };
        let v = damage(r, &base);
        if r.chance(1, 6) {
            emit(w, vec![Some(base.clone()), Some(v)])?;
        } else {
            emit(w, vec![Some(v)])?;
        }
    }
    Ok(())
}

/// junk that contains no occurrence of the pattern, also none straddling into a following
/// pattern: no 'D' at all, or ending in a proper prefix of the pattern only when asked
fn junk_no_pattern(r: &mut Rng, allow_d: bool) -> Vec<u8> {
    let n = r.below(41) as usize;
    let mut v: Vec<u8> = (0..n)
        .map(|_| match r.below(6) {
            0 => 0x4c,
            1 => 0x54,
            2 => 0x01,
            _ => r.next() as u8,
        })
        .collect();
    for b in v.iter_mut() {
        if *b == 0x44 {
            *b = 0x45;
        }
    }
    if allow_d && r.chance(1, 3) {
        // 'D's that cannot start an occurrence: followed by something else than 'L'
        for _ in 0..r.below(4) {
            if v.len() >= 2 {
                let i = r.below(v.len() as u64 - 1) as usize;
                v[i] = 0x44;
                if v[i + 1] == 0x4c {
                    v[i + 1] = 0x4d;
                }
            }
        }
    }
    v
}

fn c06(r: &mut Rng, thorough: bool, w: W) -> std::io::Result<()> {
    let n = if thorough { 400_000 } else { 8_000 };
    // search: partial patterns at the end, overlapping starts, pattern at 0, several patterns
    let pat = [0x44u8, 0x4c, 0x54, 0x01];
    let fixed: Vec<Vec<u8>> = vec![
        vec![],
        pat.to_vec(),
        vec![0x44, 0x4c, 0x54],
        vec![0x44, 0x4c, 0x44, 0x4c, 0x54, 0x01],
        vec![0x44, 0x44, 0x4c, 0x54, 0x01, 0x44, 0x4c, 0x54, 0x01],
        vec![0x01, 0x54, 0x4c, 0x44],
        vec![0, 0x44, 0x4c, 0x54, 0x00, 0x44, 0x4c, 0x54, 0x01, 9],
    ];
    for f in fixed {
        writeln!(w, "FWD {}", hex(&f))?;
    }
    // long junk: more than one maximal message (65535 + 16 bytes) in front of the pattern
    for len in [65535usize, 65547, 65548, 65551, 65552, 70000, 140000] {
        let fill = r.next() as u8 | 0x80;
        let mut j = vec![fill; len];
        j[len - 3..].copy_from_slice(&pat[..3]); // a partial pattern right before the real one
        j[len / 2] = 0x44;
        let m = message(r, &MsgOpts { storage: Some(true), big: false, max_args: 3 });
        let mut v = j.clone();
        v.extend_from_slice(&pat);
        v.extend_from_slice(&[1, 2, 3]);
        writeln!(w, "FWD {}", hex(&v))?;
        writeln!(w, "FWD {}", hex(&j))?;
        writeln!(w, "JUNK {} {} {}", hex(&j), p_message(&m), hex(&suffix(r)))?;
        let m2 = message(r, &MsgOpts { storage: Some(true), big: false, max_args: 3 });
        writeln!(w, "STREAM 2 {} {} {} {}", hex(&j[..len - 3]), p_message(&m), hex(&j), p_message(&m2))?;
    }
    let ids = vec!["A".to_string(), "ABC".to_string(), "x".to_string(), "".to_string()];
    for i in 0..n {
        match i % 8 {
            5 if i % 16 == 5 => {
                // with a filter (half of them drop the message): same verdict, same remainder
                let m = message(r, &MsgOpts { storage: Some(true), big: false, max_args: 4 });
                let j = junk_no_pattern(r, true);
                let f = if r.chance(1, 8) { None } else { Some(crate::gen::filter(r, &ids)) };
                writeln!(
                    w,
                    "JUNKF {} {} {} {}",
                    p_opt(&f, p_filter),
                    hex(&j),
                    p_message(&m),
                    hex(&suffix(r))
                )?;
            }
            0..=4 => {
                // search over strings rich in pattern fragments
                let len = r.below(40) as usize;
                let mut v: Vec<u8> = (0..len)
                    .map(|_| match r.below(8) {
                        0 | 1 => 0x44,
                        2 => 0x4c,
                        3 => 0x54,
                        4 => 0x01,
                        _ => r.next() as u8,
                    })
                    .collect();
                if r.chance(1, 2) && v.len() >= 4 {
                    let p = r.below(v.len() as u64 - 3) as usize;
                    v[p..p + 4].copy_from_slice(&pat);
                }
                if r.chance(1, 6) {
                    let k = r.range(1, 3) as usize;
                    v.extend_from_slice(&pat[..k]);
                }
                writeln!(w, "FWD {}", hex(&v))?;
            }
            5 | 6 => {
                let m = message(r, &MsgOpts { storage: Some(true), big: false, max_args: 4 });
                let j = junk_no_pattern(r, true);
                writeln!(w, "JUNK {} {} {}", hex(&j), p_message(&m), hex(&suffix(r)))?;
            }
            _ => {
                let k = r.range(1, 6) as usize;
                let mut line = format!("STREAM {}", k);
                for _ in 0..k {
                    let m = message(r, &MsgOpts { storage: Some(true), big: false, max_args: 3 });
                    let j = junk_no_pattern(r, false);
                    line.push_str(&format!(" {} {}", hex(&j), p_message(&m)));
                }
                writeln!(w, "{}", line)?;
            }
        }
    }
    Ok(())
}
