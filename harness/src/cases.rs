//! Per-property case generation: request lines for the line protocol.
use crate::gen::*;
use crate::wire::*;
use dlt_core::dlt::*;
use std::io::Write;

type W<'a> = &'a mut dyn Write;

pub fn generate(prop: &str, thorough: bool, seed: u64, w: W) -> std::io::Result<()> {
    let mut r = Rng::new(seed ^ prop_salt(prop));
    match prop {
        "C14" => c14(&mut r, thorough, w),
        "C17" => c17(&mut r, thorough, w),
        "C18" => c18(&mut r, thorough, w),
        "C19" => c19(&mut r, thorough, w),
        _ => {
            eprintln!("no generator for {}", prop);
            std::process::exit(2);
        }
    }
}

fn prop_salt(p: &str) -> u64 {
    p.bytes().fold(0xcbf29ce484222325u64, |h, b| (h ^ b as u64).wrapping_mul(0x100000001b3))
}

fn c17(r: &mut Rng, thorough: bool, w: W) -> std::io::Result<()> {
    let n = if thorough { 400_000 } else { 6_000 };
    for (op, unit) in [("FROMMS", 1000u64), ("FROMUS", 1_000_000u64)] {
        let top = (1u64 << 32) * unit; // first value outside the property's domain
        let mut fixed: Vec<u64> = vec![
            0, 1, 999, 1000, 1001, 999_999, 1_000_000, 1_000_001, 1_000_123, 1_500_000,
            4_294_967, 4_294_968, 4_294_967_295, 4_294_967_296, 4_294_968_000,
            top - 1, top - unit, top - unit - 1, top - unit + 1, top / 2, top / 2 + 1,
            top, top + 1, u64::MAX, u64::MAX - 1,
        ];
        for k in 0..64u32 {
            fixed.push(1u64 << k);
            fixed.push((1u64 << k).wrapping_sub(1));
        }
        for v in fixed {
            writeln!(w, "{} {}", op, v)?;
        }
        for _ in 0..n {
            let v = match r.below(8) {
                0 => r.next(),
                1 => r.below(unit * 3),
                2 => top - 1 - r.below(unit * 2),
                3 => r.below(1 << 20) * unit + r.below(unit),
                _ => r.below(top),
            };
            writeln!(w, "{} {}", op, v)?;
        }
    }
    Ok(())
}

fn c18(r: &mut Rng, thorough: bool, w: W) -> std::io::Result<()> {
    let n = if thorough { 600_000 } else { 12_000 };
    // the case the fix was made for, first
    let seedcase = Argument {
        type_info: TypeInfo {
            kind: TypeInfoKind::SignedFixedPoint(FloatWidth::Width32),
            coding: StringCoding::ASCII,
            has_variable_info: false,
            has_trace_info: false,
        },
        name: None,
        unit: None,
        fixed_point: Some(FixedPoint {
            quantization: 1.0,
            offset: FixedPointValue::I32(-200),
        }),
        value: Value::I32(1000),
    };
    writeln!(w, "REAL {}", p_argument(&seedcase))?;
    for _ in 0..n {
        let a = match r.below(10) {
            0 | 1 => argument(r, false),
            _ => {
                // fixed-point kinds with every value variant, offsets and quantizations
                let wdt = float_width(r);
                let kind = if r.flip() {
                    TypeInfoKind::SignedFixedPoint(wdt)
                } else {
                    TypeInfoKind::UnsignedFixedPoint(wdt)
                };
                let value = match r.below(12) {
                    0 => Value::Bool(1),
                    1 => Value::U128(r.int_bits(128)),
                    2 => Value::F32(1.5),
                    3 => Value::StringVal("7".into()),
                    _ => {
                        let signed = r.flip();
                        let l = *r.pick(&[
                            TypeLength::BitLength8,
                            TypeLength::BitLength16,
                            TypeLength::BitLength32,
                            TypeLength::BitLength64,
                        ]);
                        let mut v = int_value(r, signed, l);
                        if r.chance(1, 3) {
                            // values around 2^53 / 2^63 / small
                            let base: u64 = *r.pick(&[
                                1u64 << 53, (1u64 << 53) + 1, (1u64 << 54) + 2, 1u64 << 63,
                                (1u64 << 63) - 1, u64::MAX, 1000, 7785, 3, (1u64 << 62) + 12345,
                            ]);
                            let d = r.below(5);
                            v = if signed {
                                Value::I64(base.wrapping_add(d) as i64)
                            } else {
                                Value::U64(base.wrapping_add(d))
                            };
                        }
                        v
                    }
                };
                let fp = if r.chance(1, 12) {
                    None
                } else {
                    let q = match r.below(6) {
                        0 => 1.0f32.to_bits(),
                        1 => 0.01f32.to_bits(),
                        2 => (r.below(1 << 10) as f32).to_bits(),
                        3 => (1.0f32 / (1 + r.below(64)) as f32).to_bits(),
                        _ => f32_bits(r),
                    };
                    let off_small = r.range(0, 2000) as i64 - 1000;
                    let offset = match (r.flip(), r.below(4)) {
                        (true, 0) => FixedPointValue::I32(off_small as i32),
                        (true, 1) => FixedPointValue::I32(*r.pick(&[i32::MIN, i32::MAX, -1, 0, 1, -50])),
                        (true, _) => FixedPointValue::I32(r.int_bits(32) as u32 as i32),
                        (false, 0) => FixedPointValue::I64(off_small),
                        (false, 1) => FixedPointValue::I64(*r.pick(&[i64::MIN, i64::MAX, -1, 0, 1, -50])),
                        (false, _) => FixedPointValue::I64(r.int_bits(64) as u64 as i64),
                    };
                    Some(FixedPoint {
                        quantization: f32::from_bits(q),
                        offset,
                    })
                };
                Argument {
                    type_info: TypeInfo {
                        kind,
                        coding: StringCoding::ASCII,
                        has_variable_info: false,
                        has_trace_info: false,
                    },
                    name: None,
                    unit: None,
                    fixed_point: fp,
                    value,
                }
            }
        };
        writeln!(w, "REAL {}", p_argument(&a))?;
    }
    Ok(())
}

fn c14(r: &mut Rng, thorough: bool, w: W) -> std::io::Result<()> {
    for b in 0..=255u32 {
        writeln!(w, "HTYP {}", b)?;
    }
    for b in 0..=255u32 {
        writeln!(w, "MSIN {}", b)?;
    }
    // the decode result depends on bits 0..17 only: all 2^18 low words
    for x in 0..(1u32 << 18) {
        writeln!(w, "TI {}", x)?;
    }
    let n = if thorough { 1_000_000 } else { 20_000 };
    for _ in 0..n {
        let lo = r.next() as u32 & 0x3ffff;
        let hi = match r.below(4) {
            0 => 0xfffc_0000u32,
            1 => 1u32 << r.range(18, 31),
            _ => (r.next() as u32) & 0xfffc_0000,
        };
        writeln!(w, "TI {}", lo | hi)?;
    }
    Ok(())
}

fn c19(r: &mut Rng, thorough: bool, w: W) -> std::io::Result<()> {
    const ALPHA: &[u8] = &[
        0x00, b'a', 0xC3, 0xA9, 0xE2, 0x82, 0xAC, 0xF0, 0x9F, 0x98, 0x80, 0xC0, 0xED, 0xA0, 0xFF,
    ];
    let max_len = if thorough { 4 } else { 3 };
    // exhaustive: all strings over ALPHA up to max_len, sizes 0..=7
    let mut cur: Vec<usize> = vec![];
    loop {
        let s: Vec<u8> = cur.iter().map(|i| ALPHA[*i]).collect();
        for n in 0..=7usize {
            writeln!(w, "ZTS {} {}", n, hex(&s))?;
        }
        // next string in length-lexicographic order
        let mut i = cur.len();
        loop {
            if i == 0 {
                cur = vec![0; cur.len() + 1];
                break;
            }
            i -= 1;
            if cur[i] + 1 < ALPHA.len() {
                cur[i] += 1;
                for c in cur.iter_mut().skip(i + 1) {
                    *c = 0;
                }
                break;
            }
        }
        if cur.len() > max_len {
            break;
        }
    }
    let n = if thorough { 400_000 } else { 10_000 };
    for _ in 0..n {
        let len = match r.below(10) {
            0 => r.range(100, 4000) as usize,
            1 => r.range(65000, 66000) as usize,
            _ => r.below(24) as usize,
        };
        let len = if !thorough && len > 4000 { r.below(300) as usize } else { len };
        let mut s: Vec<u8> = match r.below(4) {
            0 => r.bytes(len),
            1 => utf8_no_nul(r, len).into_bytes(),
            _ => (0..len).map(|_| *r.pick(ALPHA)).collect(),
        };
        if r.chance(1, 3) && !s.is_empty() {
            let i = r.below(s.len() as u64) as usize;
            s[i] = 0;
        }
        let n = match r.below(6) {
            0 => s.len(),
            1 => s.len() + r.range(1, 5) as usize,
            2 => r.below(65536) as usize,
            3 => s.len().saturating_sub(r.range(1, 4) as usize),
            _ => r.below(s.len() as u64 + 3) as usize,
        };
        writeln!(w, "ZTS {} {}", n, hex(&s))?;
    }
    Ok(())
}
