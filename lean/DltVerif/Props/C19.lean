/-
  C19 — fixed-size NUL-terminated fields consume their size and yield the clean prefix.

  Model: `Dlt.zts` (= `dlt_zero_terminated_string_intern`, Model/Nom.lean) built from
  nom's streaming `take_while_m_n` and `take`, and `Utf8.validUpTo` (Model/Utf8.lean).
-/
import DltVerif.Model.Nom
import DltVerif.Lemmas.Utf8
import DltVerif.Lemmas.Zts
import DltVerif.Lemmas.Utf8Spec
import DltVerif.Spec.Codec

namespace Dlt

/-- with at least `n` bytes available the field consumes exactly `n` bytes and returns the
    longest valid-UTF-8 prefix of the bytes preceding the first NUL among those `n` -/
theorem C19_zts (n : Nat) (s : Bytes) (h : n ≤ s.length) :
    zts n s = .ok (Utf8.validPrefix ((s.take n).takeWhile (fun b => !isNul b))) (s.drop n) :=
  zts_ok n s h

/-- with fewer than `n` bytes it reports incomplete; a size hint is at least 1 and never
    larger than the shortfall -/
theorem C19_zts_short (n : Nat) (s : Bytes) (h : s.length < n) :
    ∃ hint, zts n s = .incomplete hint ∧ ∀ k, hint = some k → 1 ≤ k ∧ k ≤ n - s.length :=
  zts_short n s h

/-- `validPrefix` is the longest valid-UTF-8 prefix: it is valid, it is a prefix, and no
    longer prefix is valid -/
theorem C19_utf8 (b : Bytes) :
    Utf8.valid (Utf8.validPrefix b) = true
    ∧ Utf8.validPrefix b <+: b
    ∧ ∀ k, k ≤ b.length → Utf8.valid (b.take k) = true → k ≤ (Utf8.validPrefix b).length :=
  ⟨Utf8.valid_validPrefix b, List.take_prefix _ _, Utf8.validPrefix_longest b⟩

/-- the field never panics (the `size - content.len()` subtraction cannot underflow) and
    never fails: it is `ok` or `incomplete` -/
theorem C19_zts_total (n : Nat) (s : Bytes) :
    (∃ v r, zts n s = .ok v r) ∨ (∃ hint, zts n s = .incomplete hint) := by
  by_cases h : n ≤ s.length
  · exact Or.inl ⟨_, _, zts_ok n s h⟩
  · obtain ⟨hint, hh, _⟩ := zts_short n s (by omega)
    exact Or.inr ⟨hint, hh⟩

/-- the byte-range table the validator follows (Unicode table 3-7) accepts exactly the
    strings that are sequences of shortest-form encoded scalar values (RFC 3629, Spec/Zts.lean) -/
theorem C19_utf8_definition (bs : Bytes) : Utf8.valid bs = Spec.isUtf8 bs := (isUtf8_eq bs).symm

/-- the field parser is the Spec's field (Spec/Zts.lean, written from the property text with
    the definition-based UTF-8 check and the longest valid prefix found by search) -/
theorem C19_spec (n : Nat) (s : Bytes) :
    match Spec.ztsField n s with
    | .field text rest => zts n s = .ok text rest
    | .incomplete missing =>
      ∃ hint, zts n s = .incomplete hint ∧ ∀ k, hint = some k → 1 ≤ k ∧ k ≤ missing := by
  unfold Spec.ztsField
  by_cases h : n ≤ s.length
  · simp only [h, if_true]
    rw [zts_ok n s h, longestValid_self]
    rfl
  · simp only [h, if_false]
    exact zts_short n s (by omega)

/-- "the 4-byte ECU, application and context ids of a message obey the same rule": the text the
    reference decoder of C02 reads from a 4-byte id field (`Spec.fieldText`, to which the parser is
    tied for ALL byte strings by `C02_decode`: storage-header ECU id at offset 12, header ECU
    id, application and context id at the offsets the header-type byte implies) is the text of
    the Spec's fixed-size field of 4 bytes -/
theorem C19_ids (field : Bytes) (h : field.length = 4) :
    Spec.fieldText field = Spec.idText field := by
  unfold Spec.idText Spec.ztsField
  rw [if_pos (by omega)]
  simp only
  rw [List.take_of_length_le (by omega), longestValid_self]
  rfl

-- non-vacuity: "AB\0C" + invalid byte, size 4, one byte left over
example : zts 4 [0x41#8, 0x42#8, 0#8, 0x43#8, 0xFF#8] = .ok [0x41#8, 0x42#8] [0xFF#8] := by
  rw [C19_zts 4 _ (by decide)]
  have hc : (List.take 4 [0x41#8, 0x42#8, 0#8, 0x43#8, 0xFF#8]).takeWhile (fun b => !isNul b)
      = [0x41#8, 0x42#8] := by decide
  have hd : List.drop 4 [0x41#8, 0x42#8, 0#8, 0x43#8, 0xFF#8] = [0xFF#8] := by decide
  have h1 : Utf8.scalarLen [0x41#8, 0x42#8] = 1 := by decide
  have h2 : Utf8.scalarLen [0x42#8] = 1 := by decide
  have hv : Utf8.valid [0x41#8, 0x42#8] = true := by
    rw [Utf8.valid_iff, Utf8.validUpTo_of_scalarLen_ne_zero _ (by rw [h1]; decide), h1,
      List.drop_succ_cons, List.drop_zero,
      Utf8.validUpTo_of_scalarLen_ne_zero _ (by rw [h2]; decide), h2,
      List.drop_succ_cons, List.drop_zero, Utf8.validUpTo_nil]
    rfl
  rw [hc, hd, Utf8.validPrefix_of_valid _ hv]
-- an invalid UTF-8 tail is cut: "a" C3 (truncated 2-byte scalar)
example : Utf8.validPrefix [0x61#8, 0xC3#8] = [0x61#8] := by
  have h1 : Utf8.scalarLen [0x61#8, 0xC3#8] = 1 := by decide
  have h2 : Utf8.scalarLen [0xC3#8] = 0 := by decide
  rw [Utf8.validPrefix, Utf8.validUpTo_of_scalarLen_ne_zero _ (by rw [h1]; decide), h1,
    List.drop_succ_cons, List.drop_zero, Utf8.validUpTo_of_scalarLen_eq_zero _ h2]
  rfl

end Dlt
