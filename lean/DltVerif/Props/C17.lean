/-
  C17 — timestamps built from milliseconds or microseconds denote the same instant.

  Model: `Dlt.fromMs`, `Dlt.fromUs` (Model/Time.lean): `u64` inputs, truncating
  `as u32` casts, overflow-checked `u32` multiplication (`none` = panic).
-/
import DltVerif.Model.Time

namespace Dlt

/-- For every millisecond count whose whole seconds fit in 32 bits, `from_ms` does not
    panic and `seconds * 10^6 + microseconds = ms * 1000`, `microseconds < 10^6`. -/
theorem C17_ms (ms : Nat) (h : ms / 1000 < 2 ^ 32) :
    ∃ s u, fromMs ms = some (s, u) ∧ s * 1000000 + u = ms * 1000 ∧ u < 1000000
      ∧ s < 2 ^ 32 ∧ u < 2 ^ 32 := by
  have h1 : ms % 1000 < 1000 := Nat.mod_lt _ (by decide)
  have h2 : ms % 1000 % 2 ^ 32 = ms % 1000 := Nat.mod_eq_of_lt (by omega)
  have h3 : ms / 1000 % 2 ^ 32 = ms / 1000 := Nat.mod_eq_of_lt h
  refine ⟨ms / 1000, ms % 1000 * 1000, ?_, ?_, ?_, h, ?_⟩
  · simp only [fromMs, checkedMulU32, asU32, h2, h3]
    have : ms % 1000 * 1000 < 2 ^ 32 := by omega
    simp [this]
  · omega
  · omega
  · omega

/-- For every microsecond count whose whole seconds fit in 32 bits, `from_us` does not
    panic and `seconds * 10^6 + microseconds = us`, `microseconds < 10^6`. -/
theorem C17_us (us : Nat) (h : us / 1000000 < 2 ^ 32) :
    ∃ s u, fromUs us = some (s, u) ∧ s * 1000000 + u = us ∧ u < 1000000
      ∧ s < 2 ^ 32 ∧ u < 2 ^ 32 := by
  have h1 : us % 1000000 < 1000000 := Nat.mod_lt _ (by decide)
  have h2 : us % 1000000 % 2 ^ 32 = us % 1000000 := Nat.mod_eq_of_lt (by omega)
  have h3 : us / 1000000 % 2 ^ 32 = us / 1000000 := Nat.mod_eq_of_lt h
  refine ⟨us / 1000000, us % 1000000, ?_, ?_, h1, h, ?_⟩
  · simp only [fromUs, asU32, Nat.reduceMul, h2, h3]
  · omega
  · omega

/-- `from_ms` never panics, on any `u64` whatsoever (outside the domain the seconds wrap). -/
theorem C17_ms_nopanic (ms : Nat) : fromMs ms ≠ none := by
  have h1 : ms % 1000 < 1000 := Nat.mod_lt _ (by decide)
  have h2 : ms % 1000 % 2 ^ 32 = ms % 1000 := Nat.mod_eq_of_lt (by omega)
  have : ms % 1000 * 1000 < 2 ^ 32 := by omega
  simp [fromMs, checkedMulU32, asU32, h2, this]

theorem C17_us_nopanic (us : Nat) : fromUs us ≠ none := by simp [fromUs]

-- the hypotheses are inhabited by non-trivial values (sub-second part non-zero, top of the domain)
example : fromMs 4294967295999 = some (4294967295, 999000) := by decide
example : fromUs 1000123 = some (1, 123) := by decide
example : (4294967295999999 : Nat) / 1000000 < 2 ^ 32 := by decide

end Dlt
