/-
  C05 — every proper prefix of a valid message is reported incomplete, with a safe hint.
-/
import DltVerif.Lemmas.FramingStorage
import DltVerif.Lemmas.RoundTripMsg
import DltVerif.Lemmas.PropsAux

namespace Dlt

/-- For every well-formed message and every proper prefix of its serialisation the parser
    reports `incomplete` — not a message, not a hard error — and a size hint, when present,
    is at least 1 and never larger than the number of bytes actually missing. -/
theorem C05_prefix (m : Message) (h : m.wf = true) (k : Nat) (hk : k < m.asBytes.length) :
    ∃ hint, dltMessage (m.asBytes.take k) none m.storageHeader.isSome = .error (.incomplete hint)
      ∧ ∀ n, hint = some n → 1 ≤ n ∧ n ≤ m.asBytes.length - k := by
  cases hs : m.storageHeader.isSome with
  | false =>
    obtain ⟨hint, hh, hn⟩ :=
      prefix_nostorage m.asBytes none _ (Message.nostorage_facts m h hs) k hk
    exact ⟨hint, dltMessage_of_incomplete hh, hn⟩
  | true =>
    obtain ⟨hp, h16, hf⟩ := Message.storage_facts m h hs
    obtain ⟨hint, hh, hn⟩ := prefix_storage m.asBytes none _ hp hf k (by omega)
    refine ⟨hint, dltMessage_of_incomplete hh, fun n hn' => ?_⟩
    obtain ⟨h1, h2⟩ := hn n hn'
    exact ⟨h1, by omega⟩

/-- the same for the message skipper, for every non-empty proper prefix -/
theorem C05_skipper (m : Message) (h : m.wf = true) (hs : m.storageHeader.isSome = true)
    (k : Nat) (hk0 : 0 < k) (hk : k < m.asBytes.length) :
    ∃ hint, dltConsumeMsg (m.asBytes.take k) = .incomplete hint
      ∧ ∀ n, hint = some n → 1 ≤ n ∧ n ≤ m.asBytes.length - k := by
  obtain ⟨hp, h16, hf⟩ := Message.storage_facts m h hs
  obtain ⟨hint, hh, hn⟩ := dltConsumeMsg_take m.asBytes _ hp h16 hf k hk0 (by omega)
  refine ⟨hint, hh, fun n hn' => ?_⟩
  obtain ⟨h1, h2⟩ := hn n hn'
  exact ⟨h1, by omega⟩

/-- on empty input the skipper reports that there is no message -/
theorem C05_skipper_empty : dltConsumeMsg [] = .ok none [] := by
  rfl

/-- and on the complete message it skips exactly the message -/
theorem C05_skipper_complete (m : Message) (h : m.wf = true) (hs : m.storageHeader.isSome = true)
    (sfx : Bytes) : dltConsumeMsg (m.asBytes ++ sfx) = .ok (some m.asBytes.length) sfx := by
  obtain ⟨hp, h16, hf⟩ := Message.storage_facts m h hs
  rw [dltConsumeMsg_ok_some_iff]
  refine ⟨?_, ?_, m.asBytes.length - 16, ?_, by omega, ?_⟩
  · rw [List.take_append_of_le_length (by omega)]
    exact hp
  · rw [List.length_append]
    omega
  · rw [List.drop_append_of_le_length h16]
    exact framing_append_of_complete _ sfx _ hf
  · rw [List.drop_left]

end Dlt
