/-
  C04 — a successful parse consumes exactly the declared message and makes progress.

  Model: `dltMessage`, `dltConsumeMsg` (Model/Decode.lean).  Spec: `Spec.framing` /
  `Spec.storageFraming` (Spec/Layout.lean): where a message ends according to its own length
  field, computed from HTYP and LEN alone.
-/
import DltVerif.Lemmas.FramingStorage
import DltVerif.Lemmas.PropsAux

namespace Dlt

/-- Whenever the parser succeeds — message returned or filtered out — the Spec's framing is
    `complete`, the remainder starts exactly at the declared end (after the junk in front of
    the pattern and the 16-byte storage header), it is strictly shorter than the input, the
    result is never `Invalid`, and a filtered-out marker carries declared length minus
    header length. For every byte string, filter and storage mode. -/
theorem C04_consume (bs : Bytes) (f : Option ProcessedFilter) (w : Bool) (res : ParsedMessage)
    (rest : Bytes) (h : dltMessage bs f w = .ok (res, rest)) :
    ∃ skip d,
      (if w then Spec.storageFraming bs = .complete skip d
       else (skip = 0 ∧ Spec.framing bs = .complete d))
      ∧ rest = bs.drop (skip + (if w then 16 else 0) + d)
      ∧ rest.length < bs.length
      ∧ res ≠ .invalid
      ∧ ∀ n, res = .filteredOut n →
          n = d - Spec.allHeadersLen ((bs.drop (skip + (if w then 16 else 0))).headD 0#8) := by
  obtain ⟨skip, d, h1, h2, h3, h4, h5⟩ :=
    consume_aux bs f w res rest ((dltMessage_ok_iff bs f w res rest).1 h)
  exact ⟨skip, d, h1, h2, by omega, h4, h5⟩

/-- the `ParsedMessage::Invalid` branch (which would return a different remainder) can never
    be taken: `dlt_standard_header` has already rejected such a length -/
theorem C04_invalid_unreachable (bs : Bytes) (f : Option ProcessedFilter) (w : Bool) (rest : Bytes) :
    dltMessage bs f w ≠ .ok (.invalid, rest) := by
  intro h
  obtain ⟨_, _, _, _, _, hne, _⟩ := C04_consume bs f w _ _ h
  exact hne rfl

/-- the presence of a filter never changes where the next message is looked for -/
theorem C04_filter_alignment (bs : Bytes) (f1 f2 : Option ProcessedFilter) (w : Bool)
    (r1 r2 : ParsedMessage) (rest1 rest2 : Bytes)
    (h1 : dltMessage bs f1 w = .ok (r1, rest1)) (h2 : dltMessage bs f2 w = .ok (r2, rest2)) :
    rest1 = rest2 := by
  obtain ⟨s1, d1, a1, b1, _⟩ := C04_consume bs f1 w r1 rest1 h1
  obtain ⟨s2, d2, a2, b2, _⟩ := C04_consume bs f2 w r2 rest2 h2
  cases w with
  | false =>
    rw [if_neg (by decide)] at a1 a2
    obtain ⟨rfl, a1⟩ := a1
    obtain ⟨rfl, a2⟩ := a2
    rw [a1] at a2
    injection a2 with hd
    rw [b1, b2, hd]
  | true =>
    rw [if_pos rfl] at a1 a2
    rw [a1] at a2
    injection a2 with hs hd
    rw [b1, b2, hs, hd]

/-- the skipper: a reported skip is 16 + declared length, the remainder starts there -/
theorem C04_skipper (bs : Bytes) (c : Nat) (rest : Bytes) (h : dltConsumeMsg bs = .ok (some c) rest) :
    bs.take 4 = DLT_PATTERN ∧
    ∃ d, Spec.framing (bs.drop 16) = .complete d ∧ c = 16 + d ∧ rest = bs.drop c ∧ 0 < c
      ∧ c ≤ bs.length ∧ rest.length < bs.length := by
  obtain ⟨hp, h16, d, hf, hc, hr⟩ := (dltConsumeMsg_ok_some_iff bs c rest).1 h
  obtain ⟨_, hdl, _⟩ := framing_complete_le _ d hf
  rw [List.length_drop] at hdl
  refine ⟨hp, d, hf, hc, hr, by omega, by omega, ?_⟩
  rw [hr, List.length_drop]
  omega

theorem C04_skipper_none (bs rest : Bytes) (h : dltConsumeMsg bs = .ok none rest) :
    bs = [] ∧ rest = [] :=
  (dltConsumeMsg_ok_none_iff bs rest).mp h

/-- repeated parsing of a buffer: defined by well-founded recursion on the length of what
    is left — the termination proof IS the progress statement of `C04_consume` -/
def parseAll (f : Option ProcessedFilter) (w : Bool) (bs : Bytes) : List ParsedMessage :=
  match h : dltMessage bs f w with
  | .ok (res, rest) => res :: parseAll f w rest
  | .error _ => []
termination_by bs.length
decreasing_by
  obtain ⟨_, _, _, _, hlt, _⟩ := C04_consume bs f w res rest h
  exact hlt

/-- repeated parsing stays aligned: every element was parsed at a message boundary, i.e.
    the loop visits at most one message per 4 bytes -/
theorem C04_parseAll_length (f : Option ProcessedFilter) (w : Bool) (bs : Bytes) :
    4 * (parseAll f w bs).length ≤ bs.length := by
  fun_induction parseAll f w bs with
  | case1 bs res rest h ih =>
    obtain ⟨_, _, _, _, h3, _⟩ :=
      consume_aux bs f w res rest ((dltMessage_ok_iff bs f w res rest).1 h)
    rw [List.length_cons]
    omega
  | case2 bs e h => simp only [List.length_nil]; omega

end Dlt
