/-
  C12 — loading any FIBEX file ends with a model or a refusal, never a hang or a panic.

  Model: Model/Fibex.lean.  Every loop of the loader (`Reader::read_event`, `read_pdu`,
  `read_frame`, the per-file loop of `read_fibexes`) is a Lean function defined by
  well-founded recursion on the number of remaining XML events; the termination proofs
  (`readEvent_progress`, `readEvent_lt`, `readPdu_length`, `readFrame_length`) are the
  obligations a loop ignoring `Eof` cannot meet.  The only operation of the loader that can
  panic in Rust, the index in `attr_opt`, is modelled with an explicit `panic` outcome.
-/
import DltVerif.Model.Fibex

namespace Dlt
open Dlt.Fibex

/-- the index `attr_key[key_len - name_len - 1]` is always in bounds -/
theorem keyMatches_isSome (key name : Bytes) : (keyMatches key name).isSome = true := by
  unfold keyMatches
  split
  · rfl
  · split
    · rename_i hlen
      have : key.length - name.length - 1 < key.length := by omega
      rw [List.getElem?_eq_getElem this]
      rfl
    · rfl

theorem attrOpt_ne_panic (name : Bytes) (attrs : List Attr) : attrOpt name attrs ≠ .panic := by
  induction attrs with
  | nil => simp [attrOpt]
  | cons a rest ih =>
    cases a with
    | err => simp [attrOpt]
    | ok key value =>
      have hk := keyMatches_isSome key name
      unfold attrOpt
      cases hm : keyMatches key name with
      | none => rw [hm] at hk; cases hk
      | some b =>
        cases b
        · simpa using ih
        · cases value <;> simp

theorem attrReq_ne_panic (name : Bytes) (attrs : List Attr) : attrReq name attrs ≠ .panic := by
  have := attrOpt_ne_panic name attrs
  unfold attrReq
  split <;> simp_all

/-- `Reader::read_event` never panics -/
theorem C12_readEvent_nopanic (st : RState) (evs : List XmlEv) :
    (readEvent st evs).1 ≠ .panic := by
  fun_induction readEvent st evs
  all_goals first
    | assumption
    | (intro _; exact attrReq_ne_panic _ _ ‹attrReq _ _ = Res.panic›)
    | (intro h; cases h)

/-- every `read_event` call either consumes at least one XML event or reports end of file
    (so a loader loop makes at most `events + 1` calls) -/
theorem C12_consumes (st : RState) (evs : List XmlEv) :
    (readEvent st evs).1 = .ok .eof ∨ (readEvent st evs).2.2.length < evs.length := by
  by_cases h : (readEvent st evs).1 = .ok .eof
  · exact Or.inl h
  · exact Or.inr (readEvent_lt (r := (readEvent st evs).1) (st' := (readEvent st evs).2.1)
      (evs' := (readEvent st evs).2.2) rfl h)

theorem readEvent_panic_absurd {st st' : RState} {evs evs' : List XmlEv}
    (h : readEvent st evs = (.panic, st', evs')) : False := by
  have := C12_readEvent_nopanic st evs
  rw [h] at this
  exact this rfl

theorem readPdu_ne_panic (st : RState) (evs : List XmlEv) (acc : List (Nat × Bytes)) :
    (readPdu st evs acc).1 ≠ .panic := by
  fun_induction readPdu st evs acc
  all_goals first
    | assumption
    | (intro _; exact readEvent_panic_absurd ‹readEvent _ _ = (Res.panic, _, _)›)
    | (intro h; cases h)

theorem readFrame_ne_panic (st : RState) (evs : List XmlEv) (acc : List (Nat × Bytes))
    (ext : FrameExt) : (readFrame st evs acc ext).1 ≠ .panic := by
  fun_induction readFrame st evs acc ext
  all_goals first
    | assumption
    | (intro _; exact readEvent_panic_absurd ‹readEvent _ _ = (Res.panic, _, _)›)
    | (intro h; cases h)

theorem readFile_ne_panic (st : RState) (evs : List XmlEv) (acc : Acc) :
    readFile st evs acc ≠ .panic := by
  fun_induction readFile st evs acc
  all_goals first
    | assumption
    | (intro _; exact readEvent_panic_absurd ‹readEvent _ _ = (Res.panic, _, _)›)
    | (intro _
       have hp := ‹readPdu _ _ _ = (Res.panic, _, _)›
       exact readPdu_ne_panic _ _ _ (congrArg Prod.fst hp))
    | (intro _
       have hp := ‹readFrame _ _ _ _ = (Res.panic, _, _)›
       exact readFrame_ne_panic _ _ _ _ (congrArg Prod.fst hp))
    | (intro h; cases h)

theorem readFiles_ne_panic (files : List (Option (List XmlEv))) (acc : Acc) :
    readFiles files acc ≠ .panic := by
  induction files generalizing acc with
  | nil => simp [readFiles]
  | cons f rest ih =>
    cases f with
    | none => simp [readFiles]
    | some evs =>
      unfold readFiles
      have := readFile_ne_panic {} evs acc
      split
      · exact ih _
      · simp
      · simp_all

/-- Loading terminates (the model is a total function) with a model or with nothing — for
    every list of files, every event list (valid, truncated anywhere, with elements or
    attributes removed, corrupted), and for files that cannot be opened. -/
theorem C12_total (files : List (Option (List XmlEv))) :
    gatherFibexData files = .ok none ∨ ∃ md, gatherFibexData files = .ok (some md) := by
  unfold gatherFibexData
  split
  · exact Or.inl rfl
  · have hp : readFibexes files ≠ .panic := by
      unfold readFibexes
      have := readFiles_ne_panic files {}
      split
      · simp
      · simp_all
      · dsimp only
        split <;> simp
    cases h : readFibexes files with
    | ok md => exact Or.inr ⟨md, rfl⟩
    | err => exact Or.inl rfl
    | panic => exact absurd h hp

/-- end of file inside a PDU element is an error (the loop does not go on) -/
theorem C12_eof_in_pdu (st : RState) (acc : List (Nat × Bytes)) :
    (readPdu st [] acc).1 = .err := by
  rw [readPdu]
  split
  · rfl
  · rename_i heq; simp [readEvent] at heq
  · rename_i heq
    simp only [readEvent, Prod.mk.injEq, Res.ok.injEq] at heq
    obtain ⟨rfl, rfl, rfl⟩ := heq
    rfl

/-- end of file inside a FRAME element is an error -/
theorem C12_eof_in_frame (st : RState) (acc : List (Nat × Bytes)) (ext : FrameExt) :
    (readFrame st [] acc ext).1 = .err := by
  rw [readFrame]
  split
  · rfl
  · rename_i heq; simp [readEvent] at heq
  · rename_i heq
    simp only [readEvent, Prod.mk.injEq, Res.ok.injEq] at heq
    obtain ⟨rfl, rfl, rfl⟩ := heq
    rfl

/-- a file that cannot be opened makes loading return nothing -/
theorem C12_missing_file (before after : List (Option (List XmlEv))) :
    gatherFibexData (before ++ none :: after) = .ok none := by
  have hfiles : ∀ acc, readFiles (before ++ none :: after) acc = .err ∨
      readFiles (before ++ none :: after) acc = .panic := by
    induction before with
    | nil => intro acc; left; rfl
    | cons f rest ih =>
      intro acc
      cases f with
      | none => left; rfl
      | some evs =>
        simp only [List.cons_append, readFiles]
        split
        · exact ih _
        · left; rfl
        · right; rfl
  have hne : (before ++ none :: after).isEmpty = false := by
    cases before <;> rfl
  unfold gatherFibexData
  rw [hne]
  simp only [Bool.false_eq_true, if_false]
  unfold readFibexes
  rcases hfiles {} with h | h
  · rw [h]
  · exact absurd h (readFiles_ne_panic _ _)

end Dlt
