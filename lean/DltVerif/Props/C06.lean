/-
  C06 — storage-header resync skips exactly the bytes before the first pattern.
-/
import DltVerif.Lemmas.FramingStorage
import DltVerif.Lemmas.RoundTripMsg
import DltVerif.Props.C04
import DltVerif.Lemmas.PropsAux

namespace Dlt

/-- the search reports the number of bytes preceding the FIRST occurrence of the pattern,
    together with the input from that occurrence on -/
theorem C06_search_some (bs : Bytes) (n : Nat) (rest : Bytes) :
    forwardToNextStorageHeader bs = some (n, rest) ↔
      ((bs.drop n).take 4 = DLT_PATTERN ∧ (∀ k, k < n → (bs.drop k).take 4 ≠ DLT_PATTERN)
        ∧ rest = bs.drop n) := by
  unfold forwardToNextStorageHeader
  rw [findPattern_eq_firstPattern]
  constructor
  · intro h
    cases hf : Spec.firstPattern bs with
    | none => rw [hf] at h; cases h
    | some n' =>
      rw [hf, Option.map_some] at h
      injection h with h
      injection h with h1 h2
      subst h1 h2
      obtain ⟨a, b⟩ := (firstPattern_some_iff bs n').1 hf
      exact ⟨a, b, rfl⟩
  · rintro ⟨h1, h2, rfl⟩
    rw [(firstPattern_some_iff bs n).2 ⟨h1, h2⟩]
    rfl

/-- and reports absence exactly when the pattern does not occur -/
theorem C06_search_none (bs : Bytes) :
    forwardToNextStorageHeader bs = none ↔ ∀ k, (bs.drop k).take 4 ≠ DLT_PATTERN := by
  unfold forwardToNextStorageHeader
  rw [findPattern_eq_firstPattern, ← firstPattern_none_iff]
  cases Spec.firstPattern bs with
  | none => exact ⟨fun _ => rfl, fun _ => rfl⟩
  | some n => exact ⟨fun h => (by cases h), fun h => (by cases h)⟩

/-- junk in front of a well-formed message with storage header is skipped, provided no
    occurrence of the pattern starts inside the junk (neither a complete one nor one that
    straddles into the message's own pattern): junk ++ message parses to the same message and
    the same remainder as the message alone -/
theorem C06_junk (j : Bytes)
    (hj : ∀ k, k < j.length → ((j ++ DLT_PATTERN).drop k).take 4 ≠ DLT_PATTERN)
    (m : Message) (h : m.wf = true) (hs : m.storageHeader.isSome = true) (sfx : Bytes) :
    dltMessage (j ++ (m.asBytes ++ sfx)) none true = .ok (.item m, sfx) :=
  (dltMessage_ok_iff _ _ _ _ _).2 (dltMessageIntern_junk_asBytes j hj m h hs sfx)

/-- the same for EVERY continuation and EVERY filter, not only for a well-formed message
    without filter: whatever follows the first pattern occurrence (a message that is delivered,
    one the filter drops, a damaged or an incomplete one), junk in front of it changes neither
    the verdict nor the remainder.  (`x` holds at least the 16 storage-header bytes; with fewer
    the parser asks for more data before it searches.) -/
theorem C06_junk_any (j x : Bytes) (f : Option ProcessedFilter) (h16 : 16 ≤ x.length)
    (hp : x.take 4 = DLT_PATTERN)
    (hj : ∀ k, k < j.length → ((j ++ DLT_PATTERN).drop k).take 4 ≠ DLT_PATTERN) :
    dltMessage (j ++ x) f true = dltMessage x f true := by
  unfold dltMessage
  rw [dltMessageIntern_junk j x f h16 hp hj]

/-- the hypothesis of `C06_junk` holds for every junk string without the byte 'D' (0x44):
    no occurrence can start inside it -/
theorem C06_noD_junk (j : Bytes) (hj : ∀ b ∈ j, b ≠ 0x44#8) (k : Nat) (hk : k < j.length) :
    ((j ++ DLT_PATTERN).drop k).take 4 ≠ DLT_PATTERN :=
  noD_window j hj k hk

/-- the pattern has no border (no proper prefix of it is a suffix of it), so the pattern
    itself followed by anything has its first occurrence at 0 and the next one not before 4 -/
theorem C06_no_border (k : Nat) (hk : 0 < k) (hk4 : k < 4) (x : Bytes) :
    ((DLT_PATTERN ++ x).drop k).take 4 ≠ DLT_PATTERN := by
  obtain rfl | rfl | rfl : k = 1 ∨ k = 2 ∨ k = 3 := by omega
  all_goals
    intro hc
    simp only [DLT_PATTERN, List.cons_append, List.drop_succ_cons, List.drop_zero,
      List.take_succ_cons] at hc
    injection hc with h1 _
    exact absurd h1 (by decide)

/-- the hypothesis of `C06_junk` / `C06_junk_any` says exactly that the junk does not contain
    the pattern (the pattern has no border, so an occurrence cannot straddle from the junk into
    the real pattern) -/
theorem C06_junk_hyp_iff (j : Bytes) :
    (∀ k, k < j.length → ((j ++ DLT_PATTERN).drop k).take 4 ≠ DLT_PATTERN)
      ↔ (∀ k, (j.drop k).take 4 ≠ DLT_PATTERN) :=
  ⟨window_notContains j, notContains_window j⟩

/-- a stream of well-formed messages with junk between them that does not contain the pattern
    is recovered completely and in order by repeated parsing in storage mode (`parseAll` of
    Props/C04.lean: the client loop, defined by recursion on what is left) -/
theorem C06_stream (items : List (Bytes × Message))
    (h : ∀ x ∈ items, (∀ k, (x.1.drop k).take 4 ≠ DLT_PATTERN) ∧ x.2.wf = true
      ∧ x.2.storageHeader.isSome = true) :
    parseAll none true (items.map fun x => x.1 ++ x.2.asBytes).flatten
      = items.map (fun x => ParsedMessage.item x.2) := by
  induction items with
  | nil =>
    rw [parseAll]
    split
    · rename_i res rest hm
      simp [dltMessage, dltMessageIntern, dltStorageHeader, STORAGE_HEADER_LENGTH, PRes.toResult,
        PRes.andThen] at hm
    · rfl
  | cons x t ih =>
    obtain ⟨hj, hwf, hs⟩ := h x List.mem_cons_self
    have hstep := C06_junk x.1 (notContains_window x.1 hj) x.2 hwf hs
      (t.map fun x => x.1 ++ x.2.asBytes).flatten
    rw [List.map_cons, List.flatten_cons, List.append_assoc, parseAll]
    split
    · rename_i res rest hm
      rw [hstep] at hm
      simp only [Except.ok.injEq, Prod.mk.injEq] at hm
      obtain ⟨rfl, rfl⟩ := hm
      rw [ih (fun y hy => h y (List.mem_cons_of_mem _ hy))]
      rfl
    · rename_i e hm
      rw [hstep] at hm
      simp at hm

end Dlt
