/-
  C09 — filtering drops exactly the messages that fail the configured criteria.

  Model: `filteredOut`, `ExtendedHeader.skipWithLevel` (Model/Decode.lean), `processFilter`
  (Model/Filter.lean).  Spec: `Spec.drops` (Spec/Filter.lean) over the numeric configuration.
-/
import DltVerif.Lemmas.FramingStorage
import DltVerif.Model.Filter
import DltVerif.Lemmas.PropsAux

namespace Dlt

/-- the model's decision on the processed configuration is the Spec's decision on the
    numeric configuration, for all headers -/
theorem C09_decision (cfg : Spec.FilterConfig) (eh : Option ExtendedHeader) (ecu : Option Bytes) :
    filteredOut eh (some (processFilter cfg)) ecu = Spec.drops cfg eh ecu :=
  filteredOut_processFilter cfg eh ecu

/-- Parsing with a filter gives the result of parsing without one, except that the message
    is replaced by a marker carrying its payload length exactly when `Spec.drops` says so;
    kept messages and the remainder are identical. For ALL byte strings on which the
    unfiltered parse yields a message (stronger than the well-formed domain asked for). -/
theorem C09_filter (cfg : Spec.FilterConfig) (w : Bool) (bs : Bytes) (m : Message) (r : Bytes)
    (h : dltMessage bs none w = .ok (.item m, r)) :
    dltMessage bs (some (processFilter cfg)) w =
      .ok (if Spec.drops cfg m.extendedHeader m.header.ecuId
           then .filteredOut m.header.payloadLength.toNat else .item m, r) := by
  have hi := (dltMessage_ok_iff _ _ _ _ _).1 h
  have hf := dltMessageIntern_filtered bs (processFilter cfg) w m r hi
  rw [C09_decision] at hf
  exact (dltMessage_ok_iff _ _ _ _ _).2 hf

/-- numeric minimum levels outside 1..6 mean no level filtering -/
theorem C09_level_outside (cfg : Spec.FilterConfig) (lv : BitVec 8)
    (hl : cfg.minLogLevel = some lv) (hout : lv.toNat = 0 ∨ 6 < lv.toNat) (mt : MessageType) :
    Spec.levelDrops cfg.minLogLevel mt = false := by
  rw [hl]
  exact levelDrops_outside lv hout mt

/-- `skip_with_level` on named levels agrees with the declaration order (the derived
    `PartialOrd`): a message is skipped iff its level is strictly less severe -/
theorem C09_skip_order (h : ExtendedHeader) (l n : LogLevel) (hm : h.messageType = .log n)
    (hl : Spec.levelCode l ≠ none) (hn : Spec.levelCode n ≠ none) :
    h.skipWithLevel l = decide ((Spec.levelCode l).getD 0 < (Spec.levelCode n).getD 0) := by
  unfold ExtendedHeader.skipWithLevel
  rw [hm]
  cases l <;> cases n <;> simp [Spec.levelCode, LogLevel.rank] at hl hn ⊢

end Dlt
