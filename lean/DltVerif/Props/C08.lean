/-
  C08 — the async reader delivers what the blocking reader delivers, on any schedule.

  Model: `readAllAsync` (Model/Reader.lean): the same `next_message_slice` logic over the
  `ReadExact` future of futures-util (a poll loop that returns `Pending` to the executor and
  keeps its progress) driven by an executor that re-polls after every wake-up.

  Partial: the theorem is about the poll-loop state machine and an abstract executor; wakers,
  the real executor and `futures::io::BufReader` internals are exercised by the
  correspondence run (`AsyncRead` source that returns `Pending` and wakes itself, under
  `futures::executor::block_on`), not proved.
-/
import DltVerif.Lemmas.Reader

namespace Dlt

/-- the `ReadExact` future, re-polled after every `Pending`, meets the `read_exact` contract
    for every interleaving of `Pending` and `Ready(k bytes)` -/
theorem C08_readExact : ExactContract readExactAsync := readExactAsync_contract

theorem C08_refines (sched : List Step) (w : Bool) (f : Option ProcessedFilter) (bs : Bytes) :
    readAllAsync sched w f bs = Spec.readStream w f bs := by
  have := readAllWith_refines readExactAsync readExactAsync_contract w f
    { buf := [], data := bs, sched := sched } (bs.length + 1) (by simp)
  simpa [readAllAsync] using this

/-- same messages, same terminal outcome, for every pair of schedules -/
theorem C08_equal (sa sb : List Step) (w : Bool) (f : Option ProcessedFilter) (bs : Bytes) :
    readAllAsync sa w f bs = readAll sb w f bs := by
  have h := readAllWith_refines readExact readExact_contract w f
    { buf := [], data := bs, sched := sb } (bs.length + 1) (by simp)
  rw [C08_refines]
  simpa [readAll] using h.symm

end Dlt
