/-
  C02 — writer and parser agree with an independent reference codec of the DLT format.

  Model: `Message.asBytes` (Model/Encode.lean), `dltMessage` (Model/Decode.lean).
  Spec: Spec/Codec.lean — `Spec.layout` (the bytes of a message, by weights and digit sums)
  and `Spec.decode` (positions by offset from HTYP and LEN, headers by offset, arguments by a
  consumer of the declared payload slice), written from the AUTOSAR layout.
-/
import DltVerif.Lemmas.CodecMessage
import DltVerif.Lemmas.CodecEncode
import DltVerif.Props.C01
import DltVerif.Lemmas.Utf8Spec

namespace Dlt
open Dlt.Spec

/-- the parser's result as a verdict: a message with its consumed length, "incomplete", or
    rejection (both error classes) -/
def verdictOf (r : Except DltError (ParsedMessage × Bytes)) (n : Nat) : Verdict :=
  match r with
  | .ok (.item m, rest) => .item m (n - rest.length)
  | .ok (_, _) => .reject
  | .error (.incomplete _) => .incomplete
  | .error _ => .reject

theorem bodyOf_storage (bs : Bytes) (d : Nat) (m : Message) (h : bodyOf bs d = some m) :
    m.storageHeader = none := by
  unfold bodyOf at h
  simp only [] at h
  cases hp : decodePayload (stdHeaderOf bs).endianness
      (if Spec.bit (bs.headD 0#8) 0 = true then some (extAt (bs.drop (Spec.stdHeaderLen (bs.headD 0#8))))
       else none)
      ((bs.drop (Spec.allHeadersLen (bs.headD 0#8))).take (d - Spec.allHeadersLen (bs.headD 0#8))) with
  | none => rw [hp] at h; cases h
  | some p => rw [hp] at h; cases h; rfl

/-- without storage header: for EVERY byte string the parser's verdict is the reference
    decoder's verdict (message with every field and the consumed length, incomplete, reject) -/
theorem C02_decode_nostorage (bs : Bytes) :
    verdictOf (dltMessage bs none false) bs.length = Spec.decode false bs := by
  have href := framing_refines bs none
  unfold Spec.decode dltMessage
  simp only [Bool.false_eq_true, if_false]
  cases hf : Spec.framing bs with
  | incomplete b =>
    rw [hf] at href
    obtain ⟨hint, hh, _⟩ := href
    rw [hh]; rfl
  | reject =>
    rw [hf] at href
    simp only [] at href
    rw [href]; rfl
  | complete d =>
    simp only []
    rw [decodeComplete_take bs d hf none d]
    obtain ⟨h1, h2⟩ := msgBody_complete bs d hf
    rw [FramingStorage.dltMessageIntern_false_eq]
    have hdl : d ≤ bs.length := by
      obtain ⟨_, _, _, _, _, hd, _⟩ := (FramingStorage.framing_complete_iff bs d).1 hf
      exact hd
    cases hb : bodyOf bs d with
    | some m =>
      rw [h1 m hb]
      have hs := bodyOf_storage bs d m hb
      have hm : ({ m with storageHeader := none } : Message) = m := by
        cases m; simp only at hs; subst hs; rfl
      simp only [PRes.toResult, verdictOf, List.length_drop, hm]
      congr 1
      omega
    | none =>
      rcases h2 hb with h | h <;> rw [h] <;> rfl

/-- with storage header: junk before the first pattern is skipped, the storage header is
    read, and the verdict is again the reference decoder's for EVERY byte string -/
theorem C02_decode_storage (bs : Bytes) :
    verdictOf (dltMessage bs none true) bs.length = Spec.decode true bs := by
  unfold Spec.decode Spec.storageFraming dltMessage
  simp only [if_true]
  by_cases h16 : bs.length < 16
  · rw [if_pos h16, dltMessageIntern_storage_short bs none h16]; rfl
  · rw [if_neg h16]
    cases hs : Spec.firstPattern bs with
    | none =>
      rw [dltMessageIntern_storage_nopattern bs none (by omega) hs]; rfl
    | some skip =>
      simp only []
      by_cases hcut : bs.length - skip < 16
      · rw [if_pos hcut]
        obtain ⟨n, hn, _⟩ := dltMessageIntern_storage_cut bs none skip (by omega) hs hcut
        rw [hn]; rfl
      · rw [if_neg hcut]
        rw [dltMessageIntern_storage_exact bs none skip (by omega) hs (by omega)]
        have href := framing_refines (bs.drop (skip + 16)) none
        cases hf : Spec.framing (bs.drop (skip + 16)) with
        | incomplete b =>
          rw [hf] at href
          obtain ⟨hint, hh, _⟩ := href
          rw [hh]; rfl
        | reject =>
          rw [hf] at href
          simp only [] at href
          rw [href]; rfl
        | complete d =>
          simp only []
          rw [decodeComplete_take _ d hf (some (storageHeaderOf ((bs.drop skip).take 16))) (skip + 16 + d)]
          obtain ⟨h1, h2⟩ := msgBody_complete (bs.drop (skip + 16)) d hf
          rw [FramingStorage.dltMessageIntern_false_eq]
          have hdl : d ≤ (bs.drop (skip + 16)).length := by
            obtain ⟨_, _, _, _, _, hd, _⟩ :=
              (FramingStorage.framing_complete_iff (bs.drop (skip + 16)) d).1 hf
            exact hd
          rw [List.length_drop] at hdl
          cases hb : bodyOf (bs.drop (skip + 16)) d with
          | some m =>
            rw [h1 m hb]
            simp only [PRes.map_ok, PRes.toResult, verdictOf, ParsedMessage.withStorage,
              List.length_drop]
            congr 1
            omega
          | none =>
            rcases h2 hb with h | h <;> rw [h] <;> rfl

/-- C02 (decoding): for every byte string and both storage-header modes, the parser's
    verdict is the verdict of the independently written reference decoder -/
theorem C02_decode (w : Bool) (bs : Bytes) :
    verdictOf (dltMessage bs none w) bs.length = Spec.decode w bs := by
  cases w
  · exact C02_decode_nostorage bs
  · exact C02_decode_storage bs

/-- the type-info word: the crate's decoder is the decoder by weights on all 2^32 words, and
    it accepts exactly the words naming one supported kind with a supported width -/
theorem C02_typeinfo (w : BitVec 32) :
    TypeInfo.ofU32 w = tiDecode w.toNat ∧ (TypeInfo.ofU32 w).isSome = tiSupported w.toNat :=
  ⟨ofU32_eq_tiDecode w, ofU32_isSome w⟩

/-- C02 (encoding): the bytes the writer produces for every well-formed message are exactly
    the AUTOSAR layout as the reference encoder spells it out -/
theorem C02_encode (m : Message) (h : m.wf = true) : m.asBytes = Spec.layout m := layout_eq m h

/-- the reference decoder inverts the reference encoder on well-formed messages (from
    C02_encode, C02_decode and the round trip C01): the two halves of the reference codec are
    consistent with each other, whatever follows the message -/
theorem C02_reference_roundtrip (m : Message) (h : m.wf = true) (sfx : Bytes) :
    Spec.decode m.storageHeader.isSome (Spec.layout m ++ sfx) = .item m (Spec.layout m).length := by
  rw [← C02_encode m h, ← C02_decode, (C01_roundtrip m h sfx).2]
  simp only [verdictOf, List.length_append]
  congr 1
  omega

/-- the text of a field as the reference codec reads it is the longest prefix, of the bytes
    before the first NUL, that is valid UTF-8 in the sense of RFC 3629 (found by search) -/
theorem C02_text (b : Bytes) :
    Spec.fieldText b
      = Spec.longestValid (b.takeWhile fun x => x != 0#8) (b.takeWhile fun x => x != 0#8).length := by
  rw [longestValid_self]; rfl

/-- non-vacuity: the big-endian network-trace message of C01 is laid out as 41 bytes starting
    with the storage pattern and HTYP 0x3F -/
example : (Spec.layout exNetworkTrace).take 17
    = [0x44#8, 0x4C#8, 0x54#8, 0x01#8, 1#8, 0#8, 0#8, 0#8, 2#8, 0#8, 0#8, 0#8, 0x45#8, 0x43#8, 0#8, 0#8,
       0x3F#8] := by decide

end Dlt
