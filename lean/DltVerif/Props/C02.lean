/-
  C02 — writer and parser agree with an independent reference codec of the DLT format.
  (theorems under construction; see below)
-/
import DltVerif.Spec.Codec
import DltVerif.Model.Decode

namespace Dlt

end Dlt
