/-
  C01 — serialise-then-parse returns the identical message and consumes it exactly.

  Model: `Message.asBytes` (Model/Encode.lean), `dltMessage` (Model/Decode.lean).
  Domain: `Message.wf` (Spec/WF.lean), the property's quantifier as a decidable predicate.
-/
import DltVerif.Lemmas.RoundTripMsg

namespace Dlt

/-- For every well-formed message and every trailing byte string: serialising does not
    overflow, and parsing the serialisation followed by the trailing bytes yields exactly the
    message (field for field, floats by bit pattern) and exactly the trailing bytes. -/
theorem C01_roundtrip (m : Message) (h : m.wf = true) (sfx : Bytes) :
    m.asBytesPanics = false ∧
    dltMessage (m.asBytes ++ sfx) none m.storageHeader.isSome = .ok (.item m, sfx) := by
  refine ⟨Message.wf_not_panics m h, ?_⟩
  simp [dltMessage, dltMessageIntern_asBytes m h sfx, PRes.toResult]

/-- nothing that follows the message influences the parsed message -/
theorem C01_suffix_irrelevant (m : Message) (h : m.wf = true) (s1 s2 : Bytes) :
    (dltMessage (m.asBytes ++ s1) none m.storageHeader.isSome).map (·.1)
      = (dltMessage (m.asBytes ++ s2) none m.storageHeader.isSome).map (·.1) := by
  rw [(C01_roundtrip m h s1).2, (C01_roundtrip m h s2).2]; rfl

/-- a sequence of well-formed messages parses message by message -/
theorem C01_two (m1 m2 : Message) (h1 : m1.wf = true) (h2 : m2.wf = true) (sfx : Bytes) :
    dltMessage (m1.asBytes ++ (m2.asBytes ++ sfx)) none m1.storageHeader.isSome
      = .ok (.item m1, m2.asBytes ++ sfx)
    ∧ dltMessage (m2.asBytes ++ sfx) none m2.storageHeader.isSome = .ok (.item m2, sfx) :=
  ⟨(C01_roundtrip m1 h1 _).2, (C01_roundtrip m2 h2 _).2⟩

/-- non-vacuity: a big-endian network-trace message with storage header, all optional
    fields, and a fixed-point argument message are well-formed -/
def exNetworkTrace : Message :=
  { storageHeader := some { timestamp := { seconds := 1#32, microseconds := 2#32 },
                            ecuId := [0x45#8, 0x43#8] }
    header := { version := 1#8, endianness := .big, hasExtendedHeader := true,
                messageCounter := 7#8, ecuId := some [0x45#8], sessionId := some 5#32,
                timestamp := some 9#32, payloadLength := 15#16 }
    extendedHeader := some { verbose := true, argumentCount := 2#8,
                             messageType := .networkTrace .can,
                             applicationId := [0x41#8], contextId := [] }
    payload := .networkTrace [[1#8, 2#8, 3#8], []] }

example : exNetworkTrace.wf = true := by
  -- `Utf8.valid` is defined by well-founded recursion, so the ASCII ids are checked by hand
  have v0 : Utf8.valid [] = true := by rw [Utf8.valid_iff, Utf8.validUpTo_nil]; rfl
  have step : ∀ (b : BitVec 8) (t : Bytes), b.toNat < 0x80 → Utf8.valid t = true →
      Utf8.valid (b :: t) = true := by
    intro b t hb ht
    have hs : Utf8.scalarLen (b :: t) = 1 := by simp only [Utf8.scalarLen, hb, if_true]
    rw [Utf8.valid_iff] at ht ⊢
    rw [Utf8.validUpTo_of_scalarLen_ne_zero _ (by rw [hs]; decide), hs, List.drop_one,
      List.tail_cons, ht, List.length_cons]
    omega
  have v1 : Utf8.valid [0x41#8] = true := step 0x41#8 [] (by decide) v0
  have v2 : Utf8.valid [0x45#8] = true := step 0x45#8 [] (by decide) v0
  have v3 : Utf8.valid [0x45#8, 0x43#8] = true :=
    step 0x45#8 [0x43#8] (by decide) (step 0x43#8 [] (by decide) v0)
  have i0 : idOk [] = true := by rw [idOk, v0]; decide
  have i1 : idOk [0x41#8] = true := by rw [idOk, v1]; decide
  have i2 : idOk [0x45#8] = true := by rw [idOk, v2]; decide
  have i3 : idOk [0x45#8, 0x43#8] = true := by rw [idOk, v3]; decide
  simp only [Message.wf, exNetworkTrace, ExtendedHeader.wf, i0, i1, i2, i3, Bool.true_and]
  decide

end Dlt
