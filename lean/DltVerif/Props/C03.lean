/-
  C03 — no byte sequence can crash the slice parsers or the use of what they return.

  The model has an explicit `panic` outcome at every operation that can panic in Rust
  (checked subtractions `size - len`, `input.len() - i.len()`, the `u16` additions of
  `overall_length`, every slice of `construct_arguments`, `len as u16 + 1` in the writer);
  the theorems say those outcomes are unreachable, for all inputs.
  Fidelity caveat: which operations can panic was identified by hand; the correspondence run
  (crate under `catch_unwind` vs model) on the malformed streams is what checks that list.
-/
import DltVerif.Lemmas.ParserImage
import DltVerif.Props.C13

namespace Dlt

/-- the message parser: every storage mode, every filter, every byte string -/
theorem C03_message_nopanic (bs : Bytes) (f : Option ProcessedFilter) (w : Bool) :
    dltMessage bs f w ≠ .error .panic :=
  toResult_ne_panic (dltMessageIntern_ne_panic bs f w)

theorem C03_consume_nopanic (bs : Bytes) : dltConsumeMsg bs ≠ .panic :=
  dltConsumeMsg_ne_panic bs

theorem C03_skip_nopanic (bs : Bytes) : skipStorageHeader bs ≠ .panic :=
  skipStorageHeader_ne_panic bs

/-- fixed-size string extraction: `ok` or `incomplete`, never `panic` (nor an error) -/
theorem C03_zts_nopanic (n : Nat) (s : Bytes) : zts n s ≠ .panic := by
  rcases zts_total n s with ⟨_, v, h⟩ | ⟨_, hint, h, _⟩ <;> (rw [h]; intro hc; cases hc)

/-- non-verbose argument construction -/
theorem C03_construct_nopanic (e : Endian) (types : List TypeInfo) (data : Bytes) :
    constructArguments e types data ≠ .panic := C13_nopanic e types data

/-- every returned message can be re-serialised and measured without panicking, and each of
    its arguments passes the validity check — whatever the input, storage mode and filter -/
theorem C03_reserialise (bs : Bytes) (f : Option ProcessedFilter) (w : Bool) (m : Message)
    (r : Bytes) (h : dltMessage bs f w = .ok (.item m, r)) :
    m.asBytesPanics = false
    ∧ (∀ args, m.payload = .verbose args → args.all Argument.valid = true
         ∧ args.all (fun a => !a.asBytesPanics) = true) :=
  parsed_usable bs f w m r (toResult_ok_inv h)

end Dlt
