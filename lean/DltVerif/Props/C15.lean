/-
  C15 — computed lengths equal serialised lengths; built messages are self-consistent.

  Model: `Argument.len`, `Argument.asBytes`, `Argument.valid`, `Message.new`,
  `Message.byteLen`, `Message.addStorageHeader` (Model/Encode.lean).
  Domain: `Argument.wf`, `MessageConfig.wf` (the property's "any configuration that fits
  the 16-bit length field", spelled out below from the property text).
-/
import DltVerif.Lemmas.RoundTripMsg
import DltVerif.Props.C01

namespace Dlt

/-- The length an argument reports equals the number of bytes it serialises to, in either
    byte order. -/
theorem C15_len (a : Argument) (h : a.wf = true) (e : Endian) :
    a.len = (a.asBytes e).length := by
  obtain ⟨⟨kind, coding, vari, trai⟩, name, unit, fp, value⟩ := a
  simp only [Argument.wf, Bool.and_eq_true] at h
  obtain ⟨_, h⟩ := h
  split at h
  case h_20 => exact absurd h (by simp)
  case h_1 =>
    simp only [Bool.and_eq_true] at h
    obtain ⟨h1, _⟩ := h
    rcases name with _ | n
    · simp [Argument.len, Argument.asBytes, bufTypeInfoName, TypeInfo.asBytes, TYPE_INFO_LENGTH]
    · simp [Argument.len, Argument.asBytes, bufTypeInfoName, TypeInfo.asBytes, TYPE_INFO_LENGTH]
      omega
  case h_18 s =>
    simp only [Bool.and_eq_true] at h
    obtain ⟨⟨hn, _⟩, _⟩ := h
    cases vari <;> rcases name with _ | n <;> simp [optText] at hn <;>
      simp [Argument.len, Argument.asBytes, TypeInfo.asBytes, TYPE_INFO_LENGTH] <;> omega
  case h_19 b =>
    simp only [Bool.and_eq_true] at h
    obtain ⟨⟨hn, _⟩, _⟩ := h
    cases vari <;> rcases name with _ | n <;> simp [optText] at hn <;>
      simp [Argument.len, Argument.asBytes, TypeInfo.asBytes, TYPE_INFO_LENGTH] <;> omega
  all_goals
    simp only [Bool.and_eq_true] at h
    obtain ⟨h1, h2⟩ := h
    cases vari <;> rcases name with _ | n <;> rcases unit with _ | u <;>
      simp [optText] at h1 h2 <;>
      simp [Argument.len, Argument.asBytes, bufTypeInfoNameUnit, TypeInfo.asBytes, TYPE_INFO_LENGTH,
        putSignedValue, putUnsignedValue, putFloatValue, Argument.fixedPointCapacity,
        FixedPointValue.width, TypeLength.bytes, FloatWidth.bytes] <;> omega

/-- the sum of the reported lengths is the length of a verbose payload -/
theorem C15_payload_len (args : List Argument) (h : args.all Argument.wf = true) (e : Endian) :
    (args.map Argument.len).sum = (PayloadContent.asBytes e (.verbose args)).length := by
  induction args with
  | nil => rfl
  | cons a as ih =>
    simp only [List.all_cons, Bool.and_eq_true] at h
    have := ih h.2
    simp only [PayloadContent.asBytes, List.map_cons, List.sum_cons, List.flatten_cons,
      List.length_append] at this ⊢
    rw [this, C15_len a h.1 e]

/-- A configuration accepted by the property: the ids are id fields, the version fits its
    3 bits, the payload kind agrees with the extended-header information (network trace <->
    network-trace type, control <-> control type, no extended header -> non-verbose), at most
    255 arguments, every argument well-formed, and the whole message fits the length field. -/
def MessageConfig.wf (c : MessageConfig) : Bool :=
  decide (c.version.toNat < 8)
  && (match c.ecuId with | some id => idOk id | none => true)
  && (match c.extendedHeaderInfo with
      | some x => idOk x.appId && idOk x.contextId && x.messageType.canonical
      | none => true)
  && (match c.payload, c.extendedHeaderInfo with
      | .verbose args, some x =>
        decide (args.length ≤ 255) && !x.messageType.isNetworkTrace && args.all Argument.wf
      | .networkTrace slices, some x =>
        decide (slices.length ≤ 255) && x.messageType.isNetworkTrace
          && slices.all (fun s => decide (s.length ≤ 65535))
      | .controlMsg t _, some x => x.messageType.isControl && t.canonicalValue
      | .nonVerbose _ _, some x => !x.messageType.isControl
      | .nonVerbose _ _, none => true
      | _, none => false)
  && decide (HEADER_MIN_LENGTH
      + (if c.ecuId.isSome then 4 else 0) + (if c.sessionId.isSome then 4 else 0)
      + (if c.timestamp.isSome then 4 else 0)
      + (if c.extendedHeaderInfo.isSome then EXTENDED_HEADER_LENGTH else 0)
      + (c.payload.asBytes c.endianness).length ≤ 65535)

theorem MessageConfig.wf_payload_lt (c : MessageConfig) (h : c.wf = true) :
    (c.payload.asBytes c.endianness).length < 65536 := by
  simp only [MessageConfig.wf, Bool.and_eq_true, decide_eq_true_eq] at h
  have := h.2
  simp only [HEADER_MIN_LENGTH] at this
  omega

/-- `Message::new`: the recorded payload length is the length of the serialised payload, the
    verbose flag and argument count are what the payload kind requires, and the message is
    well-formed (so it is in the domain of C01 and parses back to an equal message). -/
theorem C15_new (c : MessageConfig) (sh : Option StorageHeader) (h : c.wf = true)
    (hsh : ∀ s, sh = some s → idOk s.ecuId = true) :
    (Message.new c sh).header.payloadLength.toNat
      = ((Message.new c sh).payload.asBytes (Message.new c sh).header.endianness).length
    ∧ (∀ eh, (Message.new c sh).extendedHeader = some eh →
        eh.verbose = c.payload.isVerbose ∧
        eh.argumentCount.toNat = (match c.payload with
          | .verbose args => args.length | .networkTrace s => s.length | _ => 0))
    ∧ (Message.new c sh).wf = true := by
  have hlen := MessageConfig.wf_payload_lt c h
  have hpl : (BitVec.ofNat 16 (c.payload.asBytes c.endianness).length).toNat
      = (c.payload.asBytes c.endianness).length := by
    simp only [BitVec.toNat_ofNat]; omega
  simp only [MessageConfig.wf, Bool.and_eq_true, decide_eq_true_eq] at h
  obtain ⟨⟨⟨⟨hv, hecu⟩, hx⟩, hp⟩, htot⟩ := h
  refine ⟨hpl, ?_, ?_⟩
  · intro eh heh
    rcases hxi : c.extendedHeaderInfo with _ | x
    · simp [Message.new, hxi] at heh
    · simp only [Message.new, hxi, Option.map_some, Option.some.injEq] at heh
      subst heh
      refine ⟨rfl, ?_⟩
      rw [hxi] at hp
      rcases hpay : c.payload with args | ⟨id, p⟩ | ⟨t, p⟩ | slices
      · rw [hpay] at hp
        simp only [Bool.and_eq_true, decide_eq_true_eq] at hp
        simp only [PayloadContent.argCount, BitVec.toNat_ofNat]; omega
      · rfl
      · rfl
      · rw [hpay] at hp
        simp only [Bool.and_eq_true, decide_eq_true_eq] at hp
        simp only [PayloadContent.argCount, BitVec.toNat_ofNat]; omega
  · simp only [Message.wf, Message.new, Bool.and_eq_true, beq_iff_eq]
    refine ⟨⟨⟨⟨⟨⟨⟨?_, decide_eq_true hv⟩, hecu⟩, by simp⟩, ?_⟩, ?_⟩, decide_eq_true hpl⟩, decide_eq_true ?_⟩
    · rcases sh with _ | s
      · rfl
      · exact hsh s rfl
    · rcases hxi : c.extendedHeaderInfo with _ | x
      · rfl
      · rw [hxi] at hx
        simp only [Bool.and_eq_true] at hx
        simp only [Option.map_some, ExtendedHeader.wf, Bool.and_eq_true]
        exact hx
    · rcases hxi : c.extendedHeaderInfo with _ | x
      · rw [hxi] at hp
        rcases hpay : c.payload with args | ⟨id, p⟩ | ⟨t, p⟩ | slices <;> rw [hpay] at hp <;>
          simp_all [payloadConsistent]
      · rw [hxi] at hp
        rcases hpay : c.payload with args | ⟨id, p⟩ | ⟨t, p⟩ | slices <;> rw [hpay] at hp <;>
          simp only [Bool.and_eq_true, decide_eq_true_eq, Bool.not_eq_true'] at hp
        · simp only [Option.map_some, payloadConsistent, PayloadContent.isVerbose,
            PayloadContent.argCount, BitVec.toNat_ofNat, Bool.and_eq_true, decide_eq_true_eq,
            Bool.not_eq_true', true_and]
          exact ⟨⟨by omega, hp.1.2⟩, hp.2⟩
        · simp [payloadConsistent, PayloadContent.isVerbose, hp]
        · simp [payloadConsistent, PayloadContent.isVerbose, hp]
        · simp only [Option.map_some, payloadConsistent, PayloadContent.isVerbose,
            PayloadContent.argCount, BitVec.toNat_ofNat, Bool.and_eq_true, decide_eq_true_eq,
            true_and]
          exact ⟨⟨by omega, hp.1.2⟩, hp.2⟩
    · simp only [StandardHeader.overallLengthNat, hpl]
      simpa only [Option.isSome_map] using htot

/-- the two length claims for ANY configuration that fits the 16-bit length field — also one
    whose verbose arguments are not well-typed (a value of another kind than the type info
    says, missing name / unit / fixed-point parts), for which nothing else of C15 can hold:
    the recorded payload length is the length of the serialised payload, and the reported byte
    length is the length of the serialisation without storage header.  (Ids of more than 4
    bytes are written in full by the crate and are excluded.) -/
theorem C15_new_lengths (c : MessageConfig) (sh : Option StorageHeader)
    (hecu : ∀ id, c.ecuId = some id → id.length ≤ 4)
    (hx : ∀ x, c.extendedHeaderInfo = some x → x.appId.length ≤ 4 ∧ x.contextId.length ≤ 4)
    (hfit : HEADER_MIN_LENGTH
      + (if c.ecuId.isSome then 4 else 0) + (if c.sessionId.isSome then 4 else 0)
      + (if c.timestamp.isSome then 4 else 0)
      + (if c.extendedHeaderInfo.isSome then EXTENDED_HEADER_LENGTH else 0)
      + (c.payload.asBytes c.endianness).length ≤ 65535) :
    (Message.new c sh).header.payloadLength.toNat
      = ((Message.new c sh).payload.asBytes (Message.new c sh).header.endianness).length
    ∧ (Message.new c sh).byteLen
      = ({ Message.new c sh with storageHeader := none } : Message).asBytes.length := by
  have hpl : (BitVec.ofNat 16 (c.payload.asBytes c.endianness).length).toNat
      = (c.payload.asBytes c.endianness).length := by
    simp only [BitVec.toNat_ofNat, HEADER_MIN_LENGTH] at hfit ⊢; omega
  refine ⟨hpl, ?_⟩
  rw [Message.asBytes_eq]
  simp only [shBytes, List.nil_append, List.length_append]
  rw [StandardHeader.length_asBytes_of_le _ (by simpa [Message.new] using hecu)]
  simp only [Message.byteLen, StandardHeader.overallLength, StandardHeader.overallLengthNat,
    Message.new, hpl, asU16, HEADER_MIN_LENGTH, EXTENDED_HEADER_LENGTH] at hfit ⊢
  by_cases hxi : c.extendedHeaderInfo = none
  · simp only [hxi, Option.isSome_none, Bool.false_eq_true, if_false, Option.map_none, ehBytes,
      List.length_nil] at hfit ⊢
    by_cases h1 : c.ecuId.isSome = true <;> by_cases h2 : c.sessionId.isSome = true <;>
      by_cases h3 : c.timestamp.isSome = true <;>
      simp only [h1, h2, h3, if_false, if_true] at hfit ⊢ <;> omega
  · obtain ⟨x, hxi⟩ := Option.ne_none_iff_exists'.mp hxi
    obtain ⟨xa, xc⟩ := hx x hxi
    simp only [hxi, Option.isSome_some, if_true, Option.map_some, ehBytes] at hfit ⊢
    rw [ExtendedHeader.length_asBytes_of_le _ xa xc]
    by_cases h1 : c.ecuId.isSome = true <;> by_cases h2 : c.sessionId.isSome = true <;>
      by_cases h3 : c.timestamp.isSome = true <;>
      simp only [h1, h2, h3, if_false, if_true] at hfit ⊢ <;> omega

/-- a message built by `Message::new` parses back to an equal message, consuming exactly its
    serialisation (C01 on the well-formed result) -/
theorem C15_new_parses_back (c : MessageConfig) (sh : Option StorageHeader) (h : c.wf = true)
    (hsh : ∀ s, sh = some s → idOk s.ecuId = true) (sfx : Bytes) :
    dltMessage ((Message.new c sh).asBytes ++ sfx) none sh.isSome
      = .ok (.item (Message.new c sh), sfx) :=
  (C01_roundtrip (Message.new c sh) (C15_new c sh h hsh).2.2 sfx).2

/-- the reported byte length is the length of the serialisation without storage header -/
theorem C15_byte_len (m : Message) (h : m.wf = true) :
    m.byteLen = ({ m with storageHeader := none } : Message).asBytes.length := by
  have hb := Message.wf_body_length m h
  obtain ⟨_, _, _, _, _, _, _, htot⟩ := Message.wf_elim m h
  rw [Message.asBytes_eq]
  simp only [shBytes, List.nil_append]
  rw [hb]
  simp only [Message.byteLen, StandardHeader.overallLength, asU16]
  omega

/-- adding a storage header only prepends 16 bytes carrying the given time and the header
    ECU id (or the default id); everything else is unchanged -/
theorem C15_storage (m : Message) (ts : DltTimeStamp)
    (hecu : ∀ id, m.header.ecuId = some id → id.length ≤ 4) :
    (m.addStorageHeader ts).asBytes
      = (DLT_PATTERN ++ bytesLE 4 ts.seconds.toNat ++ bytesLE 4 ts.microseconds.toNat
          ++ putZeroTerminatedString (m.header.ecuId.getD DEFAULT_ECU_ID) 4)
        ++ ({ m with storageHeader := none } : Message).asBytes
    ∧ (DLT_PATTERN ++ bytesLE 4 ts.seconds.toNat ++ bytesLE 4 ts.microseconds.toNat
          ++ putZeroTerminatedString (m.header.ecuId.getD DEFAULT_ECU_ID) 4).length = 16
    ∧ (m.addStorageHeader ts).header = m.header
    ∧ (m.addStorageHeader ts).extendedHeader = m.extendedHeader
    ∧ (m.addStorageHeader ts).payload = m.payload := by
  refine ⟨?_, ?_, rfl, rfl, rfl⟩
  · simp only [Message.addStorageHeader, Message.asBytes, StorageHeader.asBytes, List.append_assoc,
      List.nil_append]
  · have hl : (m.header.ecuId.getD DEFAULT_ECU_ID).length ≤ 4 := by
      rcases he : m.header.ecuId with _ | id
      · simp [DEFAULT_ECU_ID]
      · simpa using hecu id he
    simp only [List.length_append, length_bytesLE, length_putZeroTerminatedString _ _ hl, DLT_PATTERN,
      List.length_cons, List.length_nil]

/-- an argument typed bool or 32/64-bit float that carries a value of another kind fails the
    validity check (and one carrying the right kind passes) -/
theorem C15_valid (a : Argument) :
    (a.typeInfo.kind = .bool → (a.valid = true ↔ ∃ x, a.value = .bool x))
    ∧ (a.typeInfo.kind = .float .w32 → (a.valid = true ↔ ∃ x, a.value = .f32 x))
    ∧ (a.typeInfo.kind = .float .w64 → (a.valid = true ↔ ∃ x, a.value = .f64 x)) := by
  refine ⟨?_, ?_, ?_⟩ <;> intro hk <;> simp only [Argument.valid, hk] <;>
    cases a.value <;> simp

/-- non-vacuity: a configuration with a network-trace payload and all optional fields -/
example : (Message.new
    { version := 1#8, counter := 3#8, endianness := .big, ecuId := none, sessionId := some 1#32,
      timestamp := none, payload := .networkTrace [[1#8, 2#8], []],
      extendedHeaderInfo := some { messageType := .networkTrace .can, appId := [], contextId := [] } }
    none).extendedHeader.map (fun e => (e.verbose, e.argumentCount)) = some (true, 2#8) := by
  decide

end Dlt
