/-
  C07 — the blocking reader equals slice parsing for every fragmentation of the source.

  Model: `readAll` (Model/Reader.lean): `next_message_slice` / `read_message` over a
  `BufReader` whose source fragments and interrupts its reads according to an arbitrary
  finite schedule.  Spec: `Spec.readStream` (Spec/Reader.lean): cut the bytes at the declared
  lengths and parse each piece; a function of the bytes alone.

  Modelled, not verified: `std::io::BufReader` and `Read::read_exact` are represented by the
  abstract source and the loop of Model/Reader.lean; the real ones are exercised by the
  correspondence run through a `Read` implementation driven by the schedule of the request.
-/
import DltVerif.Lemmas.Reader
import DltVerif.Lemmas.ParserImage

namespace Dlt

/-- `read_exact` meets its contract for every schedule of short and interrupted reads -/
theorem C07_readExact : ExactContract readExact := readExact_contract

/-- for every schedule, storage mode, filter and byte stream the blocking reader delivers
    exactly the Spec's cut-and-parse sequence -/
theorem C07_refines (sched : List Step) (w : Bool) (f : Option ProcessedFilter) (bs : Bytes) :
    readAll sched w f bs = Spec.readStream w f bs := by
  have := readAllWith_refines readExact readExact_contract w f
    { buf := [], data := bs, sched := sched } (bs.length + 1) (by simp)
  simpa [readAll] using this

/-- "no byte stream whatsoever, including one that declares a length smaller than its own
    header, makes the reader panic": the panic outcome is never delivered, for any schedule -/
theorem C07_nopanic (sched : List Step) (w : Bool) (f : Option ProcessedFilter) (bs : Bytes) :
    Delivered.error .panic ∉ readAll sched w f bs := by
  rw [C07_refines]
  unfold Spec.readStream
  intro h
  rw [List.mem_map] at h
  obtain ⟨p, _, hp⟩ := h
  cases p with
  | msg b =>
    unfold Spec.deliver at hp
    simp only at hp
    cases hd : dltMessage b f w with
    | ok r => rw [hd] at hp; cases hp
    | error e =>
      rw [hd] at hp
      simp only [Delivered.error.injEq] at hp
      subst hp
      exact toResult_ne_panic (dltMessageIntern_ne_panic b f w) hd
  | badLen => cases hp
  | truncated => cases hp

/-- in particular the result does not depend on the fragmentation at all -/
theorem C07_schedule_independent (s1 s2 : List Step) (w : Bool) (f : Option ProcessedFilter)
    (bs : Bytes) : readAll s1 w f bs = readAll s2 w f bs := by
  rw [C07_refines, C07_refines]

/-- every message completely contained in the stream before a truncation point is delivered,
    and a truncated tail yields end-of-stream or one error, never a message: for well-formed
    messages `ms` (all with / all without storage header) and a strict prefix of a further
    well-formed message -/
theorem C07_complete_prefix (w : Bool) (ms : List Message) (m : Message) (k : Nat)
    (hms : ∀ x ∈ ms, x.wf = true ∧ x.storageHeader.isSome = w)
    (hm : m.wf = true ∧ m.storageHeader.isSome = w) (hk : k < m.asBytes.length) :
    ∃ tail, (tail = [] ∨ tail = [Delivered.error .unrecoverable]) ∧
      Spec.readStream w none ((ms.map Message.asBytes).flatten ++ m.asBytes.take k)
        = ms.map (fun x => Delivered.parsed (.item x)) ++ tail := by
  induction ms with
  | nil =>
    obtain ⟨hlen, hdecl⟩ := Message.wf_piece_of m w hm.1 hm.2
    simp only [List.map_nil, List.flatten_nil, List.nil_append, Spec.readStream]
    rcases cut_strict_prefix w m.asBytes k hlen hdecl hk with hc | hc
    · exact ⟨[], Or.inl rfl, by rw [hc]; rfl⟩
    · exact ⟨[Delivered.error .unrecoverable], Or.inr rfl, by rw [hc]; rfl⟩
  | cons x xs ih =>
    obtain ⟨hx, hxw⟩ := hms x (List.mem_cons_self ..)
    obtain ⟨tail, ht, hr⟩ := ih (fun y hy => hms y (List.mem_cons_of_mem _ hy))
    obtain ⟨hlen, hdecl⟩ := Message.wf_piece_of x w hx hxw
    refine ⟨tail, ht, ?_⟩
    rw [Spec.readStream] at hr ⊢
    rw [List.map_cons, List.flatten_cons, List.append_assoc,
      cut_append_piece w x.asBytes _ hlen hdecl, List.map_cons, deliver_asBytes x w hx hxw, hr,
      List.map_cons, List.cons_append]

end Dlt
