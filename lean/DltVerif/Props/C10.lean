/-
  C10 — statistics count every message once per id and merge like a sum.

  Model: Model/Stats.lean (`collect_statistics` scan, `StatisticInfoCollector`,
  `StatisticInfo::merge`; hash maps as association lists).  Spec: Spec/Stats.lean (`tally`
  by `countP`).  Maps are compared as finite maps through `Spec.lookup` (absent = all zero).
  Not modelled: `usize` counter overflow (counters are `Nat`).
-/
import DltVerif.Lemmas.Stats
import DltVerif.Lemmas.StatsVisit

namespace Dlt

open Spec

/-- the standard collector's result equals the independent tally, for every keying, id and
    bucket, and no id is listed twice -/
theorem C10_tally (sts : List Statistic) (k : Keying) (id : Bytes) (b : Bucket) :
    lookup (mapOf k (collectInfo sts)) id b = tally k sts id b
    ∧ (keys (mapOf k (collectInfo sts))).Nodup := by
  have h0 : (keys (collMap k ({} : Collector))).Nodup := by
    cases k <;> exact List.nodup_nil
  rw [mapOf_collectInfo]
  refine ⟨?_, foldl_collect_keys_nodup sts {} k h0⟩
  rw [foldl_collect_lookup sts {} k h0]
  have : lookup (collMap k ({} : Collector)) id b = 0 := by
    cases k <;> rfl
  omega

theorem C10_nonverbose (sts : List Statistic) :
    (collectInfo sts).containedNonVerbose = anyNonVerbose sts := by
  show (sts.foldl Collector.collectStatistic {}).containedNonVerbose = _
  rw [foldl_collect_nonverbose]
  rfl

/-- the ECU totals add up to the number of messages -/
theorem C10_total (sts : List Statistic) : totalOf (collectInfo sts).ecuIds = sts.length := by
  show totalOf (sts.foldl Collector.collectStatistic {}).ecuIds = _
  rw [foldl_collect_total]
  show 0 + _ = _
  omega

/-- a merge expression over the statistics of the parts -/
inductive MergeTree where
  | part (i : Nat)
  /-- `StatisticInfo::new()` -/
  | new
  /-- `a.merge(b)` -/
  | node (a b : MergeTree)

def MergeTree.eval (parts : List StatisticInfo) : MergeTree → StatisticInfo
  | .part i => parts.getD i {}
  | .new => {}
  | .node a b => (a.eval parts).merge (b.eval parts)

def MergeTree.leaves : MergeTree → List Nat
  | .part i => [i]
  | .new => []
  | .node a b => a.leaves ++ b.leaves

/-- evaluation of a merge tree over well-formed parts (no id listed twice): the maps stay
    well formed, every counter is the sum over the leaves, the flag is the `or` over the
    leaves -/
theorem MergeTree.eval_spec (ps : List StatisticInfo)
    (hps : ∀ s ∈ ps, ∀ k, (keys (mapOf k s)).Nodup) (t : MergeTree) :
    (∀ k, (keys (mapOf k (t.eval ps))).Nodup)
    ∧ (∀ k id b, lookup (mapOf k (t.eval ps)) id b
        = (t.leaves.map fun i => lookup (mapOf k (ps.getD i {})) id b).sum)
    ∧ (t.eval ps).containedNonVerbose
        = t.leaves.any (fun i => (ps.getD i {}).containedNonVerbose) := by
  induction t with
  | part i =>
    refine ⟨?_, ?_, ?_⟩
    · intro k
      show (keys (mapOf k (ps.getD i {}))).Nodup
      rw [List.getD_eq_getElem?_getD]
      cases h : ps[i]? with
      | none => rw [Option.getD_none, mapOf_empty]; exact List.nodup_nil
      | some s => exact hps s (List.mem_of_getElem? h) k
    · intro k id b
      simp [MergeTree.eval, MergeTree.leaves]
    · simp [MergeTree.eval, MergeTree.leaves]
  | new =>
    refine ⟨?_, ?_, ?_⟩
    · intro k
      show (keys (mapOf k {})).Nodup
      rw [mapOf_empty]; exact List.nodup_nil
    · intro k id b
      show lookup (mapOf k {}) id b = _
      rw [mapOf_empty]; rfl
    · rfl
  | node a b iha ihb =>
    obtain ⟨ha1, ha2, ha3⟩ := iha
    obtain ⟨hb1, hb2, hb3⟩ := ihb
    refine ⟨?_, ?_, ?_⟩
    · intro k
      show (keys (mapOf k ((a.eval ps).merge (b.eval ps)))).Nodup
      rw [mapOf_merge]
      exact mergeLevels_keys_nodup _ _ (ha1 k)
    · intro k id bk
      show lookup (mapOf k ((a.eval ps).merge (b.eval ps))) id bk = _
      rw [mapOf_merge, mergeLevels_lookup _ _ (ha1 k) (hb1 k), ha2, hb2]
      simp only [MergeTree.leaves, List.map_append, List.sum_append]
    · show ((a.eval ps).containedNonVerbose || (b.eval ps).containedNonVerbose) = _
      rw [ha3, hb3]
      simp only [MergeTree.leaves, List.any_append]

/-- merging the statistics of the parts of a stream, in ANY order and grouping (any merge
    tree whose leaves are a permutation of the parts, with `StatisticInfo::new()` anywhere),
    gives the statistics of the whole: same counters for every keying, id and bucket, same
    non-verbose flag -/
theorem C10_merge_any_tree (parts : List (List Statistic)) (t : MergeTree)
    (hperm : t.leaves.Perm (List.range parts.length)) :
    (∀ (k : Keying) (id : Bytes) (b : Bucket),
      lookup (mapOf k (t.eval (parts.map collectInfo))) id b = tally k parts.flatten id b)
    ∧ (t.eval (parts.map collectInfo)).containedNonVerbose = anyNonVerbose parts.flatten := by
  have hps : ∀ s ∈ parts.map collectInfo, ∀ k, (keys (mapOf k s)).Nodup := by
    intro s hs k
    rw [List.mem_map] at hs
    obtain ⟨p, _, rfl⟩ := hs
    exact (C10_tally p k [] .nonLog).2
  obtain ⟨_, h2, h3⟩ := MergeTree.eval_spec (parts.map collectInfo) hps t
  have hlen : (parts.map collectInfo).length = parts.length := List.length_map _
  refine ⟨?_, ?_⟩
  · intro k id b
    rw [h2, tally_flatten]
    have hp := (hperm.map
      (fun i => lookup (mapOf k ((parts.map collectInfo).getD i {})) id b)).sum_nat
    rw [hp, ← hlen]
    have hmm : (List.range (parts.map collectInfo).length).map
          (fun i => lookup (mapOf k ((parts.map collectInfo).getD i {})) id b)
        = ((List.range (parts.map collectInfo).length).map
            (fun i => (parts.map collectInfo).getD i {})).map
            (fun s => lookup (mapOf k s) id b) := by
      rw [List.map_map]; rfl
    rw [hmm, map_getD_range, List.map_map]
    congr 1
    apply List.map_congr_left
    intro p _
    exact (C10_tally p k id b).1
  · rw [h3, anyNonVerbose_flatten, hperm.any_eq, ← hlen]
    have hmm : (List.range (parts.map collectInfo).length).any
          (fun i => ((parts.map collectInfo).getD i {}).containedNonVerbose)
        = ((List.range (parts.map collectInfo).length).map
            (fun i => (parts.map collectInfo).getD i {})).any
            (fun s => s.containedNonVerbose) := by
      rw [List.any_map]; rfl
    rw [hmm, map_getD_range, List.any_map]
    congr 1
    funext p
    exact C10_nonverbose p

-- non-vacuity: two parts, merged in reverse order below an empty statistics value
example : (MergeTree.node .new (.node (.part 1) (.part 0))).leaves.Perm (List.range 2) := by
  decide

/-- the scan visits every message of the stream exactly once, in order, with its decoded
    headers: for a stream that is the concatenation of well-formed messages (all with / all
    without storage header) the collector is handed exactly the Spec's reading of the headers of `m1, .., mk` -/
theorem C10_visit (w : Bool) (ms : List Message)
    (hms : ∀ x ∈ ms, x.wf = true ∧ x.storageHeader.isSome = w) :
    visit w (ms.map Message.asBytes).flatten = some (ms.map Spec.statisticOfMessage) := by
  rw [visit_eq]
  induction ms with
  | nil => rfl
  | cons x xs ih =>
    obtain ⟨hx, hxw⟩ := hms x (List.mem_cons_self ..)
    obtain ⟨hlen, hdecl⟩ := Message.wf_piece_of x w hx hxw
    rw [List.map_cons, List.flatten_cons, cut_append_piece w x.asBytes _ hlen hdecl]
    simp only [visitPieces, statisticOfSlice_asBytes x w hx hxw,
      ih (fun y hy => hms y (List.mem_cons_of_mem _ hy)), List.map_cons]

/-- for EVERY byte stream the scan is a function of the Spec's cut of the stream alone
    (no dependence on buffering): each complete piece is decoded once, a bad length or a
    truncated tail makes the scan fail -/
theorem C10_visit_cut (w : Bool) (bs : Bytes) : visit w bs = visitPieces w (Spec.cut w bs) :=
  visit_eq w bs

/-- end to end: the statistics collected from a stream of well-formed messages are the
    independent tally over the messages' headers -/
theorem C10_stream_tally (w : Bool) (ms : List Message)
    (hms : ∀ x ∈ ms, x.wf = true ∧ x.storageHeader.isSome = w) (k : Keying) (id : Bytes) (b : Bucket) :
    (visit w (ms.map Message.asBytes).flatten).map (fun sts => lookup (mapOf k (collectInfo sts)) id b)
      = some (tally k (ms.map Spec.statisticOfMessage) id b) := by
  rw [C10_visit w ms hms]
  simp only [Option.map_some]
  rw [(C10_tally (ms.map statOf) k id b).1]

end Dlt
