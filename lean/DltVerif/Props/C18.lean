/-
  C18 — fixed-point arguments convert to quantization x value + offset without panicking.

  Model: `Argument.toRealValue` (Model/Fixed.lean).  The double-precision product and the
  saturating `as u64` cast are the executable exact-arithmetic functions `F64.mul`,
  `F64.toU64` (tied to the crate by the correspondence run); the theorems are about what
  happens to the cast result `p = truncatedProduct v q`: the repaired code adds the
  sign-extended offset with wrap-around, which is the exact sum whenever that sum is a
  `u64` below 2^63 — and nothing in it can panic (no checked operation is left).

  The rounding of the model is proved to be round-to-nearest, ties-to-even onto a 53-bit
  significand (`C18_int_to_f64`, `C18_mul`), which is what IEEE-754 prescribes for binary64
  results; that the hardware's `f64` arithmetic implements IEEE-754 is trusted and compared
  bit-for-bit with the model on every case of every run.
-/
import DltVerif.Model.Fixed
import DltVerif.Lemmas.Round53
import DltVerif.Lemmas.FixedExact
import DltVerif.Lemmas.NearestDouble

namespace Dlt

theorem F64.toU64_lt (x : F64) : x.toU64 < 2 ^ 64 := by
  cases x with
  | nan => simp [F64.toU64]
  | inf neg => cases neg <;> simp [F64.toU64]
  | fin neg m e =>
    simp only [F64.toU64]
    repeat' split
    all_goals omega

/-- the cast truncates toward zero: for a finite non-negative double `m * 2^e` it yields
    `floor (m * 2^e)`, saturated at `u64::MAX` -/
theorem C18_trunc (m : Nat) (e : Int) :
    (F64.fin false m e).toU64 =
      min (if e ≥ 0 then m * 2 ^ e.toNat else m / 2 ^ (-e).toNat) (2 ^ 64 - 1) := by
  simp only [F64.toU64, Bool.false_eq_true, if_false, Nat.shiftLeft_eq, Nat.shiftRight_eq_div_pow]
  split <;> split <;> omega

theorem FixedPointValue.asU64_eq (o : FixedPointValue) :
    (o.asU64 : Int) = o.toInt % 2 ^ 64 := by
  cases o with
  | i32 v =>
    simp only [FixedPointValue.asU64, FixedPointValue.toInt, BitVec.signExtend, BitVec.toNat_ofInt]
    have : (0 : Int) ≤ v.toInt % 2 ^ 64 := Int.emod_nonneg _ (by decide)
    omega
  | i64 v =>
    simp only [FixedPointValue.asU64, FixedPointValue.toInt]
    have h := BitVec.toInt_eq_toNat_cond v
    have hv := v.isLt
    split at h <;> omega

/-- a real value is produced only for a fixed-point kind that carries fixed-point data
    and an 8..64-bit integer value -/
theorem C18_none_unless (a : Argument) (h : a.toRealValue ≠ none) :
    ((∃ w, a.typeInfo.kind = .signedFixedPoint w) ∨ (∃ w, a.typeInfo.kind = .unsignedFixedPoint w))
      ∧ a.fixedPoint.isSome ∧ a.value.asInt?.isSome := by
  unfold Argument.toRealValue at h
  split at h
  · rename_i w fp hk hf
    refine ⟨Or.inl ⟨w, hk⟩, by simp [hf], ?_⟩
    unfold Argument.logV at h
    rw [hf] at h
    cases hv : a.value.asInt? <;> simp_all
  · rename_i w fp hk hf
    refine ⟨Or.inr ⟨w, hk⟩, by simp [hf], ?_⟩
    unfold Argument.logV at h
    rw [hf] at h
    cases hv : a.value.asInt? <;> simp_all
  · exact absurd rfl h

/-- whenever the truncated product `p` plus the offset lies in `0 .. 2^63`, the result is
    exactly that sum -/
theorem C18_sum (a : Argument) (fp : FixedPoint) (v : Int)
    (hk : (∃ w, a.typeInfo.kind = .signedFixedPoint w) ∨ (∃ w, a.typeInfo.kind = .unsignedFixedPoint w))
    (hf : a.fixedPoint = some fp) (hv : a.value.asInt? = some v)
    (h0 : 0 ≤ (truncatedProduct v fp.quantization : Int) + fp.offset.toInt)
    (h1 : (truncatedProduct v fp.quantization : Int) + fp.offset.toInt < 2 ^ 63) :
    a.toRealValue = some ((truncatedProduct v fp.quantization : Int) + fp.offset.toInt).toNat := by
  have hp : truncatedProduct v fp.quantization < 2 ^ 64 := F64.toU64_lt _
  have ho := FixedPointValue.asU64_eq fp.offset
  have hlog : a.logV = some ((truncatedProduct v fp.quantization : Int) + fp.offset.toInt).toNat := by
    simp only [Argument.logV, hf, hv, Option.some.injEq]
    generalize truncatedProduct v fp.quantization = p at *
    generalize fp.offset.asU64 = ou at *
    generalize fp.offset.toInt = oi at *
    omega
  rcases hk with ⟨w, hk⟩ | ⟨w, hk⟩ <;> simp [Argument.toRealValue, hk, hf, hlog]

/-- the result always is a `u64` (the addition wraps, it cannot overflow) -/
theorem C18_result_u64 (a : Argument) (r : Nat) (h : a.toRealValue = some r) : r < 2 ^ 64 := by
  unfold Argument.toRealValue at h
  have key : ∀ r, a.logV = some r → r < 2 ^ 64 := by
    intro r hr
    unfold Argument.logV at hr
    split at hr
    · split at hr
      · simp only [Option.some.injEq] at hr
        omega
      · simp at hr
    · simp at hr
  split at h
  · exact key r h
  · exact key r h
  · simp at h

/-- a significand / exponent pair is the round-to-nearest-even of the number `m * 2^e` onto a
    53-bit significand: `q * 2^(e+k)` is a nearest multiple of `2^(e+k)`, an exact tie goes to
    the even significand, and `q` has at most 53 bits (exactly 53 when bits were dropped) -/
def IsRne53 (m : Nat) (e : Int) (q : Nat) (e' : Int) : Prop :=
  ∃ k : Nat, e' = e + (k : Int)
    ∧ 2 * m ≤ 2 * (q * 2 ^ k) + 2 ^ k ∧ 2 * (q * 2 ^ k) ≤ 2 * m + 2 ^ k
    ∧ ((2 * m = 2 * (q * 2 ^ k) + 2 ^ k ∨ 2 * (q * 2 ^ k) = 2 * m + 2 ^ k) → k ≠ 0 → q % 2 = 0)
    ∧ q ≤ 2 ^ 53 ∧ ((k = 0 ∧ q = m) ∨ 2 ^ 52 ≤ q)

/-- `v as f64` is the integer rounded to nearest, ties to even -/
theorem C18_int_to_f64 (v : Int) :
    ∃ q e', intToF64 v = .fin (decide (v < 0)) q e' ∧ IsRne53 v.natAbs 0 q e' := by
  obtain ⟨k, q, h, h1, h2, h3, h4, h5, _⟩ := round53_nearest_even v.natAbs 0
  refine ⟨q, 0 + (k : Int), ?_, k, rfl, h1, h2, h3, h4, h5⟩
  simp only [intToF64, h]

/-- the product of two finite doubles is the exact product rounded to nearest, ties to even -/
theorem C18_mul (n1 n2 : Bool) (m1 m2 : Nat) (e1 e2 : Int) :
    ∃ q e', F64.mul (.fin n1 m1 e1) (.fin n2 m2 e2) = .fin (n1 != n2) q e'
      ∧ IsRne53 (m1 * m2) (e1 + e2) q e' := by
  obtain ⟨k, q, h, h1, h2, h3, h4, h5, _⟩ := round53_nearest_even (m1 * m2) (e1 + e2)
  refine ⟨q, e1 + e2 + (k : Int), ?_, k, rfl, h1, h2, h3, h4, h5⟩
  simp only [F64.mul, h]

/-- an `f32` quantization converts to double exactly (24-bit significand) -/
theorem C18_f32_exact (bits : BitVec 32) (neg : Bool) (m : Nat) (e : Int)
    (h : f32ToF64 bits = .fin neg m e) : m < 2 ^ 24 := by
  unfold f32ToF64 at h
  simp only [] at h
  split at h
  · split at h <;> cases h
  · split at h
    · cases h
      exact Nat.lt_of_lt_of_le (Nat.mod_lt _ (by decide)) (by decide)
    · cases h
      have := Nat.mod_lt bits.toNat (by decide : 0 < 2 ^ 23)
      omega

theorem Spec.intOf_eq (v : Value) : Spec.intOf v = v.asInt? := by
  cases v <;> rfl

theorem Spec.offsetOf_eq (o : FixedPointValue) : Spec.offsetOf o = o.toInt := by
  cases o <;> rfl

theorem FixedPointValue.toInt_ge (o : FixedPointValue) : -(2 ^ 63 : Int) ≤ o.toInt := by
  cases o with
  | i32 v => have := BitVec.le_toInt v; simp only [FixedPointValue.toInt]; omega
  | i64 v => have := BitVec.le_toInt v; simp only [FixedPointValue.toInt]; omega

/-- THE PROPERTY AGAINST THE IEEE DEFINITION.  `Spec.realValue` (Spec/Fixed.lean) computes
    `value x quantization + offset` on values: `value as f64` and the double product are
    `Spec.nearestDouble` (the nearest representable number, ties to the even significand, as
    IEEE 754 defines the default rounding), the cast truncates, the offset is added in the
    integers.  It speaks whenever the product is not negative and the sum lies in `0 .. 2^63`
    — exactly the property's premise.  Wherever it speaks, the model of the conversion code —
    with its significand / exponent rounding, its saturating cast and its wrapping addition —
    yields exactly that number. -/
theorem C18_exact (a : Argument) (n : Nat) (h : Spec.realValue a = .exactly n) :
    a.toRealValue = some n := by
  unfold Spec.realValue at h
  split at h
  · rename_i fp hk hf
    rw [Spec.intOf_eq] at h
    split at h
    · split at h <;> cases h
    · rename_i v hv
      split at h
      · cases h
      · rename_i qneg m e hq
        simp only [] at h
        split at h
        · cases h
        · rename_i hs
          rw [Spec.offsetOf_eq] at h
          generalize hpd : (if e ≥ 0 then Spec.nearestDouble (Spec.nearestDouble v.natAbs * m) * 2 ^ e.toNat
                        else Spec.nearestDouble (Spec.nearestDouble v.natAbs * m) / 2 ^ (-e).toNat) = p at h
          split at h
          · rename_i hsum
            cases h
            subst hpd
            have hge := FixedPointValue.toInt_ge fp.offset
            have hp : (if e ≥ 0 then Spec.nearestDouble (Spec.nearestDouble v.natAbs * m) * 2 ^ e.toNat
                        else Spec.nearestDouble (Spec.nearestDouble v.natAbs * m) / 2 ^ (-e).toNat)
                      < 2 ^ 64 := by
              generalize (if e ≥ 0 then Spec.nearestDouble (Spec.nearestDouble v.natAbs * m) * 2 ^ e.toNat
                        else Spec.nearestDouble (Spec.nearestDouble v.natAbs * m) / 2 ^ (-e).toNat) = p at hsum
              omega
            have hs' : ¬ (Spec.nearestDouble (Spec.nearestDouble v.natAbs * m) ≠ 0
                ∧ ((decide (v < 0)) != qneg) = true) := by
              simpa using hs
            have htp := truncatedProduct_spec v fp.quantization qneg m e hq hs' hp
            have hkind : (∃ w, a.typeInfo.kind = .signedFixedPoint w) ∨
                (∃ w, a.typeInfo.kind = .unsignedFixedPoint w) := by
              cases hkk : a.typeInfo.kind <;> simp_all [Spec.isFixedPointKind]
            have := C18_sum a fp v hkind hf hv (by rw [htp]; exact hsum.1) (by rw [htp]; exact hsum.2)
            rw [this, htp]
          · cases h
  · cases h

/-- ... and wherever the exact-arithmetic reference says "nothing", the model yields nothing -/
theorem C18_exact_nothing (a : Argument) (h : Spec.realValue a = .nothing) :
    a.toRealValue = none := by
  apply Classical.byContradiction
  intro hne
  obtain ⟨hk, hf, hv⟩ := C18_none_unless a hne
  obtain ⟨fp, hf⟩ := Option.isSome_iff_exists.mp hf
  obtain ⟨v, hv⟩ := Option.isSome_iff_exists.mp hv
  have hkind : Spec.isFixedPointKind a.typeInfo.kind = true := by
    rcases hk with ⟨w, hk⟩ | ⟨w, hk⟩ <;> rw [hk] <;> rfl
  unfold Spec.realValue at h
  rw [hkind, hf] at h
  simp only [Spec.intOf_eq, hv] at h
  split at h
  · cases h
  · split at h
    · cases h
    · split at h <;> split at h <;> cases h

-- non-vacuity: degrees Celsius example of the source comment (7785 * 0.01 - 50 = 27),
-- and the input that used to panic (1000 * 1.0 - 200 = 800)
example : Argument.toRealValue
    { typeInfo := { kind := .signedFixedPoint .w32, coding := .ascii, hasVariableInfo := false,
                    hasTraceInfo := false },
      name := none, unit := none,
      fixedPoint := some { quantization := 0x3f800000#32, offset := .i32 (BitVec.ofInt 32 (-200)) },
      value := .i32 1000#32 } = some 800 := by decide

/-- the rounding definition of the Spec and the model's rounding denote the same number,
    for every integer -/
theorem C18_rounding (m : Nat) (e : Int) :
    ∃ k q : Nat, round53 m e = (q, e + (k : Int)) ∧ q * 2 ^ k = Spec.nearestDouble m :=
  round53_value m e

/-- rounding commutes with scaling by a power of two -/
theorem C18_rounding_scale (a j : Nat) :
    Spec.nearestDouble (a * 2 ^ j) = Spec.nearestDouble a * 2 ^ j :=
  nearestDouble_scale a j

-- non-vacuity of `C18_exact`: the reference speaks on the Celsius example
-- (7785 * 0.01f32 = 77.849..., truncated 77, minus 50), and on an input where both roundings
-- are inexact (2^64 - 1 rounds to 2^64; times 0.1f32, a 24-bit significand)
example : Spec.nearestDouble (2 ^ 64 - 1) = 2 ^ 64 := by decide +kernel
example : Spec.nearestDouble (2 ^ 53 + 1) = 2 ^ 53 := by decide +kernel
example : Spec.nearestDouble (2 ^ 53 + 3) = 2 ^ 53 + 4 := by decide +kernel
example : Spec.realValue
    { typeInfo := { kind := .signedFixedPoint .w32, coding := .ascii, hasVariableInfo := false,
                    hasTraceInfo := false },
      name := none, unit := none,
      fixedPoint := some { quantization := 0x3c23d70a#32, offset := .i32 (BitVec.ofInt 32 (-50)) },
      value := .i32 7785#32 } = .exactly 27 := by decide +kernel

end Dlt
