/-
  C14 — header-type, message-info and type-info codes decode and re-encode consistently.

  HTYP / MSIN: complete finite tables, decided by the kernel over all 256 values.
  Type info: statements for all 2^32 words, proved by case analysis on the decoded
  description (re-encoding) and bit-vector lemmas (canonical form of the decoder's output).
-/
import DltVerif.Model.Bits
import DltVerif.Model.Encode
import DltVerif.Lemmas.Bits
import DltVerif.Spec.Codes
import DltVerif.Lemmas.CodecTypeInfo
import DltVerif.Lemmas.TypeInfoBits
import DltVerif.Lemmas.CodecEncode

namespace Dlt

/-- the fields `dlt_standard_header` extracts from an HTYP byte -/
structure HtypFields where
  version : BitVec 8
  endian : Endian
  ext : Bool
  ecu : Bool
  sid : Bool
  tms : Bool
  deriving DecidableEq

/-- flag extraction as written in `dlt_standard_header` -/
def decodeHtyp (b : BitVec 8) : HtypFields :=
  { version := (b >>> 5) &&& 0b111#8
    endian := if b &&& BIG_ENDIAN_FLAG != 0#8 then .big else .little
    ext := b &&& WITH_EXTENDED_HEADER_FLAG != 0#8
    ecu := b &&& WITH_ECU_ID_FLAG != 0#8
    sid := b &&& WITH_SESSION_ID_FLAG != 0#8
    tms := b &&& WITH_TIMESTAMP_FLAG != 0#8 }

def encodeHtyp (f : HtypFields) : BitVec 8 :=
  standardHeaderType f.ext f.endian f.ecu f.sid f.tms f.version

/-- Spec: the DLT bit layout by weights,
    `HTYP = UEH + 2 MSBF + 4 WEID + 8 WSID + 16 WTMS + 32 VERS` -/
def Spec.htypFields (b : BitVec 8) : HtypFields :=
  let n := b.toNat
  { version := BitVec.ofNat 8 (n / 32)
    endian := if n / 2 % 2 = 1 then .big else .little
    ext := n % 2 = 1
    ecu := n / 4 % 2 = 1
    sid := n / 8 % 2 = 1
    tms := n / 16 % 2 = 1 }

/-- all 256 header-type bytes: decode/re-encode is the identity, the decoded fields are the
    ones the layout prescribes, and the header length is 4 + 4 per optional field + 10 -/
theorem C14_htyp : ∀ b : BitVec 8,
    encodeHtyp (decodeHtyp b) = b ∧ decodeHtyp b = Spec.htypFields b
    ∧ calculateAllHeadersLength b =
        4 + (if (Spec.htypFields b).ecu then 4 else 0) + (if (Spec.htypFields b).sid then 4 else 0)
          + (if (Spec.htypFields b).tms then 4 else 0) + (if (Spec.htypFields b).ext then 10 else 0) := by
  decide +kernel

/-- all 256 message-info bytes: decode/re-encode is the identity and the decoded message
    type and verbose flag are the ones the layout prescribes -/
theorem C14_msin : ∀ b : BitVec 8,
    (MessageType.ofMsin b).toU8 ||| (if b &&& VERBOSE_FLAG != 0#8 then 1#8 else 0#8) = b
    ∧ MessageType.ofMsin b = Spec.msinType b
    ∧ (b &&& VERBOSE_FLAG != 0#8) = (b.toNat % 2 == 1) := by
  decide +kernel

/-- what the decoder returns has a canonical string coding (reserved codings are 2..7) -/
theorem C14_ti_decode_canonical (w : BitVec 32) (d : TypeInfo) (h : TypeInfo.ofU32 w = some d) :
    d.coding.canonical = true := ti_decode_canonical w d h

/-- every description with a canonical coding re-decodes from its own encoding -/
theorem C14_ti_reencode (d : TypeInfo) (hc : d.coding.canonical = true) :
    TypeInfo.ofU32 d.toU32 = some d := ti_reencode d hc

/-- all 2^32 words: decoding refuses, or yields a description whose encoding decodes to
    the same description -/
theorem C14_ti_stable (w : BitVec 32) :
    match TypeInfo.ofU32 w with
    | none => True
    | some d => TypeInfo.ofU32 d.toU32 = some d := by
  split
  · trivial
  · rename_i d h
    exact C14_ti_reencode d (C14_ti_decode_canonical w d h)

/-- the encoding is the same in both byte orders up to byte reversal -/
theorem C14_ti_order (d : TypeInfo) : d.asBytes .big = (d.asBytes .little).reverse := by
  simp [TypeInfo.asBytes, Endian.bytes, bytesBE]

/-- all 2^32 words: a word is accepted exactly when it names one supported kind with a
    supported width (Spec/TypeInfo.lean, by weights) -/
theorem C14_ti_accept (w : BitVec 32) : (TypeInfo.ofU32 w).isSome = Spec.tiSupported w.toNat :=
  ofU32_isSome w

/-- all 2^32 words: the decoded description is the one the bit layout prescribes (kind and
    width from TYLE and the kind bits, VARI, TRAI, SCOD by weights) -/
theorem C14_ti_layout (w : BitVec 32) : TypeInfo.ofU32 w = Spec.tiDecode w.toNat :=
  ofU32_eq_tiDecode w

/-- all 2^32 words: the re-encoding of a decoded word differs from the word only in bits the
    format leaves unused for that kind. Field by field (`m` the re-encoding, `n` the word):
    the kind bits 4..10, VARI (11), TRAI (13) and SCOD (15..17) are reproduced; TYLE (0..3) is
    reproduced when the kind has a width and FIXP (12) when the kind is an integer; STRU (14),
    the reserved bits 18..31, TYLE of a kind without width and FIXP of a non-integer kind are
    zero in the re-encoding. -/
theorem C14_ti_unused (w : BitVec 32) (d : TypeInfo) (h : TypeInfo.ofU32 w = some d) :
    let m := d.toU32.toNat
    let n := w.toNat
    m / 16 % 128 = n / 16 % 128 ∧ m / 2048 % 2 = n / 2048 % 2 ∧ m / 8192 % 2 = n / 8192 % 2
    ∧ m / 32768 % 8 = n / 32768 % 8
    ∧ (d.kind.hasWidth = true → m % 16 = n % 16)
    ∧ (d.kind.isInteger = true → m / 4096 % 2 = n / 4096 % 2)
    ∧ m / 16384 % 2 = 0 ∧ m / 262144 = 0
    ∧ (d.kind.hasWidth = false → m % 16 = 0)
    ∧ (d.kind.isInteger = false → m / 4096 % 2 = 0) := by
  have hc := ti_decode_canonical w d h
  rw [ofU32_eq_tiDecode] at h
  rw [← tiWord_eq d hc]
  exact tiWord_of_decode w.toNat d h

-- non-vacuity: a word with unused bits set (reserved bits, STRU) decodes and re-encodes
example : TypeInfo.ofU32 0xFFFC4823#32 = some
    { kind := .signed .b32, coding := .ascii, hasVariableInfo := true, hasTraceInfo := false } := by
  decide
example : TypeInfo.toU32 ({ kind := .signed .b32, coding := .ascii, hasVariableInfo := true
                            hasTraceInfo := false } : TypeInfo) = 0x823#32 := by decide

end Dlt
