/-
  C13 — non-verbose argument construction decodes packed fields in order or refuses.

  Model: `constructArguments` (Model/NonVerbose.lean), the offset/slice based loop of
  `construct_arguments` with a `panic` outcome at every slice expression.
  Spec: `Spec.construct` (Spec/NonVerbose.lean), a consumer of the remaining payload.
-/
import DltVerif.Lemmas.NonVerbose
import DltVerif.Lemmas.CodecNum

namespace Dlt

/-- for all type lists, payloads and byte orders the model computes what the spec says;
    in particular it never takes the `panic` outcome (no slice goes out of bounds) -/
theorem C13_refines (e : Endian) (types : List TypeInfo) (data : Bytes) :
    (constructArguments e types data).toOption = some (Spec.construct e types data) := by
  have := constructFrom_refines e data types 0 (Nat.zero_le _)
  simpa [constructArguments] using this

theorem C13_nopanic (e : Endian) (types : List TypeInfo) (data : Bytes) :
    constructArguments e types data ≠ .panic := by
  intro h
  have := C13_refines e types data
  rw [h] at this
  simp [CRes.toOption] at this

/-- one argument per type, in order, each carrying its type and no name/unit/fixed point -/
theorem C13_shape (e : Endian) (types : List TypeInfo) (data : Bytes) (args : List Argument)
    (h : Spec.construct e types data = some args) :
    args.map (·.typeInfo) = types
    ∧ ∀ a ∈ args, a.name = none ∧ a.unit = none ∧ a.fixedPoint = none := by
  induction types generalizing data args with
  | nil => simp [Spec.construct] at h; subst h; simp
  | cons ti tis ih =>
    simp only [Spec.construct] at h
    split at h
    · simp at h
    · rename_i v rest' hf
      split at h
      · simp at h
      · rename_i as has
        simp only [Option.some.injEq] at h
        subst h
        obtain ⟨h1, h2⟩ := ih rest' as has
        refine ⟨by simp [h1], ?_⟩
        intro a ha
        simp only [List.mem_cons] at ha
        rcases ha with rfl | ha
        · simp
        · exact h2 a ha

/-- trailing bytes are ignored: appending bytes to a sufficient payload changes nothing -/
theorem C13_trailing (e : Endian) (types : List TypeInfo) (data extra : Bytes)
    (args : List Argument) (h : Spec.construct e types data = some args) :
    Spec.construct e types (data ++ extra) = some args := by
  induction types generalizing data args with
  | nil => simpa [Spec.construct] using h
  | cons ti tis ih =>
    simp only [Spec.construct] at h ⊢
    split at h
    · cases h
    · rename_i v rest' hf
      rw [Spec.field_append e ti.kind data extra v rest' hf]
      simp only
      split at h
      · cases h
      · rename_i as has
        rw [ih rest' as has]
        exact h

-- non-vacuity: u16 big-endian, then a string of length 2, one trailing byte
example : Spec.construct .big
    [{ kind := .unsigned .b16, coding := .ascii, hasVariableInfo := false, hasTraceInfo := false }]
    [0x01#8, 0x02#8, 0xFF#8]
    = some [{ typeInfo := { kind := .unsigned .b16, coding := .ascii, hasVariableInfo := false,
                            hasTraceInfo := false },
              name := none, unit := none, fixedPoint := none, value := .u16 0x0102#16 }] := by
  decide

/-- "in a stated byte order": the number the Spec reads from a field (`Endian.value`, shared
    with the model's vocabulary) is the positional value of its bytes - most significant byte
    first for big endian, last for little endian (`Spec.num` of Spec/Codec.lean, a digit sum) -/
theorem C13_numbers (e : Endian) (bs : Bytes) : e.value bs = Spec.num e bs := (num_eq e bs).symm

end Dlt
