/-
  C16 — re-serialising any parsed message is stable: it parses back to the same message.
-/
import DltVerif.Lemmas.ParserImage

namespace Dlt

/-- For EVERY byte string from which the parser returns a message: if the re-serialisation
    of that message has the length its own header declares, then parsing the re-serialisation
    returns the identical message with nothing left over — hence serialising again reproduces
    the same bytes. -/
theorem C16_stable (bs : Bytes) (w : Bool) (m : Message) (r : Bytes)
    (h : dltMessage bs none w = .ok (.item m, r))
    (hlen : m.asBytes.length = (if w then 16 else 0) + m.header.overallLength) :
    dltMessage m.asBytes none w = .ok (.item m, []) := by
  obtain ⟨hwf, hs⟩ := parsed_wf_of_length bs none w m r (toResult_ok_inv h) hlen
  have hrt := dltMessageIntern_asBytes m hwf []
  rw [List.append_nil, hs] at hrt
  unfold dltMessage
  rw [hrt]
  rfl

/-- the parser never returns a message value the writer cannot represent: the returned
    message is well-formed whenever the lengths agree -/
theorem C16_image_wf (bs : Bytes) (w : Bool) (m : Message) (r : Bytes)
    (h : dltMessage bs none w = .ok (.item m, r))
    (hlen : m.asBytes.length = (if w then 16 else 0) + m.header.overallLength) :
    m.wf = true :=
  (parsed_wf_of_length bs none w m r (toResult_ok_inv h) hlen).1

end Dlt
