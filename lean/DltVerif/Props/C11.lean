/-
  C11 — the FIBEX model returned is exactly the model written in the files.

  Model: Model/Fibex.lean (L1 `Reader::read_event` over quick-xml's event stream, L2
  `read_pdu` / `read_frame` / `read_fibexes` / `type_info_for_signal_ref` /
  `extract_metadata`).  Spec: Spec/Fibex.lean (`Spec.model`: sort instances by sequence
  number, resolve signal -> coding -> base type, first definition of a duplicated frame or
  PDU id wins, unknown signal references are skipped, an unknown PDU reference fails;
  `render`: the layout of a document as XML events).
-/
import DltVerif.Lemmas.FibexRead
import DltVerif.Lemmas.FibexOrder
import DltVerif.Lemmas.FibexKeyed
import DltVerif.Lemmas.FibexVocab
import DltVerif.Lemmas.FibexStrip
import DltVerif.Lemmas.FibexAttrs

namespace Dlt
open Dlt.Fibex Dlt.Fibex.Spec

/-- Loading the rendering of any set of well-formed documents returns exactly the model the
    Spec reads off the documents (through both layers: XML events -> FIBEX events ->
    metadata), or fails exactly when the Spec says loading must fail. -/
theorem C11_load (files : List FileDoc) (hne : files ≠ [])
    (hw : ∀ d ∈ files, d.all Elem.wf = true) :
    gatherFibexData (files.map fun d => some (render d)) = .ok (Spec.model files) := by
  unfold gatherFibexData
  have hemp : (files.map fun d => some (render d)).isEmpty = false := by
    cases files with
    | nil => exact absurd rfl hne
    | cons _ _ => rfl
  rw [hemp]
  simp only [Bool.false_eq_true, if_false]
  unfold readFibexes
  rw [readFiles_render files hw, accAdd_empty]
  simp only []
  rw [build_accOf]
  cases Spec.model files <;> rfl

/-- the same for files that are not laid out compactly: in front of every element and before
    the end of each file there may be any number of events a loader passes over - white space
    and other text, comments, processing instructions, CDATA, unknown elements (pretty-printed
    files, vendor extensions).  The model returned is that of the elements alone. -/
theorem C11_load_gapped (files : List (List (List XmlEv × Elem) × List XmlEv)) (hne : files ≠ [])
    (hw : ∀ f ∈ files, f.1.all (fun x => x.1.all isGap && x.2.wf) = true ∧ f.2.all isGap = true) :
    gatherFibexData (files.map fun f => some (renderGapped f.1 f.2))
      = .ok (Spec.model (files.map fun f => f.1.map (·.2))) := by
  unfold gatherFibexData
  have hemp : (files.map fun f => some (renderGapped f.1 f.2)).isEmpty = false := by
    cases files with
    | nil => exact absurd rfl hne
    | cons _ _ => rfl
  rw [hemp]
  simp only [Bool.false_eq_true, if_false]
  unfold readFibexes
  rw [readFiles_renderGapped files hw, accAdd_empty]
  simp only []
  rw [build_accOf]
  cases Spec.model (files.map fun f => f.1.map (·.2)) <;> rfl

/-- loading cannot see a transformation that `read_event` cannot see -/
theorem gatherFibexData_invisible {T : List XmlEv → List XmlEv} (hT : Invisible T)
    (files : List (List XmlEv)) :
    gatherFibexData ((files.map T).map some) = gatherFibexData (files.map some) := by
  unfold gatherFibexData
  have e : ((files.map T).map some).isEmpty = (files.map some).isEmpty := by
    cases files <;> rfl
  rw [e]
  split
  · rfl
  · unfold readFibexes
    rw [List.map_map]
    have := readFiles_invisible hT files {}
    simp only [Function.comp_def]
    rw [this]

theorem seen_invisible : Invisible seen :=
  Invisible.comp significant_invisible plainAttrs_invisible

/-- ANY layout: every set of files of which a loader sees what it sees of the rendering of
    well-formed documents - pretty-printed, commented, with vendor elements and foreign
    attributes anywhere - loads to the model of those documents. -/
theorem C11_load_any_layout (files : List (List XmlEv)) (docs : List FileDoc) (hne : docs ≠ [])
    (hw : ∀ d ∈ docs, d.all Elem.wf = true)
    (hs : files.map seen = (docs.map render).map seen) :
    gatherFibexData (files.map some) = .ok (Spec.model docs) := by
  rw [← gatherFibexData_invisible seen_invisible files, hs,
    gatherFibexData_invisible seen_invisible, List.map_map]
  exact C11_load docs hne hw

-- non-vacuity: a pretty-printed file with a comment, a vendor element between the children of a
-- SIGNAL and an `OID` attribute in front of its `ID` shows the loader what the compact rendering
-- shows it
example : seen
    [.other, .start .other [], .text (some [0x0A#8]), .start .other [], .text (some [0x0A#8]),
     .start .SIGNAL (.ok [0x4F#8, 0x49#8, 0x44#8] (some [0x6F#8]) :: idAttr [0x53#8]),
     .text (some [0x0A#8, 0x20#8]), .other,
     .start .SHORT_NAME [], .text (some [0x53#8]), .end_ .SHORT_NAME, .text (some [0x0A#8]),
     .empty .other [], .empty .CODING_REF (idRefAttr [0x43#8]), .text (some [0x0A#8]),
     .end_ .SIGNAL, .text (some [0x0A#8]), .end_ .other, .end_ .other]
    = seen (render [Elem.signal [0x53#8] [0x43#8]]) := by decide

-- non-vacuity: a comment, white space and an unknown empty element in front of a SIGNAL, white
-- space before the end
example : ([([.other, .text (some [0x0A#8, 0x20#8]), .empty .other []], Elem.signal [0x53#8] [0x43#8])]
    : List (List XmlEv × Elem)).all (fun x => x.1.all isGap && x.2.wf) = true
    ∧ ([XmlEv.text (some [0x0A#8])]).all isGap = true := by decide

/-- distribution over several files does not matter: only the concatenation of the
    documents' elements does -/
theorem C11_partition (files files' : List FileDoc) (hne : files ≠ []) (hne' : files' ≠ [])
    (hw : ∀ d ∈ files, d.all Elem.wf = true) (hw' : ∀ d ∈ files', d.all Elem.wf = true)
    (h : files.flatten = files'.flatten) :
    gatherFibexData (files.map fun d => some (render d))
      = gatherFibexData (files'.map fun d => some (render d)) := by
  rw [C11_load files hne hw, C11_load files' hne' hw']
  unfold Spec.model
  rw [h]

/-- instances are ordered by sequence number: the result of `sortByKey` is a permutation of
    its input, ascending in the key -/
theorem insertByKey_perm {α : Type} (x : Nat × α) (l : List (Nat × α)) :
    (insertByKey x l).Perm (x :: l) := by
  induction l with
  | nil => exact List.Perm.refl _
  | cons y ys ih =>
    unfold insertByKey
    split
    · exact List.Perm.refl _
    · exact (List.Perm.cons y ih).trans (List.Perm.swap x y ys)

theorem sortByKey_perm {α : Type} (l : List (Nat × α)) : (sortByKey l).Perm l := by
  induction l with
  | nil => exact List.Perm.refl _
  | cons x xs ih =>
    unfold sortByKey
    exact (insertByKey_perm x _).trans (List.Perm.cons x ih)

theorem insertByKey_sorted {α : Type} (x : Nat × α) (l : List (Nat × α))
    (h : l.Pairwise (fun a b => a.1 ≤ b.1)) : (insertByKey x l).Pairwise (fun a b => a.1 ≤ b.1) := by
  induction l with
  | nil => simp [insertByKey]
  | cons y ys ih =>
    unfold insertByKey
    rw [List.pairwise_cons] at h
    split
    · rename_i hle
      rw [List.pairwise_cons]
      refine ⟨?_, List.pairwise_cons.mpr h⟩
      intro b hb
      rcases List.mem_cons.mp hb with rfl | hb
      · exact hle
      · exact Nat.le_trans hle (h.1 b hb)
    · rename_i hgt
      rw [List.pairwise_cons]
      refine ⟨?_, ih h.2⟩
      intro b hb
      have := (insertByKey_perm x ys).mem_iff.mp hb
      rcases List.mem_cons.mp this with rfl | hb'
      · omega
      · exact h.1 b hb'

theorem C11_sorted {α : Type} (l : List (Nat × α)) :
    (sortByKey l).Perm l ∧ (sortByKey l).Pairwise (fun a b => a.1 ≤ b.1) := by
  refine ⟨sortByKey_perm l, ?_⟩
  induction l with
  | nil => simp [sortByKey]
  | cons x xs ih =>
    unfold sortByKey
    exact insertByKey_sorted x _ ih

/-- the first definition of a duplicated frame id wins -/
theorem lookup_firstPerKey (l acc : List (Bytes × FrameMetadata)) (k : Bytes) :
    lookupKV (firstPerKey l acc) k = (lookupKV acc k).or (lookupKV l k) := by
  induction l generalizing acc with
  | nil => simp [firstPerKey, lookupKV_nil']
  | cons e l ih =>
    obtain ⟨k0, v⟩ := e
    rw [firstPerKey_cons]
    split
    · rename_i hany
      rw [ih, lookupKV_cons]
      rw [any_key_iff] at hany
      by_cases hk : k0 = k
      · subst hk
        obtain ⟨x, hx⟩ := Option.isSome_iff_exists.mp hany
        simp [hx]
      · simp [hk]
    · rename_i hany
      rw [ih, lookupKV_append, lookupKV_cons, lookupKV_cons]
      by_cases hk : k0 = k
      · subst hk; cases lookupKV acc k0 <;> simp
      · simp [hk, lookupKV_nil']

/-- looking a frame up by its id alone returns the FIRST frame with that id in document
    order, with its PDUs resolved -/
theorem C11_first_wins (files : List FileDoc) (md : FibexMetadata) (h : Spec.model files = some md)
    (id : Bytes) :
    lookupKV md.frameMap id
      = ((framesOf files.flatten).find? (·.id == id)).bind (frameMeta files.flatten) := by
  unfold Spec.model at h
  simp only at h
  split at h
  · rename_i hall
    cases h
    simp only
    rw [lookup_firstPerKey, lookupKV_nil', Option.none_or]
    generalize framesOf files.flatten = frames at hall ⊢
    induction frames with
    | nil => rfl
    | cons f frames ih =>
      simp only [List.all_cons, Bool.and_eq_true] at hall
      obtain ⟨m, hm⟩ := Option.isSome_iff_exists.mp hall.1
      rw [List.filterMap_cons]
      simp only [hm, Option.map_some]
      rw [lookupKV_cons, List.find?_cons]
      by_cases hk : f.id = id
      · simp [hk, hm]
      · have hb : (f.id == id) = false := by simpa using hk
        simp only [hk, if_false, hb]
        exact ih hall.2
  · cases h

/-- loading fails for a permutation of the elements exactly when it fails for the original -/
theorem C11_order_fails (es es' : List Elem) (hp : es.Perm es') (hd : DistinctIds es) :
    (Spec.model [es]).isSome = (Spec.model [es']).isSome := by
  have hfm : frameMeta es = frameMeta es' := funext (frameMeta_perm hp hd)
  have hall : (framesOf es).all (fun f => (frameMeta es f).isSome)
      = (framesOf es').all (fun f => (frameMeta es' f).isSome) := by
    rw [hfm]
    exact (hp.filterMap _).all_eq
  unfold Spec.model
  simp only [List.flatten_cons, List.flatten_nil, List.append_nil]
  rw [hall]
  split <;> rfl

/-- the order of the elements inside the documents does not matter: with pairwise distinct
    ids of each kind, every frame looked up by its id is the same frame (short name, PDUs in
    sequence order with their resolved signal types, extension) for every permutation of the
    elements -/
theorem C11_order_independent (es es' : List Elem) (hp : es.Perm es') (hd : DistinctIds es)
    (md md' : FibexMetadata) (h : Spec.model [es] = some md) (h' : Spec.model [es'] = some md')
    (id : Bytes) : lookupKV md.frameMap id = lookupKV md'.frameMap id := by
  have e1 := C11_first_wins [es] md h id
  have e2 := C11_first_wins [es'] md' h' id
  simp only [List.flatten_cons, List.flatten_nil, List.append_nil] at e1 e2
  rw [e1, e2]
  have hfm : frameMeta es = frameMeta es' := funext (frameMeta_perm hp hd)
  rw [hfm]
  have : (framesOf es).find? (fun f => f.id == id) = (framesOf es').find? (fun f => f.id == id) :=
    find?_perm (fun (f : FrameDoc) => f.id) id (hp.filterMap _) hd.2.1
  rw [this]

/-- looking a frame up by (context id, application id, frame id) returns the FIRST frame in
    document order that carries exactly these three ids (frames without a manufacturer
    extension, or with only one of the two ids, are not in this map) -/
theorem C11_first_wins_keyed (files : List FileDoc) (md : FibexMetadata)
    (h : Spec.model files = some md) (key : FrameKey) :
    lookupK md.frameMapWithKey key
      = ((framesOf files.flatten).find? (hasKey key)).bind (frameMeta files.flatten) := by
  unfold Spec.model at h
  simp only at h
  split at h
  · rename_i hall
    cases h
    simp only
    rw [lookupK_firstPerKey]
    refine Eq.trans ?_ (lookupK_keyed _ _ hall key)
    rw [show lookupK ([] : List (FrameKey × FrameMetadata)) key = none from rfl, Option.none_or]
    congr 2
  · cases h

/-- ... and the keyed lookup does not depend on the order of the elements either -/
theorem C11_order_independent_keyed (es es' : List Elem) (hp : es.Perm es') (hd : DistinctIds es)
    (md md' : FibexMetadata) (h : Spec.model [es] = some md) (h' : Spec.model [es'] = some md')
    (key : FrameKey) : lookupK md.frameMapWithKey key = lookupK md'.frameMapWithKey key := by
  have e1 := C11_first_wins_keyed [es] md h key
  have e2 := C11_first_wins_keyed [es'] md' h' key
  simp only [List.flatten_cons, List.flatten_nil, List.append_nil] at e1 e2
  rw [e1, e2]
  have hfm : frameMeta es = frameMeta es' := funext (frameMeta_perm hp hd)
  rw [hfm]
  have hperm := hp.filterMap (fun | Elem.frame f => some f | _ => none)
  have hn' : ((framesOf es').map (·.id)).Nodup := (hperm.map (·.id)).nodup_iff.mp hd.2.1
  rw [find?_hasKey key _ hd.2.1, find?_hasKey key _ hn']
  have : (framesOf es).find? (fun f => f.id == key.frameId)
      = (framesOf es').find? (fun f => f.id == key.frameId) :=
    find?_perm (fun (f : FrameDoc) => f.id) key.frameId (hp.filterMap _) hd.2.1
  rw [this]

/-- the type vocabulary: `Spec.typeOf` (phrased with the model's comparison chain) is the table
    written out in Spec/Fibex.lean - the 16 standard signal names (`S_FLOA16` known, without a
    supported type) decide; every other reference goes signal -> coding -> base data type
    through the definitions in force and the 16 base data types -/
theorem C11_vocabulary (es : List Elem) (ref : Bytes) : typeOf es ref = typeOfRef es ref :=
  typeOf_eq_typeOfRef es ref

/-- a reference to an unknown PDU makes loading fail -/
theorem C11_unknown_pdu_fails (files : List FileDoc) (f : FrameDoc) (i : Inst)
    (hf : Elem.frame f ∈ files.flatten) (hi : i ∈ f.pdus)
    (hunk : ∀ p, Elem.pdu p ∈ files.flatten → p.id ≠ i.ref) :
    Spec.model files = none := by
  unfold Spec.model
  simp only
  rw [if_neg]
  intro hall
  rw [List.all_eq_true] at hall
  have hfm : f ∈ framesOf files.flatten := by
    unfold framesOf
    rw [List.mem_filterMap]
    exact ⟨_, hf, rfl⟩
  have := hall f hfm
  unfold frameMeta at this
  simp only at this
  split at this
  · rename_i hres
    rw [List.all_eq_true] at hres
    have hmem : i.ref ∈ ordered f.pdus := by
      unfold ordered
      rw [List.mem_map]
      refine ⟨(i.seq, i.ref), ?_, rfl⟩
      rw [(sortByKey_perm _).mem_iff, List.mem_map]
      exact ⟨i, hi, rfl⟩
    have hsome := hres _ hmem
    unfold firstPdu at hsome
    rw [List.find?_isSome] at hsome
    obtain ⟨p, hp, hpid⟩ := hsome
    unfold pdusOf at hp
    rw [List.mem_filterMap] at hp
    obtain ⟨e, he, hep⟩ := hp
    cases e with
    | pdu q =>
      simp only [Option.some.injEq] at hep
      subst hep
      exact hunk q he (by simpa using hpid)
    | _ => simp at hep
  · cases this

/-- unknown signal references are skipped: the signal types of a PDU are exactly the known
    ones among its ordered references -/
theorem C11_unknown_signal_skipped (es : List Elem) (p : PduDoc) :
    (pduMeta es p).signalTypes = (ordered p.signals).filterMap (typeOf es) := rfl

/-- metadata lookup: by the extended header's ids when supplied, by the frame id otherwise -/
theorem C11_lookup (md : FibexMetadata) (id : Nat) :
    (∀ app ctx, extractMetadata md id (some (app, ctx))
        = (md.frameMapWithKey.find?
            (·.1 == { contextId := ctx, appId := app,
                      frameId := [0x49#8, 0x44#8, 0x5F#8] ++ decimalBytes id })).map (·.2))
    ∧ extractMetadata md id none = lookupKV md.frameMap ([0x49#8, 0x44#8, 0x5F#8] ++ decimalBytes id) :=
  ⟨fun _ _ => rfl, rfl⟩

/-- non-vacuity: a document with a PDU (two signal instances in descending sequence order,
    one of them unknown), a signal, a coding and a frame with extension is well-formed -/
example : ([ .pdu { id := [0x50#8], shortName := some [0x6E#8], desc := none, byteLength := 3,
                    signals := [⟨[1#8], 2, N_S_BOOL, false⟩, ⟨[2#8], 1, [0x3F#8], true⟩] },
             .signal [0x53#8] [0x43#8], .coding [0x43#8] N_A_UINT8,
             .frame { id := [0x46#8], shortName := [0x66#8], byteLength := 3,
                      pdus := [⟨[3#8], 0, [0x50#8], true⟩],
                      ext := some ⟨none, some [0x31#8], some [0x41#8], some [0x43#8]⟩ } ] : FileDoc).all
    Elem.wf = true := by decide

end Dlt
