/-
  nom 7.1.3 streaming primitives, as used by src/parse.rs, modelled from nom's
  source: every primitive returns `Incomplete(Needed)` instead of indexing past
  the end; `Needed::new 0 = Unknown`.

  `PRes α` is `IResult<&[u8], α, DltParseError>` with the error text dropped and
  one extra outcome, `panic`, produced by every operation that can panic in Rust
  (checked subtraction, slicing) so that "never panics" is a statement about the
  model.
-/
import DltVerif.Model.Bytes
import DltVerif.Model.Utf8

namespace Dlt

inductive PRes (α : Type) where
  | ok (v : α) (rest : Bytes)
  /-- `nom::Err::Incomplete(Needed::Size n)` (`some n`, n ≥ 1) or `Needed::Unknown` (`none`) -/
  | incomplete (needed : Option Nat)
  /-- `nom::Err::Error(_)` -/
  | error
  /-- `nom::Err::Failure(_)` -/
  | failure
  | panic
  deriving Repr, DecidableEq

namespace PRes

/-- sequential composition: what `?` and `tuple` do -/
@[inline] def andThen {α β : Type} (r : PRes α) (f : α → Bytes → PRes β) : PRes β :=
  match r with
  | ok v rest => f v rest
  | incomplete n => incomplete n
  | error => error
  | failure => failure
  | panic => panic

@[inline] def map {α β : Type} (f : α → β) (r : PRes α) : PRes β :=
  match r with
  | ok v rest => ok (f v) rest
  | incomplete n => incomplete n
  | error => error
  | failure => failure
  | panic => panic

@[simp] theorem andThen_ok {α β : Type} (v : α) (r : Bytes) (f : α → Bytes → PRes β) :
    (ok v r).andThen f = f v r := rfl
@[simp] theorem andThen_incomplete {α β : Type} (n) (f : α → Bytes → PRes β) :
    (incomplete n : PRes α).andThen f = incomplete n := rfl
@[simp] theorem andThen_error {α β : Type} (f : α → Bytes → PRes β) :
    (error : PRes α).andThen f = error := rfl
@[simp] theorem andThen_failure {α β : Type} (f : α → Bytes → PRes β) :
    (failure : PRes α).andThen f = failure := rfl
@[simp] theorem andThen_panic {α β : Type} (f : α → Bytes → PRes β) :
    (panic : PRes α).andThen f = panic := rfl
@[simp] theorem map_ok {α β : Type} (f : α → β) (v : α) (r : Bytes) :
    (ok v r).map f = ok (f v) r := rfl
@[simp] theorem map_incomplete {α β : Type} (f : α → β) (n) :
    (incomplete n : PRes α).map f = incomplete n := rfl
@[simp] theorem map_error {α β : Type} (f : α → β) : (error : PRes α).map f = error := rfl
@[simp] theorem map_failure {α β : Type} (f : α → β) : (failure : PRes α).map f = failure := rfl
@[simp] theorem map_panic {α β : Type} (f : α → β) : (panic : PRes α).map f = panic := rfl

end PRes

/-- `Needed::new n` -/
@[inline] def needed (n : Nat) : Option Nat := if n = 0 then none else some n

/-- `nom::bytes::streaming::take(n)` -/
def take (n : Nat) (i : Bytes) : PRes Bytes :=
  if i.length < n then .incomplete (needed (n - i.length))
  else .ok (i.take n) (i.drop n)

/-- `nom::bytes::streaming::tag(t)`: compare the common prefix first, then the length -/
def tag (t : Bytes) (i : Bytes) : PRes Bytes :=
  if i.take t.length != t.take i.length then .error
  else if i.length < t.length then .incomplete (needed (t.length - i.length))
  else .ok (i.take t.length) (i.drop t.length)

/-- `nom::number::streaming::{le,be}_uN` for N = 8*k, as a natural number -/
def uintN (e : Endian) (k : Nat) (i : Bytes) : PRes Nat :=
  if i.length < k then .incomplete (needed (k - i.length))
  else .ok (e.value (i.take k)) (i.drop k)

/-- typed: the `N`-bit pattern read (signed and float readers return the same bits) -/
def bitsN (e : Endian) (k : Nat) (i : Bytes) : PRes (BitVec (8 * k)) :=
  (uintN e k i).map (BitVec.ofNat (8 * k))

/-- `nom::number::streaming::be_u8` -/
def beU8 (i : Bytes) : PRes (BitVec 8) :=
  match i with
  | [] => .incomplete (needed 1)
  | b :: r => .ok b r

/-- `nom::number::complete::be_u8` -/
def beU8Complete (i : Bytes) : PRes (BitVec 8) :=
  match i with
  | [] => .error
  | b :: r => .ok b r

@[inline] def isNul (b : BitVec 8) : Bool := b == 0#8

/-- `take_while_m_n(0, n, is_not_null)` streaming: `position` scans the whole input -/
def takeWhileNotNul (n : Nat) (i : Bytes) : PRes Bytes :=
  match firstIdx isNul i with
  | some idx =>
    let k := if idx ≤ n then idx else n
    .ok (i.take k) (i.drop k)
  | none =>
    if i.length ≥ n then .ok (i.take n) (i.drop n)
    else .incomplete (needed 1)

/-- `dlt_zero_terminated_string_intern(s, size)`; `size - content.len()` is a checked
    subtraction in Rust -/
def zts (size : Nat) (s : Bytes) : PRes Bytes :=
  (takeWhileNotNul size s).andThen fun content restWithNull =>
    if size < content.length then .panic
    else
      let missing := size - content.length
      (take missing restWithNull).andThen fun _ rest =>
        .ok (Utf8.validPrefix content) rest

/-- `nom::multi::count(f, n)`: `Error` stays `Error` (append keeps the inner error),
    `Incomplete` and `Failure` pass through -/
def count {α : Type} (f : Bytes → PRes α) : Nat → Bytes → PRes (List α)
  | 0, i => .ok [] i
  | n + 1, i =>
    (f i).andThen fun v r =>
      (count f n r).map (v :: ·)

end Dlt
