/-
  `DltTimeStamp::from_ms` / `from_us` (src/dlt.rs) with `u64` inputs, truncating
  `as u32` casts and *checked* `u32` multiplication (`none` = overflow panic).
-/
import DltVerif.Model.Types

namespace Dlt

/-- `a * b` on `u32` in an overflow-checked build -/
def checkedMulU32 (a b : Nat) : Option Nat :=
  if a * b < 2 ^ 32 then some (a * b) else none

/-- `x as u32` -/
@[inline] def asU32 (n : Nat) : Nat := n % 2 ^ 32

/-- `DltTimeStamp::from_ms(ms)`: `(seconds, microseconds)` or `none` on panic -/
def fromMs (ms : Nat) : Option (Nat × Nat) :=
  match checkedMulU32 (asU32 (ms % 1000)) 1000 with
  | some us => some (asU32 (ms / 1000), us)
  | none => none

/-- `DltTimeStamp::from_us(us)` (repaired: the remainder is not scaled) -/
def fromUs (us : Nat) : Option (Nat × Nat) :=
  some (asU32 (us / (1000 * 1000)), asU32 (us % (1000 * 1000)))

end Dlt
