/-
  Bit-field codes: HTYP (`standard_header_type`, flag extraction in
  `dlt_standard_header`), MSIN (`From<&MessageType> for u8`,
  `TryFrom<u8> for MessageType`), type-info (`TypeInfo::as_bytes`,
  `TryFrom<u32> for TypeInfo`) — mirrored from src/dlt.rs with the same
  bit operations (shifts on `u8` drop the bits shifted out, as in Rust).
-/
import DltVerif.Model.Types

namespace Dlt

/-- `standard_header_type` -/
def standardHeaderType (hasExt : Bool) (e : Endian) (withEcu withSession withTs : Bool)
    (version : BitVec 8) : BitVec 8 :=
  let h := 0#8
  let h := if hasExt then h ||| WITH_EXTENDED_HEADER_FLAG else h
  let h := if e == .big then h ||| BIG_ENDIAN_FLAG else h
  let h := if withEcu then h ||| WITH_ECU_ID_FLAG else h
  let h := if withSession then h ||| WITH_SESSION_ID_FLAG else h
  let h := if withTs then h ||| WITH_TIMESTAMP_FLAG else h
  h ||| ((version &&& 0b111#8) <<< 5)

/-- `StandardHeader::header_type_byte` -/
def StandardHeader.headerTypeByte (h : StandardHeader) : BitVec 8 :=
  standardHeaderType h.hasExtendedHeader h.endianness h.ecuId.isSome h.sessionId.isSome
    h.timestamp.isSome h.version

/-- `calculate_standard_header_length` -/
def calculateStandardHeaderLength (htyp : BitVec 8) : Nat :=
  HEADER_MIN_LENGTH
    + (if htyp &&& WITH_ECU_ID_FLAG != 0#8 then 4 else 0)
    + (if htyp &&& WITH_SESSION_ID_FLAG != 0#8 then 4 else 0)
    + (if htyp &&& WITH_TIMESTAMP_FLAG != 0#8 then 4 else 0)

/-- `calculate_all_headers_length` -/
def calculateAllHeadersLength (htyp : BitVec 8) : Nat :=
  calculateStandardHeaderLength htyp
    + (if htyp &&& WITH_EXTENDED_HEADER_FLAG != 0#8 then EXTENDED_HEADER_LENGTH else 0)

/-- `From<&LogLevel> for u8` -/
def LogLevel.toU8 : LogLevel → BitVec 8
  | .fatal => 0x1#8 <<< 4
  | .error => 0x2#8 <<< 4
  | .warn => 0x3#8 <<< 4
  | .info => 0x4#8 <<< 4
  | .debug => 0x5#8 <<< 4
  | .verbose => 0x6#8 <<< 4
  | .invalid v => (v &&& 0b1111#8) <<< 4

/-- `u8_to_log_level` -/
def u8ToLogLevel (v : BitVec 8) : Option LogLevel :=
  if v = LEVEL_FATAL then some .fatal
  else if v = LEVEL_ERROR then some .error
  else if v = LEVEL_WARN then some .warn
  else if v = LEVEL_INFO then some .info
  else if v = LEVEL_DEBUG then some .debug
  else if v = LEVEL_VERBOSE then some .verbose
  else none

/-- `TryFrom<u8> for LogLevel` (never fails) -/
def LogLevel.ofMsin (mi : BitVec 8) : LogLevel :=
  let raw := mi >>> 4
  match u8ToLogLevel raw with
  | some l => l
  | none => .invalid raw

def ApplicationTraceType.toU8 : ApplicationTraceType → BitVec 8
  | .variable => 0x1#8 <<< 4
  | .functionIn => 0x2#8 <<< 4
  | .functionOut => 0x3#8 <<< 4
  | .state => 0x4#8 <<< 4
  | .vfb => 0x5#8 <<< 4
  | .invalid n => n <<< 4

def ApplicationTraceType.ofMsin (mi : BitVec 8) : ApplicationTraceType :=
  let n := mi >>> 4
  if n = 1#8 then .variable
  else if n = 2#8 then .functionIn
  else if n = 3#8 then .functionOut
  else if n = 4#8 then .state
  else if n = 5#8 then .vfb
  else .invalid n

def NetworkTraceType.toU8 : NetworkTraceType → BitVec 8
  | .invalid => 0x0#8 <<< 4
  | .ipc => 0x1#8 <<< 4
  | .can => 0x2#8 <<< 4
  | .flexray => 0x3#8 <<< 4
  | .most => 0x4#8 <<< 4
  | .ethernet => 0x5#8 <<< 4
  | .someip => 0x6#8 <<< 4
  | .userDefined v => v <<< 4

def NetworkTraceType.ofMsin (mi : BitVec 8) : NetworkTraceType :=
  let n := mi >>> 4
  if n = 0#8 then .invalid
  else if n = 1#8 then .ipc
  else if n = 2#8 then .can
  else if n = 3#8 then .flexray
  else if n = 4#8 then .most
  else if n = 5#8 then .ethernet
  else if n = 6#8 then .someip
  else .userDefined n

/-- `From<&ControlType> for u8` (message-info nibble) -/
def ControlType.toU8 : ControlType → BitVec 8
  | .request => 0x1#8 <<< 4
  | .response => 0x2#8 <<< 4
  | .unknown n => n <<< 4

/-- `TryFrom<u8> for ControlType` (message-info nibble) -/
def ControlType.ofMsin (mi : BitVec 8) : ControlType :=
  let n := mi >>> 4
  if n = 1#8 then .request
  else if n = 2#8 then .response
  else .unknown n

/-- `ControlType::value` (payload byte) -/
def ControlType.value : ControlType → BitVec 8
  | .request => CTRL_TYPE_REQUEST
  | .response => CTRL_TYPE_RESPONSE
  | .unknown n => n

/-- `ControlType::from_value` (payload byte) -/
def ControlType.fromValue (t : BitVec 8) : ControlType :=
  if t = CTRL_TYPE_REQUEST then .request
  else if t = CTRL_TYPE_RESPONSE then .response
  else .unknown t

/-- `From<&MessageType> for u8` -/
def MessageType.toU8 : MessageType → BitVec 8
  | .log x => x.toU8
  | .applicationTrace x => (0x1#8 <<< 1) ||| x.toU8
  | .networkTrace x => (0x2#8 <<< 1) ||| x.toU8
  | .control x => (0x3#8 <<< 1) ||| x.toU8
  | .unknown mstp mtin => (mstp <<< 1) ||| (mtin <<< 4)

/-- `TryFrom<u8> for MessageType` (never fails) -/
def MessageType.ofMsin (mi : BitVec 8) : MessageType :=
  let t := (mi >>> 1) &&& 0b111#8
  if t = DLT_TYPE_LOG then .log (LogLevel.ofMsin mi)
  else if t = DLT_TYPE_APP_TRACE then .applicationTrace (ApplicationTraceType.ofMsin mi)
  else if t = DLT_TYPE_NW_TRACE then .networkTrace (NetworkTraceType.ofMsin mi)
  else if t = DLT_TYPE_CONTROL then .control (ControlType.ofMsin mi)
  else .unknown t ((mi >>> 4) &&& 0b1111#8)

/-- first byte of `ExtendedHeader::as_bytes` -/
def ExtendedHeader.msin (h : ExtendedHeader) : BitVec 8 :=
  h.messageType.toU8 ||| (if h.verbose then 1#8 else 0#8)

def typeLengthBitsFloat : FloatWidth → BitVec 32
  | .w32 => 0b011#32
  | .w64 => 0b100#32

def typeLengthBits : TypeLength → BitVec 32
  | .b8 => 0b001#32
  | .b16 => 0b010#32
  | .b32 => 0b011#32
  | .b64 => 0b100#32
  | .b128 => 0b101#32

def TypeInfo.isFixedPoint (t : TypeInfo) : Bool :=
  match t.kind with
  | .signedFixedPoint _ | .unsignedFixedPoint _ => true
  | _ => false

/-- `TypeInfo::type_width` (bits) -/
def TypeInfo.typeWidth (t : TypeInfo) : Nat :=
  match t.kind with
  | .signed l | .unsigned l => 8 * l.bytes
  | .signedFixedPoint w | .unsignedFixedPoint w | .float w => 8 * w.bytes
  | _ => 0

/-- the `u32` assembled by `TypeInfo::as_bytes` -/
def TypeInfo.toU32 (t : TypeInfo) : BitVec 32 :=
  let info := 0#32
  let info := match t.kind with
    | .float len => info ||| typeLengthBitsFloat len
    | .signed len => info ||| typeLengthBits len
    | .signedFixedPoint len => info ||| typeLengthBitsFloat len
    | .unsigned len => info ||| typeLengthBits len
    | .unsignedFixedPoint len => info ||| typeLengthBitsFloat len
    | _ => info
  let info := match t.kind with
    | .bool => info ||| TYPE_INFO_BOOL_FLAG
    | .signed _ => info ||| TYPE_INFO_SINT_FLAG
    | .signedFixedPoint _ => info ||| TYPE_INFO_SINT_FLAG
    | .unsigned _ => info ||| TYPE_INFO_UINT_FLAG
    | .unsignedFixedPoint _ => info ||| TYPE_INFO_UINT_FLAG
    | .float _ => info ||| TYPE_INFO_FLOAT_FLAG
    | .stringType => info ||| TYPE_INFO_STRING_FLAG
    | .raw => info ||| TYPE_INFO_RAW_FLAG
  let info := if t.hasVariableInfo then info ||| TYPE_INFO_VARIABLE_INFO else info
  let info := if t.isFixedPoint then info ||| TYPE_INFO_FIXED_POINT_FLAG else info
  let info := if t.hasTraceInfo then info ||| TYPE_INFO_TRACE_INFO_FLAG else info
  match t.coding with
  | .ascii => info ||| (0b000#32 <<< 15)
  | .utf8 => info ||| (0b001#32 <<< 15)
  | .reserved v => info ||| ((BitVec.zeroExtend 32 (0b111#8 &&& v)) <<< 15)

def typeLen (info : BitVec 32) : Option TypeLength :=
  let v := info &&& 0b1111#32
  if v = 1#32 then some .b8
  else if v = 2#32 then some .b16
  else if v = 3#32 then some .b32
  else if v = 4#32 then some .b64
  else if v = 5#32 then some .b128
  else none

def typeLenFloat (info : BitVec 32) : Option FloatWidth :=
  let v := info &&& 0b1111#32
  if v = 3#32 then some .w32
  else if v = 4#32 then some .w64
  else none

/-- `TryFrom<u32> for TypeInfo` (`none` = `Err`) -/
def TypeInfo.ofU32 (info : BitVec 32) : Option TypeInfo :=
  let isFixedPoint := info &&& TYPE_INFO_FIXED_POINT_FLAG != 0#32
  let k := (info >>> 4) &&& 0b1111111#32
  let kind : Option TypeInfoKind :=
    if k = 0b0000001#32 then some .bool
    else if k = 0b0000010#32 then
      if isFixedPoint then (typeLenFloat info).map .signedFixedPoint
      else (typeLen info).map .signed
    else if k = 0b0000100#32 then
      if isFixedPoint then (typeLenFloat info).map .unsignedFixedPoint
      else (typeLen info).map .unsigned
    else if k = 0b0001000#32 then (typeLenFloat info).map .float
    else if k = 0b0100000#32 then some .stringType
    else if k = 0b1000000#32 then some .raw
    else none
  match kind with
  | none => none
  | some kind =>
    let c := (info >>> 15) &&& 0b111#32
    let coding :=
      if c = 0#32 then StringCoding.ascii
      else if c = 1#32 then .utf8
      else .reserved (BitVec.truncate 8 c)
    some {
      hasVariableInfo := info &&& TYPE_INFO_VARIABLE_INFO != 0#32
      hasTraceInfo := info &&& TYPE_INFO_TRACE_INFO_FLAG != 0#32
      kind := kind
      coding := coding }

end Dlt
