/-
  The slice parsers of src/parse.rs, function by function, with nom's streaming
  semantics (`Nom.lean`).  The outcome classes are nom's: `incomplete` becomes
  `DltParseError::IncompleteParse`, `error` becomes `ParsingHickup`, `failure`
  becomes `Unrecoverable` (see `nom_to_dlt_parse_error`).
-/
import DltVerif.Model.Nom
import DltVerif.Model.Encode

namespace Dlt

/-- `forward_to_next_storage_header` -/
def forwardToNextStorageHeader (input : Bytes) : Option (Nat × Bytes) :=
  (findPattern DLT_PATTERN input).map fun n => (n, input.drop n)

/-- `dlt_storage_header`: `none` in the value = no pattern found (rest is empty) -/
def dltStorageHeader (input : Bytes) : PRes (Option (StorageHeader × Nat)) :=
  if input.length < STORAGE_HEADER_LENGTH then .incomplete none
  else
    match forwardToNextStorageHeader input with
    | some (consumed, rest) =>
      (tag [0x44#8, 0x4C#8, 0x54#8] rest).andThen fun _ i =>
      (tag [0x01#8] i).andThen fun _ i =>
      (bitsN .little 4 i).andThen fun seconds i =>
      (bitsN .little 4 i).andThen fun microseconds i =>
      (zts 4 i).andThen fun ecuId afterString =>
        .ok (some ({ timestamp := { seconds := seconds, microseconds := microseconds },
                     ecuId := ecuId }, consumed)) afterString
    | none => .ok none []

/-- `dlt_standard_header` -/
def dltStandardHeader (input : Bytes) : PRes StandardHeader :=
  (beU8 input).andThen fun htyp i =>
    let hasEcuId := htyp &&& WITH_ECU_ID_FLAG != 0#8
    let hasSessionId := htyp &&& WITH_SESSION_ID_FLAG != 0#8
    let hasTimestamp := htyp &&& WITH_TIMESTAMP_FLAG != 0#8
    (beU8 i).andThen fun messageCounter i =>
    (uintN .big 2 i).andThen fun overallLength i =>
    (if hasEcuId then (zts 4 i).map some else .ok none i).andThen fun ecuId i =>
    (if hasSessionId then (bitsN .big 4 i).map some else .ok none i).andThen fun sessionId i =>
    (if hasTimestamp then (bitsN .big 4 i).map some else .ok none i).andThen fun timestamp i =>
      let hasExtendedHeader := htyp &&& WITH_EXTENDED_HEADER_FLAG != 0#8
      let allHeadersLength := calculateAllHeadersLength htyp
      if allHeadersLength > overallLength then .error
      else
        .ok { version := (htyp >>> 5) &&& 0b111#8
              endianness := if htyp &&& BIG_ENDIAN_FLAG != 0#8 then .big else .little
              messageCounter := messageCounter
              hasExtendedHeader := hasExtendedHeader
              payloadLength := BitVec.ofNat 16 (overallLength - allHeadersLength)
              ecuId := ecuId
              sessionId := sessionId
              timestamp := timestamp } i

/-- `dlt_extended_header` (`MessageType::try_from` never fails) -/
def dltExtendedHeader (input : Bytes) : PRes ExtendedHeader :=
  (beU8 input).andThen fun messageInfo i =>
  (beU8 i).andThen fun argumentCount i =>
  (zts 4 i).andThen fun appId i =>
  (zts 4 i).andThen fun contextId i =>
    .ok { verbose := messageInfo &&& VERBOSE_FLAG != 0#8
          argumentCount := argumentCount
          messageType := MessageType.ofMsin messageInfo
          applicationId := appId
          contextId := contextId } i

/-- `dlt_variable_name::<T>` -/
def dltVariableName (e : Endian) (input : Bytes) : PRes Bytes :=
  (uintN e 2 input).andThen fun size i => zts size i

/-- `dlt_variable_name_and_unit::<T>(type_info)` -/
def dltVariableNameAndUnit (e : Endian) (ti : TypeInfo) (input : Bytes) :
    PRes (Option Bytes × Option Bytes) :=
  if ti.hasVariableInfo then
    (uintN e 2 input).andThen fun nameSize i =>
    (uintN e 2 i).andThen fun unitSize i =>
    (zts nameSize i).andThen fun name i =>
    (zts unitSize i).andThen fun unit rest =>
      .ok (some name, some unit) rest
  else .ok (none, none) input

/-- `dlt_uint::<T>(width)` (the 8-bit reader is `be_u8`) -/
def dltUint (e : Endian) (w : TypeLength) (i : Bytes) : PRes Value :=
  match w with
  | .b8 => (beU8 i).map .u8
  | .b16 => (bitsN e 2 i).map .u16
  | .b32 => (bitsN e 4 i).map .u32
  | .b64 => (bitsN e 8 i).map .u64
  | .b128 => (bitsN e 16 i).map .u128

/-- `dlt_sint::<T>(width)` -/
def dltSint (e : Endian) (w : TypeLength) (i : Bytes) : PRes Value :=
  match w with
  | .b8 => (beU8 i).map .i8
  | .b16 => (bitsN e 2 i).map .i16
  | .b32 => (bitsN e 4 i).map .i32
  | .b64 => (bitsN e 8 i).map .i64
  | .b128 => (bitsN e 16 i).map .i128

/-- `dlt_fint::<T>(width)` -/
def dltFint (e : Endian) (w : FloatWidth) (i : Bytes) : PRes Value :=
  match w with
  | .w32 => (bitsN e 4 i).map .f32
  | .w64 => (bitsN e 8 i).map .f64

/-- `dlt_type_info::<T>` -/
def dltTypeInfo (e : Endian) (input : Bytes) : PRes TypeInfo :=
  (bitsN e 4 input).andThen fun info i =>
    match TypeInfo.ofU32 info with
    | some ti => .ok ti i
    | none => .error

/-- `dlt_fixed_point::<T>(input, width)` -/
def dltFixedPoint (e : Endian) (w : FloatWidth) (input : Bytes) : PRes FixedPoint :=
  (bitsN e 4 input).andThen fun quantization i =>
    match w with
    | .w32 => (bitsN e 4 i).map fun off => { quantization := quantization, offset := .i32 off }
    | .w64 => (bitsN e 8 i).map fun off => { quantization := quantization, offset := .i64 off }

/-- `dlt_argument::<T>` -/
def dltArgument (e : Endian) (input : Bytes) : PRes Argument :=
  (dltTypeInfo e input).andThen fun ti i =>
    match ti.kind with
    | .signed w =>
      (dltVariableNameAndUnit e ti i).andThen fun nu i =>
      (dltSint e w i).andThen fun value rest =>
        .ok { name := nu.1, unit := nu.2, value := value, fixedPoint := none, typeInfo := ti } rest
    | .signedFixedPoint w =>
      (dltVariableNameAndUnit e ti i).andThen fun nu i =>
      (dltFixedPoint e w i).andThen fun fp i =>
      (dltSint e w.toTypeLength i).andThen fun value rest =>
        .ok { name := nu.1, unit := nu.2, value := value, fixedPoint := some fp, typeInfo := ti } rest
    | .unsigned w =>
      (dltVariableNameAndUnit e ti i).andThen fun nu i =>
      (dltUint e w i).andThen fun value rest =>
        .ok { name := nu.1, unit := nu.2, value := value, fixedPoint := none, typeInfo := ti } rest
    | .unsignedFixedPoint w =>
      (dltVariableNameAndUnit e ti i).andThen fun nu i =>
      (dltFixedPoint e w i).andThen fun fp i =>
      (dltUint e w.toTypeLength i).andThen fun value rest =>
        .ok { name := nu.1, unit := nu.2, value := value, fixedPoint := some fp, typeInfo := ti } rest
    | .float w =>
      (dltVariableNameAndUnit e ti i).andThen fun nu i =>
      (dltFint e w i).andThen fun value rest =>
        .ok { name := nu.1, unit := nu.2, value := value, fixedPoint := none, typeInfo := ti } rest
    | .raw =>
      (uintN e 2 i).andThen fun rawByteCnt i2 =>
      (if ti.hasVariableInfo then (dltVariableName e i2).map some else .ok none i2).andThen
        fun name i3 =>
      (take rawByteCnt i3).andThen fun bytes rest =>
        .ok { name := name, unit := none, value := .raw bytes, fixedPoint := none, typeInfo := ti }
          rest
    | .bool =>
      (if ti.hasVariableInfo then (dltVariableName e i).map some else .ok none i).andThen
        fun name afterVarName =>
      (beU8 afterVarName).andThen fun b rest =>
        .ok { name := name, unit := none, value := .bool b, fixedPoint := none, typeInfo := ti } rest
    | .stringType =>
      (uintN e 2 i).andThen fun size i2 =>
      (if ti.hasVariableInfo then (dltVariableName e i2).map some else .ok none i2).andThen
        fun name i3 =>
      (zts size i3).andThen fun s rest =>
        .ok { name := name, unit := none, value := .stringVal s, fixedPoint := none, typeInfo := ti }
          rest

/-- `add_context`: a `Failure` inside the arguments is downgraded to `Error` -/
def addContext {α : Type} : PRes α → PRes α
  | .failure => .error
  | r => r

/-- `dlt_payload::<T>`; `payload_length - 1` / `- 4` are checked subtractions on `u16` -/
def dltPayload (e : Endian) (input : Bytes) (verbose : Bool) (payloadLength : Nat)
    (argCnt : Nat) (msgType : Option MessageType) : PRes PayloadContent :=
  if verbose then
    match count (dltArgument e) argCnt input with
    | .ok arguments rest =>
      match msgType with
      | some (.networkTrace _) =>
        .ok (.networkTrace (arguments.filterMap fun a =>
              match a.value with | .raw b => some b | _ => none)) rest
      | _ => .ok (.verbose arguments) rest
    | r => addContext (r.map fun _ => PayloadContent.verbose [])
  else
    match msgType with
    | some (.control _) =>
      if payloadLength < 1 then .failure
      else
        (beU8Complete input).andThen fun controlMsgId i =>
        (take (payloadLength - 1) i).andThen fun payload rest =>
          .ok (.controlMsg (ControlType.fromValue controlMsgId) payload) rest
    | _ =>
      if payloadLength < 4 then .failure
      else
        (bitsN e 4 input).andThen fun messageId i =>
        (take (payloadLength - 4) i).andThen fun payload rest =>
          .ok (.nonVerbose messageId payload) rest

/-- outcome of `validated_payload_length` -/
inductive PayloadLen where
  | ok (n : Nat)
  | incomplete (needed : Option Nat)
  | hickup
  deriving DecidableEq, Repr

/-- `validated_payload_length(header, remaining_bytes)`; `overall_length()` can overflow
    its `u16` additions (panic), which `dlt_standard_header`'s own guard excludes -/
def validatedPayloadLength (h : StandardHeader) (remaining : Nat) : Option PayloadLen :=
  if h.overallLengthPanics then none
  else
    let messageLength := h.overallLength
    let headersLength := calculateAllHeadersLength h.headerTypeByte
    if messageLength < headersLength then some .hickup
    else if messageLength > remaining then some (.incomplete (needed (messageLength - remaining)))
    else some (.ok (messageLength - headersLength))

/-- the filter configuration after `ProcessedDltFilterConfig::from`; sets are
    duplicate-free lists (only membership and cardinality are observable) -/
structure ProcessedFilter where
  minLogLevel : Option LogLevel
  appIds : Option (List Bytes)
  ecuIds : Option (List Bytes)
  contextIds : Option (List Bytes)
  appIdCount : Int
  contextIdCount : Int
  deriving Repr, Inhabited

/-- derived `PartialOrd` on `LogLevel` restricted to the named levels: declaration order -/
def LogLevel.rank : LogLevel → Nat
  | .fatal => 0 | .error => 1 | .warn => 2 | .info => 3 | .debug => 4 | .verbose => 5
  | .invalid _ => 6

/-- `ExtendedHeader::skip_with_level` -/
def ExtendedHeader.skipWithLevel (h : ExtendedHeader) (level : LogLevel) : Bool :=
  match h.messageType with
  | .log n =>
    match n, level with
    | .invalid a, .invalid b => a.toNat < b.toNat
    | .invalid _, _ => false
    | _, .invalid _ => true
    | n, level => level.rank < n.rank
  | _ => false

/-- `filtered_out` -/
def filteredOut (eh : Option ExtendedHeader) (cfg : Option ProcessedFilter)
    (ecuId : Option Bytes) : Bool :=
  match cfg with
  | none => false
  | some fc =>
    match eh with
    | some h =>
      (match fc.minLogLevel with | some l => h.skipWithLevel l | none => false)
      || (match fc.appIds with | some s => !s.contains h.applicationId | none => false)
      || (match fc.contextIds with | some s => !s.contains h.contextId | none => false)
      || (match fc.ecuIds, ecuId with | some s, some id => !s.contains id | _, _ => false)
    | none =>
      (match fc.appIds with | some s => fc.appIdCount > (s.length : Int) | none => false)
      || (match fc.contextIds with | some s => fc.contextIdCount > (s.length : Int) | none => false)

/-- `dlt_message_intern` (repaired: the payload is the declared slice) -/
def dltMessageIntern (input : Bytes) (cfg : Option ProcessedFilter) (withStorageHeader : Bool) :
    PRes ParsedMessage :=
  (if withStorageHeader then dltStorageHeader input else .ok none input).andThen
    fun storageHeaderShifted afterStorageHeader =>
  (dltStandardHeader afterStorageHeader).andThen fun header afterStorageAndNormalHeader =>
    match validatedPayloadLength header afterStorageHeader.length with
    | none => .panic
    | some payloadLengthRes =>
      (if header.hasExtendedHeader then (dltExtendedHeader afterStorageAndNormalHeader).map some
       else .ok none afterStorageAndNormalHeader).andThen fun extendedHeader afterHeaders =>
        let verbose := match extendedHeader with | some eh => eh.verbose | none => false
        let argCount := match extendedHeader with | some eh => eh.argumentCount.toNat | none => 0
        let msgType := extendedHeader.map (·.messageType)
        match payloadLengthRes with
        | .incomplete n => .incomplete n
        | .hickup => .ok .invalid afterStorageAndNormalHeader
        | .ok payloadLength =>
          if filteredOut extendedHeader cfg header.ecuId then
            (take payloadLength afterHeaders).andThen fun _ afterMessage =>
              .ok (.filteredOut payloadLength) afterMessage
          else
            (take payloadLength afterHeaders).andThen fun payloadBytes afterMessage =>
              match dltPayload header.endianness payloadBytes verbose payloadLength argCount
                      msgType with
              | .ok payload _ =>
                .ok (.item { storageHeader := storageHeaderShifted.map (·.1)
                             header := header
                             extendedHeader := extendedHeader
                             payload := payload }) afterMessage
              | .incomplete _ => .error
              | .error => .error
              | .failure => .failure
              | .panic => .panic

/-- `dlt_message`: result classes of `DltParseError` -/
inductive DltError where
  | incomplete (needed : Option Nat)
  | hickup
  | unrecoverable
  | panic
  deriving DecidableEq, Repr

def PRes.toResult {α : Type} : PRes α → Except DltError (α × Bytes)
  | .ok v r => .ok (v, r)
  | .incomplete n => .error (.incomplete n)
  | .error => .error .hickup
  | .failure => .error .unrecoverable
  | .panic => .error .panic

def dltMessage (input : Bytes) (cfg : Option ProcessedFilter) (withStorageHeader : Bool) :
    Except DltError (ParsedMessage × Bytes) :=
  (dltMessageIntern input cfg withStorageHeader).toResult

/-- `skip_storage_header`: errors of the plain nom error type map `Error` to hickup -/
def skipStorageHeader (input : Bytes) : PRes Nat :=
  (tag [0x44#8, 0x4C#8, 0x54#8] input).andThen fun _ i =>
  (tag [0x01#8] i).andThen fun _ i =>
  (take 12 i).andThen fun _ i =>
    if input.length < i.length then .panic
    else if input.length - i.length = STORAGE_HEADER_LENGTH then .ok STORAGE_HEADER_LENGTH i
    else .error

/-- `dlt_consume_msg` -/
def dltConsumeMsg (input : Bytes) : PRes (Option Nat) :=
  if input.isEmpty then .ok none input
  else
    (skipStorageHeader input).andThen fun skipped afterStorageHeader =>
    (dltStandardHeader afterStorageHeader).andThen fun header _ =>
      if header.overallLengthPanics then .panic
      else
        (take header.overallLength afterStorageHeader).andThen fun _ afterMessage =>
          .ok (some (skipped + header.overallLength)) afterMessage

/-- `parse_length` -/
def parseLength (input : Bytes) : PRes Nat :=
  (take 2 input).andThen fun _ i => uintN .big 2 i

end Dlt
