/-
  FIBEX loading (src/fibex/mod.rs).

  Input abstraction: quick-xml 0.29's tokenizer is trusted; a file is the list of results of
  its successive `read_event_into` calls (`XmlEv`), followed by `Eof` forever.  Element
  names are reduced to the vocabulary the reader matches on (`Tag`, by exact comparison of
  the local name — done by the harness that dumps the events); attribute keys, attribute
  values and text are bytes (or `none` where unescaping fails).

  L1: `Reader::read_event` (XML events -> FIBEX events, with the carried fields reset exactly
  where the code resets them).  L2: `read_pdu`, `read_frame`, `read_fibexes`,
  `type_info_for_signal_ref`, `extract_metadata`.  `HashMap`s are association lists.
  Every loop is structural recursion on the event list: there is no way to loop forever.
-/
import DltVerif.Model.Types
import DltVerif.Model.FibexNames

namespace Dlt.Fibex

inductive Tag where
  | PDU | SHORT_NAME | BYTE_LENGTH | SIGNAL_INSTANCE | SEQUENCE_NUMBER | SIGNAL_REF | PDU_TYPE
  | FRAME_TYPE | FRAME | PDU_INSTANCE | PDU_REF | MANUFACTURER_EXTENSION | APPLICATION_ID
  | CONTEXT_ID | MESSAGE_INFO | MESSAGE_TYPE | DESC | CODING | SIGNAL | CODED_TYPE | CODING_REF
  | other
  deriving DecidableEq, Repr

inductive Attr where
  /-- `Ok(attribute)`: key bytes and `unescape_value()` (`none` = error) -/
  | ok (key : Bytes) (value : Option Bytes)
  /-- `Err(AttrError)` -/
  | err
  deriving DecidableEq, Repr

inductive XmlEv where
  | start (tag : Tag) (attrs : List Attr)
  | empty (tag : Tag) (attrs : List Attr)
  | end_ (tag : Tag)
  /-- `Text`: `unescape()` result (`none` = error) -/
  | text (t : Option Bytes)
  /-- CData, Comment, Decl, PI, DocType -/
  | other
  /-- `read_event_into` returned `Err` -/
  | err
  deriving DecidableEq, Repr

/-- FIBEX events (`Event`) -/
inductive Event where
  | pduStart (id : Bytes)
  | pduEnd (shortName description : Option Bytes) (byteLength : Nat)
  | signalInstance (id : Bytes) (sequenceNumber : Nat) (signalRef : Bytes)
  | frameStart (id : Bytes)
  | frameEnd (shortName : Bytes) (byteLength : Nat)
  | manufacturerExtension (messageType messageInfo applicationId contextId : Option Bytes)
  | pduInstance (id pduRef : Bytes) (sequenceNumber : Nat)
  | signal (id codingRef : Bytes)
  | coding (id baseDataType : Bytes)
  | eof
  deriving DecidableEq, Repr

/-- the fields `Reader` carries between events -/
structure RState where
  shortName : Option Bytes := none
  description : Option Bytes := none
  byteLength : Option Nat := none
  id : Option Bytes := none
  sequenceNumber : Option Nat := none
  ref : Option Bytes := none
  applicationId : Option Bytes := none
  contextId : Option Bytes := none
  messageType : Option Bytes := none
  messageInfo : Option Bytes := none
  baseDataType : Option Bytes := none
  deriving DecidableEq, Repr

/-- key match of `attr_opt`: equal, or `<prefix>:<name>`; `attr_key[key_len - name_len - 1]`
    is a checked index (`none` = out of bounds = panic) -/
def keyMatches (key name : Bytes) : Option Bool :=
  if key = name then some true
  else if key.length > name.length then
    match key[key.length - name.length - 1]? with
    | none => none
    | some c => some (c == 0x3A#8 && key.drop (key.length - name.length) == name)
  else some false

/-- outcome of the fallible steps: `err` = `Err(_)`, `panic` = index out of bounds -/
inductive Res (α : Type) where
  | ok (v : α)
  | err
  | panic
  deriving DecidableEq, Repr

/-- `attr_opt(attrs, name)` -/
def attrOpt (name : Bytes) : List Attr → Res (Option Bytes)
  | [] => .ok none
  | .err :: _ => .err
  | .ok key value :: rest =>
    match keyMatches key name with
    | none => .panic
    | some true => (match value with | some v => .ok (some v) | none => .err)
    | some false => attrOpt name rest

/-- `attr(e, name, tag)`: a missing attribute is an error -/
def attrReq (name : Bytes) (attrs : List Attr) : Res Bytes :=
  match attrOpt name attrs with
  | .ok (some v) => .ok v
  | .ok none => .err
  | .err => .err
  | .panic => .panic

/-- `str::parse::<usize>`: optional `+`, at least one ASCII digit, below 2^64 -/
def parseDigits : Bytes → Nat → Option Nat
  | [], acc => some acc
  | c :: cs, acc =>
    if 0x30 ≤ c.toNat ∧ c.toNat ≤ 0x39 then
      let acc' := acc * 10 + (c.toNat - 0x30)
      if acc' < 2 ^ 64 then parseDigits cs acc' else none
    else none

def parseUsize (t : Bytes) : Option Nat :=
  match t with
  | [] => none
  | c :: cs =>
    if c = 0x2B#8 then (match cs with | [] => none | _ => parseDigits cs 0)
    else parseDigits (c :: cs) 0

/-- `read_text`: the next event must be a `Text` whose unescaping succeeds; the event is
    consumed in every case (also at end of input, where `Eof` is not a text) -/
def readText : List XmlEv → Option Bytes × List XmlEv
  | .text (some t) :: rest => (some t, rest)
  | _ :: rest => (none, rest)
  | [] => (none, [])

theorem readText_length (evs : List XmlEv) : (readText evs).2.length ≤ evs.length := by
  unfold readText
  split <;> simp

/-- `Reader::read_event`: loop over XML events until a FIBEX event is complete.
    Result: the event (`ok`), an error, or a panic; the reader state; what is left. -/
def readEvent (st : RState) : List XmlEv → Res Event × RState × List XmlEv
  | [] => (.ok .eof, st, [])
  | .err :: rest => (.err, st, rest)
  | .other :: rest => readEvent st rest
  | .text _ :: rest => readEvent st rest
  | .start tag attrs :: rest =>
    match tag with
    | .PDU =>
      let st := { st with shortName := none, byteLength := none, description := none }
      (match attrReq B_ID attrs with
       | .ok id => (.ok (.pduStart id), st, rest)
       | .err => (.err, st, rest)
       | .panic => (.panic, st, rest))
    | .SHORT_NAME =>
      (match hr : readText rest with
       | (some t, rest') => readEvent { st with shortName := some t } rest'
       | (none, rest') => (.err, st, rest'))
    | .BYTE_LENGTH =>
      (match hr : readText rest with
       | (some t, rest') =>
         (match parseUsize t with
          | some n => readEvent { st with byteLength := some n } rest'
          | none => (.err, st, rest'))
       | (none, rest') => (.err, st, rest'))
    | .SIGNAL_INSTANCE | .PDU_INSTANCE =>
      (match attrReq B_ID attrs with
       | .ok id => readEvent { st with id := some id, ref := none, sequenceNumber := none } rest
       | .err => (.err, st, rest)
       | .panic => (.panic, st, rest))
    | .SEQUENCE_NUMBER =>
      (match hr : readText rest with
       | (some t, rest') =>
         (match parseUsize t with
          | some n => readEvent { st with sequenceNumber := some n } rest'
          | none => (.err, st, rest'))
       | (none, rest') => (.err, st, rest'))
    | .SIGNAL_REF | .PDU_REF =>
      (match attrReq B_ID_REF attrs with
       | .ok r => readEvent { st with ref := some r } rest
       | .err => (.err, st, rest)
       | .panic => (.panic, st, rest))
    | .PDU_TYPE | .FRAME_TYPE =>
      (match hr : readText rest with
       | (some _, rest') => readEvent st rest'
       | (none, rest') => (.err, st, rest'))
    | .FRAME =>
      let st := { st with shortName := none, byteLength := none }
      (match attrReq B_ID attrs with
       | .ok id => (.ok (.frameStart id), st, rest)
       | .err => (.err, st, rest)
       | .panic => (.panic, st, rest))
    | .MANUFACTURER_EXTENSION =>
      readEvent { st with applicationId := none, contextId := none, messageInfo := none,
                          messageType := none } rest
    | .APPLICATION_ID =>
      (match hr : readText rest with
       | (some t, rest') => readEvent { st with applicationId := some t } rest'
       | (none, rest') => (.err, st, rest'))
    | .CONTEXT_ID =>
      (match hr : readText rest with
       | (some t, rest') => readEvent { st with contextId := some t } rest'
       | (none, rest') => (.err, st, rest'))
    | .MESSAGE_INFO =>
      (match hr : readText rest with
       | (some t, rest') => readEvent { st with messageInfo := some t } rest'
       | (none, rest') => (.err, st, rest'))
    | .MESSAGE_TYPE =>
      (match hr : readText rest with
       | (some t, rest') => readEvent { st with messageType := some t } rest'
       | (none, rest') => (.err, st, rest'))
    | .DESC =>
      -- `.ok()`: a failing read_text is swallowed (the event it looked at is consumed)
      (match hr : readText rest with
       | (t, rest') => readEvent { st with description := t } rest')
    | .CODING =>
      (match attrReq B_ID attrs with
       | .ok id => readEvent { st with id := some id, baseDataType := none } rest
       | .err => (.err, st, rest)
       | .panic => (.panic, st, rest))
    | .SIGNAL =>
      (match attrReq B_ID attrs with
       | .ok id => readEvent { st with id := some id, ref := none } rest
       | .err => (.err, st, rest)
       | .panic => (.panic, st, rest))
    | .CODED_TYPE =>
      (match attrReq B_BASE_DATA_TYPE attrs with
       | .ok v => readEvent { st with baseDataType := some v } rest
       | .err => readEvent { st with baseDataType := none } rest
       | .panic => (.panic, st, rest))
    | _ => readEvent st rest
  | .empty tag attrs :: rest =>
    match tag with
    | .SIGNAL_REF | .PDU_REF | .CODING_REF =>
      (match attrReq B_ID_REF attrs with
       | .ok r => readEvent { st with ref := some r } rest
       | .err => (.err, st, rest)
       | .panic => (.panic, st, rest))
    | .CODED_TYPE =>
      (match attrReq B_BASE_DATA_TYPE attrs with
       | .ok v => readEvent { st with baseDataType := some v } rest
       | .err => readEvent { st with baseDataType := none } rest
       | .panic => (.panic, st, rest))
    | _ => readEvent st rest
  | .end_ tag :: rest =>
    match tag with
    | .PDU =>
      let st' := { st with shortName := none, description := none, byteLength := none }
      (match st.byteLength with
       | some n => (.ok (.pduEnd st.shortName st.description n), st', rest)
       | none => (.err, st', rest))
    | .SIGNAL_INSTANCE =>
      (match st.id, st.sequenceNumber, st.ref with
       | some id, some sn, some r =>
         (.ok (.signalInstance id sn r), { st with id := none, sequenceNumber := none, ref := none }, rest)
       | _, _, _ => (.err, st, rest))
    | .FRAME =>
      (match st.shortName, st.byteLength with
       | some sn, some n => (.ok (.frameEnd sn n), { st with shortName := none, byteLength := none }, rest)
       | _, _ => (.err, st, rest))
    | .PDU_INSTANCE =>
      (match st.id, st.sequenceNumber, st.ref with
       | some id, some sn, some r =>
         (.ok (.pduInstance id r sn), { st with id := none, sequenceNumber := none, ref := none }, rest)
       | _, _, _ => (.err, st, rest))
    | .MANUFACTURER_EXTENSION =>
      (.ok (.manufacturerExtension st.messageType st.messageInfo st.applicationId st.contextId),
       { st with applicationId := none, contextId := none, messageType := none, messageInfo := none },
       rest)
    | .SIGNAL =>
      (match st.id, st.ref with
       | some id, some r => (.ok (.signal id r), { st with id := none, ref := none }, rest)
       | _, _ => (.err, st, rest))
    | .CODING =>
      (match st.id, st.baseDataType with
       | some id, some b => (.ok (.coding id b), { st with id := none, baseDataType := none }, rest)
       | _, _ => (.err, st, rest))
    | _ => readEvent st rest
termination_by evs => evs.length
decreasing_by
  all_goals simp_wf
  all_goals first
    | omega
    | (have hlen := readText_length rest
       rw [hr] at hlen
       simp only at hlen
       omega)

theorem readText_eq_length {r r' : List XmlEv} {t : Option Bytes} (h : readText r = (t, r')) :
    r'.length ≤ r.length := by
  have := readText_length r
  rw [h] at this
  exact this

/-- every `read_event` call consumes at least one XML event (or the input is exhausted) -/
theorem readEvent_progress (st : RState) (evs : List XmlEv) :
    (readEvent st evs).2.2.length ≤ evs.length - 1 := by
  fun_induction readEvent st evs
  all_goals simp only [List.length_cons, List.length_nil] at *
  all_goals first
    | omega
    | (have := readText_eq_length ‹_›; omega)

/-- a call that returns anything but `Eof` made progress -/
theorem readEvent_lt {st st' : RState} {evs evs' : List XmlEv} {r : Res Event}
    (h : readEvent st evs = (r, st', evs')) (hne : r ≠ .ok .eof) : evs'.length < evs.length := by
  have hp := readEvent_progress st evs
  rw [h] at hp
  cases evs with
  | nil => simp [readEvent] at h; exact absurd h.1.symm hne
  | cons e es => simp only [List.length_cons] at *; omega

theorem readEvent_le {st st' : RState} {evs evs' : List XmlEv} {r : Res Event}
    (h : readEvent st evs = (r, st', evs')) : evs'.length ≤ evs.length := by
  have hp := readEvent_progress st evs
  rw [h] at hp
  simp only at hp
  omega

-- L2 ---------------------------------------------------------------------------------

/-- stable insertion by key (what `sort_by_key` guarantees: order of equal keys kept) -/
def insertByKey {α : Type} (x : Nat × α) : List (Nat × α) → List (Nat × α)
  | [] => [x]
  | y :: ys => if x.1 ≤ y.1 then x :: y :: ys else y :: insertByKey x ys

def sortByKey {α : Type} : List (Nat × α) → List (Nat × α)
  | [] => []
  | x :: xs => insertByKey x (sortByKey xs)

/-- `read_pdu`: collect signal instances until the PDU ends; end of file inside is an error -/
def readPdu (st : RState) (evs : List XmlEv) (acc : List (Nat × Bytes)) :
    Res (Option Bytes × List Bytes) × RState × List XmlEv :=
  match h : readEvent st evs with
  | (.err, st', evs') => (.err, st', evs')
  | (.panic, st', evs') => (.panic, st', evs')
  | (.ok ev, st', evs') =>
    match ev with
    | .signalInstance _ sn r => readPdu st' evs' (acc ++ [(sn, r)])
    | .pduEnd _ desc _ => (.ok (desc, (sortByKey acc).map (·.2)), st', evs')
    | .eof => (.err, st', evs')
    | .pduStart _ => readPdu st' evs' acc
    | .frameStart _ => readPdu st' evs' acc
    | .frameEnd _ _ => readPdu st' evs' acc
    | .manufacturerExtension _ _ _ _ => readPdu st' evs' acc
    | .pduInstance _ _ _ => readPdu st' evs' acc
    | .signal _ _ => readPdu st' evs' acc
    | .coding _ _ => readPdu st' evs' acc
termination_by evs.length
decreasing_by
  all_goals exact readEvent_lt h (by simp)

structure FrameReadData where
  shortName : Bytes
  contextId : Option Bytes
  applicationId : Option Bytes
  messageType : Option Bytes
  messageInfo : Option Bytes
  pduRefs : List Bytes
  deriving DecidableEq, Repr

/-- the manufacturer-extension fields seen so far in `read_frame` -/
structure FrameExt where
  contextId : Option Bytes := none
  applicationId : Option Bytes := none
  messageType : Option Bytes := none
  messageInfo : Option Bytes := none

/-- `read_frame` -/
def readFrame (st : RState) (evs : List XmlEv) (acc : List (Nat × Bytes)) (ext : FrameExt) :
    Res FrameReadData × RState × List XmlEv :=
  match h : readEvent st evs with
  | (.err, st', evs') => (.err, st', evs')
  | (.panic, st', evs') => (.panic, st', evs')
  | (.ok ev, st', evs') =>
    match ev with
    | .pduInstance _ r sn => readFrame st' evs' (acc ++ [(sn, r)]) ext
    | .manufacturerExtension mt mi app ctx =>
      readFrame st' evs' acc { contextId := ctx, applicationId := app, messageType := mt, messageInfo := mi }
    | .frameEnd sn _ =>
      (.ok { shortName := sn, contextId := ext.contextId, applicationId := ext.applicationId
             messageType := ext.messageType, messageInfo := ext.messageInfo
             pduRefs := (sortByKey acc).map (·.2) }, st', evs')
    | .eof => (.err, st', evs')
    | .pduStart _ => readFrame st' evs' acc ext
    | .pduEnd _ _ _ => readFrame st' evs' acc ext
    | .signalInstance _ _ _ => readFrame st' evs' acc ext
    | .frameStart _ => readFrame st' evs' acc ext
    | .signal _ _ => readFrame st' evs' acc ext
    | .coding _ _ => readFrame st' evs' acc ext
termination_by evs.length
decreasing_by
  all_goals exact readEvent_lt h (by simp)

theorem readPdu_length (st : RState) (evs : List XmlEv) (acc : List (Nat × Bytes)) :
    (readPdu st evs acc).2.2.length ≤ evs.length := by
  fun_induction readPdu st evs acc
  all_goals (have hle := readEvent_le ‹_›; first | omega | (simp only [] at *; omega))

theorem readFrame_length (st : RState) (evs : List XmlEv) (acc : List (Nat × Bytes)) (ext : FrameExt) :
    (readFrame st evs acc ext).2.2.length ≤ evs.length := by
  fun_induction readFrame st evs acc ext
  all_goals (have hle := readEvent_le ‹_›; first | omega | (simp only [] at *; omega))

/-- `HashMap::insert`: replace the value of an existing key, else add -/
def insertKV (m : List (Bytes × Bytes)) (k v : Bytes) : List (Bytes × Bytes) :=
  if m.any (·.1 == k) then m.map (fun e => if e.1 == k then (k, v) else e) else m ++ [(k, v)]

def lookupKV {α : Type} (m : List (Bytes × α)) (k : Bytes) : Option α :=
  (m.find? (·.1 == k)).map (·.2)

/-- what `read_fibexes` accumulates over all files -/
structure Acc where
  frames : List (Bytes × FrameReadData) := []
  pdus : List (Bytes × (Option Bytes × List Bytes)) := []
  signals : List (Bytes × Bytes) := []
  codings : List (Bytes × Bytes) := []

/-- the event loop of `read_fibexes` for one file -/
def readFile (st : RState) (evs : List XmlEv) (acc : Acc) : Res Acc :=
  match h : readEvent st evs with
  | (.err, _, _) => .err
  | (.panic, _, _) => .panic
  | (.ok ev, st', evs') =>
    match ev with
    | .eof => .ok acc
    | .pduStart id =>
      (match hp : readPdu st' evs' [] with
       | (.ok p, st'', evs'') => readFile st'' evs'' { acc with pdus := acc.pdus ++ [(id, p)] }
       | (.err, _, _) => .err
       | (.panic, _, _) => .panic)
    | .frameStart id =>
      (match hp : readFrame st' evs' [] {} with
       | (.ok f, st'', evs'') => readFile st'' evs'' { acc with frames := acc.frames ++ [(id, f)] }
       | (.err, _, _) => .err
       | (.panic, _, _) => .panic)
    | .signal id codingRef => readFile st' evs' { acc with signals := insertKV acc.signals id codingRef }
    | .coding id base => readFile st' evs' { acc with codings := insertKV acc.codings id base }
    | .pduEnd _ _ _ => readFile st' evs' acc
    | .signalInstance _ _ _ => readFile st' evs' acc
    | .frameEnd _ _ => readFile st' evs' acc
    | .manufacturerExtension _ _ _ _ => readFile st' evs' acc
    | .pduInstance _ _ _ => readFile st' evs' acc
termination_by evs.length
decreasing_by
  all_goals first
    | exact readEvent_lt h (by simp)
    | (have h1 := readEvent_lt h (by simp)
       have h2 := readPdu_length st' evs' []
       rw [hp] at h2
       simp only at h2
       omega)
    | (have h1 := readEvent_lt h (by simp)
       have h2 := readFrame_length st' evs' [] {}
       rw [hp] at h2
       simp only at h2
       omega)

/-- all files in order, a fresh reader per file; `none` = the file cannot be opened -/
def readFiles : List (Option (List XmlEv)) → Acc → Res Acc
  | [], acc => .ok acc
  | none :: _, _ => .err
  | some evs :: rest, acc =>
    match readFile {} evs acc with
    | .ok acc' => readFiles rest acc'
    | .err => .err
    | .panic => .panic

def plainType (k : TypeInfoKind) (c : StringCoding := .ascii) : TypeInfo :=
  { kind := k, coding := c, hasVariableInfo := false, hasTraceInfo := false }

/-- `type_info_for_signal_ref` -/
def typeInfoForSignalRef (ref : Bytes) (signals codings : List (Bytes × Bytes)) : Option TypeInfo :=
  if ref = N_S_BOOL then some (plainType .bool)
  else if ref = N_S_SINT8 then some (plainType (.signed .b8))
  else if ref = N_S_UINT8 then some (plainType (.unsigned .b8))
  else if ref = N_S_SINT16 then some (plainType (.signed .b16))
  else if ref = N_S_UINT16 then some (plainType (.unsigned .b16))
  else if ref = N_S_SINT32 then some (plainType (.signed .b32))
  else if ref = N_S_UINT32 then some (plainType (.unsigned .b32))
  else if ref = N_S_SINT64 then some (plainType (.signed .b64))
  else if ref = N_S_UINT64 then some (plainType (.unsigned .b64))
  else if ref = N_S_FLOA16 then none
  else if ref = N_S_FLOA32 then some (plainType (.float .w32))
  else if ref = N_S_FLOA64 then some (plainType (.float .w64))
  else if ref = N_S_STRG_ASCII then some (plainType .stringType)
  else if ref = N_S_STRG_UTF8 then some (plainType .stringType .utf8)
  else if ref = N_S_RAWD ∨ ref = N_S_RAW then some (plainType .raw)
  else
    match (lookupKV signals ref).bind (lookupKV codings) with
    | none => none
    | some base =>
      if base = N_A_UINT8 then some (plainType (.unsigned .b8))
      else if base = N_A_INT8 ∨ base = N_A_SINT8 then some (plainType (.signed .b8))
      else if base = N_A_UINT16 then some (plainType (.unsigned .b16))
      else if base = N_A_INT16 ∨ base = N_A_SINT16 then some (plainType (.signed .b16))
      else if base = N_A_UINT32 then some (plainType (.unsigned .b32))
      else if base = N_A_INT32 ∨ base = N_A_SINT32 then some (plainType (.signed .b32))
      else if base = N_A_UINT64 then some (plainType (.unsigned .b64))
      else if base = N_A_INT64 ∨ base = N_A_SINT64 then some (plainType (.signed .b64))
      else if base = N_A_FLOAT32 then some (plainType (.float .w32))
      else if base = N_A_FLOAT64 then some (plainType (.float .w64))
      else if base = N_A_ASCIISTRING then some (plainType .stringType)
      else if base = N_A_UNICODE2STRING then some (plainType .stringType .utf8)
      else none

structure PduMetadata where
  description : Option Bytes
  signalTypes : List TypeInfo
  deriving DecidableEq, Repr

structure FrameMetadata where
  shortName : Bytes
  pdus : List PduMetadata
  applicationId : Option Bytes
  contextId : Option Bytes
  messageType : Option Bytes
  messageInfo : Option Bytes
  deriving DecidableEq, Repr

/-- `FrameMetadataIdentification` -/
structure FrameKey where
  contextId : Bytes
  appId : Bytes
  frameId : Bytes
  deriving DecidableEq, Repr

structure FibexMetadata where
  frameMapWithKey : List (FrameKey × FrameMetadata) := []
  frameMap : List (Bytes × FrameMetadata) := []
  deriving Repr

/-- first definition of a PDU id wins -/
def buildPdus (signals codings : List (Bytes × Bytes)) :
    List (Bytes × (Option Bytes × List Bytes)) → List (Bytes × PduMetadata) → List (Bytes × PduMetadata)
  | [], m => m
  | (id, (desc, refs)) :: rest, m =>
    if m.any (·.1 == id) then buildPdus signals codings rest m
    else buildPdus signals codings rest
      (m ++ [(id, { description := desc
                    signalTypes := refs.filterMap fun r => typeInfoForSignalRef r signals codings })])

/-- resolve the PDU references of a frame; an unknown PDU is an error -/
def resolvePdus (pduById : List (Bytes × PduMetadata)) : List Bytes → Option (List PduMetadata)
  | [] => some []
  | r :: rs =>
    match lookupKV pduById r, resolvePdus pduById rs with
    | some p, some ps => some (p :: ps)
    | _, _ => none

def buildFrames (pduById : List (Bytes × PduMetadata)) :
    List (Bytes × FrameReadData) → FibexMetadata → Option FibexMetadata
  | [], md => some md
  | (id, fr) :: rest, md =>
    match resolvePdus pduById fr.pduRefs with
    | none => none
    | some pdus =>
      let frame : FrameMetadata :=
        { shortName := fr.shortName, pdus := pdus, applicationId := fr.applicationId
          contextId := fr.contextId, messageType := fr.messageType, messageInfo := fr.messageInfo }
      let withKey :=
        match fr.contextId, fr.applicationId with
        | some ctx, some app =>
          let key : FrameKey := { contextId := ctx, appId := app, frameId := id }
          if md.frameMapWithKey.any (·.1 == key) then md.frameMapWithKey
          else md.frameMapWithKey ++ [(key, frame)]
        | _, _ => md.frameMapWithKey
      let byId := if md.frameMap.any (·.1 == id) then md.frameMap else md.frameMap ++ [(id, frame)]
      buildFrames pduById rest { frameMapWithKey := withKey, frameMap := byId }

/-- `read_fibexes` -/
def readFibexes (files : List (Option (List XmlEv))) : Res FibexMetadata :=
  match readFiles files {} with
  | .err => .err
  | .panic => .panic
  | .ok acc =>
    let pduById := buildPdus acc.signals acc.codings acc.pdus []
    match buildFrames pduById acc.frames {} with
    | some md => .ok md
    | none => .err

/-- `gather_fibex_data`: `none` for an empty path list or any error -/
def gatherFibexData (files : List (Option (List XmlEv))) : Res (Option FibexMetadata) :=
  if files.isEmpty then .ok none
  else
    match readFibexes files with
    | .ok md => .ok (some md)
    | .err => .ok none
    | .panic => .panic

/-- decimal digits of a number, as bytes -/
def decimalBytes (n : Nat) : Bytes := (Nat.toDigits 10 n).map fun c => BitVec.ofNat 8 c.toNat

/-- `extract_metadata(md, id, extended_header)`: `"ID_<id>"`, by the keyed map when the
    extended header's ids are supplied, else by frame id alone -/
def extractMetadata (md : FibexMetadata) (id : Nat) (ext : Option (Bytes × Bytes)) :
    Option FrameMetadata :=
  let idText : Bytes := [0x49#8, 0x44#8, 0x5F#8] ++ decimalBytes id
  match ext with
  | some (app, ctx) =>
    (md.frameMapWithKey.find? (·.1 == { contextId := ctx, appId := app, frameId := idText })).map (·.2)
  | none => lookupKV md.frameMap idText

end Dlt.Fibex
