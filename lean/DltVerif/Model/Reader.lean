/-
  The blocking and the asynchronous message readers (src/read.rs, src/stream.rs).
-/
import DltVerif.Model.Decode

namespace Dlt

/-- `DEFAULT_MESSAGE_MAX_LEN = STORAGE_HEADER_LENGTH + u16::MAX` -/
def DEFAULT_MESSAGE_MAX_LEN : Nat := STORAGE_HEADER_LENGTH + 65535

end Dlt
