/-
  The blocking and the asynchronous message readers (src/read.rs, src/stream.rs).

  The byte source behind the `BufReader` is abstract: the bytes it will deliver and a finite
  *schedule* of what its next `read` / `poll_read` calls do.  A `chunk k` step delivers
  between 1 and `k` bytes (never more than are left or than the caller's buffer holds); a
  `stall` step is `ErrorKind::Interrupted` for the blocking source and `Poll::Pending` for
  the asynchronous one.  When the schedule is used up the source delivers whatever is asked.
  `std::io::BufReader` / `futures::io::BufReader` are modelled by their internal buffer:
  a read with an empty buffer refills it from the source with one inner read (the capacity,
  10 MiB, exceeds every message, so the inner read is never limited by it), then serves the
  caller from the buffer.  `read_exact` is the retry loop of std (`default_read_exact`) and
  the poll loop of futures-util 0.3 (`ReadExact`), written out.
-/
import DltVerif.Model.Decode

namespace Dlt

/-- `DEFAULT_MESSAGE_MAX_LEN = STORAGE_HEADER_LENGTH + u16::MAX` -/
def DEFAULT_MESSAGE_MAX_LEN : Nat := STORAGE_HEADER_LENGTH + 65535

inductive Step where
  | chunk (k : Nat)
  | stall
  deriving DecidableEq, Repr

/-- buffered source: `buf` is what the `BufReader` holds, `data` what the source still has -/
structure Src where
  buf : Bytes
  data : Bytes
  sched : List Step
  deriving Repr

def Src.remaining (s : Src) : Nat := s.buf.length + s.data.length

inductive ReadOut where
  /-- `Ok(n)` with the `n` bytes copied into the caller's buffer (`n = 0`: end of data) -/
  | bytes (b : Bytes)
  /-- `Err(Interrupted)` / `Poll::Pending` -/
  | stall
  deriving Repr

/-- `BufReader::read(&mut dst[..want])` with `want > 0` -/
def Src.read (s : Src) (want : Nat) : Src × ReadOut :=
  if s.buf ≠ [] then
    ({ s with buf := s.buf.drop want }, .bytes (s.buf.take want))
  else
    match s.sched with
    | [] =>
      ({ buf := s.data.drop want, data := [], sched := [] }, .bytes (s.data.take want))
    | .stall :: rest => ({ s with sched := rest }, .stall)
    | .chunk k :: rest =>
      let got := s.data.take (max k 1)
      ({ buf := got.drop want, data := s.data.drop (max k 1), sched := rest },
       .bytes (got.take want))

/-- progress measure of the read loops -/
def Src.measure (s : Src) : Nat := s.sched.length + s.buf.length + s.data.length

/-- every read makes progress: a schedule step is used up, or bytes leave the buffer or
    the source, or the read reports end of data -/
theorem Src.read_progress (s : Src) (want : Nat) (hw : want ≠ 0) :
    (s.read want).1.measure < s.measure ∨ ∃ s', s.read want = (s', .bytes []) := by
  unfold Src.read Src.measure
  split
  · rename_i hb
    left
    have : 0 < s.buf.length := List.length_pos_iff.mpr hb
    simp only [List.length_drop]
    omega
  · split
    · rename_i hs
      by_cases hd : s.data = []
      · right
        exact ⟨{ buf := [], data := [], sched := [] }, by simp [hd]⟩
      · left
        have : 0 < s.data.length := List.length_pos_iff.mpr hd
        simp_all only [List.length_drop, List.length_nil]
        omega
    · rename_i hs
      left
      simp [hs]
    · rename_i k rest hs
      left
      simp only [hs, List.length_drop, List.length_take, List.length_cons]
      omega

theorem Src.read_stall_sched (s : Src) (want : Nat) (s' : Src) (h : s.read want = (s', .stall)) :
    s'.sched.length < s.sched.length := by
  unfold Src.read at h
  split at h
  · simp at h
  · split at h
    · simp at h
    · rename_i hs
      simp only [Prod.mk.injEq] at h
      obtain ⟨rfl, _⟩ := h
      simp [hs]
    · simp at h

theorem Src.read_sched_le (s : Src) (want : Nat) : (s.read want).1.sched.length ≤ s.sched.length := by
  unfold Src.read
  split
  · simp
  · split <;> simp_all

/-- outcome of `read_exact` -/
inductive Exact where
  | ok (b : Bytes)
  /-- `ErrorKind::UnexpectedEof` -/
  | eof
  deriving DecidableEq, Repr

/-- `default_read_exact`: loop over `read`, retrying on `Interrupted`, until the buffer is
    full or a read returns 0.  `acc` is what has been copied so far. -/
def readExactLoop (s : Src) (acc : Bytes) (want : Nat) : Src × Exact :=
  if want = 0 then (s, .ok acc)
  else
    match h : s.read want with
    | (s', .stall) => readExactLoop s' acc want
    | (s', .bytes b) =>
      if b = [] then (s', .eof)
      else readExactLoop s' (acc ++ b) (want - b.length)
termination_by s.measure
decreasing_by
  · have := Src.read_progress s want (by assumption)
    rw [h] at this
    rcases this with h1 | ⟨s'', h2⟩
    · exact h1
    · simp at h2
  · have := Src.read_progress s want (by assumption)
    rw [h] at this
    rcases this with h1 | ⟨s'', h2⟩
    · exact h1
    · simp only [Prod.mk.injEq, ReadOut.bytes.injEq] at h2
      exact absurd h2.2 (by assumption)

/-- `BufReader::read_exact(&mut dst[..n])` -/
def readExact (s : Src) (n : Nat) : Src × Exact := readExactLoop s [] n

/-- outcome of `next_message_slice` -/
inductive SliceRes where
  /-- `Ok(&buffer[..total_len])` -/
  | slice (b : Bytes)
  /-- `Ok(&[])`: no more message could be read -/
  | empty
  /-- `Err(ParsingHickup)`: declared length below the standard header length -/
  | hickup
  /-- `Err(Unrecoverable)`: I/O error (unexpected end of file) while reading the body -/
  | ioError
  | panic
  deriving DecidableEq, Repr

/-- `next_message_slice` over a given `read_exact` -/
def nextMessageSliceWith (rx : Src → Nat → Src × Exact) (w : Bool) (s : Src) : Src × SliceRes :=
  let storageLen := if w then STORAGE_HEADER_LENGTH else 0
  let headerLen := storageLen + HEADER_MIN_LENGTH
  match rx s headerLen with
  | (s1, .eof) => (s1, .empty)
  | (s1, .ok hdr) =>
    match parseLength (hdr.drop storageLen) with
    | .ok messageLen _ =>
      if messageLen < HEADER_MIN_LENGTH then (s1, .hickup)
      else
        let totalLen := storageLen + messageLen
        if totalLen < headerLen ∨ DEFAULT_MESSAGE_MAX_LEN < totalLen then (s1, .panic)
        else
          match rx s1 (totalLen - headerLen) with
          | (s2, .eof) => (s2, .ioError)
          | (s2, .ok body) => (s2, .slice (hdr ++ body))
    | .panic => (s1, .panic)
    | _ => (s1, .hickup)

/-- one delivered item of `read_message` -/
inductive Delivered where
  | parsed (m : ParsedMessage)
  | error (e : DltError)
  deriving DecidableEq, Repr

/-- `read_message`: `none` = `Ok(None)` (end of stream) -/
def readMessageWith (rx : Src → Nat → Src × Exact) (w : Bool) (f : Option ProcessedFilter)
    (s : Src) : Src × Option Delivered :=
  match nextMessageSliceWith rx w s with
  | (s', .empty) => (s', none)
  | (s', .hickup) => (s', some (.error .hickup))
  | (s', .ioError) => (s', some (.error .unrecoverable))
  | (s', .panic) => (s', some (.error .panic))
  | (s', .slice b) =>
    match dltMessage b f w with
    | .ok (pm, _) => (s', some (.parsed pm))
    | .error e => (s', some (.error e))

/-- the client loop: call `read_message` until it reports end of stream (errors are
    delivered and reading continues); `fuel` bounds the number of calls -/
def readAllWith (rx : Src → Nat → Src × Exact) (w : Bool) (f : Option ProcessedFilter) :
    Nat → Src → List Delivered
  | 0, _ => []
  | fuel + 1, s =>
    match readMessageWith rx w f s with
    | (_, none) => []
    | (s', some d) => d :: readAllWith rx w f fuel s'

/-- the blocking reader on the bytes `bs` with source schedule `sched` -/
def readAll (sched : List Step) (w : Bool) (f : Option ProcessedFilter) (bs : Bytes) :
    List Delivered :=
  readAllWith readExact w f (bs.length + 1) { buf := [], data := bs, sched := sched }

-- asynchronous ------------------------------------------------------------------

inductive Poll (α : Type) where
  | ready (v : α)
  | pending
  deriving Repr

/-- state of a `ReadExact` future: what it copied so far and how much it still wants -/
structure ReadExactFut where
  acc : Bytes
  want : Nat
  deriving Repr

/-- `<ReadExact as Future>::poll`: loop over `poll_read` while the buffer is not full;
    `Pending` returns to the executor keeping the progress made -/
def ReadExactFut.poll (fut : ReadExactFut) (s : Src) : Src × ReadExactFut × Poll Exact :=
  if fut.want = 0 then (s, fut, .ready (.ok fut.acc))
  else
    match h : s.read fut.want with
    | (s', .stall) => (s', fut, .pending)
    | (s', .bytes b) =>
      if b = [] then (s', fut, .ready .eof)
      else ReadExactFut.poll { acc := fut.acc ++ b, want := fut.want - b.length } s'
termination_by s.measure
decreasing_by
  have := Src.read_progress s fut.want (by assumption)
  rw [h] at this
  rcases this with h1 | ⟨s'', h2⟩
  · exact h1
  · simp only [Prod.mk.injEq, ReadOut.bytes.injEq] at h2
    exact absurd h2.2 (by assumption)

/-- the executor: poll the future again after every `Pending` (the source woke it).
    Every `Pending` uses up a schedule step, so `sched.length + 1` polls always suffice
    (`fuel` exhausted is reported as end of file; Props/C08 shows it never happens). -/
def blockOnReadExact : Nat → ReadExactFut → Src → Src × Exact
  | 0, _, s => (s, .eof)
  | fuel + 1, fut, s =>
    match fut.poll s with
    | (s', _, .ready r) => (s', r)
    | (s', fut', .pending) => blockOnReadExact fuel fut' s'

/-- `AsyncReadExt::read_exact(&mut dst[..n]).await` -/
def readExactAsync (s : Src) (n : Nat) : Src × Exact :=
  blockOnReadExact (s.sched.length + 1) { acc := [], want := n } s

/-- the asynchronous reader on the bytes `bs` with source schedule `sched` -/
def readAllAsync (sched : List Step) (w : Bool) (f : Option ProcessedFilter) (bs : Bytes) :
    List Delivered :=
  readAllWith readExactAsync w f (bs.length + 1) { buf := [], data := bs, sched := sched }

end Dlt
