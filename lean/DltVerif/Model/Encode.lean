/-
  The writer: `Message::as_bytes` and everything below it (src/dlt.rs), plus
  `Argument::len`, `Message::new`, `Message::byte_len`, `add_storage_header`.

  Arithmetic that Rust performs on `u16` (`len as u16 + 1`, `overall_length`) is
  modelled with its wrapping result, and the conditions under which an
  overflow-checked build panics instead are collected in the `*Panics`
  predicates; "never panics" statements are statements about those predicates.
-/
import DltVerif.Model.Bits

namespace Dlt

/-- `x as u16` -/
@[inline] def asU16 (n : Nat) : Nat := n % 65536

/-- `len as u16 + 1` with wrapping result -/
@[inline] def lenPlus1 (len : Nat) : Nat := (asU16 len + 1) % 65536

/-- does `len as u16 + 1` overflow? -/
@[inline] def lenPlus1Overflows (len : Nat) : Bool := asU16 len == 65535

/-- `BytesMutExt::put_zero_terminated_string(s, max)`: the whole string, then NUL padding -/
def putZeroTerminatedString (s : Bytes) (max : Nat) : Bytes :=
  s ++ List.replicate (max - s.length) 0#8

/-- `StorageHeader::as_bytes` -/
def StorageHeader.asBytes (h : StorageHeader) : Bytes :=
  DLT_PATTERN
    ++ bytesLE 4 h.timestamp.seconds.toNat
    ++ bytesLE 4 h.timestamp.microseconds.toNat
    ++ putZeroTerminatedString h.ecuId 4

/-- `StandardHeader::overall_length` as the mathematical sum -/
def StandardHeader.overallLengthNat (h : StandardHeader) : Nat :=
  HEADER_MIN_LENGTH
    + (if h.ecuId.isSome then 4 else 0)
    + (if h.sessionId.isSome then 4 else 0)
    + (if h.timestamp.isSome then 4 else 0)
    + (if h.hasExtendedHeader then EXTENDED_HEADER_LENGTH else 0)
    + h.payloadLength.toNat

/-- `StandardHeader::overall_length` (`u16`, wrapping result) -/
def StandardHeader.overallLength (h : StandardHeader) : Nat := asU16 h.overallLengthNat

/-- the `u16` additions in `overall_length` overflow -/
def StandardHeader.overallLengthPanics (h : StandardHeader) : Bool := h.overallLengthNat > 65535

/-- `StandardHeader::as_bytes` -/
def StandardHeader.asBytes (h : StandardHeader) : Bytes :=
  [h.headerTypeByte, h.messageCounter]
    ++ bytesBE 2 h.overallLength
    ++ (match h.ecuId with | some id => putZeroTerminatedString id 4 | none => [])
    ++ (match h.sessionId with | some v => bytesBE 4 v.toNat | none => [])
    ++ (match h.timestamp with | some v => bytesBE 4 v.toNat | none => [])

/-- `ExtendedHeader::as_bytes` -/
def ExtendedHeader.asBytes (h : ExtendedHeader) : Bytes :=
  [h.msin, h.argumentCount]
    ++ putZeroTerminatedString h.applicationId 4
    ++ putZeroTerminatedString h.contextId 4

/-- `TypeInfo::as_bytes::<T>` -/
def TypeInfo.asBytes (e : Endian) (t : TypeInfo) : Bytes := e.bytes 4 t.toU32.toNat

def FixedPointValue.width : FixedPointValue → Nat
  | .i32 _ => 4
  | .i64 _ => 8

/-- `mut_buf_with_typeinfo_name`: the name is written whenever it is present -/
def bufTypeInfoName (e : Endian) (info : TypeInfo) (name : Option Bytes) : Bytes :=
  info.asBytes e
    ++ (match name with
        | some n => e.bytes 2 (lenPlus1 n.length) ++ n ++ [0#8]
        | none => [])

/-- `mut_buf_with_typeinfo_name_unit` -/
def bufTypeInfoNameUnit (e : Endian) (info : TypeInfo) (name unit : Option Bytes)
    (fp : Option FixedPoint) : Bytes :=
  info.asBytes e
    ++ (if info.hasVariableInfo then
          (match name with | some n => e.bytes 2 (lenPlus1 n.length) | none => e.bytes 2 1)
          ++ (match unit with | some u => e.bytes 2 (lenPlus1 u.length) | none => e.bytes 2 1)
          ++ (match name with | some n => n ++ [0#8] | none => [0#8])
          ++ (match unit with | some u => u ++ [0#8] | none => [0#8])
        else [])
    ++ (match fp with
        | some fp =>
          e.bytes 4 fp.quantization.toNat
            ++ (match fp.offset with
                | .i32 v => e.bytes 4 v.toNat
                | .i64 v => e.bytes 8 v.toNat)
        | none => [])

/-- `put_unsigned_value` -/
def putUnsignedValue (e : Endian) : Value → Bytes
  | .u8 v => [v]
  | .u16 v => e.bytes 2 v.toNat
  | .u32 v => e.bytes 4 v.toNat
  | .u64 v => e.bytes 8 v.toNat
  | .u128 v => e.bytes 16 v.toNat
  | _ => []

/-- `put_signed_value` -/
def putSignedValue (e : Endian) : Value → Bytes
  | .i8 v => [v]
  | .i16 v => e.bytes 2 v.toNat
  | .i32 v => e.bytes 4 v.toNat
  | .i64 v => e.bytes 8 v.toNat
  | .i128 v => e.bytes 16 v.toNat
  | _ => []

/-- the local `write_value` of the float branch -/
def putFloatValue (e : Endian) : Value → Bytes
  | .f32 v => e.bytes 4 v.toNat
  | .f64 v => e.bytes 8 v.toNat
  | _ => []

/-- `Argument::as_bytes::<T>` -/
def Argument.asBytes (e : Endian) (a : Argument) : Bytes :=
  match a.typeInfo.kind with
  | .bool =>
    bufTypeInfoName e a.typeInfo a.name
      ++ [match a.value with | .bool x => x | _ => 0#8]
  | .signed _ | .signedFixedPoint _ =>
    bufTypeInfoNameUnit e a.typeInfo a.name a.unit a.fixedPoint ++ putSignedValue e a.value
  | .unsigned _ | .unsignedFixedPoint _ =>
    bufTypeInfoNameUnit e a.typeInfo a.name a.unit a.fixedPoint ++ putUnsignedValue e a.value
  | .float _ =>
    bufTypeInfoNameUnit e a.typeInfo a.name a.unit a.fixedPoint ++ putFloatValue e a.value
  | .stringType =>
    match a.typeInfo.hasVariableInfo, a.name, a.value with
    | true, some n, .stringVal s =>
      a.typeInfo.asBytes e ++ e.bytes 2 (lenPlus1 s.length) ++ e.bytes 2 (lenPlus1 n.length)
        ++ n ++ [0#8] ++ s ++ [0#8]
    | false, none, .stringVal s =>
      a.typeInfo.asBytes e ++ e.bytes 2 (lenPlus1 s.length) ++ s ++ [0#8]
    | _, _, _ => []
  | .raw =>
    match a.typeInfo.hasVariableInfo, a.name, a.value with
    | true, some n, .raw b =>
      a.typeInfo.asBytes e ++ e.bytes 2 (asU16 b.length) ++ e.bytes 2 (lenPlus1 n.length)
        ++ n ++ [0#8] ++ b
    | false, none, .raw b =>
      a.typeInfo.asBytes e ++ e.bytes 2 (asU16 b.length) ++ b
    | _, _, _ => []

/-- does `Argument::as_bytes` hit an overflowing `len as u16 + 1`? -/
def Argument.asBytesPanics (a : Argument) : Bool :=
  let nameOv := match a.name with | some n => lenPlus1Overflows n.length | none => false
  let unitOv := match a.unit with | some u => lenPlus1Overflows u.length | none => false
  match a.typeInfo.kind with
  | .bool => nameOv
  | .signed _ | .signedFixedPoint _ | .unsigned _ | .unsignedFixedPoint _ | .float _ =>
    a.typeInfo.hasVariableInfo && (nameOv || unitOv)
  | .stringType =>
    match a.typeInfo.hasVariableInfo, a.name, a.value with
    | true, some n, .stringVal s => lenPlus1Overflows n.length || lenPlus1Overflows s.length
    | false, none, .stringVal s => lenPlus1Overflows s.length
    | _, _, _ => false
  | .raw =>
    match a.typeInfo.hasVariableInfo, a.name, a.value with
    | true, some n, .raw _ => lenPlus1Overflows n.length
    | _, _, _ => false

/-- `Argument::fixed_point_capacity` -/
def Argument.fixedPointCapacity (a : Argument) (w : FloatWidth) : Nat :=
  w.bytes + (match a.fixedPoint with | some fp => 4 + fp.offset.width | none => 0)

/-- `Argument::len` -/
def Argument.len (a : Argument) : Nat :=
  let nameSpace := match a.name with | some n => 2 + n.length + 1 | none => 0
  let unitSpace := match a.unit with | some u => 2 + u.length + 1 | none => 0
  let withoutTypeInfo :=
    match a.typeInfo.kind with
    | .bool => nameSpace + 1
    | .signed l => nameSpace + unitSpace + l.bytes
    | .unsigned l => nameSpace + unitSpace + l.bytes
    | .signedFixedPoint w => nameSpace + unitSpace + a.fixedPointCapacity w
    | .unsignedFixedPoint w => nameSpace + unitSpace + a.fixedPointCapacity w
    | .float w => nameSpace + unitSpace + w.bytes
    | .stringType =>
      2 + nameSpace + (match a.value with | .stringVal s => s.length + 1 | _ => 0)
    | .raw =>
      2 + nameSpace + (match a.value with | .raw b => b.length | _ => 0)
  withoutTypeInfo + TYPE_INFO_LENGTH

/-- `Argument::valid` -/
def Argument.valid (a : Argument) : Bool :=
  match a.typeInfo.kind with
  | .bool => (match a.value with | .bool _ => true | _ => false)
  | .float .w32 => (match a.value with | .f32 _ => true | _ => false)
  | .float .w64 => (match a.value with | .f64 _ => true | _ => false)
  | _ => true

/-- `PayloadContent::as_bytes::<T>` -/
def PayloadContent.asBytes (e : Endian) : PayloadContent → Bytes
  | .verbose args => (args.map (Argument.asBytes e)).flatten
  | .nonVerbose id payload => e.bytes 4 id.toNat ++ payload
  | .controlMsg t payload => t.value :: payload
  | .networkTrace slices =>
    (slices.map fun s => e.bytes 4 TYPE_INFO_RAW_FLAG.toNat ++ e.bytes 2 (asU16 s.length) ++ s).flatten

def PayloadContent.asBytesPanics : PayloadContent → Bool
  | .verbose args => args.any Argument.asBytesPanics
  | _ => false

/-- `Message::as_bytes` -/
def Message.asBytes (m : Message) : Bytes :=
  (match m.storageHeader with | some sh => sh.asBytes | none => [])
    ++ m.header.asBytes
    ++ (match m.extendedHeader with | some eh => eh.asBytes | none => [])
    ++ m.payload.asBytes m.header.endianness

/-- would `Message::as_bytes` panic in an overflow-checked build? -/
def Message.asBytesPanics (m : Message) : Bool :=
  m.header.overallLengthPanics || m.payload.asBytesPanics

/-- `Message::byte_len` (wrapping result; panics exactly when `overallLengthPanics`) -/
def Message.byteLen (m : Message) : Nat := m.header.overallLength

/-- `PayloadContent::arg_count` -/
def PayloadContent.argCount : PayloadContent → BitVec 8
  | .verbose args => BitVec.ofNat 8 args.length
  | .networkTrace slices => BitVec.ofNat 8 slices.length
  | _ => 0#8

/-- `PayloadContent::is_verbose` -/
def PayloadContent.isVerbose : PayloadContent → Bool
  | .verbose _ => true
  | .networkTrace _ => true
  | _ => false

structure ExtendedHeaderConfig where
  messageType : MessageType
  appId : Bytes
  contextId : Bytes
  deriving DecidableEq, Repr, Inhabited

structure MessageConfig where
  version : BitVec 8
  counter : BitVec 8
  endianness : Endian
  ecuId : Option Bytes
  sessionId : Option (BitVec 32)
  timestamp : Option (BitVec 32)
  payload : PayloadContent
  extendedHeaderInfo : Option ExtendedHeaderConfig
  deriving DecidableEq, Repr, Inhabited

/-- `Message::new` (`payload length as u16` truncates) -/
def Message.new (conf : MessageConfig) (sh : Option StorageHeader) : Message :=
  { header := {
      version := conf.version
      endianness := conf.endianness
      messageCounter := conf.counter
      ecuId := conf.ecuId
      sessionId := conf.sessionId
      timestamp := conf.timestamp
      hasExtendedHeader := conf.extendedHeaderInfo.isSome
      payloadLength := BitVec.ofNat 16 (conf.payload.asBytes conf.endianness).length }
    extendedHeader := conf.extendedHeaderInfo.map fun x => {
      verbose := conf.payload.isVerbose
      argumentCount := conf.payload.argCount
      messageType := x.messageType
      applicationId := x.appId
      contextId := x.contextId }
    payload := conf.payload
    storageHeader := sh }

/-- `Message::add_storage_header(Some(ts))` -/
def Message.addStorageHeader (m : Message) (ts : DltTimeStamp) : Message :=
  { m with storageHeader := some { timestamp := ts, ecuId := m.header.ecuId.getD DEFAULT_ECU_ID } }

end Dlt
