/-
  `ProcessedDltFilterConfig::from(DltFilterConfig)` (src/filtering.rs), both the owned and
  the borrowed conversion (they compute the same value): the minimum level goes through
  `u8_to_log_level`, the id vectors become `HashSet`s (here: duplicate-free lists; only
  membership and cardinality are observable).
-/
import DltVerif.Model.Decode
import DltVerif.Spec.Filter

namespace Dlt

/-- `HashSet::from_iter(vec)` as a duplicate-free list (first occurrences, in order) -/
def dedupIds (l : List Bytes) : List Bytes :=
  l.foldl (fun acc x => if acc.contains x then acc else acc ++ [x]) []

def processFilter (cfg : Spec.FilterConfig) : ProcessedFilter :=
  { minLogLevel := cfg.minLogLevel.bind u8ToLogLevel
    appIds := cfg.appIds.map dedupIds
    ecuIds := cfg.ecuIds.map dedupIds
    contextIds := cfg.contextIds.map dedupIds
    appIdCount := cfg.appIdCount
    contextIdCount := cfg.contextIdCount }

end Dlt
