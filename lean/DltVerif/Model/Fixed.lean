/-
  `Argument::to_real_value` / `log_v` / `value_as_f64` (src/dlt.rs).

  IEEE-754 arithmetic is modelled exactly with integers (no use of Lean's opaque
  `Float`): integer -> f64 conversion and the f64 product round to nearest, ties
  to even, on a 53-bit significand; `as u64` is Rust's saturating cast.  The
  product of an integer of magnitude <= 2^64 and an `f32` lies in
  {0} ∪ [2^-149, 2^192], well inside f64's normal range, so no f64 subnormal or
  overflow case arises.
-/
import DltVerif.Model.Types

namespace Dlt

/-- a double-precision value as the model needs it -/
inductive F64 where
  | nan
  | inf (neg : Bool)
  /-- `(-1)^neg * m * 2^e`, `m < 2^53 + 1`; `m = 0` is a (signed) zero -/
  | fin (neg : Bool) (m : Nat) (e : Int)
  deriving DecidableEq, Repr

/-- number of bits of `n` -/
def bitLen (n : Nat) : Nat := if n = 0 then 0 else Nat.log2 n + 1

/-- round `m * 2^e` to a 53-bit significand, nearest, ties to even -/
def round53 (m : Nat) (e : Int) : Nat × Int :=
  let l := bitLen m
  if l ≤ 53 then (m, e)
  else
    let k := l - 53
    let q := m >>> k
    let r := m % 2 ^ k
    let half := 2 ^ (k - 1)
    let q := if r > half ∨ (r = half ∧ q % 2 = 1) then q + 1 else q
    (q, e + k)

/-- `n as f64` for an integer (`i8..i64`, `u8..u64`) -/
def intToF64 (v : Int) : F64 :=
  let (m, e) := round53 v.natAbs 0
  .fin (v < 0) m e

/-- `q as f64` for an `f32` given by its bits (exact) -/
def f32ToF64 (bits : BitVec 32) : F64 :=
  let neg := bits.getLsbD 31
  let ex := (bits.toNat >>> 23) % 256
  let frac := bits.toNat % 2 ^ 23
  if ex = 255 then (if frac = 0 then .inf neg else .nan)
  else if ex = 0 then .fin neg frac (-149)
  else .fin neg (2 ^ 23 + frac) ((ex : Int) - 150)

/-- IEEE product -/
def F64.mul : F64 → F64 → F64
  | .nan, _ => .nan
  | _, .nan => .nan
  | .inf n1, .inf n2 => .inf (n1 != n2)
  | .inf n1, .fin n2 m _ => if m = 0 then .nan else .inf (n1 != n2)
  | .fin n1 m _, .inf n2 => if m = 0 then .nan else .inf (n1 != n2)
  | .fin n1 m1 e1, .fin n2 m2 e2 =>
    let (m, e) := round53 (m1 * m2) (e1 + e2)
    .fin (n1 != n2) m e

/-- `x as u64`: NaN and negatives give 0, overflow saturates, otherwise truncation -/
def F64.toU64 : F64 → Nat
  | .nan => 0
  | .inf neg => if neg then 0 else 2 ^ 64 - 1
  | .fin neg m e =>
    if neg then 0
    else
      let t := if e ≥ 0 then m <<< e.toNat else m >>> (-e).toNat
      if t ≥ 2 ^ 64 then 2 ^ 64 - 1 else t

/-- `Argument::value_as_f64`: the integer carried by an 8..64-bit value -/
def Value.asInt? : Value → Option Int
  | .i8 v => some v.toInt
  | .i16 v => some v.toInt
  | .i32 v => some v.toInt
  | .i64 v => some v.toInt
  | .u8 v => some v.toNat
  | .u16 v => some v.toNat
  | .u32 v => some v.toNat
  | .u64 v => some v.toNat
  | _ => none

/-- `*v as u64` for the `i32` / `i64` offset: sign extension -/
def FixedPointValue.asU64 : FixedPointValue → Nat
  | .i32 v => (v.signExtend 64).toNat
  | .i64 v => v.toNat

def FixedPointValue.toInt : FixedPointValue → Int
  | .i32 v => v.toInt
  | .i64 v => v.toInt

/-- `(value * quantization as f64) as u64` -/
def truncatedProduct (v : Int) (q : BitVec 32) : Nat :=
  ((intToF64 v).mul (f32ToF64 q)).toU64

/-- `Argument::log_v` (repaired: `wrapping_add`) -/
def Argument.logV (a : Argument) : Option Nat :=
  match a.fixedPoint with
  | some fp =>
    match a.value.asInt? with
    | some v => some ((truncatedProduct v fp.quantization + fp.offset.asU64) % 2 ^ 64)
    | none => none
  | none => none

/-- `Argument::to_real_value` -/
def Argument.toRealValue (a : Argument) : Option Nat :=
  match a.typeInfo.kind, a.fixedPoint with
  | .signedFixedPoint _, some _ => a.logV
  | .unsignedFixedPoint _, some _ => a.logV
  | _, _ => none

end Dlt
