/-
  `collect_statistics`, `StatisticInfoCollector`, `StatisticInfo::merge` (src/statistics.rs).
  The `FxHashMap<String, LevelDistribution>` is an association list in insertion order
  (`get_mut` / `insert` semantics); iteration order is never observable after the
  canonical sorting of the output.  Counters are `Nat` (no `usize` overflow).
-/
import DltVerif.Model.Reader

namespace Dlt

structure LevelDistribution where
  nonLog : Nat := 0
  logFatal : Nat := 0
  logError : Nat := 0
  logWarning : Nat := 0
  logInfo : Nat := 0
  logDebug : Nat := 0
  logVerbose : Nat := 0
  logInvalid : Nat := 0
  deriving DecidableEq, Repr, Inhabited

/-- `LevelDistribution::new(level)` -/
def LevelDistribution.new : Option LogLevel → LevelDistribution
  | none => { nonLog := 1 }
  | some .fatal => { logFatal := 1 }
  | some .error => { logError := 1 }
  | some .warn => { logWarning := 1 }
  | some .info => { logInfo := 1 }
  | some .debug => { logDebug := 1 }
  | some .verbose => { logVerbose := 1 }
  | some (.invalid _) => { logInvalid := 1 }

/-- the increment performed by `add_for_level` on an existing entry -/
def LevelDistribution.bump (n : LevelDistribution) : Option LogLevel → LevelDistribution
  | some .fatal => { n with logFatal := n.logFatal + 1 }
  | some .error => { n with logError := n.logError + 1 }
  | some .warn => { n with logWarning := n.logWarning + 1 }
  | some .info => { n with logInfo := n.logInfo + 1 }
  | some .debug => { n with logDebug := n.logDebug + 1 }
  | some .verbose => { n with logVerbose := n.logVerbose + 1 }
  | some (.invalid _) => { n with logInvalid := n.logInvalid + 1 }
  | none => { n with nonLog := n.nonLog + 1 }

/-- `LevelDistribution::merge` -/
def LevelDistribution.merge (a b : LevelDistribution) : LevelDistribution :=
  { nonLog := a.nonLog + b.nonLog
    logFatal := a.logFatal + b.logFatal
    logError := a.logError + b.logError
    logWarning := a.logWarning + b.logWarning
    logInfo := a.logInfo + b.logInfo
    logDebug := a.logDebug + b.logDebug
    logVerbose := a.logVerbose + b.logVerbose
    logInvalid := a.logInvalid + b.logInvalid }

abbrev IdMap := List (Bytes × LevelDistribution)

/-- `add_for_level(level, ids, id)` -/
def addForLevel (level : Option LogLevel) : IdMap → Bytes → IdMap
  | [], id => [(id, LevelDistribution.new level)]
  | (k, n) :: rest, id =>
    if k = id then (k, n.bump level) :: rest else (k, n) :: addForLevel level rest id

/-- what `collect_statistics` hands to the collector for one message (the parts the
    standard collector looks at) -/
structure Statistic where
  logLevel : Option LogLevel
  ecuId : Option Bytes
  /-- application id and context id of the extended header, if there is one -/
  ext : Option (Bytes × Bytes)
  isVerbose : Bool
  deriving DecidableEq, Repr

structure Collector where
  appIds : IdMap := []
  contextIds : IdMap := []
  ecuIds : IdMap := []
  containedNonVerbose : Bool := false
  deriving Repr

/-- "NONE" -/
def NONE_ID : Bytes := [0x4E#8, 0x4F#8, 0x4E#8, 0x45#8]

/-- `StatisticInfoCollector::collect_statistic` -/
def Collector.collectStatistic (c : Collector) (st : Statistic) : Collector :=
  let ecuIds := addForLevel st.logLevel c.ecuIds (st.ecuId.getD NONE_ID)
  let (appIds, contextIds) := match st.ext with
    | some (app, ctx) => (addForLevel st.logLevel c.appIds app, addForLevel st.logLevel c.contextIds ctx)
    | none => (c.appIds, c.contextIds)
  { appIds := appIds, contextIds := contextIds, ecuIds := ecuIds
    containedNonVerbose := c.containedNonVerbose || !st.isVerbose }

/-- the header-only decoding of one message slice in `collect_statistics`;
    `none` = the `?` on a header parser returned an error -/
def statisticOfSlice (w : Bool) (slice : Bytes) : Option Statistic :=
  let afterStorage : Option Bytes :=
    if w then
      match dltStorageHeader slice with
      | .ok _ rest => some rest
      | _ => none
    else some slice
  match afterStorage with
  | none => none
  | some i =>
    match dltStandardHeader i with
    | .ok h rest =>
      if h.hasExtendedHeader then
        match dltExtendedHeader rest with
        | .ok eh _ =>
          some { logLevel := (match eh.messageType with | .log l => some l | _ => none)
                 ecuId := h.ecuId
                 ext := some (eh.applicationId, eh.contextId)
                 isVerbose := eh.verbose }
        | _ => none
      else some { logLevel := none, ecuId := h.ecuId, ext := none, isVerbose := false }
    | _ => none

/-- `collect_statistics(reader, collector)`: the visited statistics, or `none` on error;
    `fuel` bounds the number of slices -/
def visitWith (rx : Src → Nat → Src × Exact) (w : Bool) : Nat → Src → Option (List Statistic)
  | 0, _ => some []
  | fuel + 1, s =>
    match nextMessageSliceWith rx w s with
    | (_, .empty) => some []
    | (s', .slice b) =>
      match statisticOfSlice w b with
      | none => none
      | some st =>
        match visitWith rx w fuel s' with
        | none => none
        | some rest => some (st :: rest)
    | (_, _) => none

def visit (w : Bool) (bs : Bytes) : Option (List Statistic) :=
  visitWith readExact w (bs.length + 1) { buf := [], data := bs, sched := [] }

/-- `StatisticInfo` -/
structure StatisticInfo where
  appIds : IdMap := []
  contextIds : IdMap := []
  ecuIds : IdMap := []
  containedNonVerbose : Bool := false
  deriving Repr

/-- run the standard collector over the visited statistics and `collect()` -/
def collectInfo (sts : List Statistic) : StatisticInfo :=
  let c := sts.foldl Collector.collectStatistic {}
  { appIds := c.appIds, contextIds := c.contextIds, ecuIds := c.ecuIds
    containedNonVerbose := c.containedNonVerbose }

/-- `StatisticInfo::merge_levels(owner, incomes)` -/
def mergeLevels (owner : IdMap) : IdMap → IdMap
  | [] => owner
  | (id, income) :: rest =>
    let owner' :=
      if owner.any (fun e => e.1 = id) then
        owner.map (fun e => if e.1 = id then (e.1, e.2.merge income) else e)
      else owner ++ [(id, income)]
    mergeLevels owner' rest

/-- `StatisticInfo::merge` -/
def StatisticInfo.merge (a b : StatisticInfo) : StatisticInfo :=
  { appIds := mergeLevels a.appIds b.appIds
    contextIds := mergeLevels a.contextIds b.contextIds
    ecuIds := mergeLevels a.ecuIds b.ecuIds
    containedNonVerbose := a.containedNonVerbose || b.containedNonVerbose }

end Dlt
