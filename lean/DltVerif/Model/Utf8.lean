/-
  UTF-8 recogniser: what `core::str::from_utf8` accepts (Unicode Table 3-7,
  "well-formed UTF-8 byte sequences") and what `Utf8Error::valid_up_to` reports.
-/
import DltVerif.Model.Bytes

namespace Dlt.Utf8

@[inline] def inR (lo hi : Nat) (b : BitVec 8) : Bool := lo ≤ b.toNat && b.toNat ≤ hi

@[inline] def cont (b : BitVec 8) : Bool := inR 0x80 0xBF b

/-- Length (1..4) of the well-formed scalar encoding at the head of the input,
    or 0 when the input does not start with one (including truncated ones). -/
def scalarLen : Bytes → Nat
  | [] => 0
  | b0 :: t =>
    if b0.toNat < 0x80 then 1
    else if inR 0xC2 0xDF b0 then
      match t with
      | b1 :: _ => if cont b1 then 2 else 0
      | _ => 0
    else if inR 0xE0 0xEF b0 then
      match t with
      | b1 :: b2 :: _ =>
        let ok1 :=
          if b0.toNat = 0xE0 then inR 0xA0 0xBF b1
          else if b0.toNat = 0xED then inR 0x80 0x9F b1
          else cont b1
        if ok1 && cont b2 then 3 else 0
      | _ => 0
    else if inR 0xF0 0xF4 b0 then
      match t with
      | b1 :: b2 :: b3 :: _ =>
        let ok1 :=
          if b0.toNat = 0xF0 then inR 0x90 0xBF b1
          else if b0.toNat = 0xF4 then inR 0x80 0x8F b1
          else cont b1
        if ok1 && cont b2 && cont b3 then 4 else 0
      | _ => 0
    else 0

theorem scalarLen_le (bs : Bytes) : scalarLen bs ≤ bs.length := by
  unfold scalarLen
  repeat' split
  all_goals simp only [List.length_cons, List.length_nil]
  all_goals first | omega | (split <;> omega)

/-- `valid_up_to`: length of the longest prefix made of complete well-formed scalars. -/
def validUpTo (bs : Bytes) : Nat :=
  if _h : scalarLen bs = 0 then 0
  else scalarLen bs + validUpTo (bs.drop (scalarLen bs))
termination_by bs.length
decreasing_by
  have := scalarLen_le bs
  simp only [List.length_drop]
  omega

/-- `str::from_utf8(bs).is_ok()` -/
def valid (bs : Bytes) : Bool := validUpTo bs == bs.length

/-- the salvage in `dlt_zero_terminated_string`: the whole input when valid,
    otherwise `split_at(valid_up_to).0` -/
def validPrefix (bs : Bytes) : Bytes := bs.take (validUpTo bs)

end Dlt.Utf8
