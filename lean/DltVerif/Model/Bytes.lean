/-
  Bytes: the byte-string vocabulary of the model.

  A Rust `&[u8]` / `Vec<u8>` is a `List (BitVec 8)`.  Fixed-width integers are
  written and read through `Nat` with explicit little- or big-endian digit lists;
  the typed layer (`BitVec n`) sits on top of these in `Nom.lean`/`Encode.lean`.

  This file is import-free (core only) so that the driver executable links.
-/

namespace Dlt

abbrev Bytes := List (BitVec 8)

/-- `k` little-endian base-256 digits of `n` (truncating, like an `as` cast). -/
def bytesLE : Nat → Nat → Bytes
  | 0, _ => []
  | k + 1, n => BitVec.ofNat 8 n :: bytesLE k (n / 256)

/-- value of a little-endian digit list -/
def fromLE : Bytes → Nat
  | [] => 0
  | b :: bs => b.toNat + 256 * fromLE bs

def bytesBE (k n : Nat) : Bytes := (bytesLE k n).reverse

def fromBE (bs : Bytes) : Nat := fromLE bs.reverse

/-- byte order of payload fields -/
inductive Endian where
  | little
  | big
  deriving DecidableEq, Repr, Inhabited

/-- `T::write_uN` of byteorder -/
def Endian.bytes (e : Endian) (k n : Nat) : Bytes :=
  match e with
  | .little => bytesLE k n
  | .big => bytesBE k n

/-- `T::read_uN` of byteorder / nom `le_uN`,`be_uN` on exactly `k` bytes -/
def Endian.value (e : Endian) (bs : Bytes) : Nat :=
  match e with
  | .little => fromLE bs
  | .big => fromBE bs

/-- first index at which `pat` occurs in `bs` (memchr::memmem contract) -/
def findPattern (pat : Bytes) : Bytes → Option Nat
  | [] => if pat.isEmpty then some 0 else none
  | b :: bs =>
    if pat.isPrefixOf (b :: bs) then some 0
    else (findPattern pat bs).map (· + 1)

/-- position of the first byte satisfying `p` (`Iterator::position`) -/
def firstIdx (p : BitVec 8 → Bool) : Bytes → Option Nat
  | [] => none
  | b :: bs => if p b then some 0 else (firstIdx p bs).map (· + 1)

/-- no NUL byte -/
def noNul (s : Bytes) : Bool := s.all (fun b => b != 0#8)

end Dlt
