/-
  The value types of src/dlt.rs.  Every Rust integer field is a `BitVec` of the
  same width, every `String` its UTF-8 bytes, every float its bit pattern, so a
  Lean value is exactly a Rust value (strings additionally need `Utf8.valid`,
  which is part of the well-formedness predicates).
-/
import DltVerif.Model.Bytes

namespace Dlt

structure DltTimeStamp where
  seconds : BitVec 32
  microseconds : BitVec 32
  deriving DecidableEq, Repr, Inhabited

structure StorageHeader where
  timestamp : DltTimeStamp
  ecuId : Bytes
  deriving DecidableEq, Repr, Inhabited

structure StandardHeader where
  version : BitVec 8
  endianness : Endian
  hasExtendedHeader : Bool
  messageCounter : BitVec 8
  ecuId : Option Bytes
  sessionId : Option (BitVec 32)
  timestamp : Option (BitVec 32)
  payloadLength : BitVec 16
  deriving DecidableEq, Repr, Inhabited

inductive LogLevel where
  | fatal | error | warn | info | debug | verbose
  | invalid (n : BitVec 8)
  deriving DecidableEq, Repr, Inhabited

inductive ApplicationTraceType where
  | variable | functionIn | functionOut | state | vfb
  | invalid (n : BitVec 8)
  deriving DecidableEq, Repr, Inhabited

inductive NetworkTraceType where
  | ipc | can | flexray | most | ethernet | someip | invalid
  | userDefined (n : BitVec 8)
  deriving DecidableEq, Repr, Inhabited

inductive ControlType where
  | request | response
  | unknown (n : BitVec 8)
  deriving DecidableEq, Repr, Inhabited

inductive MessageType where
  | log (l : LogLevel)
  | applicationTrace (t : ApplicationTraceType)
  | networkTrace (t : NetworkTraceType)
  | control (t : ControlType)
  | unknown (mstp mtin : BitVec 8)
  deriving DecidableEq, Repr, Inhabited

structure ExtendedHeader where
  verbose : Bool
  argumentCount : BitVec 8
  messageType : MessageType
  applicationId : Bytes
  contextId : Bytes
  deriving DecidableEq, Repr, Inhabited

inductive TypeLength where
  | b8 | b16 | b32 | b64 | b128
  deriving DecidableEq, Repr, Inhabited

inductive FloatWidth where
  | w32 | w64
  deriving DecidableEq, Repr, Inhabited

def TypeLength.bytes : TypeLength → Nat
  | .b8 => 1 | .b16 => 2 | .b32 => 4 | .b64 => 8 | .b128 => 16

def FloatWidth.bytes : FloatWidth → Nat
  | .w32 => 4 | .w64 => 8

/-- `float_width_to_type_length` -/
def FloatWidth.toTypeLength : FloatWidth → TypeLength
  | .w32 => .b32 | .w64 => .b64

inductive TypeInfoKind where
  | bool
  | signed (l : TypeLength)
  | signedFixedPoint (w : FloatWidth)
  | unsigned (l : TypeLength)
  | unsignedFixedPoint (w : FloatWidth)
  | float (w : FloatWidth)
  | stringType
  | raw
  deriving DecidableEq, Repr, Inhabited

inductive StringCoding where
  | ascii | utf8
  | reserved (v : BitVec 8)
  deriving DecidableEq, Repr, Inhabited

structure TypeInfo where
  kind : TypeInfoKind
  coding : StringCoding
  hasVariableInfo : Bool
  hasTraceInfo : Bool
  deriving DecidableEq, Repr, Inhabited

inductive FixedPointValue where
  | i32 (v : BitVec 32)
  | i64 (v : BitVec 64)
  deriving DecidableEq, Repr, Inhabited

structure FixedPoint where
  /-- bit pattern of the `f32` -/
  quantization : BitVec 32
  offset : FixedPointValue
  deriving DecidableEq, Repr, Inhabited

inductive Value where
  | bool (v : BitVec 8)
  | u8 (v : BitVec 8)
  | u16 (v : BitVec 16)
  | u32 (v : BitVec 32)
  | u64 (v : BitVec 64)
  | u128 (v : BitVec 128)
  | i8 (v : BitVec 8)
  | i16 (v : BitVec 16)
  | i32 (v : BitVec 32)
  | i64 (v : BitVec 64)
  | i128 (v : BitVec 128)
  /-- bit pattern -/
  | f32 (v : BitVec 32)
  /-- bit pattern -/
  | f64 (v : BitVec 64)
  | stringVal (s : Bytes)
  | raw (b : Bytes)
  deriving DecidableEq, Repr, Inhabited

structure Argument where
  typeInfo : TypeInfo
  name : Option Bytes
  unit : Option Bytes
  fixedPoint : Option FixedPoint
  value : Value
  deriving DecidableEq, Repr, Inhabited

inductive PayloadContent where
  | verbose (args : List Argument)
  | nonVerbose (id : BitVec 32) (payload : Bytes)
  | controlMsg (t : ControlType) (payload : Bytes)
  | networkTrace (slices : List Bytes)
  deriving DecidableEq, Repr, Inhabited

structure Message where
  storageHeader : Option StorageHeader
  header : StandardHeader
  extendedHeader : Option ExtendedHeader
  payload : PayloadContent
  deriving DecidableEq, Repr, Inhabited

/-- `ParsedMessage` -/
inductive ParsedMessage where
  | item (m : Message)
  | filteredOut (n : Nat)
  | invalid
  deriving DecidableEq, Repr, Inhabited

-- layout constants (src/dlt.rs); tied to the source by Props/ConstsTie
def STORAGE_HEADER_LENGTH : Nat := 16
def HEADER_MIN_LENGTH : Nat := 4
def EXTENDED_HEADER_LENGTH : Nat := 10
def TYPE_INFO_LENGTH : Nat := 4
def WITH_EXTENDED_HEADER_FLAG : BitVec 8 := 0x01#8
def BIG_ENDIAN_FLAG : BitVec 8 := 0x02#8
def WITH_ECU_ID_FLAG : BitVec 8 := 0x04#8
def WITH_SESSION_ID_FLAG : BitVec 8 := 0x08#8
def WITH_TIMESTAMP_FLAG : BitVec 8 := 0x10#8
def VERBOSE_FLAG : BitVec 8 := 0x01#8
def TYPE_INFO_BOOL_FLAG : BitVec 32 := 0x10#32
def TYPE_INFO_SINT_FLAG : BitVec 32 := 0x20#32
def TYPE_INFO_UINT_FLAG : BitVec 32 := 0x40#32
def TYPE_INFO_FLOAT_FLAG : BitVec 32 := 0x80#32
def TYPE_INFO_STRING_FLAG : BitVec 32 := 0x200#32
def TYPE_INFO_RAW_FLAG : BitVec 32 := 0x400#32
def TYPE_INFO_VARIABLE_INFO : BitVec 32 := 0x800#32
def TYPE_INFO_FIXED_POINT_FLAG : BitVec 32 := 0x1000#32
def TYPE_INFO_TRACE_INFO_FLAG : BitVec 32 := 0x2000#32
def LEVEL_FATAL : BitVec 8 := 1#8
def LEVEL_ERROR : BitVec 8 := 2#8
def LEVEL_WARN : BitVec 8 := 3#8
def LEVEL_INFO : BitVec 8 := 4#8
def LEVEL_DEBUG : BitVec 8 := 5#8
def LEVEL_VERBOSE : BitVec 8 := 6#8
def DLT_TYPE_LOG : BitVec 8 := 0#8
def DLT_TYPE_APP_TRACE : BitVec 8 := 1#8
def DLT_TYPE_NW_TRACE : BitVec 8 := 2#8
def DLT_TYPE_CONTROL : BitVec 8 := 3#8
def CTRL_TYPE_REQUEST : BitVec 8 := 1#8
def CTRL_TYPE_RESPONSE : BitVec 8 := 2#8
/-- `DLT_PATTERN` -/
def DLT_PATTERN : Bytes := [0x44#8, 0x4C#8, 0x54#8, 0x01#8]
/-- `DEFAULT_ECU_ID` = "ECU" -/
def DEFAULT_ECU_ID : Bytes := [0x45#8, 0x43#8, 0x55#8]

end Dlt
