/-
  `construct_arguments` (src/parse.rs): offset-based decoding of a non-verbose
  payload against a list of signal types.  Every slice expression of the Rust
  code is a checked `slice` here; going out of bounds is the outcome `panic`.
-/
import DltVerif.Model.Decode

namespace Dlt

inductive CRes (α : Type) where
  | ok (v : α)
  | err
  | panic
  deriving DecidableEq, Repr

/-- `&data[a..b]` -/
def slice (data : Bytes) (a b : Nat) : Option Bytes :=
  if a ≤ b ∧ b ≤ data.length then some ((data.drop a).take (b - a)) else none

/-- `&data[a..]` -/
def sliceFrom (data : Bytes) (a : Nat) : Option Bytes :=
  if a ≤ data.length then some (data.drop a) else none

/-- one iteration of the `for signal_type in pdu_signal_types` loop:
    the argument and the new offset -/
def constructOne (e : Endian) (ti : TypeInfo) (data : Bytes) (offset : Nat) :
    CRes (Argument × Nat) :=
  let mk (v : Value) (fp : Option FixedPoint) (off : Nat) : CRes (Argument × Nat) :=
    .ok ({ typeInfo := ti, name := none, unit := none, fixedPoint := fp, value := v }, off)
  match ti.kind with
  | .stringType | .raw =>
    if data.length < offset + 2 then .err
    else
      match slice data offset (offset + 2) with
      | none => .panic
      | some lb =>
        let length := e.value lb
        let offset := offset + 2
        if data.length < offset + length then .err
        else
          match slice data offset (offset + length) with
          | none => .panic
          | some body =>
            if ti.kind == .stringType then
              if Utf8.valid body then mk (.stringVal body) none (offset + length) else .err
            else mk (.raw body) none (offset + length)
  | .bool =>
    let offset := offset + 1
    if data.length < offset then .err
    else
      match data[offset - 1]? with
      | none => .panic
      | some b => mk (.bool b) none offset
  | .float w =>
    let length := w.bytes
    if data.length < offset + length then .err
    else
      match slice data offset (offset + length) with
      | none => .panic
      | some s =>
        match dltFint e w s with
        | .ok v _ => mk v none (offset + length)
        | .panic => .panic
        | _ => .err
  | .signed l =>
    let byteLength := l.bytes
    if data.length < offset + byteLength then .err
    else
      match sliceFrom data offset with
      | none => .panic
      | some s =>
        match dltSint e l s with
        | .ok v _ => mk v none (offset + byteLength)
        | .panic => .panic
        | _ => .err
  | .unsigned l =>
    let byteLength := l.bytes
    if data.length < offset + byteLength then .err
    else
      match sliceFrom data offset with
      | none => .panic
      | some s =>
        match dltUint e l s with
        | .ok v _ => mk v none (offset + byteLength)
        | .panic => .panic
        | _ => .err
  | .signedFixedPoint w =>
    let byteLength := w.bytes
    if data.length < offset + byteLength then .err
    else
      match slice data offset (offset + byteLength) with
      | none => .panic
      | some s =>
        match dltFixedPoint e w s with
        | .ok fp valueOffset =>
          (match dltSint e w.toTypeLength valueOffset with
           | .ok v _ => mk v (some fp) (offset + byteLength)
           | .panic => .panic
           | _ => .err)
        | .panic => .panic
        | _ => .err
  | .unsignedFixedPoint w =>
    let byteLength := w.bytes
    if data.length < offset + byteLength then .err
    else
      match slice data offset (offset + byteLength) with
      | none => .panic
      | some s =>
        match dltFixedPoint e w s with
        | .ok fp valueOffset =>
          (match dltUint e w.toTypeLength valueOffset with
           | .ok v _ => mk v (some fp) (offset + byteLength)
           | .panic => .panic
           | _ => .err)
        | .panic => .panic
        | _ => .err

def constructFrom (e : Endian) (data : Bytes) : List TypeInfo → Nat → CRes (List Argument)
  | [], _ => .ok []
  | ti :: tis, offset =>
    match constructOne e ti data offset with
    | .ok (a, off) =>
      (match constructFrom e data tis off with
       | .ok as => .ok (a :: as)
       | .err => .err
       | .panic => .panic)
    | .err => .err
    | .panic => .panic

/-- `construct_arguments(endianness, pdu_signal_types, data)` -/
def constructArguments (e : Endian) (types : List TypeInfo) (data : Bytes) : CRes (List Argument) :=
  constructFrom e data types 0

end Dlt
