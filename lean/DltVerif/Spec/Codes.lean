/-
  Spec: the message-info byte by weights (`MSIN = VERB + 2 MSTP + 16 MTIN`) with the named
  sub-types of the AUTOSAR standard.  Shared by C14 (complete table) and C02 (reference
  decoder).
-/
import DltVerif.Model.Types

namespace Dlt

/-- Spec: `MSIN = VERB + 2 MSTP + 16 MTIN` with the named sub-types of the standard -/
def Spec.msinType (b : BitVec 8) : MessageType :=
  let mstp := b.toNat / 2 % 8
  let mtin := b.toNat / 16
  let m8 := BitVec.ofNat 8 mtin
  match mstp with
  | 0 => .log (match mtin with
      | 1 => .fatal | 2 => .error | 3 => .warn | 4 => .info | 5 => .debug | 6 => .verbose
      | _ => .invalid m8)
  | 1 => .applicationTrace (match mtin with
      | 1 => .variable | 2 => .functionIn | 3 => .functionOut | 4 => .state | 5 => .vfb
      | _ => .invalid m8)
  | 2 => .networkTrace (match mtin with
      | 0 => .invalid | 1 => .ipc | 2 => .can | 3 => .flexray | 4 => .most | 5 => .ethernet
      | 6 => .someip | _ => .userDefined m8)
  | 3 => .control (match mtin with
      | 1 => .request | 2 => .response | _ => .unknown m8)
  | t => .unknown (BitVec.ofNat 8 t) m8


end Dlt
