/-
  Spec for C02: an independently written reference codec of the DLT message layout.

  Written from the AUTOSAR layout (PRS Log and Trace protocol), not from the crate's code:
  positions are offsets computed from HTYP and LEN (Spec/Layout.lean), bit fields are
  weights (`HTYP = UEH + 2 MSBF + 4 WEID + 8 WSID + 16 WTMS + 32 VERS`,
  `MSIN = VERB + 2 MSTP + 16 MTIN`, the type-info word of Spec/TypeInfo.lean), numbers are
  digit sums, arguments are decoded by a consumer of the remaining payload slice.

    storage header : 'D' 'L' 'T' 01 | seconds LE32 | microseconds LE32 | ECU id (4)
    standard header: HTYP | MCNT | LEN BE16 | [ECU id (4)] | [SID BE32] | [TMS BE32]
    extended header: MSIN | NOAR | APID (4) | CTID (4)
    payload        : LEN - headers bytes, fields in the byte order announced by MSBF

  The dialect real ECUs emit is accepted: ids shorter than 4 bytes padded or cut with NUL,
  any TYLE for bool / string / raw data, unused and reserved type-info bits set, an invalid
  UTF-8 tail of a text cut off.

  Text fields: the bytes before the first NUL, cut to their longest valid UTF-8 prefix
  (`Utf8.validPrefix`; that this is the longest valid prefix is C19's subject).
-/
import DltVerif.Model.Types
import DltVerif.Model.Utf8
import DltVerif.Spec.Layout
import DltVerif.Spec.TypeInfo
import DltVerif.Spec.Codes

namespace Dlt.Spec

-- numbers ----------------------------------------------------------------------------------

/-- value of a digit string, most significant digit first -/
def numBE (bs : Bytes) : Nat := bs.foldl (fun acc b => 256 * acc + b.toNat) 0

/-- value in the byte order `e` -/
def num (e : Endian) (bs : Bytes) : Nat :=
  match e with
  | .big => numBE bs
  | .little => numBE bs.reverse

/-- the `k` digits of `n`, least significant first -/
def digitsLE (k n : Nat) : Bytes := (List.range k).map fun i => BitVec.ofNat 8 (n / 256 ^ i % 256)

def digits (e : Endian) (k n : Nat) : Bytes :=
  match e with
  | .little => digitsLE k n
  | .big => (digitsLE k n).reverse

-- text fields ---------------------------------------------------------------------------------

/-- the text of a NUL-terminated / NUL-padded field -/
def fieldText (b : Bytes) : Bytes := Utf8.validPrefix (b.takeWhile (fun x => x != 0#8))

/-- an id written into its 4-byte field -/
def idField (s : Bytes) : Bytes := s ++ List.replicate (4 - s.length) 0#8

-- consumers of the payload slice ------------------------------------------------------------------

/-- a decoder consumes a prefix of the remaining bytes or fails -/
abbrev Rd (α : Type) := Bytes → Option (α × Bytes)

def Rd.andThen {α β : Type} (p : Rd α) (f : α → Rd β) : Rd β :=
  fun i => match p i with
    | some (a, r) => f a r
    | none => none

def Rd.pure {α : Type} (a : α) : Rd α := fun i => some (a, i)

def Rd.map {α β : Type} (f : α → β) (p : Rd α) : Rd β := p.andThen fun a => Rd.pure (f a)

/-- the next `k` bytes -/
def rd (k : Nat) : Rd Bytes := fun i => if k ≤ i.length then some (i.take k, i.drop k) else none

/-- a `k`-byte number in order `e` -/
def rdNum (e : Endian) (k : Nat) : Rd Nat := (rd k).map (num e)

/-- a field of `n` bytes holding a NUL-terminated text -/
def rdText (n : Nat) : Rd Bytes := (rd n).map fieldText

/-- a 16-bit length followed by that many bytes of text -/
def rdName (e : Endian) : Rd Bytes := (rdNum e 2).andThen rdText

def rdOptName (e : Endian) (present : Bool) : Rd (Option Bytes) :=
  if present then (rdName e).map some else Rd.pure none

/-- name length, unit length, name, unit -/
def rdNameUnit (e : Endian) (present : Bool) : Rd (Option Bytes × Option Bytes) :=
  if present then
    (rdNum e 2).andThen fun nl => (rdNum e 2).andThen fun ul =>
    (rdText nl).andThen fun n => (rdText ul).andThen fun u => Rd.pure (some n, some u)
  else Rd.pure (none, none)

def intValue (signed : Bool) (l : TypeLength) (n : Nat) : Value :=
  match signed, l with
  | false, .b8 => .u8 (BitVec.ofNat 8 n) | false, .b16 => .u16 (BitVec.ofNat 16 n)
  | false, .b32 => .u32 (BitVec.ofNat 32 n) | false, .b64 => .u64 (BitVec.ofNat 64 n)
  | false, .b128 => .u128 (BitVec.ofNat 128 n)
  | true, .b8 => .i8 (BitVec.ofNat 8 n) | true, .b16 => .i16 (BitVec.ofNat 16 n)
  | true, .b32 => .i32 (BitVec.ofNat 32 n) | true, .b64 => .i64 (BitVec.ofNat 64 n)
  | true, .b128 => .i128 (BitVec.ofNat 128 n)

def rdInt (e : Endian) (signed : Bool) (l : TypeLength) : Rd Value :=
  (rdNum e l.bytes).map (intValue signed l)

/-- quantization (32-bit float pattern) and offset (32 or 64 bit) -/
def rdFixedPoint (e : Endian) (w : FloatWidth) : Rd FixedPoint :=
  (rdNum e 4).andThen fun q =>
    match w with
    | .w32 => (rdNum e 4).map fun o => { quantization := BitVec.ofNat 32 q, offset := .i32 (BitVec.ofNat 32 o) }
    | .w64 => (rdNum e 8).map fun o => { quantization := BitVec.ofNat 32 q, offset := .i64 (BitVec.ofNat 64 o) }

/-- one verbose argument -/
def rdArgument (e : Endian) : Rd Argument :=
  (rdNum e 4).andThen fun w =>
    match tiDecode w with
    | none => fun _ => none
    | some ti =>
      let arg (name unit : Option Bytes) (fp : Option FixedPoint) (v : Value) : Argument :=
        { typeInfo := ti, name := name, unit := unit, fixedPoint := fp, value := v }
      match ti.kind with
      | .bool =>
        (rdOptName e ti.hasVariableInfo).andThen fun n =>
        (rd 1).map fun b => arg n none none (.bool (b.headD 0#8))
      | .signed l =>
        (rdNameUnit e ti.hasVariableInfo).andThen fun nu =>
        (rdInt e true l).map fun v => arg nu.1 nu.2 none v
      | .unsigned l =>
        (rdNameUnit e ti.hasVariableInfo).andThen fun nu =>
        (rdInt e false l).map fun v => arg nu.1 nu.2 none v
      | .signedFixedPoint w =>
        (rdNameUnit e ti.hasVariableInfo).andThen fun nu =>
        (rdFixedPoint e w).andThen fun fp =>
        (rdInt e true w.toTypeLength).map fun v => arg nu.1 nu.2 (some fp) v
      | .unsignedFixedPoint w =>
        (rdNameUnit e ti.hasVariableInfo).andThen fun nu =>
        (rdFixedPoint e w).andThen fun fp =>
        (rdInt e false w.toTypeLength).map fun v => arg nu.1 nu.2 (some fp) v
      | .float w =>
        (rdNameUnit e ti.hasVariableInfo).andThen fun nu =>
        (rdNum e w.bytes).map fun n =>
          arg nu.1 nu.2 none (match w with | .w32 => .f32 (BitVec.ofNat 32 n) | .w64 => .f64 (BitVec.ofNat 64 n))
      | .stringType =>
        (rdNum e 2).andThen fun size =>
        (rdOptName e ti.hasVariableInfo).andThen fun n =>
        (rdText size).map fun s => arg n none none (.stringVal s)
      | .raw =>
        (rdNum e 2).andThen fun size =>
        (rdOptName e ti.hasVariableInfo).andThen fun n =>
        (rd size).map fun b => arg n none none (.raw b)

def rdArguments (e : Endian) : Nat → Rd (List Argument)
  | 0 => Rd.pure []
  | n + 1 => (rdArgument e).andThen fun a => (rdArguments e n).map (a :: ·)

/-- the payload, decoded from the declared payload slice alone, given the verbose flag, the
    number of arguments and the message type announced by the extended header (absent:
    non-verbose); bytes of the slice behind the last argument are ignored -/
def decodePayloadWith (e : Endian) (verbose : Bool) (noar : Nat) (mt : Option MessageType)
    (slice : Bytes) : Option PayloadContent :=
  if verbose then
    match rdArguments e noar slice with
    | none => none
    | some (args, _) =>
      match mt with
      | some (.networkTrace _) =>
        some (.networkTrace (args.filterMap fun a => match a.value with | .raw b => some b | _ => none))
      | _ => some (.verbose args)
  else
    match mt with
    | some (.control _) =>
      match slice with
      | [] => none
      | sid :: rest =>
        some (.controlMsg (if sid.toNat = 1 then .request else if sid.toNat = 2 then .response
                           else .unknown sid) rest)
    | _ =>
      if slice.length < 4 then none
      else some (.nonVerbose (BitVec.ofNat 32 (num e (slice.take 4))) (slice.drop 4))

def decodePayload (e : Endian) (ext : Option ExtendedHeader) (slice : Bytes) : Option PayloadContent :=
  decodePayloadWith e (match ext with | some x => x.verbose | none => false)
    (match ext with | some x => x.argumentCount.toNat | none => 0)
    (ext.map (·.messageType)) slice

-- headers by offset -----------------------------------------------------------------------------

def at4 (bs : Bytes) (o : Nat) : Bytes := (bs.drop o).take 4

/-- the standard header of a complete message `msg` (its first byte is HTYP) -/
def stdHeaderOf (msg : Bytes) : StandardHeader :=
  let htyp := (msg.headD 0#8)
  let h := htyp.toNat
  let weid := bit htyp 2
  let wsid := bit htyp 3
  let wtms := bit htyp 4
  let o1 := 4
  let o2 := o1 + (if weid then 4 else 0)
  let o3 := o2 + (if wsid then 4 else 0)
  { version := BitVec.ofNat 8 (h / 32)
    endianness := if bit htyp 1 then .big else .little
    hasExtendedHeader := bit htyp 0
    messageCounter := msg.getD 1 0#8
    ecuId := if weid then some (fieldText (at4 msg o1)) else none
    sessionId := if wsid then some (BitVec.ofNat 32 (numBE (at4 msg o2))) else none
    timestamp := if wtms then some (BitVec.ofNat 32 (numBE (at4 msg o3))) else none
    payloadLength := BitVec.ofNat 16 (declaredLen msg - allHeadersLen htyp) }

def extHeaderOf (msg : Bytes) : Option ExtendedHeader :=
  let htyp := (msg.headD 0#8)
  if bit htyp 0 then
    let o := stdHeaderLen htyp
    let msin := msg.getD o 0#8
    some { verbose := msin.toNat % 2 = 1
           argumentCount := msg.getD (o + 1) 0#8
           messageType := msinType msin
           applicationId := fieldText (at4 msg (o + 2))
           contextId := fieldText (at4 msg (o + 6)) }
  else none

/-- the storage header found at `bs` (16 bytes starting with the pattern) -/
def storageHeaderOf (sh : Bytes) : StorageHeader :=
  { timestamp := { seconds := BitVec.ofNat 32 (numBE (at4 sh 4).reverse)
                   microseconds := BitVec.ofNat 32 (numBE (at4 sh 8).reverse) }
    ecuId := fieldText (at4 sh 12) }

-- the reference decoder ----------------------------------------------------------------------------

inductive Verdict where
  /-- a message and the number of bytes of the input it occupies (junk + headers + payload) -/
  | item (m : Message) (consumed : Nat)
  /-- the buffer ends before the headers or before the declared length -/
  | incomplete
  | reject
  deriving DecidableEq, Repr

/-- a complete message of exactly `msg.length` bytes -/
def decodeComplete (sh : Option StorageHeader) (msg : Bytes) (consumed : Nat) : Verdict :=
  let hd := stdHeaderOf msg
  let ext := extHeaderOf msg
  let slice := msg.drop (allHeadersLen (msg.headD 0#8))
  match decodePayload hd.endianness ext slice with
  | none => .reject
  | some p => .item { storageHeader := sh, header := hd, extendedHeader := ext, payload := p } consumed

def decode (withStorage : Bool) (bs : Bytes) : Verdict :=
  if withStorage then
    match storageFraming bs with
    | .incomplete _ => .incomplete
    | .reject => .reject
    | .complete skip d =>
      decodeComplete (some (storageHeaderOf ((bs.drop skip).take 16)))
        ((bs.drop (skip + 16)).take d) (skip + 16 + d)
  else
    match framing bs with
    | .incomplete _ => .incomplete
    | .reject => .reject
    | .complete d => decodeComplete none (bs.take d) d

-- the reference encoder -------------------------------------------------------------------------

def msinByte (verbose : Bool) : MessageType → Nat
  | .log l => (if verbose then 1 else 0) + 2 * 0 + 16 *
      (match l with | .fatal => 1 | .error => 2 | .warn => 3 | .info => 4 | .debug => 5 | .verbose => 6
                    | .invalid n => n.toNat % 16)
  | .applicationTrace t => (if verbose then 1 else 0) + 2 * 1 + 16 *
      (match t with | .variable => 1 | .functionIn => 2 | .functionOut => 3 | .state => 4 | .vfb => 5
                    | .invalid n => n.toNat % 16)
  | .networkTrace t => (if verbose then 1 else 0) + 2 * 2 + 16 *
      (match t with | .invalid => 0 | .ipc => 1 | .can => 2 | .flexray => 3 | .most => 4 | .ethernet => 5
                    | .someip => 6 | .userDefined n => n.toNat % 16)
  | .control t => (if verbose then 1 else 0) + 2 * 3 + 16 *
      (match t with | .request => 1 | .response => 2 | .unknown n => n.toNat % 16)
  | .unknown mstp mtin => (if verbose then 1 else 0) + 2 * (mstp.toNat % 8) + 16 * (mtin.toNat % 16)

/-- a length-prefixed NUL-terminated text: 16-bit length (text + terminator), text, NUL -/
def lenOf (e : Endian) (s : Bytes) : Bytes := digits e 2 (s.length + 1)

def layoutArgument (e : Endian) (a : Argument) : Bytes :=
  let ti := digits e 4 (tiWord a.typeInfo)
  let text (s : Bytes) : Bytes := s ++ [0#8]
  let nameUnit : Bytes :=
    if a.typeInfo.hasVariableInfo then
      lenOf e (a.name.getD []) ++ lenOf e (a.unit.getD []) ++ text (a.name.getD []) ++ text (a.unit.getD [])
    else []
  let fixedPoint : Bytes :=
    match a.fixedPoint with
    | some fp => digits e 4 fp.quantization.toNat ++
        (match fp.offset with | .i32 v => digits e 4 v.toNat | .i64 v => digits e 8 v.toNat)
    | none => []
  let name : Bytes := match a.name with | some n => lenOf e n ++ text n | none => []
  match a.value with
  | .bool b => ti ++ name ++ [b]
  | .u8 v => ti ++ nameUnit ++ fixedPoint ++ digits e 1 v.toNat
  | .u16 v => ti ++ nameUnit ++ fixedPoint ++ digits e 2 v.toNat
  | .u32 v => ti ++ nameUnit ++ fixedPoint ++ digits e 4 v.toNat
  | .u64 v => ti ++ nameUnit ++ fixedPoint ++ digits e 8 v.toNat
  | .u128 v => ti ++ nameUnit ++ fixedPoint ++ digits e 16 v.toNat
  | .i8 v => ti ++ nameUnit ++ fixedPoint ++ digits e 1 v.toNat
  | .i16 v => ti ++ nameUnit ++ fixedPoint ++ digits e 2 v.toNat
  | .i32 v => ti ++ nameUnit ++ fixedPoint ++ digits e 4 v.toNat
  | .i64 v => ti ++ nameUnit ++ fixedPoint ++ digits e 8 v.toNat
  | .i128 v => ti ++ nameUnit ++ fixedPoint ++ digits e 16 v.toNat
  | .f32 v => ti ++ nameUnit ++ digits e 4 v.toNat
  | .f64 v => ti ++ nameUnit ++ digits e 8 v.toNat
  | .stringVal s =>
    ti ++ lenOf e s ++ (match a.name with | some n => lenOf e n ++ text n | none => []) ++ text s
  | .raw b =>
    ti ++ digits e 2 b.length ++ (match a.name with | some n => lenOf e n ++ text n | none => []) ++ b

def layoutPayload (e : Endian) : PayloadContent → Bytes
  | .verbose args => (args.map (layoutArgument e)).flatten
  | .nonVerbose id data => digits e 4 id.toNat ++ data
  | .controlMsg t data =>
    (match t with | .request => 1#8 | .response => 2#8 | .unknown n => n) :: data
  | .networkTrace slices =>
    (slices.map fun s => digits e 4 1024 ++ digits e 2 s.length ++ s).flatten

/-- storage header: pattern, seconds and microseconds (little-endian), ECU id -/
def layoutStorage : Option StorageHeader → Bytes
  | some sh => [0x44#8, 0x4C#8, 0x54#8, 0x01#8] ++ digitsLE 4 sh.timestamp.seconds.toNat
      ++ digitsLE 4 sh.timestamp.microseconds.toNat ++ idField sh.ecuId
  | none => []

/-- `HTYP = UEH + 2 MSBF + 4 WEID + 8 WSID + 16 WTMS + 32 VERS` -/
def htypOf (h : StandardHeader) : Nat :=
  (if h.hasExtendedHeader then 1 else 0) + 2 * (if h.endianness == .big then 1 else 0)
    + 4 * (if h.ecuId.isSome then 1 else 0) + 8 * (if h.sessionId.isSome then 1 else 0)
    + 16 * (if h.timestamp.isSome then 1 else 0) + 32 * h.version.toNat

/-- the optional fields of the standard header: ECU id, session id, time stamp (big-endian) -/
def layoutOptional (h : StandardHeader) : Bytes :=
  (match h.ecuId with | some id => idField id | none => [])
    ++ (match h.sessionId with | some v => (digitsLE 4 v.toNat).reverse | none => [])
    ++ (match h.timestamp with | some v => (digitsLE 4 v.toNat).reverse | none => [])

/-- extended header: MSIN, NOAR, APID, CTID -/
def layoutExtended : Option ExtendedHeader → Bytes
  | some x => [BitVec.ofNat 8 (msinByte x.verbose x.messageType), x.argumentCount]
      ++ idField x.applicationId ++ idField x.contextId
  | none => []

/-- the bytes of a message; LEN counts everything behind the storage header -/
def layout (m : Message) : Bytes :=
  let payload := layoutPayload m.header.endianness m.payload
  let opt := layoutOptional m.header
  let ext := layoutExtended m.extendedHeader
  let len := 4 + opt.length + ext.length + payload.length
  layoutStorage m.storageHeader
    ++ [BitVec.ofNat 8 (htypOf m.header), m.header.messageCounter] ++ (digitsLE 2 len).reverse
    ++ opt ++ ext ++ payload

end Dlt.Spec
