/-
  Spec for C02: an independently written reference codec of the DLT message layout.

  Written from the AUTOSAR layout (PRS Log and Trace protocol), not from the crate's code:
  positions are offsets computed from HTYP and LEN (Spec/Layout.lean), bit fields are
  weights (`HTYP = UEH + 2 MSBF + 4 WEID + 8 WSID + 16 WTMS + 32 VERS`,
  `MSIN = VERB + 2 MSTP + 16 MTIN`, the type-info word of Spec/TypeInfo.lean), numbers are
  digit sums, arguments are decoded by a consumer of the remaining payload slice.

    storage header : 'D' 'L' 'T' 01 | seconds LE32 | microseconds LE32 | ECU id (4)
    standard header: HTYP | MCNT | LEN BE16 | [ECU id (4)] | [SID BE32] | [TMS BE32]
    extended header: MSIN | NOAR | APID (4) | CTID (4)
    payload        : LEN - headers bytes, fields in the byte order announced by MSBF

  The dialect real ECUs emit is accepted: ids shorter than 4 bytes padded or cut with NUL,
  any TYLE for bool / string / raw data, unused and reserved type-info bits set, an invalid
  UTF-8 tail of a text cut off.

  Text fields: the bytes before the first NUL, cut to their longest valid UTF-8 prefix
  (`Utf8.validPrefix`; that this is the longest valid prefix is C19's subject).
-/
import DltVerif.Model.Types
import DltVerif.Model.Utf8
import DltVerif.Spec.Layout
import DltVerif.Spec.TypeInfo
import DltVerif.Spec.Codes

namespace Dlt.Spec

-- numbers ----------------------------------------------------------------------------------

/-- value of a digit string, most significant digit first -/
def numBE (bs : Bytes) : Nat := bs.foldl (fun acc b => 256 * acc + b.toNat) 0

/-- value in the byte order `e` -/
def num (e : Endian) (bs : Bytes) : Nat :=
  match e with
  | .big => numBE bs
  | .little => numBE bs.reverse

/-- the `k` digits of `n`, least significant first -/
def digitsLE (k n : Nat) : Bytes := (List.range k).map fun i => BitVec.ofNat 8 (n / 256 ^ i % 256)

def digits (e : Endian) (k n : Nat) : Bytes :=
  match e with
  | .little => digitsLE k n
  | .big => (digitsLE k n).reverse

-- text fields ---------------------------------------------------------------------------------

/-- the text of a NUL-terminated / NUL-padded field -/
def fieldText (b : Bytes) : Bytes := Utf8.validPrefix (b.takeWhile (fun x => x != 0#8))

/-- an id written into its 4-byte field -/
def idField (s : Bytes) : Bytes := s ++ List.replicate (4 - s.length) 0#8

-- type info --------------------------------------------------------------------------------

def tiKind (w : Nat) : Option TypeInfoKind :=
  let tyle := w % 16
  let len : Option TypeLength :=
    match tyle with | 1 => some .b8 | 2 => some .b16 | 3 => some .b32 | 4 => some .b64 | 5 => some .b128
                    | _ => none
  let fw : Option FloatWidth := match tyle with | 3 => some .w32 | 4 => some .w64 | _ => none
  match [4, 5, 6, 7, 8, 9, 10].filter (tiBit w) with
  | [4] => some .bool
  | [5] => if tiBit w 12 then fw.map .signedFixedPoint else len.map .signed
  | [6] => if tiBit w 12 then fw.map .unsignedFixedPoint else len.map .unsigned
  | [7] => fw.map .float
  | [9] => some .stringType
  | [10] => some .raw
  | _ => none

def tiCoding (w : Nat) : StringCoding :=
  match w / 32768 % 8 with
  | 0 => .ascii
  | 1 => .utf8
  | c => .reserved (BitVec.ofNat 8 c)

/-- decode a type-info word -/
def tiDecode (w : Nat) : Option TypeInfo :=
  (tiKind w).map fun k =>
    { kind := k, coding := tiCoding w, hasVariableInfo := tiBit w 11, hasTraceInfo := tiBit w 13 }

/-- the word of a type description -/
def tiWord (t : TypeInfo) : Nat :=
  let lenCode : TypeLength → Nat | .b8 => 1 | .b16 => 2 | .b32 => 3 | .b64 => 4 | .b128 => 5
  let fwCode : FloatWidth → Nat | .w32 => 3 | .w64 => 4
  (match t.kind with
   | .bool => 16
   | .signed l => lenCode l + 32
   | .signedFixedPoint w => fwCode w + 32 + 4096
   | .unsigned l => lenCode l + 64
   | .unsignedFixedPoint w => fwCode w + 64 + 4096
   | .float w => fwCode w + 128
   | .stringType => 512
   | .raw => 1024)
  + (if t.hasVariableInfo then 2048 else 0)
  + (if t.hasTraceInfo then 8192 else 0)
  + 32768 * (match t.coding with | .ascii => 0 | .utf8 => 1 | .reserved v => v.toNat % 8)

-- consumers of the payload slice ------------------------------------------------------------------

/-- a decoder consumes a prefix of the remaining bytes or fails -/
abbrev Rd (α : Type) := Bytes → Option (α × Bytes)

def Rd.andThen {α β : Type} (p : Rd α) (f : α → Rd β) : Rd β :=
  fun i => match p i with
    | some (a, r) => f a r
    | none => none

def Rd.pure {α : Type} (a : α) : Rd α := fun i => some (a, i)

def Rd.map {α β : Type} (f : α → β) (p : Rd α) : Rd β := p.andThen fun a => Rd.pure (f a)

/-- the next `k` bytes -/
def rd (k : Nat) : Rd Bytes := fun i => if k ≤ i.length then some (i.take k, i.drop k) else none

/-- a `k`-byte number in order `e` -/
def rdNum (e : Endian) (k : Nat) : Rd Nat := (rd k).map (num e)

/-- a field of `n` bytes holding a NUL-terminated text -/
def rdText (n : Nat) : Rd Bytes := (rd n).map fieldText

/-- a 16-bit length followed by that many bytes of text -/
def rdName (e : Endian) : Rd Bytes := (rdNum e 2).andThen rdText

def rdOptName (e : Endian) (present : Bool) : Rd (Option Bytes) :=
  if present then (rdName e).map some else Rd.pure none

/-- name length, unit length, name, unit -/
def rdNameUnit (e : Endian) (present : Bool) : Rd (Option Bytes × Option Bytes) :=
  if present then
    (rdNum e 2).andThen fun nl => (rdNum e 2).andThen fun ul =>
    (rdText nl).andThen fun n => (rdText ul).andThen fun u => Rd.pure (some n, some u)
  else Rd.pure (none, none)

def intValue (signed : Bool) (l : TypeLength) (n : Nat) : Value :=
  match signed, l with
  | false, .b8 => .u8 (BitVec.ofNat 8 n) | false, .b16 => .u16 (BitVec.ofNat 16 n)
  | false, .b32 => .u32 (BitVec.ofNat 32 n) | false, .b64 => .u64 (BitVec.ofNat 64 n)
  | false, .b128 => .u128 (BitVec.ofNat 128 n)
  | true, .b8 => .i8 (BitVec.ofNat 8 n) | true, .b16 => .i16 (BitVec.ofNat 16 n)
  | true, .b32 => .i32 (BitVec.ofNat 32 n) | true, .b64 => .i64 (BitVec.ofNat 64 n)
  | true, .b128 => .i128 (BitVec.ofNat 128 n)

def rdInt (e : Endian) (signed : Bool) (l : TypeLength) : Rd Value :=
  (rdNum e l.bytes).map (intValue signed l)

/-- quantization (32-bit float pattern) and offset (32 or 64 bit) -/
def rdFixedPoint (e : Endian) (w : FloatWidth) : Rd FixedPoint :=
  (rdNum e 4).andThen fun q =>
    match w with
    | .w32 => (rdNum e 4).map fun o => { quantization := BitVec.ofNat 32 q, offset := .i32 (BitVec.ofNat 32 o) }
    | .w64 => (rdNum e 8).map fun o => { quantization := BitVec.ofNat 32 q, offset := .i64 (BitVec.ofNat 64 o) }

/-- one verbose argument -/
def rdArgument (e : Endian) : Rd Argument :=
  (rdNum e 4).andThen fun w =>
    match tiDecode w with
    | none => fun _ => none
    | some ti =>
      let arg (name unit : Option Bytes) (fp : Option FixedPoint) (v : Value) : Argument :=
        { typeInfo := ti, name := name, unit := unit, fixedPoint := fp, value := v }
      match ti.kind with
      | .bool =>
        (rdOptName e ti.hasVariableInfo).andThen fun n =>
        (rd 1).map fun b => arg n none none (.bool (b.headD 0#8))
      | .signed l =>
        (rdNameUnit e ti.hasVariableInfo).andThen fun nu =>
        (rdInt e true l).map fun v => arg nu.1 nu.2 none v
      | .unsigned l =>
        (rdNameUnit e ti.hasVariableInfo).andThen fun nu =>
        (rdInt e false l).map fun v => arg nu.1 nu.2 none v
      | .signedFixedPoint w =>
        (rdNameUnit e ti.hasVariableInfo).andThen fun nu =>
        (rdFixedPoint e w).andThen fun fp =>
        (rdInt e true w.toTypeLength).map fun v => arg nu.1 nu.2 (some fp) v
      | .unsignedFixedPoint w =>
        (rdNameUnit e ti.hasVariableInfo).andThen fun nu =>
        (rdFixedPoint e w).andThen fun fp =>
        (rdInt e false w.toTypeLength).map fun v => arg nu.1 nu.2 (some fp) v
      | .float w =>
        (rdNameUnit e ti.hasVariableInfo).andThen fun nu =>
        (rdNum e w.bytes).map fun n =>
          arg nu.1 nu.2 none (match w with | .w32 => .f32 (BitVec.ofNat 32 n) | .w64 => .f64 (BitVec.ofNat 64 n))
      | .stringType =>
        (rdNum e 2).andThen fun size =>
        (rdOptName e ti.hasVariableInfo).andThen fun n =>
        (rdText size).map fun s => arg n none none (.stringVal s)
      | .raw =>
        (rdNum e 2).andThen fun size =>
        (rdOptName e ti.hasVariableInfo).andThen fun n =>
        (rd size).map fun b => arg n none none (.raw b)

def rdArguments (e : Endian) : Nat → Rd (List Argument)
  | 0 => Rd.pure []
  | n + 1 => (rdArgument e).andThen fun a => (rdArguments e n).map (a :: ·)

/-- the payload, decoded from the declared payload slice alone; bytes of the slice behind the
    last argument are ignored -/
def decodePayload (e : Endian) (ext : Option ExtendedHeader) (slice : Bytes) : Option PayloadContent :=
  let verbose := match ext with | some x => x.verbose | none => false
  if verbose then
    let noar := match ext with | some x => x.argumentCount.toNat | none => 0
    match rdArguments e noar slice with
    | none => none
    | some (args, _) =>
      match (ext.map (·.messageType) : Option MessageType) with
      | some (.networkTrace _) =>
        some (.networkTrace (args.filterMap fun a => match a.value with | .raw b => some b | _ => none))
      | _ => some (.verbose args)
  else
    match (ext.map (·.messageType) : Option MessageType) with
    | some (.control _) =>
      match slice with
      | [] => none
      | sid :: rest =>
        some (.controlMsg (if sid.toNat = 1 then .request else if sid.toNat = 2 then .response
                           else .unknown sid) rest)
    | _ =>
      if slice.length < 4 then none
      else some (.nonVerbose (BitVec.ofNat 32 (num e (slice.take 4))) (slice.drop 4))

-- headers by offset -----------------------------------------------------------------------------

def at4 (bs : Bytes) (o : Nat) : Bytes := (bs.drop o).take 4

/-- the standard header of a complete message `msg` (its first byte is HTYP) -/
def stdHeaderOf (msg : Bytes) : StandardHeader :=
  let htyp := (msg.headD 0#8)
  let h := htyp.toNat
  let weid := bit htyp 2
  let wsid := bit htyp 3
  let wtms := bit htyp 4
  let o1 := 4
  let o2 := o1 + (if weid then 4 else 0)
  let o3 := o2 + (if wsid then 4 else 0)
  { version := BitVec.ofNat 8 (h / 32)
    endianness := if bit htyp 1 then .big else .little
    hasExtendedHeader := bit htyp 0
    messageCounter := msg.getD 1 0#8
    ecuId := if weid then some (fieldText (at4 msg o1)) else none
    sessionId := if wsid then some (BitVec.ofNat 32 (numBE (at4 msg o2))) else none
    timestamp := if wtms then some (BitVec.ofNat 32 (numBE (at4 msg o3))) else none
    payloadLength := BitVec.ofNat 16 (declaredLen msg - allHeadersLen htyp) }

def extHeaderOf (msg : Bytes) : Option ExtendedHeader :=
  let htyp := (msg.headD 0#8)
  if bit htyp 0 then
    let o := stdHeaderLen htyp
    let msin := msg.getD o 0#8
    some { verbose := msin.toNat % 2 = 1
           argumentCount := msg.getD (o + 1) 0#8
           messageType := msinType msin
           applicationId := fieldText (at4 msg (o + 2))
           contextId := fieldText (at4 msg (o + 6)) }
  else none

/-- the storage header found at `bs` (16 bytes starting with the pattern) -/
def storageHeaderOf (sh : Bytes) : StorageHeader :=
  { timestamp := { seconds := BitVec.ofNat 32 (numBE (at4 sh 4).reverse)
                   microseconds := BitVec.ofNat 32 (numBE (at4 sh 8).reverse) }
    ecuId := fieldText (at4 sh 12) }

-- the reference decoder ----------------------------------------------------------------------------

inductive Verdict where
  /-- a message and the number of bytes of the input it occupies (junk + headers + payload) -/
  | item (m : Message) (consumed : Nat)
  /-- the buffer ends before the headers or before the declared length -/
  | incomplete
  | reject
  deriving DecidableEq, Repr

/-- a complete message of exactly `msg.length` bytes -/
def decodeComplete (sh : Option StorageHeader) (msg : Bytes) (consumed : Nat) : Verdict :=
  let hd := stdHeaderOf msg
  let ext := extHeaderOf msg
  let slice := msg.drop (allHeadersLen (msg.headD 0#8))
  match decodePayload hd.endianness ext slice with
  | none => .reject
  | some p => .item { storageHeader := sh, header := hd, extendedHeader := ext, payload := p } consumed

def decode (withStorage : Bool) (bs : Bytes) : Verdict :=
  if withStorage then
    match storageFraming bs with
    | .incomplete _ => .incomplete
    | .reject => .reject
    | .complete skip d =>
      decodeComplete (some (storageHeaderOf ((bs.drop skip).take 16)))
        ((bs.drop (skip + 16)).take d) (skip + 16 + d)
  else
    match framing bs with
    | .incomplete _ => .incomplete
    | .reject => .reject
    | .complete d => decodeComplete none (bs.take d) d

-- the reference encoder -------------------------------------------------------------------------

def msinByte (verbose : Bool) : MessageType → Nat
  | .log l => (if verbose then 1 else 0) + 2 * 0 + 16 *
      (match l with | .fatal => 1 | .error => 2 | .warn => 3 | .info => 4 | .debug => 5 | .verbose => 6
                    | .invalid n => n.toNat % 16)
  | .applicationTrace t => (if verbose then 1 else 0) + 2 * 1 + 16 *
      (match t with | .variable => 1 | .functionIn => 2 | .functionOut => 3 | .state => 4 | .vfb => 5
                    | .invalid n => n.toNat % 16)
  | .networkTrace t => (if verbose then 1 else 0) + 2 * 2 + 16 *
      (match t with | .invalid => 0 | .ipc => 1 | .can => 2 | .flexray => 3 | .most => 4 | .ethernet => 5
                    | .someip => 6 | .userDefined n => n.toNat % 16)
  | .control t => (if verbose then 1 else 0) + 2 * 3 + 16 *
      (match t with | .request => 1 | .response => 2 | .unknown n => n.toNat % 16)
  | .unknown mstp mtin => (if verbose then 1 else 0) + 2 * (mstp.toNat % 8) + 16 * (mtin.toNat % 16)

/-- a length-prefixed NUL-terminated text: 16-bit length (text + terminator), text, NUL -/
def lenOf (e : Endian) (s : Bytes) : Bytes := digits e 2 (s.length + 1)

def layoutArgument (e : Endian) (a : Argument) : Bytes :=
  let ti := digits e 4 (tiWord a.typeInfo)
  let text (s : Bytes) : Bytes := s ++ [0#8]
  let nameUnit : Bytes :=
    if a.typeInfo.hasVariableInfo then
      lenOf e (a.name.getD []) ++ lenOf e (a.unit.getD []) ++ text (a.name.getD []) ++ text (a.unit.getD [])
    else []
  let fixedPoint : Bytes :=
    match a.fixedPoint with
    | some fp => digits e 4 fp.quantization.toNat ++
        (match fp.offset with | .i32 v => digits e 4 v.toNat | .i64 v => digits e 8 v.toNat)
    | none => []
  let name : Bytes := match a.name with | some n => lenOf e n ++ text n | none => []
  match a.value with
  | .bool b => ti ++ name ++ [b]
  | .u8 v => ti ++ nameUnit ++ fixedPoint ++ digits e 1 v.toNat
  | .u16 v => ti ++ nameUnit ++ fixedPoint ++ digits e 2 v.toNat
  | .u32 v => ti ++ nameUnit ++ fixedPoint ++ digits e 4 v.toNat
  | .u64 v => ti ++ nameUnit ++ fixedPoint ++ digits e 8 v.toNat
  | .u128 v => ti ++ nameUnit ++ fixedPoint ++ digits e 16 v.toNat
  | .i8 v => ti ++ nameUnit ++ fixedPoint ++ digits e 1 v.toNat
  | .i16 v => ti ++ nameUnit ++ fixedPoint ++ digits e 2 v.toNat
  | .i32 v => ti ++ nameUnit ++ fixedPoint ++ digits e 4 v.toNat
  | .i64 v => ti ++ nameUnit ++ fixedPoint ++ digits e 8 v.toNat
  | .i128 v => ti ++ nameUnit ++ fixedPoint ++ digits e 16 v.toNat
  | .f32 v => ti ++ nameUnit ++ digits e 4 v.toNat
  | .f64 v => ti ++ nameUnit ++ digits e 8 v.toNat
  | .stringVal s =>
    ti ++ lenOf e s ++ (match a.name with | some n => lenOf e n ++ text n | none => []) ++ text s
  | .raw b =>
    ti ++ digits e 2 b.length ++ (match a.name with | some n => lenOf e n ++ text n | none => []) ++ b

def layoutPayload (e : Endian) : PayloadContent → Bytes
  | .verbose args => (args.map (layoutArgument e)).flatten
  | .nonVerbose id data => digits e 4 id.toNat ++ data
  | .controlMsg t data =>
    (match t with | .request => 1#8 | .response => 2#8 | .unknown n => n) :: data
  | .networkTrace slices =>
    (slices.map fun s => digits e 4 1024 ++ digits e 2 s.length ++ s).flatten

/-- the bytes of a message -/
def layout (m : Message) : Bytes :=
  let e := m.header.endianness
  let payload := layoutPayload e m.payload
  let htyp := (if m.header.hasExtendedHeader then 1 else 0) + 2 * (if e == .big then 1 else 0)
    + 4 * (if m.header.ecuId.isSome then 1 else 0) + 8 * (if m.header.sessionId.isSome then 1 else 0)
    + 16 * (if m.header.timestamp.isSome then 1 else 0) + 32 * m.header.version.toNat
  let opt := (match m.header.ecuId with | some id => idField id | none => [])
    ++ (match m.header.sessionId with | some v => (digitsLE 4 v.toNat).reverse | none => [])
    ++ (match m.header.timestamp with | some v => (digitsLE 4 v.toNat).reverse | none => [])
  let ext := match m.extendedHeader with
    | some x => [BitVec.ofNat 8 (msinByte x.verbose x.messageType), x.argumentCount]
        ++ idField x.applicationId ++ idField x.contextId
    | none => []
  let len := 4 + opt.length + ext.length + payload.length
  (match m.storageHeader with
   | some sh => [0x44#8, 0x4C#8, 0x54#8, 0x01#8] ++ digitsLE 4 sh.timestamp.seconds.toNat
       ++ digitsLE 4 sh.timestamp.microseconds.toNat ++ idField sh.ecuId
   | none => [])
  ++ [BitVec.ofNat 8 htyp, m.header.messageCounter] ++ (digitsLE 2 len).reverse ++ opt ++ ext ++ payload

end Dlt.Spec
