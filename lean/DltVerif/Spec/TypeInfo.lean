/-
  Spec for the type-info word of C14, written from the AUTOSAR bit layout by weights, not
  from the decoder:

    word = TYLE + 16 BOOL + 32 SINT + 64 UINT + 128 FLOA + 256 ARAY + 512 STRG + 1024 RAWD
           + 2048 VARI + 4096 FIXP + 8192 TRAI + 16384 STRU + 32768 SCOD (3 bits)

  "accepted exactly for the words that name one supported kind with a supported width":
  exactly one of BOOL SINT UINT FLOA ARAY STRG RAWD is set and it is not ARAY; integers
  have TYLE 1..5 (8..128 bit), fixed-point integers and floats TYLE 3..4 (32/64 bit);
  bool, string and raw data carry no width.

  "differs only in bits the format leaves unused for that kind": the reserved bits 18..31
  and STRU for every kind; FIXP for floats; TYLE and FIXP for bool, string and raw data.
-/
namespace Dlt.Spec

def tiBit (w i : Nat) : Bool := w / 2 ^ i % 2 = 1

def tiSupported (w : Nat) : Bool :=
  let tyle := w % 16
  let kinds := [4, 5, 6, 7, 8, 9, 10].filter (tiBit w)
  match kinds with
  | [4] => true                                            -- BOOL
  | [5] | [6] => if tiBit w 12 then tyle == 3 || tyle == 4   -- SINT / UINT (fixed point)
                 else 1 ≤ tyle && tyle ≤ 5
  | [7] => tyle == 3 || tyle == 4                           -- FLOA
  | [9] | [10] => true                                     -- STRG, RAWD
  | _ => false

/-- bits a decode / re-encode cycle may change for the kind the word names -/
def tiUnusedMask (w : Nat) : Nat :=
  let reserved := 2 ^ 32 - 2 ^ 18 + 2 ^ 14                 -- bits 18..31 and STRU
  if tiBit w 7 then reserved + 2 ^ 12                       -- float: FIXP
  else if tiBit w 4 || tiBit w 9 || tiBit w 10 then reserved + 2 ^ 12 + 15   -- no width: TYLE, FIXP
  else reserved

end Dlt.Spec
