/-
  Spec for the type-info word of C14, written from the AUTOSAR bit layout by weights, not
  from the decoder:

    word = TYLE + 16 BOOL + 32 SINT + 64 UINT + 128 FLOA + 256 ARAY + 512 STRG + 1024 RAWD
           + 2048 VARI + 4096 FIXP + 8192 TRAI + 16384 STRU + 32768 SCOD (3 bits)

  "accepted exactly for the words that name one supported kind with a supported width":
  exactly one of BOOL SINT UINT FLOA ARAY STRG RAWD is set and it is not ARAY; integers
  have TYLE 1..5 (8..128 bit), fixed-point integers and floats TYLE 3..4 (32/64 bit);
  bool, string and raw data carry no width.

  "differs only in bits the format leaves unused for that kind": the reserved bits 18..31
  and STRU for every kind; FIXP for floats; TYLE and FIXP for bool, string and raw data.
-/
import DltVerif.Model.Types

namespace Dlt.Spec

def tiBit (w i : Nat) : Bool := w / 2 ^ i % 2 = 1

def tiSupported (w : Nat) : Bool :=
  let tyle := w % 16
  let kinds := [4, 5, 6, 7, 8, 9, 10].filter (tiBit w)
  match kinds with
  | [4] => true                                            -- BOOL
  | [5] | [6] => if tiBit w 12 then tyle == 3 || tyle == 4   -- SINT / UINT (fixed point)
                 else 1 ≤ tyle && tyle ≤ 5
  | [7] => tyle == 3 || tyle == 4                           -- FLOA
  | [9] | [10] => true                                     -- STRG, RAWD
  | _ => false

/-- bits a decode / re-encode cycle may change for the kind the word names -/
def tiUnusedMask (w : Nat) : Nat :=
  let reserved := 2 ^ 32 - 2 ^ 18 + 2 ^ 14                 -- bits 18..31 and STRU
  if tiBit w 7 then reserved + 2 ^ 12                       -- float: FIXP
  else if tiBit w 4 || tiBit w 9 || tiBit w 10 then reserved + 2 ^ 12 + 15   -- no width: TYLE, FIXP
  else reserved

-- type info --------------------------------------------------------------------------------

def tiKind (w : Nat) : Option TypeInfoKind :=
  let tyle := w % 16
  let len : Option TypeLength :=
    match tyle with | 1 => some .b8 | 2 => some .b16 | 3 => some .b32 | 4 => some .b64 | 5 => some .b128
                    | _ => none
  let fw : Option FloatWidth := match tyle with | 3 => some .w32 | 4 => some .w64 | _ => none
  match [4, 5, 6, 7, 8, 9, 10].filter (tiBit w) with
  | [4] => some .bool
  | [5] => if tiBit w 12 then fw.map .signedFixedPoint else len.map .signed
  | [6] => if tiBit w 12 then fw.map .unsignedFixedPoint else len.map .unsigned
  | [7] => fw.map .float
  | [9] => some .stringType
  | [10] => some .raw
  | _ => none

def tiCoding (w : Nat) : StringCoding :=
  match w / 32768 % 8 with
  | 0 => .ascii
  | 1 => .utf8
  | c => .reserved (BitVec.ofNat 8 c)

/-- decode a type-info word -/
def tiDecode (w : Nat) : Option TypeInfo :=
  (tiKind w).map fun k =>
    { kind := k, coding := tiCoding w, hasVariableInfo := tiBit w 11, hasTraceInfo := tiBit w 13 }

/-- the word of a type description -/
def tiWord (t : TypeInfo) : Nat :=
  let lenCode : TypeLength → Nat | .b8 => 1 | .b16 => 2 | .b32 => 3 | .b64 => 4 | .b128 => 5
  let fwCode : FloatWidth → Nat | .w32 => 3 | .w64 => 4
  (match t.kind with
   | .bool => 16
   | .signed l => lenCode l + 32
   | .signedFixedPoint w => fwCode w + 32 + 4096
   | .unsigned l => lenCode l + 64
   | .unsignedFixedPoint w => fwCode w + 64 + 4096
   | .float w => fwCode w + 128
   | .stringType => 512
   | .raw => 1024)
  + (if t.hasVariableInfo then 2048 else 0)
  + (if t.hasTraceInfo then 8192 else 0)
  + 32768 * (match t.coding with | .ascii => 0 | .utf8 => 1 | .reserved v => v.toNat % 8)


end Dlt.Spec
