/-
  Well-formed messages: the quantifier of C01 / C05 / C15 spelled out as a decidable
  predicate (written from the property text, not from the code).

    ids <= 4 bytes without NUL; names, units and strings without NUL; all text valid
    UTF-8; value variant and fixed-point data matching the type info; name/unit presence
    matching the variable-info flag; verbose flag, argument count, extended-header flag
    and payload length consistent with the payload; payload kind consistent with the
    message type; canonical codes for the enumerations; total length within 16 bits.
-/
import DltVerif.Model.Encode
import DltVerif.Model.Utf8

namespace Dlt

/-- a 4-byte id field: at most 4 bytes, no NUL, valid UTF-8 -/
def idOk (s : Bytes) : Bool := decide (s.length ≤ 4) && noNul s && Utf8.valid s

/-- a name / unit / string value: no NUL, valid UTF-8, length + terminator fits 16 bits -/
def textOk (s : Bytes) : Bool := noNul s && Utf8.valid s && decide (s.length + 1 ≤ 65535)

def StringCoding.canonical : StringCoding → Bool
  | .reserved v => decide (2 ≤ v.toNat ∧ v.toNat ≤ 7)
  | _ => true

def optText (present : Bool) : Option Bytes → Bool
  | none => !present
  | some s => present && textOk s

def Argument.wf (a : Argument) : Bool :=
  let vari := a.typeInfo.hasVariableInfo
  a.typeInfo.coding.canonical &&
  match a.typeInfo.kind, a.value, a.fixedPoint with
  | .bool, .bool _, none => optText vari a.name && a.unit.isNone
  | .signed .b8, .i8 _, none => optText vari a.name && optText vari a.unit
  | .signed .b16, .i16 _, none => optText vari a.name && optText vari a.unit
  | .signed .b32, .i32 _, none => optText vari a.name && optText vari a.unit
  | .signed .b64, .i64 _, none => optText vari a.name && optText vari a.unit
  | .signed .b128, .i128 _, none => optText vari a.name && optText vari a.unit
  | .unsigned .b8, .u8 _, none => optText vari a.name && optText vari a.unit
  | .unsigned .b16, .u16 _, none => optText vari a.name && optText vari a.unit
  | .unsigned .b32, .u32 _, none => optText vari a.name && optText vari a.unit
  | .unsigned .b64, .u64 _, none => optText vari a.name && optText vari a.unit
  | .unsigned .b128, .u128 _, none => optText vari a.name && optText vari a.unit
  | .signedFixedPoint .w32, .i32 _, some ⟨_, .i32 _⟩ => optText vari a.name && optText vari a.unit
  | .signedFixedPoint .w64, .i64 _, some ⟨_, .i64 _⟩ => optText vari a.name && optText vari a.unit
  | .unsignedFixedPoint .w32, .u32 _, some ⟨_, .i32 _⟩ => optText vari a.name && optText vari a.unit
  | .unsignedFixedPoint .w64, .u64 _, some ⟨_, .i64 _⟩ => optText vari a.name && optText vari a.unit
  | .float .w32, .f32 _, none => optText vari a.name && optText vari a.unit
  | .float .w64, .f64 _, none => optText vari a.name && optText vari a.unit
  | .stringType, .stringVal s, none => optText vari a.name && a.unit.isNone && textOk s
  | .raw, .raw b, none => optText vari a.name && a.unit.isNone && decide (b.length ≤ 65535)
  | _, _, _ => false

/-- enumeration codes: `Invalid(n)` / `Unknown(n)` / `UserDefined(n)` only for 4-bit codes
    without a named variant; unknown message types are 4..7 -/
def MessageType.canonical : MessageType → Bool
  | .log (.invalid n) => decide (n.toNat = 0 ∨ (7 ≤ n.toNat ∧ n.toNat ≤ 15))
  | .applicationTrace (.invalid n) => decide (n.toNat = 0 ∨ (6 ≤ n.toNat ∧ n.toNat ≤ 15))
  | .networkTrace (.userDefined n) => decide (7 ≤ n.toNat ∧ n.toNat ≤ 15)
  | .control (.unknown n) => decide (n.toNat = 0 ∨ (3 ≤ n.toNat ∧ n.toNat ≤ 15))
  | .unknown mstp mtin => decide (4 ≤ mstp.toNat ∧ mstp.toNat ≤ 7 ∧ mtin.toNat ≤ 15)
  | _ => true

/-- service-id byte of a control payload: `Unknown(n)` only for bytes without a named variant -/
def ControlType.canonicalValue : ControlType → Bool
  | .unknown n => decide (n.toNat ≠ 1 ∧ n.toNat ≠ 2)
  | _ => true

def MessageType.isNetworkTrace : MessageType → Bool
  | .networkTrace _ => true
  | _ => false

def MessageType.isControl : MessageType → Bool
  | .control _ => true
  | _ => false

def ExtendedHeader.wf (h : ExtendedHeader) : Bool :=
  idOk h.applicationId && idOk h.contextId && h.messageType.canonical

/-- payload kind consistent with the extended header (or its absence) -/
def payloadConsistent : PayloadContent → Option ExtendedHeader → Bool
  | .verbose args, some eh =>
    eh.verbose && decide (eh.argumentCount.toNat = args.length) && !eh.messageType.isNetworkTrace
      && args.all Argument.wf
  | .networkTrace slices, some eh =>
    eh.verbose && decide (eh.argumentCount.toNat = slices.length) && eh.messageType.isNetworkTrace
      && slices.all (fun s => decide (s.length ≤ 65535))
  | .controlMsg t _, some eh => !eh.verbose && eh.messageType.isControl && t.canonicalValue
  | .nonVerbose _ _, some eh => !eh.verbose && !eh.messageType.isControl
  | .nonVerbose _ _, none => true
  | _, none => false

def Message.wf (m : Message) : Bool :=
  (match m.storageHeader with | some sh => idOk sh.ecuId | none => true)
  && decide (m.header.version.toNat < 8)
  && (match m.header.ecuId with | some id => idOk id | none => true)
  && (m.header.hasExtendedHeader == m.extendedHeader.isSome)
  && (match m.extendedHeader with | some eh => eh.wf | none => true)
  && payloadConsistent m.payload m.extendedHeader
  && decide (m.header.payloadLength.toNat = (m.payload.asBytes m.header.endianness).length)
  && decide (m.header.overallLengthNat ≤ 65535)

end Dlt
