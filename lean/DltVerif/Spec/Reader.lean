/-
  Spec for C07 / C08: what reading a byte stream must deliver — the stream cut at the
  declared message lengths, each piece parsed by the slice parser.  No source, no schedule,
  no buffering: a function of the bytes alone.
-/
import DltVerif.Model.Decode
import DltVerif.Model.Reader
import DltVerif.Spec.Layout

namespace Dlt.Spec

inductive Piece where
  /-- a complete piece: (storage header +) declared length bytes -/
  | msg (b : Bytes)
  /-- the length field is smaller than the 4 header bytes it is part of -/
  | badLen
  /-- the stream ends inside the piece -/
  | truncated
  deriving DecidableEq, Repr

/-- cut the stream at the declared lengths (`fuel`: at most one piece per 4 bytes) -/
def cutFuel (w : Bool) : Nat → Bytes → List Piece
  | 0, _ => []
  | fuel + 1, bs =>
    let s := if w then 16 else 0
    let h := s + 4
    if bs.length < h then []
    else
      let len := declaredLen (bs.drop s)
      if len < 4 then .badLen :: cutFuel w fuel (bs.drop h)
      else if bs.length < s + len then [.truncated]
      else .msg (bs.take (s + len)) :: cutFuel w fuel (bs.drop (s + len))

def cut (w : Bool) (bs : Bytes) : List Piece := cutFuel w (bs.length + 1) bs

/-- what the reader must deliver for a piece -/
def deliver (w : Bool) (f : Option ProcessedFilter) : Piece → Delivered
  | .msg b =>
    match dltMessage b f w with
    | .ok (pm, _) => .parsed pm
    | .error e => .error e
  | .badLen => .error .hickup
  | .truncated => .error .unrecoverable

/-- the delivered sequence -/
def readStream (w : Bool) (f : Option ProcessedFilter) (bs : Bytes) : List Delivered :=
  (cut w bs).map (deliver w f)

end Dlt.Spec
