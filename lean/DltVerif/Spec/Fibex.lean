/-
  Spec for C11: a FIBEX model as abstract documents (what is written in the files), the
  model a loader must return for them (`Spec.model`, written from the property text: sort
  instances by sequence number, resolve signal -> coding -> base type, first definition of a
  duplicated frame or PDU id wins, unknown signal references are skipped, an unknown PDU
  reference fails), and how a document is laid out as XML events (`render`, in the element
  order of tests/dlt-messages.xml, compact: no whitespace between elements).
-/
import DltVerif.Model.Fibex

namespace Dlt.Fibex.Spec

structure Inst where
  id : Bytes
  seq : Nat
  ref : Bytes
  /-- layout only: the reference element is written before the SEQUENCE-NUMBER element (the
      order of the two children inside an instance does not matter to the loader) -/
  refFirst : Bool := false
  deriving DecidableEq, Repr

structure PduDoc where
  id : Bytes
  shortName : Option Bytes
  /-- `none`: no DESC element; `some []`: an empty DESC element -/
  desc : Option Bytes
  byteLength : Nat
  signals : List Inst
  deriving DecidableEq, Repr

structure ExtDoc where
  messageType : Option Bytes
  messageInfo : Option Bytes
  applicationId : Option Bytes
  contextId : Option Bytes
  deriving DecidableEq, Repr

structure FrameDoc where
  id : Bytes
  shortName : Bytes
  /-- a DESC element of the frame: it belongs to the frame, never to a PDU -/
  desc : Option Bytes := none
  byteLength : Nat
  pdus : List Inst
  ext : Option ExtDoc
  deriving DecidableEq, Repr

inductive Elem where
  | pdu (p : PduDoc)
  | frame (f : FrameDoc)
  | signal (id codingRef : Bytes)
  | coding (id baseDataType : Bytes)
  deriving DecidableEq, Repr

abbrev FileDoc := List Elem

-- the model ---------------------------------------------------------------------------

/-- the LAST definition of a signal / coding id is the one in force (map insertion) -/
def lastOf (l : List (Bytes × Bytes)) (k : Bytes) : Option Bytes :=
  (l.reverse.find? (·.1 == k)).map (·.2)

def signalsOf (es : List Elem) : List (Bytes × Bytes) :=
  es.filterMap fun | .signal id c => some (id, c) | _ => none

def codingsOf (es : List Elem) : List (Bytes × Bytes) :=
  es.filterMap fun | .coding id b => some (id, b) | _ => none

def pdusOf (es : List Elem) : List PduDoc := es.filterMap fun | .pdu p => some p | _ => none

def framesOf (es : List Elem) : List FrameDoc := es.filterMap fun | .frame f => some f | _ => none

/-! ### the type vocabulary, written out independently of the model

  Names are given as characters (ASCII); `C11_vocabulary` proves that `typeOf` below, which is
  phrased with the model's `typeInfoForSignalRef`, is this table. -/

/-- an ASCII name as bytes -/
def nm (cs : List Char) : Bytes := cs.map fun c => BitVec.ofNat 8 c.toNat

def ty (k : TypeInfoKind) (c : StringCoding := .ascii) : TypeInfo :=
  { kind := k, coding := c, hasVariableInfo := false, hasTraceInfo := false }

/-- the standard signal names; `S_FLOA16` is known and has no supported type -/
def standardSignals : List (Bytes × Option TypeInfo) := [
  (nm ['S','_','B','O','O','L'], some (ty .bool)),
  (nm ['S','_','S','I','N','T','8'], some (ty (.signed .b8))),
  (nm ['S','_','U','I','N','T','8'], some (ty (.unsigned .b8))),
  (nm ['S','_','S','I','N','T','1','6'], some (ty (.signed .b16))),
  (nm ['S','_','U','I','N','T','1','6'], some (ty (.unsigned .b16))),
  (nm ['S','_','S','I','N','T','3','2'], some (ty (.signed .b32))),
  (nm ['S','_','U','I','N','T','3','2'], some (ty (.unsigned .b32))),
  (nm ['S','_','S','I','N','T','6','4'], some (ty (.signed .b64))),
  (nm ['S','_','U','I','N','T','6','4'], some (ty (.unsigned .b64))),
  (nm ['S','_','F','L','O','A','1','6'], none),
  (nm ['S','_','F','L','O','A','3','2'], some (ty (.float .w32))),
  (nm ['S','_','F','L','O','A','6','4'], some (ty (.float .w64))),
  (nm ['S','_','S','T','R','G','_','A','S','C','I','I'], some (ty .stringType)),
  (nm ['S','_','S','T','R','G','_','U','T','F','8'], some (ty .stringType .utf8)),
  (nm ['S','_','R','A','W','D'], some (ty .raw)),
  (nm ['S','_','R','A','W'], some (ty .raw))]

/-- the base data types of a CODING -/
def baseTypes : List (Bytes × TypeInfo) := [
  (nm ['A','_','U','I','N','T','8'], ty (.unsigned .b8)),
  (nm ['A','_','I','N','T','8'], ty (.signed .b8)),
  (nm ['A','_','S','I','N','T','8'], ty (.signed .b8)),
  (nm ['A','_','U','I','N','T','1','6'], ty (.unsigned .b16)),
  (nm ['A','_','I','N','T','1','6'], ty (.signed .b16)),
  (nm ['A','_','S','I','N','T','1','6'], ty (.signed .b16)),
  (nm ['A','_','U','I','N','T','3','2'], ty (.unsigned .b32)),
  (nm ['A','_','I','N','T','3','2'], ty (.signed .b32)),
  (nm ['A','_','S','I','N','T','3','2'], ty (.signed .b32)),
  (nm ['A','_','U','I','N','T','6','4'], ty (.unsigned .b64)),
  (nm ['A','_','I','N','T','6','4'], ty (.signed .b64)),
  (nm ['A','_','S','I','N','T','6','4'], ty (.signed .b64)),
  (nm ['A','_','F','L','O','A','T','3','2'], ty (.float .w32)),
  (nm ['A','_','F','L','O','A','T','6','4'], ty (.float .w64)),
  (nm ['A','_','A','S','C','I','I','S','T','R','I','N','G'], ty .stringType),
  (nm ['A','_','U','N','I','C','O','D','E','2','S','T','R','I','N','G'], ty .stringType .utf8)]

def lookupName {α : Type} (k : Bytes) : List (Bytes × α) → Option α
  | [] => none
  | (n, v) :: t => if k = n then some v else lookupName k t

/-- "mapped from the standard signal names or through signal -> coding -> base data type":
    a standard name decides; otherwise the signal's coding's base data type (the definitions
    in force) is looked up in the table -/
def typeOfRef (es : List Elem) (ref : Bytes) : Option TypeInfo :=
  match lookupName ref standardSignals with
  | some r => r
  | none =>
    ((lastOf (signalsOf es) ref).bind (lastOf (codingsOf es))).bind fun base =>
      lookupName base baseTypes

/-- standard signal names, or signal -> coding -> base data type -/
def typeOf (es : List Elem) (ref : Bytes) : Option TypeInfo :=
  typeInfoForSignalRef ref
    ((signalsOf es).filterMap fun (id, _) => (lastOf (signalsOf es) id).map fun c => (id, c))
    ((codingsOf es).filterMap fun (id, _) => (lastOf (codingsOf es) id).map fun b => (id, b))

/-- instances in ascending sequence number, ties in document order -/
def ordered (l : List Inst) : List Bytes := (sortByKey (l.map fun i => (i.seq, i.ref))).map (·.2)

def pduMeta (es : List Elem) (p : PduDoc) : PduMetadata :=
  { description := p.desc.bind fun d => if d = [] then none else some d
    signalTypes := (ordered p.signals).filterMap (typeOf es) }

/-- the FIRST definition of a PDU id -/
def firstPdu (es : List Elem) (id : Bytes) : Option PduDoc := (pdusOf es).find? (·.id == id)

def frameMeta (es : List Elem) (f : FrameDoc) : Option FrameMetadata :=
  let refs := ordered f.pdus
  if refs.all (fun r => (firstPdu es r).isSome) then
    some { shortName := f.shortName
           pdus := refs.filterMap fun r => (firstPdu es r).map (pduMeta es)
           applicationId := f.ext.bind (·.applicationId)
           contextId := f.ext.bind (·.contextId)
           messageType := f.ext.bind (·.messageType)
           messageInfo := f.ext.bind (·.messageInfo) }
  else none

/-- keep the first entry per key, in order -/
def firstPerKey {κ α : Type} [BEq κ] : List (κ × α) → List (κ × α) → List (κ × α)
  | [], acc => acc
  | (k, v) :: rest, acc =>
    if acc.any (·.1 == k) then firstPerKey rest acc else firstPerKey rest (acc ++ [(k, v)])

/-- the model written in the files; `none`: loading must fail (unknown PDU reference) -/
def model (files : List FileDoc) : Option FibexMetadata :=
  let es := files.flatten
  let frames := framesOf es
  if frames.all (fun f => (frameMeta es f).isSome) then
    let metas := frames.filterMap fun f => (frameMeta es f).map fun m => (f.id, m)
    some {
      frameMap := firstPerKey metas []
      frameMapWithKey := firstPerKey
        (metas.filterMap fun (id, m) =>
          match m.contextId, m.applicationId with
          | some ctx, some app => some (({ contextId := ctx, appId := app, frameId := id } : FrameKey), m)
          | _, _ => none) [] }
  else none

-- rendering ---------------------------------------------------------------------------

def idAttr (id : Bytes) : List Attr := [.ok B_ID (some id)]
def idRefAttr (r : Bytes) : List Attr := [.ok B_ID_REF (some r)]

/-- `<tag>text</tag>` for a non-empty text (an empty text yields no Text event) -/
def textElem (t : Tag) (s : Bytes) : List XmlEv :=
  [.start t []] ++ (if s = [] then [] else [.text (some s)]) ++ [.end_ t]

/-- ASCII decimal digits -/
def digits (n : Nat) : Bytes := decimalBytes n

/-- in tests/dlt-messages.xml a signal instance has its SEQUENCE-NUMBER first ... -/
def renderSigInst (i : Inst) : List XmlEv :=
  if i.refFirst then
    [.start .SIGNAL_INSTANCE (idAttr i.id), .empty .SIGNAL_REF (idRefAttr i.ref)]
      ++ textElem .SEQUENCE_NUMBER (digits i.seq) ++ [.end_ .SIGNAL_INSTANCE]
  else
    [.start .SIGNAL_INSTANCE (idAttr i.id)] ++ textElem .SEQUENCE_NUMBER (digits i.seq)
      ++ [.empty .SIGNAL_REF (idRefAttr i.ref), .end_ .SIGNAL_INSTANCE]

/-- ... and a PDU instance its PDU-REF first (`refFirst = false` is that file's order for
    either kind) -/
def renderPduInst (i : Inst) : List XmlEv :=
  if i.refFirst then
    [.start .PDU_INSTANCE (idAttr i.id)] ++ textElem .SEQUENCE_NUMBER (digits i.seq)
      ++ [.empty .PDU_REF (idRefAttr i.ref), .end_ .PDU_INSTANCE]
  else
    [.start .PDU_INSTANCE (idAttr i.id), .empty .PDU_REF (idRefAttr i.ref)]
      ++ textElem .SEQUENCE_NUMBER (digits i.seq) ++ [.end_ .PDU_INSTANCE]

/-- "OTHER" -/
def OTHER : Bytes := [0x4F#8, 0x54#8, 0x48#8, 0x45#8, 0x52#8]

def renderPdu (p : PduDoc) : List XmlEv :=
  [.start .PDU (idAttr p.id)]
    ++ (match p.shortName with | some s => textElem .SHORT_NAME s | none => [])
    ++ (match p.desc with | some d => textElem .DESC d | none => [])
    ++ textElem .BYTE_LENGTH (digits p.byteLength)
    ++ textElem .PDU_TYPE OTHER
    ++ (if p.signals = [] then []
        else [.start .other []] ++ (p.signals.map renderSigInst).flatten ++ [.end_ .other])
    ++ [.end_ .PDU]

def optText (t : Tag) : Option Bytes → List XmlEv
  | some s => textElem t s
  | none => []

def renderFrame (f : FrameDoc) : List XmlEv :=
  [.start .FRAME (idAttr f.id)]
    ++ textElem .SHORT_NAME f.shortName
    ++ (match f.desc with | some d => textElem .DESC d | none => [])
    ++ textElem .BYTE_LENGTH (digits f.byteLength)
    ++ textElem .FRAME_TYPE OTHER
    ++ [.start .other []] ++ (f.pdus.map renderPduInst).flatten ++ [.end_ .other]
    ++ (match f.ext with
        | some x =>
          [.start .MANUFACTURER_EXTENSION []]
            ++ optText .MESSAGE_TYPE x.messageType ++ optText .MESSAGE_INFO x.messageInfo
            ++ optText .APPLICATION_ID x.applicationId ++ optText .CONTEXT_ID x.contextId
            ++ [.end_ .MANUFACTURER_EXTENSION]
        | none => [])
    ++ [.end_ .FRAME]

/-- "STANDARD-LENGTH-TYPE" under the key "CATEGORY" -/
def CATEGORY : Bytes := [0x43#8, 0x41#8, 0x54#8, 0x45#8, 0x47#8, 0x4F#8, 0x52#8, 0x59#8]
def STANDARD_LENGTH_TYPE : Bytes :=
  [0x53#8, 0x54#8, 0x41#8, 0x4E#8, 0x44#8, 0x41#8, 0x52#8, 0x44#8, 0x2D#8, 0x4C#8, 0x45#8, 0x4E#8,
   0x47#8, 0x54#8, 0x48#8, 0x2D#8, 0x54#8, 0x59#8, 0x50#8, 0x45#8]
/-- "ho:BASE-DATA-TYPE" (namespaced attribute key, as in tests/robustness.xml) -/
def HO_BASE_DATA_TYPE : Bytes := [0x68#8, 0x6F#8, 0x3A#8] ++ B_BASE_DATA_TYPE

def renderElem : Elem → List XmlEv
  | .pdu p => renderPdu p
  | .frame f => renderFrame f
  | .signal id c =>
    [.start .SIGNAL (idAttr id)] ++ textElem .SHORT_NAME id ++ [.empty .CODING_REF (idRefAttr c)]
      ++ [.end_ .SIGNAL]
  | .coding id b =>
    [.start .CODING (idAttr id)] ++ textElem .SHORT_NAME id
      ++ [.empty .CODED_TYPE [.ok HO_BASE_DATA_TYPE (some b), .ok CATEGORY (some STANDARD_LENGTH_TYPE)]]
      ++ [.end_ .CODING]

/-- `<?xml ..?><fx:FIBEX ..><fx:ELEMENTS> elements </fx:ELEMENTS></fx:FIBEX>` -/
def render (d : FileDoc) : List XmlEv :=
  [.other, .start .other [.ok [0x78#8] (some [0x79#8])], .start .other []]
    ++ (d.map renderElem).flatten ++ [.end_ .other, .end_ .other]

/-- what may stand between the elements of a file without meaning anything to a loader:
    comments, processing instructions, CDATA (`other`), white space or any other text, and
    unknown elements -/
def isGap : XmlEv → Bool
  | .other => true
  | .text _ => true
  | .start .other _ => true
  | .empty .other _ => true
  | .end_ .other => true
  | _ => false

/-- a file with such events in front of every element (pretty-printed files, comments,
    vendor elements between the known ones) and before the end -/
def renderGapped (d : List (List XmlEv × Elem)) (tail : List XmlEv) : List XmlEv :=
  [.other, .start .other [.ok [0x78#8] (some [0x79#8])], .start .other []]
    ++ (d.map fun x => x.1 ++ renderElem x.2).flatten ++ tail ++ [.end_ .other, .end_ .other]

/-- elements whose content is a text: the event after their start tag is read as that text -/
def readsText : Tag → Bool
  | .SHORT_NAME | .BYTE_LENGTH | .SEQUENCE_NUMBER | .PDU_TYPE | .FRAME_TYPE | .APPLICATION_ID
  | .CONTEXT_ID | .MESSAGE_INFO | .MESSAGE_TYPE | .DESC => true
  | _ => false

/-- the significant events of a file: without comments, processing instructions, CDATA, text
    outside the text elements (white space) and unknown elements, wherever they stand - except
    directly behind the start tag of a text element, where the next event IS the text -/
def significant : List XmlEv → List XmlEv
  | [] => []
  | .other :: rest => significant rest
  | .text _ :: rest => significant rest
  | .err :: rest => .err :: significant rest
  | .end_ t :: rest => if t = .other then significant rest else .end_ t :: significant rest
  | .empty t a :: rest => if t = .other then significant rest else .empty t a :: significant rest
  | .start t a :: [] => if t = .other then [] else [.start t a]
  | .start t a :: x :: rest =>
    if t = .other then significant (x :: rest)
    else if readsText t then .start t a :: x :: significant rest
    else .start t a :: significant (x :: rest)

/-- "the attribute named `name`": its key is the name, or ends in `:name` (a namespace prefix) -/
def namesAttr (key name : Bytes) : Bool :=
  key == name || (decide (key.length > name.length)
    && key.drop (key.length - name.length - 1) == 0x3A#8 :: name)

/-- the attribute a loader asks an element for -/
def askedAttr : Tag → Option Bytes
  | .PDU | .FRAME | .SIGNAL | .CODING | .SIGNAL_INSTANCE | .PDU_INSTANCE => some B_ID
  | .SIGNAL_REF | .PDU_REF | .CODING_REF => some B_ID_REF
  | .CODED_TYPE => some B_BASE_DATA_TYPE
  | _ => none

/-- an element's attributes without those that do not name the asked attribute (`OID`, `UUID`,
    `xsi:...` and whatever else a file carries); attributes that cannot be read stay (they are
    errors wherever they stand) -/
def keepAttr (name : Bytes) : Attr → Bool
  | .err => true
  | .ok key _ => namesAttr key name

def askedOnly (t : Tag) (attrs : List Attr) : List Attr :=
  match askedAttr t with
  | some name => attrs.filter (keepAttr name)
  | none => attrs

def plainAttrs : XmlEv → XmlEv
  | .start t a => .start t (askedOnly t a)
  | .empty t a => .empty t (askedOnly t a)
  | e => e

/-- what a loader sees of a file: its significant events (`Spec.significant`: without comments,
    processing instructions, CDATA, white space and other text outside the text elements, and
    unknown elements - wherever they stand, also between the children of a PDU, a FRAME or an
    instance), each element with only the attribute the loader asks it for (`Spec.plainAttrs`:
    `ID`, `ID-REF`, `BASE-DATA-TYPE`, also under a namespace prefix; `OID`, `UUID`, `xsi:...`
    and whatever else a file carries are dropped) -/
def seen (evs : List XmlEv) : List XmlEv := significant (evs.map plainAttrs)

-- documents the layout above can express ----------------------------------------------

/-- an optional text element is only written for a non-empty text -/
def optNonEmpty : Option Bytes → Bool
  | some s => s != []
  | none => true

/-- sequence numbers are `usize` values -/
def Inst.wf (i : Inst) : Bool := decide (i.seq < 2 ^ 64)

def PduDoc.wf (p : PduDoc) : Bool :=
  optNonEmpty p.shortName && decide (p.byteLength < 2 ^ 64) && p.signals.all Inst.wf

def ExtDoc.wf (x : ExtDoc) : Bool :=
  optNonEmpty x.messageType && optNonEmpty x.messageInfo && optNonEmpty x.applicationId
    && optNonEmpty x.contextId

def FrameDoc.wf (f : FrameDoc) : Bool :=
  (f.shortName != []) && decide (f.byteLength < 2 ^ 64) && f.pdus.all Inst.wf
    && (match f.ext with | some x => x.wf | none => true)

/-- an element whose rendering is a well-formed FIBEX element (non-empty short names,
    numbers within `usize`) -/
def Elem.wf : Elem → Bool
  | .pdu p => p.wf
  | .frame f => f.wf
  | .signal id _ => id != []
  | .coding id _ => id != []

end Dlt.Fibex.Spec
