/-
  Spec for C09, written from the property text over the *numeric* `DltFilterConfig`:

  a message is replaced by a filtered-out marker exactly when its headers fail the
  configuration: it is a log message with a valid level less severe than the minimum, or its
  application id / context id is not in the allowed set, or its header ECU id is present and
  not in the allowed set; a message without extended header is dropped exactly when an
  application or context id set is given that is smaller than the declared total count.
  Numeric minimum levels outside 1..6 mean no level filtering.
-/
import DltVerif.Model.Decode

namespace Dlt.Spec

/-- `DltFilterConfig` -/
structure FilterConfig where
  minLogLevel : Option (BitVec 8)
  appIds : Option (List Bytes)
  ecuIds : Option (List Bytes)
  contextIds : Option (List Bytes)
  appIdCount : Int
  contextIdCount : Int
  deriving Repr

/-- severity code 1 (fatal) .. 6 (verbose) of a valid log level -/
def levelCode : LogLevel → Option Nat
  | .fatal => some 1 | .error => some 2 | .warn => some 3 | .info => some 4
  | .debug => some 5 | .verbose => some 6 | .invalid _ => none

/-- number of distinct entries of an id vector -/
def distinctCount (l : List Bytes) : Nat := l.eraseDups.length

def levelDrops (min : Option (BitVec 8)) (mt : MessageType) : Bool :=
  match min, mt with
  | some lv, .log l =>
    match levelCode l with
    | some c => decide (1 ≤ lv.toNat ∧ lv.toNat ≤ 6 ∧ lv.toNat < c)
    | none => false
  | _, _ => false

/-- does the configuration drop a message with these headers? -/
def drops (cfg : FilterConfig) (eh : Option ExtendedHeader) (ecuId : Option Bytes) : Bool :=
  match eh with
  | some h =>
    levelDrops cfg.minLogLevel h.messageType
    || (match cfg.appIds with | some s => !s.contains h.applicationId | none => false)
    || (match cfg.contextIds with | some s => !s.contains h.contextId | none => false)
    || (match cfg.ecuIds, ecuId with | some s, some id => !s.contains id | _, _ => false)
  | none =>
    (match cfg.appIds with | some s => decide (cfg.appIdCount > (distinctCount s : Int)) | none => false)
    || (match cfg.contextIds with | some s => decide (cfg.contextIdCount > (distinctCount s : Int)) | none => false)

end Dlt.Spec
