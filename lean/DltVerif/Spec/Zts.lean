/-
  Spec for C19, written from the property text, not from the code:

    "a fixed-size text field of n bytes consumes exactly n bytes and yields the text before
     the first NUL, cut to its longest valid UTF-8 prefix; with fewer than n bytes it reports
     incomplete with a hint in [1, missing]; the 4-byte ECU / application / context ids obey
     the same rule".

  UTF-8 validity is spelled out from the definition of the encoding form (RFC 3629): a
  string is valid iff it is a concatenation of shortest-form encodings of Unicode scalar
  values (code points up to 10FFFF without the surrogates D800..DFFF).  This is a different
  formulation from Model/Utf8.lean (which follows the byte-range table 3-7 of the Unicode
  standard, the shape of `core::str`'s validator).
-/
import DltVerif.Model.Bytes

namespace Dlt.Spec

/-- payload bits of a continuation byte `10xxxxxx`, or `none` -/
def contBits (b : BitVec 8) : Option Nat :=
  if b.toNat / 64 = 2 then some (b.toNat % 64) else none

/-- decode one scalar value from the head: `(code point, bytes used)`; `none` if the head is
    not a shortest-form encoding of a scalar value -/
def decodeScalar : Bytes → Option (Nat × Nat)
  | [] => none
  | b0 :: t =>
    let n := b0.toNat
    if n < 0x80 then some (n, 1)
    else if n / 32 = 6 then            -- 110xxxxx
      match t with
      | b1 :: _ =>
        (contBits b1).bind fun c1 =>
          let cp := (n % 32) * 64 + c1
          if 0x80 ≤ cp then some (cp, 2) else none
      | _ => none
    else if n / 16 = 14 then           -- 1110xxxx
      match t with
      | b1 :: b2 :: _ =>
        (contBits b1).bind fun c1 => (contBits b2).bind fun c2 =>
          let cp := ((n % 16) * 64 + c1) * 64 + c2
          if 0x800 ≤ cp ∧ ¬ (0xD800 ≤ cp ∧ cp ≤ 0xDFFF) then some (cp, 3) else none
      | _ => none
    else if n / 8 = 30 then            -- 11110xxx
      match t with
      | b1 :: b2 :: b3 :: _ =>
        (contBits b1).bind fun c1 => (contBits b2).bind fun c2 => (contBits b3).bind fun c3 =>
          let cp := (((n % 8) * 64 + c1) * 64 + c2) * 64 + c3
          if 0x10000 ≤ cp ∧ cp ≤ 0x10FFFF then some (cp, 4) else none
      | _ => none
    else none

/-- is the whole string a sequence of scalar values?  (`fuel` ≥ length suffices) -/
def isUtf8Fuel : Nat → Bytes → Bool
  | _, [] => true
  | 0, _ :: _ => false
  | fuel + 1, bs =>
    match decodeScalar bs with
    | none => false
    | some (_, k) => isUtf8Fuel fuel (bs.drop k)

def isUtf8 (bs : Bytes) : Bool := isUtf8Fuel bs.length bs

/-- the longest prefix of `b` of length at most `k` that is valid UTF-8 (search from the
    longest) -/
def longestValid (b : Bytes) : Nat → Bytes
  | 0 => []
  | k + 1 => if isUtf8 (b.take (k + 1)) then b.take (k + 1) else longestValid b k

inductive FieldExpect where
  /-- the field is complete: its text and what follows it -/
  | field (text : Bytes) (rest : Bytes)
  /-- `missing` more bytes are needed -/
  | incomplete (missing : Nat)
  deriving DecidableEq, Repr

/-- what a fixed-size NUL-terminated text field of `n` bytes must yield on input `s` -/
def ztsField (n : Nat) (s : Bytes) : FieldExpect :=
  if n ≤ s.length then
    let content := (s.take n).takeWhile (fun b => b != 0#8)
    .field (longestValid content content.length) (s.drop n)
  else .incomplete (n - s.length)

/-- the text of a 4-byte id field -/
def idText (field : Bytes) : Bytes :=
  match ztsField 4 field with
  | .field t _ => t
  | .incomplete _ => []

/-- the four id fields of a message, located by offset arithmetic from the storage mode and
    the header-type byte alone: storage-header ECU id at 12, then after HTYP MCNT LEN the
    ECU id (if WEID, bit 2), session id (WSID, bit 3), time stamp (WTMS, bit 4), and in the
    extended header (UEH, bit 0) after MSIN NOAR the application and context id. -/
structure IdFields where
  storageEcu : Option Bytes
  ecu : Option Bytes
  app : Option Bytes
  ctx : Option Bytes
  deriving DecidableEq, Repr

def idFields (withStorage : Bool) (bs : Bytes) : IdFields :=
  let s := if withStorage then 16 else 0
  let htyp := (bs.getD s 0#8).toNat
  let weid := htyp / 4 % 2 = 1
  let wsid := htyp / 8 % 2 = 1
  let wtms := htyp / 16 % 2 = 1
  let ueh := htyp % 2 = 1
  let ecuOff := s + 4
  let extOff := ecuOff + (if weid then 4 else 0) + (if wsid then 4 else 0) + (if wtms then 4 else 0)
  let slice (o : Nat) : Bytes := (bs.drop o).take 4
  { storageEcu := if withStorage then some (idText (slice 12)) else none
    ecu := if weid then some (idText (slice ecuOff)) else none
    app := if ueh then some (idText (slice (extOff + 2))) else none
    ctx := if ueh then some (idText (slice (extOff + 6))) else none }

end Dlt.Spec
