/-
  Spec for C18, written from the property text with exact integer / dyadic-rational
  arithmetic, not from the conversion code:

    "it yields nothing unless the argument is a fixed-point kind with fixed-point data and an
     integer value; and whenever the physical value times the quantization (in double
     precision, truncated toward zero) is non-negative and its sum with the offset lies in
     0 .. 2^63, the result is exactly that sum."

  "In double precision" is spelled out from the IEEE 754 definition of the default rounding
  (`nearestDouble`: the nearest representable number, ties to the even significand), stated
  on values, not on significand / exponent pairs as the model of the conversion code
  (Model/Fixed.lean) does.  An `f32` quantization is a double exactly.
-/
import DltVerif.Model.Types

namespace Dlt.Spec

/-- number of binary digits of `n` -/
def bits (n : Nat) : Nat := if n = 0 then 0 else Nat.log2 n + 1

/-- IEEE 754 `roundTiesToEven` of a non-negative integer to binary64, the exponent range aside
    (the numbers of C18 never leave it): the doubles in the binade of `n` are the multiples of
    `u = 2^(bits n - 53)`; the result is the multiple of `u` nearest to `n`, and of two equally
    near ones the one whose significand is even.  Up to 53 bits `u = 1` and the result is `n`. -/
def nearestDouble (n : Nat) : Nat :=
  let u := 2 ^ (bits n - 53)
  let lo := n / u * u
  let hi := lo + u
  if n - lo < hi - n then lo
  else if hi - n < n - lo then hi
  else if (lo / u) % 2 = 0 then lo else hi

/-- a finite `f32` given by its bits as `(negative, m, e)` with value `m * 2^e`;
    `none` for infinities and NaN -/
def f32Dyadic (bits : Nat) : Option (Bool × Nat × Int) :=
  let neg := bits / 2 ^ 31 % 2 = 1
  let ex : Nat := bits / 2 ^ 23 % 256
  let frac : Nat := bits % 2 ^ 23
  if ex = 255 then none
  else if ex = 0 then some (neg, frac, -149)
  else some (neg, 2 ^ 23 + frac, (ex : Int) - 150)

inductive RealExpect where
  /-- the conversion must yield nothing -/
  | nothing
  /-- the conversion must yield exactly this value -/
  | exactly (n : Nat)
  /-- the property does not determine the result (or double precision is not exact here) -/
  | unspecified
  deriving DecidableEq, Repr

def intOf : Value → Option Int
  | .i8 v => some v.toInt | .i16 v => some v.toInt | .i32 v => some v.toInt | .i64 v => some v.toInt
  | .u8 v => some v.toNat | .u16 v => some v.toNat | .u32 v => some v.toNat | .u64 v => some v.toNat
  | _ => none

def offsetOf : FixedPointValue → Int
  | .i32 v => v.toInt
  | .i64 v => v.toInt

def isFixedPointKind : TypeInfoKind → Bool
  | .signedFixedPoint _ => true
  | .unsignedFixedPoint _ => true
  | _ => false

def realValue (a : Argument) : RealExpect :=
  match isFixedPointKind a.typeInfo.kind, a.fixedPoint with
  | true, some fp =>
    match intOf a.value with
    | none =>
      -- 128-bit integers are integers too: the property leaves them open; anything else: nothing
      match a.value with
      | .u128 _ => .unspecified
      | .i128 _ => .unspecified
      | _ => .nothing
    | some v =>
      match f32Dyadic fp.quantization.toNat with
      | none => .unspecified
      | some (qneg, m, e) =>
        -- `value as f64`, then the double product: the exact product of two doubles, rounded
        -- (rounding commutes with the scaling by `2^e`)
        let x := nearestDouble v.natAbs
        let y := nearestDouble (x * m)
        if y ≠ 0 ∧ ((v < 0) != qneg) then .unspecified      -- negative product
        else
          let p : Nat := if e ≥ 0 then y * 2 ^ e.toNat else y / 2 ^ (-e).toNat
          let sum : Int := (p : Int) + offsetOf fp.offset
          if 0 ≤ sum ∧ sum < 2 ^ 63 then .exactly sum.toNat else .unspecified
  | _, _ => .nothing

end Dlt.Spec
