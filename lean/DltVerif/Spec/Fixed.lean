/-
  Spec for C18, written from the property text with exact integer / dyadic-rational
  arithmetic, not from the conversion code:

    "it yields nothing unless the argument is a fixed-point kind with fixed-point data and an
     integer value; and whenever the physical value times the quantization (in double
     precision, truncated toward zero) is non-negative and its sum with the offset lies in
     0 .. 2^63, the result is exactly that sum."

  The Spec only speaks where double precision is EXACT: when the physical value and the
  mathematical product `value * quantization` both have at most 53 significant bits, the
  double-precision product is the mathematical product, whatever the rounding mode.  (For
  the remaining inputs the rounding model of Model/Fixed.lean is compared with the hardware.)
-/
import DltVerif.Model.Types

namespace Dlt.Spec

/-- `n` is `c * 2^j` with `c < 2^53`: it has at most 53 significant bits, so it is a double
    (all numbers here are below `2^200`) -/
def fits53 (n : Nat) : Bool :=
  (List.range 200).any fun j => n % 2 ^ j == 0 && decide (n / 2 ^ j < 2 ^ 53)

/-- a finite `f32` given by its bits as `(negative, m, e)` with value `m * 2^e`;
    `none` for infinities and NaN -/
def f32Dyadic (bits : Nat) : Option (Bool × Nat × Int) :=
  let neg := bits / 2 ^ 31 % 2 = 1
  let ex : Nat := bits / 2 ^ 23 % 256
  let frac : Nat := bits % 2 ^ 23
  if ex = 255 then none
  else if ex = 0 then some (neg, frac, -149)
  else some (neg, 2 ^ 23 + frac, (ex : Int) - 150)

inductive RealExpect where
  /-- the conversion must yield nothing -/
  | nothing
  /-- the conversion must yield exactly this value -/
  | exactly (n : Nat)
  /-- the property does not determine the result (or double precision is not exact here) -/
  | unspecified
  deriving DecidableEq, Repr

def intOf : Value → Option Int
  | .i8 v => some v.toInt | .i16 v => some v.toInt | .i32 v => some v.toInt | .i64 v => some v.toInt
  | .u8 v => some v.toNat | .u16 v => some v.toNat | .u32 v => some v.toNat | .u64 v => some v.toNat
  | _ => none

def offsetOf : FixedPointValue → Int
  | .i32 v => v.toInt
  | .i64 v => v.toInt

def isFixedPointKind : TypeInfoKind → Bool
  | .signedFixedPoint _ => true
  | .unsignedFixedPoint _ => true
  | _ => false

def realValue (a : Argument) : RealExpect :=
  match isFixedPointKind a.typeInfo.kind, a.fixedPoint with
  | true, some fp =>
    match intOf a.value with
    | none =>
      -- 128-bit integers are integers too: the property leaves them open; anything else: nothing
      match a.value with
      | .u128 _ => .unspecified
      | .i128 _ => .unspecified
      | _ => .nothing
    | some v =>
      match f32Dyadic fp.quantization.toNat with
      | none => .unspecified
      | some (qneg, m, e) =>
        let mag := v.natAbs * m
        if !fits53 v.natAbs || !fits53 mag then .unspecified
        else if mag ≠ 0 ∧ ((v < 0) != qneg) then .unspecified      -- negative product
        else
          let p : Nat := if e ≥ 0 then mag * 2 ^ e.toNat else mag / 2 ^ (-e).toNat
          let sum : Int := (p : Int) + offsetOf fp.offset
          if 0 ≤ sum ∧ sum < 2 ^ 63 then .exactly sum.toNat else .unspecified
  | _, _ => .nothing

end Dlt.Spec
