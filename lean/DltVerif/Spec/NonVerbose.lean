/-
  Spec for C13: non-verbose argument construction, written from the property text as a
  consumer of the remaining payload (no offsets, no slices): one argument per type, in
  order, each decoded from the next field; strings and raw data preceded by a 16-bit
  length; trailing bytes ignored; too short or a string that is not UTF-8 -> error.
  Fixed-point kinds are not part of the supported vocabulary: always an error.
-/
import DltVerif.Model.Types
import DltVerif.Model.Utf8

namespace Dlt.Spec

/-- width in bytes and constructor of the value for the fixed-width kinds -/
def fixedWidth (e : Endian) : TypeInfoKind → Option (Nat × (Bytes → Value))
  | .bool => some (1, fun b => .bool (b.headD 0#8))
  | .signed .b8 => some (1, fun b => .i8 (BitVec.ofNat 8 (e.value b)))
  | .signed .b16 => some (2, fun b => .i16 (BitVec.ofNat 16 (e.value b)))
  | .signed .b32 => some (4, fun b => .i32 (BitVec.ofNat 32 (e.value b)))
  | .signed .b64 => some (8, fun b => .i64 (BitVec.ofNat 64 (e.value b)))
  | .signed .b128 => some (16, fun b => .i128 (BitVec.ofNat 128 (e.value b)))
  | .unsigned .b8 => some (1, fun b => .u8 (BitVec.ofNat 8 (e.value b)))
  | .unsigned .b16 => some (2, fun b => .u16 (BitVec.ofNat 16 (e.value b)))
  | .unsigned .b32 => some (4, fun b => .u32 (BitVec.ofNat 32 (e.value b)))
  | .unsigned .b64 => some (8, fun b => .u64 (BitVec.ofNat 64 (e.value b)))
  | .unsigned .b128 => some (16, fun b => .u128 (BitVec.ofNat 128 (e.value b)))
  | .float .w32 => some (4, fun b => .f32 (BitVec.ofNat 32 (e.value b)))
  | .float .w64 => some (8, fun b => .f64 (BitVec.ofNat 64 (e.value b)))
  | _ => none

/-- decode one field from the front of the remaining payload: value and what is left -/
def field (e : Endian) (k : TypeInfoKind) (rest : Bytes) : Option (Value × Bytes) :=
  match k with
  | .stringType | .raw =>
    if rest.length < 2 then none
    else
      let len := e.value (rest.take 2)
      let body := rest.drop 2
      if body.length < len then none
      else if k == .stringType then
        (if Utf8.valid (body.take len) then some (.stringVal (body.take len), body.drop len) else none)
      else some (.raw (body.take len), body.drop len)
  | .signedFixedPoint _ | .unsignedFixedPoint _ => none
  | k =>
    match fixedWidth e k with
    | none => none
    | some (w, mk) => if rest.length < w then none else some (mk (rest.take w), rest.drop w)

/-- `none` = error -/
def construct (e : Endian) : List TypeInfo → Bytes → Option (List Argument)
  | [], _ => some []
  | ti :: tis, rest =>
    match field e ti.kind rest with
    | none => none
    | some (v, rest') =>
      match construct e tis rest' with
      | none => none
      | some as =>
        some ({ typeInfo := ti, name := none, unit := none, fixedPoint := none, value := v } :: as)

end Dlt.Spec
