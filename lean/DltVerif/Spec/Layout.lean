/-
  Spec: framing of a DLT message inside a byte string, written from the AUTOSAR layout
  with offsets and weights (not from the parser code).

    HTYP = UEH + 2 MSBF + 4 WEID + 8 WSID + 16 WTMS + 32 VERS        (byte 0)
    LEN  = big-endian 16 bit at offset 2: standard header + extended header + payload
    standard header = 4 bytes + 4 per optional field (ECU id, session id, timestamp)
    extended header = 10 bytes, present iff UEH
-/
import DltVerif.Model.Bytes

namespace Dlt.Spec

def bit (b : BitVec 8) (i : Nat) : Bool := b.toNat / 2 ^ i % 2 = 1

/-- length of the standard header announced by HTYP -/
def stdHeaderLen (htyp : BitVec 8) : Nat :=
  4 + (if bit htyp 2 then 4 else 0) + (if bit htyp 3 then 4 else 0) + (if bit htyp 4 then 4 else 0)

/-- length of standard + extended header announced by HTYP -/
def allHeadersLen (htyp : BitVec 8) : Nat :=
  stdHeaderLen htyp + (if bit htyp 0 then 10 else 0)

/-- the LEN field (meaningful when at least 4 bytes are present) -/
def declaredLen (bs : Bytes) : Nat :=
  match bs with
  | _ :: _ :: hi :: lo :: _ => 256 * hi.toNat + lo.toNat
  | _ => 0

inductive Framing where
  /-- the buffer ends before the headers or before the declared length; `bound` is the
      number of bytes certainly still missing (a safe upper bound for any size hint) -/
  | incomplete (bound : Nat)
  /-- the declared length is smaller than the headers it must contain -/
  | reject
  /-- a complete message of `declared` bytes is present -/
  | complete (declared : Nat)
  deriving DecidableEq, Repr

/-- framing of a message without storage header at the start of `bs` -/
def framing (bs : Bytes) : Framing :=
  match bs with
  | [] => .incomplete 1
  | htyp :: _ =>
    if bs.length < stdHeaderLen htyp then .incomplete (stdHeaderLen htyp - bs.length)
    else if declaredLen bs < allHeadersLen htyp then .reject
    else if bs.length < allHeadersLen htyp then .incomplete (allHeadersLen htyp - bs.length)
    else if bs.length < declaredLen bs then .incomplete (declaredLen bs - bs.length)
    else .complete (declaredLen bs)

/-- first offset at which the storage-header pattern `DLT\x01` occurs, by index arithmetic -/
def patternAt (bs : Bytes) (n : Nat) : Bool :=
  bs[n]? = some 0x44#8 && bs[n + 1]? = some 0x4C#8 && bs[n + 2]? = some 0x54#8
    && bs[n + 3]? = some 0x01#8

def firstPattern (bs : Bytes) : Option Nat :=
  (List.range bs.length).find? (patternAt bs)

/-- framing of a message with storage header: junk in front of the first pattern is skipped;
    `complete skip declared`: the message occupies `skip + 16 + declared` bytes -/
inductive StorageFraming where
  | incomplete (bound : Option Nat)
  | reject
  | complete (skip declared : Nat)
  deriving DecidableEq, Repr

def storageFraming (bs : Bytes) : StorageFraming :=
  if bs.length < 16 then .incomplete none
  else
    match firstPattern bs with
    | none => .incomplete none
    | some skip =>
      if bs.length - skip < 16 then .incomplete none
      else
        match framing (bs.drop (skip + 16)) with
        | .incomplete b => .incomplete (some b)
        | .reject => .reject
        | .complete d => .complete skip d

end Dlt.Spec
