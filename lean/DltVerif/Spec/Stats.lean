/-
  Spec for C10: an independent tally, written with `countP` from the property text:
  per ECU id (or "NONE"), application id and context id, the number of messages at each
  log level, invalid level or non-log kind; plus whether any non-verbose message occurred.
-/
import DltVerif.Model.Stats

namespace Dlt.Spec

/-- the eight buckets -/
inductive Bucket where
  | nonLog | fatal | error | warning | info | debug | verbose | invalid
  deriving DecidableEq, Repr

def bucketOf : Option LogLevel → Bucket
  | none => .nonLog
  | some .fatal => .fatal
  | some .error => .error
  | some .warn => .warning
  | some .info => .info
  | some .debug => .debug
  | some .verbose => .verbose
  | some (.invalid _) => .invalid

def LevelDistribution.get (d : LevelDistribution) : Bucket → Nat
  | .nonLog => d.nonLog
  | .fatal => d.logFatal
  | .error => d.logError
  | .warning => d.logWarning
  | .info => d.logInfo
  | .debug => d.logDebug
  | .verbose => d.logVerbose
  | .invalid => d.logInvalid

/-- the three keyings -/
inductive Keying where
  | ecu | app | ctx
  deriving DecidableEq, Repr

/-- the id under which a message is counted for a keying, if it is counted at all -/
def keyOf : Keying → Statistic → Option Bytes
  | .ecu, st => some (st.ecuId.getD NONE_ID)
  | .app, st => st.ext.map (·.1)
  | .ctx, st => st.ext.map (·.2)

/-- number of messages counted under `id` in bucket `b` for keying `k` -/
def tally (k : Keying) (sts : List Statistic) (id : Bytes) (b : Bucket) : Nat :=
  sts.countP (fun st => keyOf k st = some id && bucketOf st.logLevel == b)

def anyNonVerbose (sts : List Statistic) : Bool := sts.any (fun st => !st.isVerbose)

/-- lookup in an id map: all-zero when absent -/
def lookup (m : IdMap) (id : Bytes) (b : Bucket) : Nat :=
  match m.find? (fun e => e.1 = id) with
  | some e => LevelDistribution.get e.2 b
  | none => 0

def mapOf : Keying → StatisticInfo → IdMap
  | .ecu, s => s.ecuIds
  | .app, s => s.appIds
  | .ctx, s => s.contextIds

/-- the headers of a message as the statistics scan sees them -/
def statisticOfMessage (m : Message) : Statistic :=
  { logLevel := (match m.extendedHeader with
      | some eh => (match eh.messageType with | .log l => some l | _ => none)
      | none => none)
    ecuId := m.header.ecuId
    ext := m.extendedHeader.map fun eh => (eh.applicationId, eh.contextId)
    isVerbose := (match m.extendedHeader with | some eh => eh.verbose | none => false) }

end Dlt.Spec
