/-
  The image of the parser: what `dlt_argument` / `dlt_message` return is (almost) a
  well-formed value — everything except the consistency of the recorded payload length with
  the re-serialisation, which non-canonical encodings can break.
-/
import DltVerif.Lemmas.FramingStorage
import DltVerif.Lemmas.RoundTripMsg

namespace Dlt

namespace ParserImage

theorem andThen_ok_inv {α β : Type} {p : PRes α} {f : α → Bytes → PRes β} {b : β} {r : Bytes}
    (h : p.andThen f = .ok b r) : ∃ v r', p = .ok v r' ∧ f v r' = .ok b r := by
  cases p with
  | ok v r' => exact ⟨v, r', rfl, h⟩
  | incomplete n => cases h
  | error => cases h
  | failure => cases h
  | panic => cases h

theorem map_ok_inv {α β : Type} {p : PRes α} {f : α → β} {b : β} {r : Bytes}
    (h : p.map f = .ok b r) : ∃ v, p = .ok v r ∧ b = f v := by
  cases p with
  | ok v r' =>
    simp only [PRes.map_ok] at h
    injection h with h1 h2
    subst h2
    exact ⟨v, rfl, h1.symm⟩
  | incomplete n => cases h
  | error => cases h
  | failure => cases h
  | panic => cases h

/-- `r` is what is left of `i` after exactly `k` bytes -/
def Consumes (i r : Bytes) (k : Nat) : Prop := k ≤ i.length ∧ r = i.drop k

theorem Consumes.refl (i : Bytes) : Consumes i i 0 := ⟨Nat.zero_le _, rfl⟩

theorem Consumes.trans {i r s : Bytes} {k l : Nat} (h1 : Consumes i r k) (h2 : Consumes r s l) :
    Consumes i s (k + l) := by
  obtain ⟨a1, a2⟩ := h1
  obtain ⟨b1, b2⟩ := h2
  subst a2
  rw [List.length_drop] at b1
  exact ⟨by omega, by rw [b2, List.drop_drop]⟩

theorem Consumes.split {i r : Bytes} {k : Nat} (h : Consumes i r k) :
    ∃ c, i = c ++ r ∧ c.length = k := by
  obtain ⟨a1, a2⟩ := h
  subst a2
  exact ⟨i.take k, (List.take_append_drop k i).symm, by rw [List.length_take]; omega⟩

theorem Consumes.length {i r : Bytes} {k : Nat} (h : Consumes i r k) : r.length + k = i.length := by
  obtain ⟨a1, a2⟩ := h
  subst a2
  rw [List.length_drop]; omega

theorem uintN_consumes {e : Endian} {k : Nat} {i : Bytes} {v : Nat} {r : Bytes}
    (h : uintN e k i = .ok v r) : Consumes i r k ∧ v < 256 ^ k := by
  obtain ⟨h1, h2, _, h4⟩ := uintN_ok_inv h
  exact ⟨⟨h1, h2⟩, h4⟩

theorem bitsN_consumes {e : Endian} {k : Nat} {i : Bytes} {v : BitVec (8 * k)} {r : Bytes}
    (h : bitsN e k i = .ok v r) : Consumes i r k := by
  obtain ⟨h1, h2, _⟩ := bitsN_ok_inv h
  exact ⟨h1, h2⟩

theorem beU8_consumes {i : Bytes} {v : BitVec 8} {r : Bytes} (h : beU8 i = .ok v r) :
    Consumes i r 1 := by
  rw [beU8_ok_inv h]
  exact ⟨by simp, rfl⟩

theorem take_consumes {n : Nat} {i v r : Bytes} (h : take n i = .ok v r) :
    Consumes i r n ∧ v.length = n := by
  obtain ⟨h1, h2, h3⟩ := take_ok_inv h
  refine ⟨⟨h1, h3⟩, ?_⟩
  rw [h2, List.length_take]; omega

theorem zts_consumes {n : Nat} {i v r : Bytes} (h : zts n i = .ok v r) :
    Consumes i r n ∧ noNul v = true ∧ Utf8.valid v = true ∧ v.length ≤ n := by
  obtain ⟨h1, h2, _⟩ := zts_ok_inv h
  exact ⟨⟨h1, h2⟩, zts_ok_value h⟩

theorem textOk_of {s : Bytes} {n : Nat} (h1 : noNul s = true) (h2 : Utf8.valid s = true)
    (h3 : s.length ≤ n) (hn : n + 1 ≤ 65535) : textOk s = true := by
  simp only [textOk, h1, h2, Bool.and_self, Bool.true_and, decide_eq_true_eq]
  omega

theorem dltTypeInfo_inv {e : Endian} {i : Bytes} {ti : TypeInfo} {r : Bytes}
    (h : dltTypeInfo e i = .ok ti r) : Consumes i r 4 ∧ ti.coding.canonical = true := by
  unfold dltTypeInfo at h
  obtain ⟨info, r', h1, h2⟩ := andThen_ok_inv h
  have hc := bitsN_consumes h1
  cases ho : TypeInfo.ofU32 info with
  | none => rw [ho] at h2; cases h2
  | some t =>
    rw [ho] at h2
    injection h2 with h3 h4
    subst h3 h4
    exact ⟨hc, ti_decode_canonical info t ho⟩

theorem dltVariableName_inv {e : Endian} {i v r : Bytes} (h : dltVariableName e i = .ok v r) :
    ∃ n, Consumes i r (2 + n) ∧ noNul v = true ∧ Utf8.valid v = true ∧ v.length ≤ n := by
  unfold dltVariableName at h
  obtain ⟨size, r', h1, h2⟩ := andThen_ok_inv h
  obtain ⟨c1, _⟩ := uintN_consumes h1
  obtain ⟨c2, t⟩ := zts_consumes h2
  exact ⟨size, c1.trans c2, t⟩

/-- the optional name of the bool / string / raw layouts -/
theorem optName_inv {e : Endian} {b : Bool} {i : Bytes} {name : Option Bytes} {r : Bytes}
    (h : (if b = true then (dltVariableName e i).map some else PRes.ok none i) = .ok name r) :
    ∃ k, Consumes i r k ∧ (k ≤ 65536 → optText b name = true) := by
  cases b with
  | false =>
    simp only [Bool.false_eq_true, if_false] at h
    injection h with h1 h2
    subst h1 h2
    exact ⟨0, Consumes.refl _, fun _ => rfl⟩
  | true =>
    simp only [if_true] at h
    obtain ⟨v, h1, h2⟩ := map_ok_inv h
    obtain ⟨n, c, t1, t2, t3⟩ := dltVariableName_inv h1
    subst h2
    refine ⟨2 + n, c, fun hk => ?_⟩
    simp only [optText, Bool.true_and]
    exact textOk_of t1 t2 t3 (by omega)

theorem dltVariableNameAndUnit_inv {e : Endian} {ti : TypeInfo} {i : Bytes}
    {nu : Option Bytes × Option Bytes} {r : Bytes}
    (h : dltVariableNameAndUnit e ti i = .ok nu r) :
    ∃ k, Consumes i r k ∧
      (k ≤ 65536 → optText ti.hasVariableInfo nu.1 = true ∧ optText ti.hasVariableInfo nu.2 = true) := by
  unfold dltVariableNameAndUnit at h
  cases hv : ti.hasVariableInfo with
  | false =>
    rw [hv] at h
    simp only [Bool.false_eq_true, if_false] at h
    injection h with h1 h2
    subst h1 h2
    exact ⟨0, Consumes.refl _, fun _ => ⟨rfl, rfl⟩⟩
  | true =>
    rw [hv] at h
    simp only [if_true] at h
    obtain ⟨ns, r1, h1, h⟩ := andThen_ok_inv h
    obtain ⟨us, r2, h2, h⟩ := andThen_ok_inv h
    obtain ⟨name, r3, h3, h⟩ := andThen_ok_inv h
    obtain ⟨unit, r4, h4, h⟩ := andThen_ok_inv h
    injection h with h5 h6
    subst h5 h6
    obtain ⟨c1, _⟩ := uintN_consumes h1
    obtain ⟨c2, _⟩ := uintN_consumes h2
    obtain ⟨c3, n1, n2, n3⟩ := zts_consumes h3
    obtain ⟨c4, u1, u2, u3⟩ := zts_consumes h4
    refine ⟨2 + 2 + ns + us, ((c1.trans c2).trans c3).trans c4, fun hk => ?_⟩
    simp only [optText, Bool.true_and]
    exact ⟨textOk_of n1 n2 n3 (by omega), textOk_of u1 u2 u3 (by omega)⟩

theorem dltUint_inv {e : Endian} {w : TypeLength} {i : Bytes} {v : Value} {r : Bytes}
    (h : dltUint e w i = .ok v r) :
    Consumes i r w.bytes ∧
      ((w = .b8 ∧ ∃ x, v = .u8 x) ∨ (w = .b16 ∧ ∃ x, v = .u16 x) ∨ (w = .b32 ∧ ∃ x, v = .u32 x)
        ∨ (w = .b64 ∧ ∃ x, v = .u64 x) ∨ (w = .b128 ∧ ∃ x, v = .u128 x)) := by
  cases w <;> simp only [dltUint] at h <;> obtain ⟨x, h1, h2⟩ := map_ok_inv h
  · exact ⟨beU8_consumes h1, Or.inl ⟨rfl, x, h2⟩⟩
  · exact ⟨bitsN_consumes h1, Or.inr (Or.inl ⟨rfl, x, h2⟩)⟩
  · exact ⟨bitsN_consumes h1, Or.inr (Or.inr (Or.inl ⟨rfl, x, h2⟩))⟩
  · exact ⟨bitsN_consumes h1, Or.inr (Or.inr (Or.inr (Or.inl ⟨rfl, x, h2⟩)))⟩
  · exact ⟨bitsN_consumes h1, Or.inr (Or.inr (Or.inr (Or.inr ⟨rfl, x, h2⟩)))⟩

theorem dltSint_inv {e : Endian} {w : TypeLength} {i : Bytes} {v : Value} {r : Bytes}
    (h : dltSint e w i = .ok v r) :
    Consumes i r w.bytes ∧
      ((w = .b8 ∧ ∃ x, v = .i8 x) ∨ (w = .b16 ∧ ∃ x, v = .i16 x) ∨ (w = .b32 ∧ ∃ x, v = .i32 x)
        ∨ (w = .b64 ∧ ∃ x, v = .i64 x) ∨ (w = .b128 ∧ ∃ x, v = .i128 x)) := by
  cases w <;> simp only [dltSint] at h <;> obtain ⟨x, h1, h2⟩ := map_ok_inv h
  · exact ⟨beU8_consumes h1, Or.inl ⟨rfl, x, h2⟩⟩
  · exact ⟨bitsN_consumes h1, Or.inr (Or.inl ⟨rfl, x, h2⟩)⟩
  · exact ⟨bitsN_consumes h1, Or.inr (Or.inr (Or.inl ⟨rfl, x, h2⟩))⟩
  · exact ⟨bitsN_consumes h1, Or.inr (Or.inr (Or.inr (Or.inl ⟨rfl, x, h2⟩)))⟩
  · exact ⟨bitsN_consumes h1, Or.inr (Or.inr (Or.inr (Or.inr ⟨rfl, x, h2⟩)))⟩

theorem dltFint_inv {e : Endian} {w : FloatWidth} {i : Bytes} {v : Value} {r : Bytes}
    (h : dltFint e w i = .ok v r) :
    Consumes i r w.bytes ∧ ((w = .w32 ∧ ∃ x, v = .f32 x) ∨ (w = .w64 ∧ ∃ x, v = .f64 x)) := by
  cases w <;> simp only [dltFint] at h <;> obtain ⟨x, h1, h2⟩ := map_ok_inv h
  · exact ⟨bitsN_consumes h1, Or.inl ⟨rfl, x, h2⟩⟩
  · exact ⟨bitsN_consumes h1, Or.inr ⟨rfl, x, h2⟩⟩

theorem dltFixedPoint_inv {e : Endian} {w : FloatWidth} {i : Bytes} {fp : FixedPoint} {r : Bytes}
    (h : dltFixedPoint e w i = .ok fp r) :
    Consumes i r (4 + w.bytes) ∧
      ((w = .w32 ∧ ∃ q x, fp = ⟨q, .i32 x⟩) ∨ (w = .w64 ∧ ∃ q x, fp = ⟨q, .i64 x⟩)) := by
  unfold dltFixedPoint at h
  obtain ⟨q, r1, h1, h⟩ := andThen_ok_inv h
  have c1 := bitsN_consumes h1
  cases w <;> simp only [] at h <;> obtain ⟨x, h2, h3⟩ := map_ok_inv h
  · exact ⟨c1.trans (bitsN_consumes h2), Or.inl ⟨rfl, q, x, h3⟩⟩
  · exact ⟨c1.trans (bitsN_consumes h2), Or.inr ⟨rfl, q, x, h3⟩⟩


/-- the least number of bytes an argument occupies -/
def argCost (a : Argument) : Nat :=
  match a.value with | .raw b => 6 + b.length | _ => 5

/-- everything a successful `dlt_argument` tells -/
def ArgImage (i : Bytes) (a : Argument) (r : Bytes) : Prop :=
  ∃ k, Consumes i r k
    ∧ argCost a ≤ k
    ∧ a.valid = true
    ∧ (i.length ≤ 65535 → a.wf = true)
    ∧ (∀ b, a.value = .raw b → b.length ≤ 65535)

theorem wf_numeric (ti : TypeInfo) (hc : ti.coding.canonical = true) (nu : Option Bytes × Option Bytes)
    (h : optText ti.hasVariableInfo nu.1 = true ∧ optText ti.hasVariableInfo nu.2 = true) :
    (ti.coding.canonical && (optText ti.hasVariableInfo nu.1 && optText ti.hasVariableInfo nu.2)) = true := by
  rw [hc, h.1, h.2]; rfl

theorem dltArgument_image (e : Endian) (i : Bytes) (a : Argument) (r : Bytes)
    (h : dltArgument e i = .ok a r) : ArgImage i a r := by
  unfold dltArgument at h
  obtain ⟨ti, i1, h1, h⟩ := andThen_ok_inv h
  obtain ⟨c0, hcan⟩ := dltTypeInfo_inv h1
  have hl0 := c0.length
  split at h
  · -- signed
    rename_i w hk
    obtain ⟨nu, i2, h2, h⟩ := andThen_ok_inv h
    obtain ⟨v, i3, h3, h⟩ := andThen_ok_inv h
    injection h with ha hr
    subst ha hr
    obtain ⟨k1, c1, t1⟩ := dltVariableNameAndUnit_inv h2
    obtain ⟨c2, hv⟩ := dltSint_inv h3
    have hl1 := c1.length
    have hw : 1 ≤ w.bytes := by cases w <;> decide
    refine ⟨4 + k1 + w.bytes, (c0.trans c1).trans c2, ?_, ?_, ?_, ?_⟩
    · rcases hv with ⟨_, x, rfl⟩ | ⟨_, x, rfl⟩ | ⟨_, x, rfl⟩ | ⟨_, x, rfl⟩ | ⟨_, x, rfl⟩ <;>
        (simp only [argCost]; omega)
    · simp only [Argument.valid, hk]
    · intro hl
      have ht := wf_numeric ti hcan nu (t1 (by omega))
      rcases hv with ⟨rfl, x, rfl⟩ | ⟨rfl, x, rfl⟩ | ⟨rfl, x, rfl⟩ | ⟨rfl, x, rfl⟩ | ⟨rfl, x, rfl⟩ <;>
        (simp only [Argument.wf, hk]; exact ht)
    · intro b hb
      rcases hv with ⟨_, x, rfl⟩ | ⟨_, x, rfl⟩ | ⟨_, x, rfl⟩ | ⟨_, x, rfl⟩ | ⟨_, x, rfl⟩ <;> cases hb
  · -- signed fixed point
    rename_i w hk
    obtain ⟨nu, i2, h2, h⟩ := andThen_ok_inv h
    obtain ⟨fp, i3, h3, h⟩ := andThen_ok_inv h
    obtain ⟨v, i4, h4, h⟩ := andThen_ok_inv h
    injection h with ha hr
    subst ha hr
    obtain ⟨k1, c1, t1⟩ := dltVariableNameAndUnit_inv h2
    obtain ⟨c2, hf⟩ := dltFixedPoint_inv h3
    obtain ⟨c3, hv⟩ := dltSint_inv h4
    have hl1 := c1.length
    have hw : 1 ≤ w.toTypeLength.bytes := by cases w <;> decide
    refine ⟨4 + k1 + (4 + w.bytes) + w.toTypeLength.bytes, ((c0.trans c1).trans c2).trans c3,
      ?_, ?_, ?_, ?_⟩
    · rcases hv with ⟨_, x, rfl⟩ | ⟨_, x, rfl⟩ | ⟨_, x, rfl⟩ | ⟨_, x, rfl⟩ | ⟨_, x, rfl⟩ <;>
        (simp only [argCost]; omega)
    · simp only [Argument.valid, hk]
    · intro hl
      have ht := wf_numeric ti hcan nu (t1 (by omega))
      rcases hf with ⟨rfl, q, y, rfl⟩ | ⟨rfl, q, y, rfl⟩ <;>
        rcases hv with ⟨hw', x, rfl⟩ | ⟨hw', x, rfl⟩ | ⟨hw', x, rfl⟩ | ⟨hw', x, rfl⟩ | ⟨hw', x, rfl⟩ <;>
        first
          | (exact absurd hw' (by decide))
          | (simp only [Argument.wf, hk]; exact ht)
    · intro b hb
      rcases hv with ⟨_, x, rfl⟩ | ⟨_, x, rfl⟩ | ⟨_, x, rfl⟩ | ⟨_, x, rfl⟩ | ⟨_, x, rfl⟩ <;> cases hb
  · -- unsigned
    rename_i w hk
    obtain ⟨nu, i2, h2, h⟩ := andThen_ok_inv h
    obtain ⟨v, i3, h3, h⟩ := andThen_ok_inv h
    injection h with ha hr
    subst ha hr
    obtain ⟨k1, c1, t1⟩ := dltVariableNameAndUnit_inv h2
    obtain ⟨c2, hv⟩ := dltUint_inv h3
    have hl1 := c1.length
    have hw : 1 ≤ w.bytes := by cases w <;> decide
    refine ⟨4 + k1 + w.bytes, (c0.trans c1).trans c2, ?_, ?_, ?_, ?_⟩
    · rcases hv with ⟨_, x, rfl⟩ | ⟨_, x, rfl⟩ | ⟨_, x, rfl⟩ | ⟨_, x, rfl⟩ | ⟨_, x, rfl⟩ <;>
        (simp only [argCost]; omega)
    · simp only [Argument.valid, hk]
    · intro hl
      have ht := wf_numeric ti hcan nu (t1 (by omega))
      rcases hv with ⟨rfl, x, rfl⟩ | ⟨rfl, x, rfl⟩ | ⟨rfl, x, rfl⟩ | ⟨rfl, x, rfl⟩ | ⟨rfl, x, rfl⟩ <;>
        (simp only [Argument.wf, hk]; exact ht)
    · intro b hb
      rcases hv with ⟨_, x, rfl⟩ | ⟨_, x, rfl⟩ | ⟨_, x, rfl⟩ | ⟨_, x, rfl⟩ | ⟨_, x, rfl⟩ <;> cases hb
  · -- unsigned fixed point
    rename_i w hk
    obtain ⟨nu, i2, h2, h⟩ := andThen_ok_inv h
    obtain ⟨fp, i3, h3, h⟩ := andThen_ok_inv h
    obtain ⟨v, i4, h4, h⟩ := andThen_ok_inv h
    injection h with ha hr
    subst ha hr
    obtain ⟨k1, c1, t1⟩ := dltVariableNameAndUnit_inv h2
    obtain ⟨c2, hf⟩ := dltFixedPoint_inv h3
    obtain ⟨c3, hv⟩ := dltUint_inv h4
    have hl1 := c1.length
    have hw : 1 ≤ w.toTypeLength.bytes := by cases w <;> decide
    refine ⟨4 + k1 + (4 + w.bytes) + w.toTypeLength.bytes, ((c0.trans c1).trans c2).trans c3,
      ?_, ?_, ?_, ?_⟩
    · rcases hv with ⟨_, x, rfl⟩ | ⟨_, x, rfl⟩ | ⟨_, x, rfl⟩ | ⟨_, x, rfl⟩ | ⟨_, x, rfl⟩ <;>
        (simp only [argCost]; omega)
    · simp only [Argument.valid, hk]
    · intro hl
      have ht := wf_numeric ti hcan nu (t1 (by omega))
      rcases hf with ⟨rfl, q, y, rfl⟩ | ⟨rfl, q, y, rfl⟩ <;>
        rcases hv with ⟨hw', x, rfl⟩ | ⟨hw', x, rfl⟩ | ⟨hw', x, rfl⟩ | ⟨hw', x, rfl⟩ | ⟨hw', x, rfl⟩ <;>
        first
          | (exact absurd hw' (by decide))
          | (simp only [Argument.wf, hk]; exact ht)
    · intro b hb
      rcases hv with ⟨_, x, rfl⟩ | ⟨_, x, rfl⟩ | ⟨_, x, rfl⟩ | ⟨_, x, rfl⟩ | ⟨_, x, rfl⟩ <;> cases hb
  · -- float
    rename_i w hk
    obtain ⟨nu, i2, h2, h⟩ := andThen_ok_inv h
    obtain ⟨v, i3, h3, h⟩ := andThen_ok_inv h
    injection h with ha hr
    subst ha hr
    obtain ⟨k1, c1, t1⟩ := dltVariableNameAndUnit_inv h2
    obtain ⟨c2, hv⟩ := dltFint_inv h3
    have hl1 := c1.length
    have hw : 1 ≤ w.bytes := by cases w <;> decide
    refine ⟨4 + k1 + w.bytes, (c0.trans c1).trans c2, ?_, ?_, ?_, ?_⟩
    · rcases hv with ⟨_, x, rfl⟩ | ⟨_, x, rfl⟩ <;> (simp only [argCost]; omega)
    · rcases hv with ⟨rfl, x, rfl⟩ | ⟨rfl, x, rfl⟩ <;> simp only [Argument.valid, hk]
    · intro hl
      have ht := wf_numeric ti hcan nu (t1 (by omega))
      rcases hv with ⟨rfl, x, rfl⟩ | ⟨rfl, x, rfl⟩ <;>
        (simp only [Argument.wf, hk]; exact ht)
    · intro b hb
      rcases hv with ⟨_, x, rfl⟩ | ⟨_, x, rfl⟩ <;> cases hb
  · -- raw
    rename_i hk
    obtain ⟨cnt, i2, h2, h⟩ := andThen_ok_inv h
    obtain ⟨name, i3, h3, h⟩ := andThen_ok_inv h
    obtain ⟨bytes, i4, h4, h⟩ := andThen_ok_inv h
    injection h with ha hr
    subst ha hr
    obtain ⟨c1, hcnt⟩ := uintN_consumes h2
    obtain ⟨k2, c2, t2⟩ := optName_inv h3
    obtain ⟨c3, hb⟩ := take_consumes h4
    have hl1 := c1.length
    have hl2 := c2.length
    refine ⟨4 + 2 + k2 + cnt, ((c0.trans c1).trans c2).trans c3, ?_, ?_, ?_, ?_⟩
    · simp only [argCost]; omega
    · simp only [Argument.valid, hk]
    · intro hl
      simp only [Argument.wf, hk, hcan, t2 (by omega), Bool.true_and, Option.isNone_none,
        decide_eq_true_eq]
      omega
    · intro b hb'
      injection hb' with hb'
      subst hb'
      omega
  · -- bool
    rename_i hk
    obtain ⟨name, i2, h2, h⟩ := andThen_ok_inv h
    obtain ⟨b, i3, h3, h⟩ := andThen_ok_inv h
    injection h with ha hr
    subst ha hr
    obtain ⟨k1, c1, t1⟩ := optName_inv h2
    have c2 := beU8_consumes h3
    have hl1 := c1.length
    refine ⟨4 + k1 + 1, (c0.trans c1).trans c2, ?_, ?_, ?_, ?_⟩
    · simp only [argCost]; omega
    · simp only [Argument.valid, hk]
    · intro hl
      simp only [Argument.wf, hk, hcan, t1 (by omega), Bool.true_and, Option.isNone_none]
    · intro b hb
      cases hb
  · -- string
    rename_i hk
    obtain ⟨size, i2, h2, h⟩ := andThen_ok_inv h
    obtain ⟨name, i3, h3, h⟩ := andThen_ok_inv h
    obtain ⟨s, i4, h4, h⟩ := andThen_ok_inv h
    injection h with ha hr
    subst ha hr
    obtain ⟨c1, hsz⟩ := uintN_consumes h2
    obtain ⟨k2, c2, t2⟩ := optName_inv h3
    obtain ⟨c3, s1, s2, s3⟩ := zts_consumes h4
    have hl1 := c1.length
    have hl2 := c2.length
    have hl3 := c3.length
    refine ⟨4 + 2 + k2 + size, ((c0.trans c1).trans c2).trans c3, ?_, ?_, ?_, ?_⟩
    · simp only [argCost]; omega
    · simp only [Argument.valid, hk]
    · intro hl
      simp only [Argument.wf, hk, hcan, t2 (by omega), Bool.true_and, Option.isNone_none,
        textOk_of s1 s2 s3 (by omega)]
    · intro b hb
      cases hb

end ParserImage
open ParserImage

/-- a parsed argument passes the crate's validity check -/
theorem dltArgument_valid (e : Endian) (i : Bytes) (a : Argument) (r : Bytes)
    (h : dltArgument e i = .ok a r) : a.valid = true := by
  obtain ⟨_, _, _, hv, _, _⟩ := dltArgument_image e i a r h
  exact hv

/-- a parsed argument is well-formed, provided the input is short enough for every name to
    fit its 16-bit length field with terminator (always the case inside a payload) -/
theorem dltArgument_wf (e : Endian) (i : Bytes) (a : Argument) (r : Bytes)
    (h : dltArgument e i = .ok a r) (hl : i.length ≤ 65535) : a.wf = true := by
  obtain ⟨_, _, _, _, hw, _⟩ := dltArgument_image e i a r h
  exact hw hl

/-- the remainder is a suffix, and an argument occupies at least 5 bytes; a raw-data
    argument at least 6 + its data -/
theorem dltArgument_consumed (e : Endian) (i : Bytes) (a : Argument) (r : Bytes)
    (h : dltArgument e i = .ok a r) :
    ∃ c, i = c ++ r ∧ (match a.value with | .raw b => 6 + b.length | _ => 5) ≤ c.length := by
  obtain ⟨k, hc, hk, _, _, _⟩ := dltArgument_image e i a r h
  obtain ⟨c, h1, h2⟩ := hc.split
  exact ⟨c, h1, by rw [h2]; exact hk⟩

namespace ParserImage

theorem count_image (e : Endian) (n : Nat) (i : Bytes) (args : List Argument)
    (r : Bytes) (h : count (dltArgument e) n i = .ok args r) (hl : i.length ≤ 65535) :
    args.length = n ∧ args.all Argument.wf = true ∧ args.all Argument.valid = true
    ∧ (∀ a b, a ∈ args → a.value = .raw b → b.length ≤ 65535)
    ∧ ∃ k, Consumes i r k ∧ (args.map argCost).sum ≤ k := by
  induction n generalizing i args with
  | zero =>
    simp only [count] at h
    injection h with h1 h2
    subst h1 h2
    exact ⟨rfl, rfl, rfl, (fun a b ha => by cases ha), 0, Consumes.refl _, Nat.le_refl _⟩
  | succ n ih =>
    simp only [count] at h
    obtain ⟨a, r1, h1, h⟩ := andThen_ok_inv h
    obtain ⟨as, h2, h3⟩ := map_ok_inv h
    subst h3
    obtain ⟨k1, c1, hk1, hv, hw, hraw⟩ := dltArgument_image e i a r1 h1
    have hl1 := c1.length
    obtain ⟨p1, p2, p3, p4, k2, c2, hk2⟩ := ih r1 as h2 (by omega)
    refine ⟨by simp only [List.length_cons, p1], ?_, ?_, ?_, k1 + k2, c1.trans c2, ?_⟩
    · simp only [List.all_cons, hw hl, p2, Bool.and_self]
    · simp only [List.all_cons, hv, p3, Bool.and_self]
    · intro a' b ha hb
      rcases List.mem_cons.1 ha with rfl | ha
      · exact hraw b hb
      · exact p4 a' b ha hb
    · simp only [List.map_cons, List.sum_cons]
      omega

end ParserImage

theorem count_dltArgument_image (e : Endian) (n : Nat) (i : Bytes) (args : List Argument)
    (r : Bytes) (h : count (dltArgument e) n i = .ok args r) (hl : i.length ≤ 65535) :
    args.length = n ∧ args.all Argument.wf = true ∧ args.all Argument.valid = true
    ∧ ∃ c, i = c ++ r ∧
        (args.map fun a => match a.value with | .raw b => 6 + b.length | _ => 5).sum ≤ c.length := by
  obtain ⟨p1, p2, p3, _, k, hc, hk⟩ := count_image e n i args r h hl
  obtain ⟨c, h1, h2⟩ := hc.split
  exact ⟨p1, p2, p3, c, h1, by rw [h2]; exact hk⟩

namespace ParserImage

/-! ### lists of arguments and raw slices -/

/-- the raw data of a raw-data argument (what `dlt_payload` keeps of a network trace) -/
def rawOf (a : Argument) : Option Bytes :=
  match a.value with | .raw b => some b | _ => none

theorem rawOf_some {a : Argument} {s : Bytes} (h : rawOf a = some s) : a.value = .raw s := by
  unfold rawOf at h
  split at h
  · rename_i b hb
    injection h with h
    rw [hb, h]
  · cases h

theorem cost_sum (args : List Argument) :
    (args.map argCost).sum + 5 * (args.filterMap rawOf).length
      = ((args.filterMap rawOf).map (fun s => 6 + s.length)).sum + 5 * args.length := by
  induction args with
  | nil => rfl
  | cons a as ih =>
    cases hv : a.value with
    | raw b =>
      have h1 : argCost a = 6 + b.length := by simp only [argCost, hv]
      have h2 : rawOf a = some b := by simp only [rawOf, hv]
      simp only [List.map_cons, List.sum_cons, List.filterMap_cons, h1, h2, List.length_cons]
      omega
    | _ =>
      have h1 : argCost a = 5 := by simp only [argCost, hv]
      have h2 : rawOf a = none := by simp only [rawOf, hv]
      simp only [List.map_cons, List.sum_cons, List.filterMap_cons, h1, h2, List.length_cons]
      omega

theorem networkTrace_length (e : Endian) (slices : List Bytes) :
    ((PayloadContent.networkTrace slices).asBytes e).length
      = (slices.map (fun s => 6 + s.length)).sum := by
  simp only [PayloadContent.asBytes]
  induction slices with
  | nil => rfl
  | cons s t ih =>
    simp only [List.map_cons, List.flatten_cons, List.length_append, Endian.length_bytes,
      List.sum_cons, ih]

theorem all_wf_not_panics (args : List Argument) (h : args.all Argument.wf = true) :
    args.any Argument.asBytesPanics = false
      ∧ args.all (fun a => !a.asBytesPanics) = true := by
  simp only [List.all_eq_true] at h
  refine ⟨?_, ?_⟩
  · simp only [List.any_eq_false]
    intro a ha
    rw [Argument.wf_not_panics a (h a ha)]
    simp
  · simp only [List.all_eq_true]
    intro a ha
    rw [Argument.wf_not_panics a (h a ha)]
    rfl

theorem fromValue_canonical (b : BitVec 8) : (ControlType.fromValue b).canonicalValue = true := by
  revert b; decide

/-! ### the payload -/

theorem dltPayload_image (e : Endian) (pb : Bytes) (vb : Bool) (pl argc : Nat)
    (mt : Option MessageType) (p : PayloadContent) (rest : Bytes)
    (h : dltPayload e pb vb pl argc mt = .ok p rest) (hl : pb.length ≤ 65535) :
    match (generalizing := false) p with
    | .verbose args =>
      vb = true ∧ (∀ t, mt ≠ some (.networkTrace t)) ∧ args.length = argc
        ∧ args.all Argument.wf = true ∧ args.all Argument.valid = true
    | .networkTrace slices =>
      vb = true ∧ (∃ t, mt = some (.networkTrace t)) ∧
        ∃ args : List Argument, args.length = argc ∧ slices = args.filterMap rawOf
          ∧ (args.map argCost).sum ≤ pb.length
          ∧ (∀ a b, a ∈ args → a.value = .raw b → b.length ≤ 65535)
    | .controlMsg t _ => vb = false ∧ (∃ c, mt = some (.control c)) ∧ t.canonicalValue = true
    | .nonVerbose _ _ => vb = false ∧ (∀ c, mt ≠ some (.control c)) := by
  unfold dltPayload at h
  cases vb with
  | true =>
    simp only [if_true] at h
    cases hc : count (dltArgument e) argc pb with
    | ok args rest' =>
      rw [hc] at h
      simp only [] at h
      obtain ⟨p1, p2, p3, p4, k, ck, hk⟩ := count_image e argc pb args rest' hc hl
      have hkl := ck.length
      split at h
      · rename_i t
        injection h with h1 h2
        subst h1
        exact ⟨rfl, ⟨t, rfl⟩, args, p1, rfl, by omega, p4⟩
      · rename_i hnt
        injection h with h1 h2
        subst h1
        exact ⟨rfl, fun t ht => hnt t ht, p1, p2, p3⟩
    | incomplete n => rw [hc] at h; cases h
    | error => rw [hc] at h; cases h
    | failure => rw [hc] at h; cases h
    | panic => rw [hc] at h; cases h
  | false =>
    simp only [Bool.false_eq_true, if_false] at h
    split at h
    · rename_i c
      split at h
      · cases h
      · obtain ⟨b, i1, _, h⟩ := andThen_ok_inv h
        obtain ⟨pay, i2, _, h⟩ := andThen_ok_inv h
        injection h with h1 h2
        subst h1
        exact ⟨rfl, ⟨c, rfl⟩, fromValue_canonical b⟩
    · rename_i hnc
      split at h
      · cases h
      · obtain ⟨b, i1, _, h⟩ := andThen_ok_inv h
        obtain ⟨pay, i2, _, h⟩ := andThen_ok_inv h
        injection h with h1 h2
        subst h1
        exact ⟨rfl, fun c hc => hnc c hc⟩

/-! ### the message -/

theorem vpl_ok_inv {h : StandardHeader} {rem pl : Nat} (hver : h.version.toNat < 8)
    (hv : validatedPayloadLength h rem = some (.ok pl)) : pl = h.payloadLength.toNat := by
  unfold validatedPayloadLength at hv
  split at hv
  · cases hv
  · rename_i hp
    simp only [] at hv
    split at hv
    · cases hv
    · split at hv
      · cases hv
      · injection hv with hv
        injection hv with hv
        have hsum := StandardHeader.overallLengthNat_eq h hver
        simp only [StandardHeader.overallLengthPanics, decide_eq_true_eq] at hp
        simp only [StandardHeader.overallLength, asU16] at hv
        omega

/-- what the parser guarantees about header, extended header and payload of a returned
    message, independently of the storage header -/
def BodyOk (hd : StandardHeader) (eho : Option ExtendedHeader) (p : PayloadContent) : Prop :=
  hd.version.toNat < 8
  ∧ (∀ id, hd.ecuId = some id → idOk id = true)
  ∧ hd.hasExtendedHeader = eho.isSome
  ∧ (∀ eh, eho = some eh → eh.wf = true)
  ∧ hd.overallLengthNat ≤ 65535
  ∧ ∃ pb rest, pb.length = hd.payloadLength.toNat ∧
      dltPayload hd.endianness pb
        (match (generalizing := false) eho with | some eh => eh.verbose | none => false)
        hd.payloadLength.toNat
        (match (generalizing := false) eho with | some eh => eh.argumentCount.toNat | none => 0)
        (eho.map (·.messageType)) = .ok p rest

theorem stdHeader_ok_facts (bs : Bytes) (hd : StandardHeader) (r : Bytes)
    (h : dltStandardHeader bs = .ok hd r) :
    hd.overallLengthNat ≤ 65535 ∧ hd.version.toNat < 8
      ∧ (∀ id, hd.ecuId = some id → idOk id = true) := by
  have hstd := dltStandardHeader_closed bs
  cases bs with
  | nil =>
    simp only [] at hstd
    rw [hstd] at h
    cases h
  | cons htyp t =>
    simp only [] at hstd
    have hD := FramingStorage.declaredLen_lt (htyp :: t)
    split at hstd
    · obtain ⟨n, hn, _⟩ := hstd
      rw [hn] at h
      cases h
    · split at hstd
      · rw [hstd] at h
        cases h
      · obtain ⟨h', hh, p1, _, _, p4, p5⟩ := hstd
        rw [hh] at h
        injection h with e1 e2
        subst e1
        exact ⟨by omega, p4, p5⟩

theorem optExtHeader_ok_facts (b : Bool) (i : Bytes) (eho : Option ExtendedHeader) (r : Bytes)
    (h : (if b = true then (dltExtendedHeader i).map some else PRes.ok none i) = .ok eho r) :
    b = eho.isSome ∧ ∀ eh, eho = some eh → eh.wf = true := by
  cases b with
  | false =>
    simp only [Bool.false_eq_true, if_false] at h
    injection h with e1 e2
    subst e1
    exact ⟨rfl, fun eh he => by cases he⟩
  | true =>
    simp only [if_true] at h
    obtain ⟨eh, h3, h4⟩ := map_ok_inv h
    subst h4
    have hc := dltExtendedHeader_closed i
    split at hc
    · obtain ⟨n, hn, _⟩ := hc
      rw [hn] at h3
      cases h3
    · obtain ⟨eh', he', hwf⟩ := hc
      rw [he'] at h3
      injection h3 with e1 e2
      subst e1
      exact ⟨rfl, fun eh he => by cases he; exact hwf⟩

theorem parsed_shape_nostorage (bs : Bytes) (f : Option ProcessedFilter) (m : Message) (r : Bytes)
    (h : dltMessageIntern bs f false = .ok (.item m) r) :
    m.storageHeader = none ∧ BodyOk m.header m.extendedHeader m.payload := by
  unfold dltMessageIntern at h
  simp only [Bool.false_eq_true, if_false, PRes.andThen_ok] at h
  obtain ⟨hd, i2, h1, h⟩ := andThen_ok_inv h
  obtain ⟨f1, f2, f3⟩ := stdHeader_ok_facts bs hd i2 h1
  cases hv : validatedPayloadLength hd bs.length with
  | none => rw [hv] at h; cases h
  | some plr =>
    rw [hv] at h
    simp only [] at h
    obtain ⟨eho, ah, h2, h⟩ := andThen_ok_inv h
    obtain ⟨g1, g2⟩ := optExtHeader_ok_facts _ _ _ _ h2
    cases plr with
    | incomplete n => simp only [] at h; cases h
    | hickup => simp only [] at h; cases h
    | ok pl =>
      simp only [] at h
      have hpl : pl = hd.payloadLength.toNat := vpl_ok_inv f2 hv
      subst hpl
      split at h
      · obtain ⟨_, am, _, h⟩ := andThen_ok_inv h
        cases h
      · obtain ⟨pb, am, h3, h⟩ := andThen_ok_inv h
        obtain ⟨_, hpb⟩ := take_consumes h3
        split at h
        · rename_i payload rest' hp
          injection h with e1 e2
          injection e1 with e1
          subst e1
          exact ⟨rfl, f2, f3, g1, g2, f1, pb, rest', hpb, hp⟩
        all_goals cases h

theorem parsed_shape (bs : Bytes) (f : Option ProcessedFilter) (w : Bool) (m : Message) (r : Bytes)
    (h : dltMessageIntern bs f w = .ok (.item m) r) :
    ((w = false ∧ m.storageHeader = none)
      ∨ (w = true ∧ ∃ sh, m.storageHeader = some sh ∧ idOk sh.ecuId = true))
    ∧ BodyOk m.header m.extendedHeader m.payload := by
  cases w with
  | false =>
    obtain ⟨h1, h2⟩ := parsed_shape_nostorage bs f m r h
    exact ⟨Or.inl ⟨rfl, h1⟩, h2⟩
  | true =>
    by_cases h16 : bs.length < 16
    · rw [dltMessageIntern_storage_short bs f h16] at h
      cases h
    · cases hs : Spec.firstPattern bs with
      | none =>
        rw [dltMessageIntern_storage_nopattern bs f (by omega) hs] at h
        cases h
      | some skip =>
        by_cases hcut : bs.length - skip < 16
        · obtain ⟨n, hn, _⟩ := dltMessageIntern_storage_cut bs f skip (by omega) hs hcut
          rw [hn] at h
          cases h
        · obtain ⟨sh, hid, heq⟩ := dltMessageIntern_storage bs f skip (by omega) hs (by omega)
          rw [heq] at h
          obtain ⟨pm, h1, h2⟩ := map_ok_inv h
          cases pm with
          | item m0 =>
            simp only [ParsedMessage.withStorage] at h2
            injection h2 with h2
            subst h2
            obtain ⟨_, hb⟩ := parsed_shape_nostorage _ f m0 r h1
            exact ⟨Or.inr ⟨rfl, sh, rfl, hid⟩, hb⟩
          | filteredOut n => simp only [ParsedMessage.withStorage] at h2; cases h2
          | invalid => simp only [ParsedMessage.withStorage] at h2; cases h2

theorem wf_intro (m : Message)
    (h1 : ∀ sh, m.storageHeader = some sh → idOk sh.ecuId = true)
    (h2 : m.header.version.toNat < 8)
    (h3 : ∀ id, m.header.ecuId = some id → idOk id = true)
    (h4 : m.header.hasExtendedHeader = m.extendedHeader.isSome)
    (h5 : ∀ eh, m.extendedHeader = some eh → eh.wf = true)
    (h6 : payloadConsistent m.payload m.extendedHeader = true)
    (h7 : m.header.payloadLength.toNat = (m.payload.asBytes m.header.endianness).length)
    (h8 : m.header.overallLengthNat ≤ 65535) : m.wf = true := by
  simp only [Message.wf, Bool.and_eq_true, decide_eq_true_eq, beq_iff_eq]
  refine ⟨⟨⟨⟨⟨⟨⟨?_, h2⟩, ?_⟩, h4⟩, ?_⟩, h6⟩, h7⟩, h8⟩
  · split
    · rename_i sh hs; exact h1 sh hs
    · rfl
  · split
    · rename_i id hs; exact h3 id hs
    · rfl
  · split
    · rename_i eh hs; exact h5 eh hs
    · rfl

/-- the payload of a returned message is consistent with its extended header as soon as its
    re-serialisation has the recorded length -/
theorem payloadConsistent_of_length (hd : StandardHeader) (eho : Option ExtendedHeader)
    (p : PayloadContent) (hb : BodyOk hd eho p)
    (hpl : hd.payloadLength.toNat = (p.asBytes hd.endianness).length) :
    payloadConsistent p eho = true := by
  obtain ⟨_, _, _, _, _, pb, rest, hpb, hp⟩ := hb
  have hpbl : pb.length ≤ 65535 := by
    have := hd.payloadLength.isLt
    omega
  have himg := dltPayload_image _ _ _ _ _ _ _ _ hp hpbl
  cases p with
  | verbose args =>
    simp only [] at himg
    obtain ⟨hvb, hnt, hcnt, hwf, _⟩ := himg
    cases eho with
    | none => cases hvb
    | some eh =>
      have hvb' : eh.verbose = true := hvb
      have hcnt' : args.length = eh.argumentCount.toNat := hcnt
      have hn : eh.messageType.isNetworkTrace = false := by
        cases hm : eh.messageType with
        | networkTrace t => exact absurd (congrArg some hm) (hnt t)
        | _ => rfl
      simp only [payloadConsistent, Bool.and_eq_true, decide_eq_true_eq, Bool.not_eq_true']
      exact ⟨⟨⟨hvb', hcnt'.symm⟩, hn⟩, hwf⟩
  | networkTrace slices =>
    simp only [] at himg
    obtain ⟨hvb, ⟨t, hnt⟩, args, hcnt, hsl, hsum, hraw⟩ := himg
    cases eho with
    | none => cases hvb
    | some eh =>
      have hvb' : eh.verbose = true := hvb
      have hcnt' : args.length = eh.argumentCount.toNat := hcnt
      have hmt : eh.messageType = .networkTrace t := by
        have : some eh.messageType = some (MessageType.networkTrace t) := hnt
        injection this
      have hnl := networkTrace_length hd.endianness slices
      have hcs := cost_sum args
      have hle := List.length_filterMap_le rawOf args
      rw [← hsl] at hcs hle
      have hall : slices.all (fun s => decide (s.length ≤ 65535)) = true := by
        simp only [List.all_eq_true, decide_eq_true_eq]
        intro s hs
        rw [hsl] at hs
        obtain ⟨a, ha, has⟩ := List.mem_filterMap.1 hs
        exact hraw a s ha (rawOf_some has)
      simp only [payloadConsistent, Bool.and_eq_true, decide_eq_true_eq]
      refine ⟨⟨⟨hvb', by omega⟩, by rw [hmt]; rfl⟩, hall⟩
  | controlMsg t pay =>
    simp only [] at himg
    obtain ⟨hvb, ⟨c, hct⟩, hcan⟩ := himg
    cases eho with
    | none => cases hct
    | some eh =>
      have hvb' : eh.verbose = false := hvb
      have hmt : eh.messageType = .control c := by
        have : some eh.messageType = some (MessageType.control c) := hct
        injection this
      simp only [payloadConsistent, Bool.and_eq_true, Bool.not_eq_true']
      exact ⟨⟨hvb', by rw [hmt]; rfl⟩, hcan⟩
  | nonVerbose id pay =>
    simp only [] at himg
    obtain ⟨hvb, hnc⟩ := himg
    cases eho with
    | none => rfl
    | some eh =>
      have hvb' : eh.verbose = false := hvb
      have hn : eh.messageType.isControl = false := by
        cases hm : eh.messageType with
        | control c => exact absurd (congrArg some hm) (hnc c)
        | _ => rfl
      simp only [payloadConsistent, Bool.and_eq_true, Bool.not_eq_true']
      exact ⟨hvb', hn⟩

end ParserImage

/-- a returned message can be re-serialised and measured without overflow, and each of its
    arguments passes the validity check -/
theorem parsed_usable (bs : Bytes) (f : Option ProcessedFilter) (w : Bool) (m : Message) (r : Bytes)
    (h : dltMessageIntern bs f w = .ok (.item m) r) :
    m.asBytesPanics = false
    ∧ (∀ args, m.payload = .verbose args → args.all Argument.valid = true
         ∧ args.all (fun a => !a.asBytesPanics) = true) := by
  obtain ⟨_, _, _, _, _, hlen, pb, rest, hpb, hp⟩ := parsed_shape bs f w m r h
  have hov : m.header.overallLengthPanics = false := by
    simp only [StandardHeader.overallLengthPanics, decide_eq_false_iff_not]; omega
  have hpbl : pb.length ≤ 65535 := by
    have := m.header.payloadLength.isLt
    omega
  have himg := dltPayload_image _ _ _ _ _ _ _ _ hp hpbl
  have key : ∀ args, m.payload = .verbose args →
      args.all Argument.wf = true ∧ args.all Argument.valid = true := by
    intro args ha
    rw [ha] at himg
    exact ⟨himg.2.2.2.1, himg.2.2.2.2⟩
  have hpp : m.payload.asBytesPanics = false := by
    cases hpay : m.payload with
    | verbose args => exact (all_wf_not_panics args (key args hpay).1).1
    | _ => rfl
  refine ⟨by simp only [Message.asBytesPanics, hov, hpp, Bool.or_self], ?_⟩
  intro args ha
  exact ⟨(key args ha).2, (all_wf_not_panics args (key args ha).1).2⟩

/-- if the re-serialisation of a returned message has the length its own header declares,
    the message is well-formed (so the round-trip theorem applies to it) -/
theorem parsed_wf_of_length (bs : Bytes) (f : Option ProcessedFilter) (w : Bool) (m : Message)
    (r : Bytes) (h : dltMessageIntern bs f w = .ok (.item m) r)
    (hlen : m.asBytes.length = (if w then 16 else 0) + m.header.overallLength) :
    m.wf = true ∧ m.storageHeader.isSome = w := by
  obtain ⟨hst, hb⟩ := parsed_shape bs f w m r h
  have hb' := hb
  obtain ⟨hv, hid, hext, hehwf, hlen8, _⟩ := hb'
  have hsh : (∀ sh, m.storageHeader = some sh → idOk sh.ecuId = true)
      ∧ m.storageHeader.isSome = w
      ∧ (shBytes m.storageHeader).length = if w = true then 16 else 0 := by
    rcases hst with ⟨rfl, hs⟩ | ⟨rfl, sh, hs, hsid⟩
    · rw [hs]
      exact ⟨fun sh he => (by cases he), rfl, rfl⟩
    · rw [hs]
      refine ⟨fun sh' he => (by cases he; exact hsid), rfl, ?_⟩
      simp only [shBytes, StorageHeader.length_asBytes sh hsid, if_true]
  obtain ⟨s1, s2, s3⟩ := hsh
  have heb : (ehBytes m.extendedHeader).length
      = if m.header.hasExtendedHeader = true then 10 else 0 := by
    rw [hext]
    cases heh : m.extendedHeader with
    | none => rfl
    | some eh =>
      simp only [ehBytes, Option.isSome, if_true, ExtendedHeader.length_asBytes eh (hehwf eh heh)]
  have hol : m.header.overallLength = m.header.overallLengthNat := by
    simp only [StandardHeader.overallLength, asU16]; omega
  have hpl : m.header.payloadLength.toNat
      = (m.payload.asBytes m.header.endianness).length := by
    rw [Message.asBytes_eq, List.length_append, List.length_append, List.length_append, s3,
      StandardHeader.length_asBytes _ hid, heb, hol] at hlen
    simp only [StandardHeader.overallLengthNat, HEADER_MIN_LENGTH, EXTENDED_HEADER_LENGTH] at hlen
    omega
  exact ⟨wf_intro m s1 hv hid hext hehwf (payloadConsistent_of_length _ _ _ hb hpl) hpl hlen8, s2⟩

/-! ### results of `dlt_message` -/

theorem toResult_ok_inv {α : Type} {p : PRes α} {v : α} {r : Bytes}
    (h : p.toResult = .ok (v, r)) : p = .ok v r := by
  cases p with
  | ok v' r' =>
    simp only [PRes.toResult] at h
    injection h with h
    injection h with h1 h2
    rw [h1, h2]
  | incomplete n => cases h
  | error => cases h
  | failure => cases h
  | panic => cases h

theorem toResult_ne_panic {α : Type} {p : PRes α} (h : p ≠ .panic) :
    p.toResult ≠ .error .panic := by
  cases p with
  | ok v r => intro hc; cases hc
  | incomplete n => intro hc; cases hc
  | error => intro hc; cases hc
  | failure => intro hc; cases hc
  | panic => exact absurd rfl h

theorem map_ne_panic {α β : Type} {p : PRes α} (f : α → β) (h : p ≠ .panic) :
    p.map f ≠ .panic := by
  cases p with
  | ok v r => intro hc; cases hc
  | incomplete n => intro hc; cases hc
  | error => intro hc; cases hc
  | failure => intro hc; cases hc
  | panic => exact absurd rfl h

/-- the message parser never takes the panic outcome: no storage header -/
theorem dltMessageIntern_false_ne_panic (bs : Bytes) (f : Option ProcessedFilter) :
    dltMessageIntern bs f false ≠ .panic := by
  have hf := framing_refines bs f
  cases hs : Spec.framing bs with
  | incomplete b =>
    rw [hs] at hf
    obtain ⟨hint, hh, _⟩ := hf
    rw [hh]; intro hc; cases hc
  | reject =>
    rw [hs] at hf
    simp only [] at hf
    rw [hf]; intro hc; cases hc
  | complete d =>
    rw [hs] at hf
    rcases hf with ⟨res, hh, _⟩ | hh | hh <;> (rw [hh]; intro hc; cases hc)

/-- the message parser never takes the panic outcome -/
theorem dltMessageIntern_ne_panic (bs : Bytes) (f : Option ProcessedFilter) (w : Bool) :
    dltMessageIntern bs f w ≠ .panic := by
  cases w with
  | false => exact dltMessageIntern_false_ne_panic bs f
  | true =>
    by_cases h16 : bs.length < 16
    · rw [dltMessageIntern_storage_short bs f h16]; intro hc; cases hc
    · cases hs : Spec.firstPattern bs with
      | none =>
        rw [dltMessageIntern_storage_nopattern bs f (by omega) hs]; intro hc; cases hc
      | some skip =>
        by_cases hcut : bs.length - skip < 16
        · obtain ⟨n, hn, _⟩ := dltMessageIntern_storage_cut bs f skip (by omega) hs hcut
          rw [hn]; intro hc; cases hc
        · obtain ⟨sh, _, heq⟩ := dltMessageIntern_storage bs f skip (by omega) hs (by omega)
          rw [heq]
          exact map_ne_panic _ (dltMessageIntern_false_ne_panic _ f)

end Dlt
