/-
  C02, decoding: the parser model, with its failure classes collapsed, is the Spec's
  consumer-style decoder (arguments, payload), and its headers are the Spec's headers read
  by offset.
-/
import DltVerif.Lemmas.CodecNum
import DltVerif.Lemmas.CodecTypeInfo
import DltVerif.Lemmas.Zts
import DltVerif.Model.Decode

namespace Dlt
open Dlt.Spec

/-- forget why a parser did not succeed -/
def PRes.toOpt {α : Type} : PRes α → Option (α × Bytes)
  | .ok v r => some (v, r)
  | _ => none

theorem toOpt_andThen {α β : Type} (p : PRes α) (f : α → Bytes → PRes β) :
    (p.andThen f).toOpt = match p.toOpt with
      | some (a, r) => (f a r).toOpt
      | none => none := by
  cases p <;> rfl

theorem toOpt_map {α β : Type} (p : PRes α) (f : α → β) :
    (p.map f).toOpt = p.toOpt.map fun (a, r) => (f a, r) := by
  cases p <;> rfl

/-- transfer: a model parser whose collapse is a Spec reader -/
def Refines {α : Type} (p : Bytes → PRes α) (q : Rd α) : Prop := ∀ i, (p i).toOpt = q i

theorem Refines.andThen {α β : Type} {p : Bytes → PRes α} {q : Rd α}
    {f : α → Bytes → PRes β} {g : α → Rd β}
    (h1 : Refines p q) (h2 : ∀ a, Refines (f a) (g a)) :
    Refines (fun i => (p i).andThen f) (q.andThen g) := by
  intro i
  rw [toOpt_andThen, h1 i]
  unfold Rd.andThen
  cases q i with
  | none => rfl
  | some x => exact h2 x.1 x.2

theorem Refines.map {α β : Type} {p : Bytes → PRes α} {q : Rd α} (f : α → β) (h : Refines p q) :
    Refines (fun i => (p i).map f) (q.map f) := by
  intro i
  rw [toOpt_map, h i]
  unfold Rd.map Rd.andThen Rd.pure
  cases q i <;> rfl

theorem Refines.pure {α : Type} (a : α) : Refines (fun i => PRes.ok a i) (Rd.pure a) := fun _ => rfl

theorem refines_uintN (e : Endian) (k : Nat) : Refines (uintN e k) (rdNum e k) := by
  intro i
  unfold uintN rdNum Rd.map Rd.andThen Rd.pure rd
  by_cases h : i.length < k
  · have h' : ¬ k ≤ i.length := by omega
    simp [h, h', PRes.toOpt]
  · have h' : k ≤ i.length := by omega
    simp [h, h', PRes.toOpt, num_eq]

theorem refines_bitsN (e : Endian) (k : Nat) :
    Refines (bitsN e k) ((rdNum e k).map (BitVec.ofNat (8 * k))) :=
  Refines.map _ (refines_uintN e k)

theorem refines_take (n : Nat) : Refines (take n) (rd n) := by
  intro i
  unfold take rd
  by_cases h : i.length < n
  · have h' : ¬ n ≤ i.length := by omega
    simp [h, h', PRes.toOpt]
  · have h' : n ≤ i.length := by omega
    simp [h, h', PRes.toOpt]

theorem refines_beU8 : Refines beU8 ((rd 1).map fun b => b.headD 0#8) := by
  intro i
  cases i with
  | nil => rfl
  | cons b r => simp [beU8, PRes.toOpt, Rd.map, Rd.andThen, Rd.pure, rd]

theorem fieldText_eq (b : Bytes) :
    Utf8.validPrefix (b.takeWhile (fun x => !isNul x)) = fieldText b := by
  unfold fieldText
  congr 2

theorem refines_zts (n : Nat) : Refines (zts n) (rdText n) := by
  intro i
  unfold rdText Rd.map Rd.andThen Rd.pure rd
  by_cases h : n ≤ i.length
  · rw [zts_ok n i h]
    simp [h, PRes.toOpt, fieldText_eq]
  · obtain ⟨hint, hh, _⟩ := zts_short n i (by omega)
    rw [hh]
    simp [h, PRes.toOpt]

-- arguments ------------------------------------------------------------------------------------

theorem refines_if {α : Type} (c : Bool) {p1 p2 : Bytes → PRes α} {q1 q2 : Rd α}
    (h1 : Refines p1 q1) (h2 : Refines p2 q2) :
    Refines (fun i => if c then p1 i else p2 i) (if c then q1 else q2) := by
  cases c <;> simpa

theorem refines_varName (e : Endian) : Refines (dltVariableName e) (rdName e) := by
  unfold dltVariableName rdName
  exact Refines.andThen (refines_uintN e 2) (fun n => refines_zts n)

theorem refines_optName (e : Endian) (b : Bool) :
    Refines (fun i => if b then (dltVariableName e i).map some else .ok none i) (rdOptName e b) := by
  unfold rdOptName
  exact refines_if b (Refines.map some (refines_varName e)) (Refines.pure none)

theorem refines_nameUnit (e : Endian) (ti : TypeInfo) :
    Refines (dltVariableNameAndUnit e ti) (rdNameUnit e ti.hasVariableInfo) := by
  unfold dltVariableNameAndUnit rdNameUnit
  cases ti.hasVariableInfo
  · exact Refines.pure (none, none)
  · simp only [if_true]
    exact Refines.andThen (refines_uintN e 2) fun nl =>
      Refines.andThen (refines_uintN e 2) fun ul =>
      Refines.andThen (refines_zts nl) fun n =>
      Refines.andThen (refines_zts ul) fun u => Refines.pure (some n, some u)

theorem rd_one_num (i : Bytes) :
    ((rd 1).map fun b => b.headD 0#8) i = ((rdNum .big 1).map (BitVec.ofNat 8)) i := by
  cases i with
  | nil => rfl
  | cons b r =>
    simp [rd, rdNum, Rd.map, Rd.andThen, Rd.pure, num, numBE]

theorem num_one (e : Endian) (b : Bytes) (h : b.length = 1) : num e b = num .big b := by
  match b, h with
  | [x], _ => cases e <;> rfl

theorem rdNum_one (e : Endian) (i : Bytes) : rdNum e 1 i = rdNum .big 1 i := by
  unfold rdNum Rd.map Rd.andThen Rd.pure rd
  by_cases h : 1 ≤ i.length
  · simp only [h, if_true]
    rw [num_one e (i.take 1) (by simp [List.length_take]; omega)]
  · simp [h]

theorem refines_uint (e : Endian) (w : TypeLength) : Refines (dltUint e w) (rdInt e false w) := by
  intro i
  cases w
  · -- 8 bit: the model reads one byte, the Spec a 1-byte number
    show (PRes.map Value.u8 (beU8 i)).toOpt = rdInt e false .b8 i
    rw [toOpt_map, refines_beU8 i, rd_one_num]
    unfold rdInt
    simp only [TypeLength.bytes, Rd.map, Rd.andThen, Rd.pure, rdNum_one e i]
    cases rdNum Endian.big 1 i <;> rfl
  all_goals
    first
    | (simp only [dltUint]
       rw [toOpt_map, refines_bitsN e _ i]
       unfold rdInt
       simp only [TypeLength.bytes, Rd.map, Rd.andThen, Rd.pure]
       cases rdNum e _ i <;> rfl)

theorem refines_sint (e : Endian) (w : TypeLength) : Refines (dltSint e w) (rdInt e true w) := by
  intro i
  cases w
  · show (PRes.map Value.i8 (beU8 i)).toOpt = rdInt e true .b8 i
    rw [toOpt_map, refines_beU8 i, rd_one_num]
    unfold rdInt
    simp only [TypeLength.bytes, Rd.map, Rd.andThen, Rd.pure, rdNum_one e i]
    cases rdNum Endian.big 1 i <;> rfl
  all_goals
    first
    | (simp only [dltSint]
       rw [toOpt_map, refines_bitsN e _ i]
       unfold rdInt
       simp only [TypeLength.bytes, Rd.map, Rd.andThen, Rd.pure]
       cases rdNum e _ i <;> rfl)

theorem refines_fint (e : Endian) (w : FloatWidth) :
    Refines (dltFint e w)
      ((rdNum e w.bytes).map fun n =>
        (match w with | .w32 => Value.f32 (BitVec.ofNat 32 n) | .w64 => Value.f64 (BitVec.ofNat 64 n))) := by
  intro i
  cases w <;>
    (simp only [dltFint]
     rw [toOpt_map, refines_bitsN e _ i]
     simp only [FloatWidth.bytes, Rd.map, Rd.andThen, Rd.pure]
     cases rdNum e _ i <;> rfl)

theorem refines_fixedPoint (e : Endian) (w : FloatWidth) :
    Refines (dltFixedPoint e w) (rdFixedPoint e w) := by
  unfold dltFixedPoint rdFixedPoint
  intro i
  rw [toOpt_andThen, refines_bitsN e 4 i]
  simp only [Rd.map, Rd.andThen, Rd.pure]
  cases rdNum e 4 i with
  | none => rfl
  | some x =>
    obtain ⟨q, r⟩ := x
    cases w <;>
      (simp only []
       rw [toOpt_map, refines_bitsN e _ r]
       simp only [Rd.map, Rd.andThen, Rd.pure]
       cases rdNum e _ r <;> rfl)

theorem refines_typeInfo (e : Endian) :
    Refines (dltTypeInfo e)
      ((rdNum e 4).andThen fun w => match tiDecode w with
        | some ti => Rd.pure ti
        | none => fun _ => none) := by
  intro i
  unfold dltTypeInfo
  rw [toOpt_andThen, refines_bitsN e 4 i]
  unfold rdNum Rd.map Rd.andThen Rd.pure rd
  by_cases h : 4 ≤ i.length
  · simp only [h, if_true]
    have hlt : num e (i.take 4) < 2 ^ 32 := by
      rw [num_eq]
      have := Endian.value_lt e (i.take 4)
      rw [List.length_take, Nat.min_eq_left h] at this
      exact this
    have hw : (BitVec.ofNat (8 * 4) (num e (i.take 4))).toNat = num e (i.take 4) := by
      simp only [BitVec.toNat_ofNat]; omega
    have := ofU32_eq_tiDecode (BitVec.ofNat (8 * 4) (num e (i.take 4)))
    rw [hw] at this
    rw [this]
    cases tiDecode (num e (i.take 4)) <;> rfl
  · simp [h]

theorem andThen_ok_map {α β : Type} (p : PRes α) (f : α → β) :
    (p.andThen fun v r => .ok (f v) r) = p.map f := by cases p <;> rfl

theorem Refines.andThenOk {α β : Type} {p : Bytes → PRes α} {q : Rd α} (f : α → β)
    (h : Refines p q) : Refines (fun i => (p i).andThen fun v r => .ok (f v) r) (q.map f) := by
  intro i
  show ((p i).andThen fun v r => .ok (f v) r).toOpt = _
  rw [andThen_ok_map]
  exact Refines.map f h i

theorem Rd.map_map {α β γ : Type} (q : Rd α) (g : α → β) (f : β → γ) (i : Bytes) :
    (q.map g).map f i = q.map (fun a => f (g a)) i := by
  unfold Rd.map Rd.andThen Rd.pure
  cases q i <;> rfl

theorem Refines.andThenOk' {α β γ : Type} {p : Bytes → PRes β} {q : Rd α} {g : α → β} (f : β → γ)
    (h : Refines p (q.map g)) :
    Refines (fun i => (p i).andThen fun v r => .ok (f v) r) (q.map fun a => f (g a)) := by
  intro i
  rw [← Rd.map_map]
  exact Refines.andThenOk f h i

/-- one verbose argument: the parser model collapses to the Spec's reader -/
theorem refines_argument (e : Endian) : Refines (dltArgument e) (rdArgument e) := by
  intro i
  unfold dltArgument rdArgument
  rw [toOpt_andThen, refines_typeInfo e i]
  simp only [Rd.andThen]
  cases rdNum e 4 i with
  | none => rfl
  | some x =>
    obtain ⟨w, r⟩ := x
    simp only []
    cases tiDecode w with
    | none => rfl
    | some ti =>
      simp only [Rd.pure]
      cases hk : ti.kind with
      | bool =>
        exact (Refines.andThen (refines_optName e ti.hasVariableInfo) fun n =>
          Refines.andThenOk' _ refines_beU8) r
      | signed l =>
        exact (Refines.andThen (refines_nameUnit e ti) fun nu =>
          Refines.andThenOk _ (refines_sint e l)) r
      | unsigned l =>
        exact (Refines.andThen (refines_nameUnit e ti) fun nu =>
          Refines.andThenOk _ (refines_uint e l)) r
      | signedFixedPoint fw =>
        exact (Refines.andThen (refines_nameUnit e ti) fun nu =>
          Refines.andThen (refines_fixedPoint e fw) fun fp =>
          Refines.andThenOk _ (refines_sint e fw.toTypeLength)) r
      | unsignedFixedPoint fw =>
        exact (Refines.andThen (refines_nameUnit e ti) fun nu =>
          Refines.andThen (refines_fixedPoint e fw) fun fp =>
          Refines.andThenOk _ (refines_uint e fw.toTypeLength)) r
      | float fw =>
        exact (Refines.andThen (refines_nameUnit e ti) fun nu =>
          Refines.andThenOk' _ (refines_fint e fw)) r
      | stringType =>
        exact (Refines.andThen (refines_uintN e 2) fun size =>
          Refines.andThen (refines_optName e ti.hasVariableInfo) fun n =>
          Refines.andThenOk _ (refines_zts size)) r
      | raw =>
        exact (Refines.andThen (refines_uintN e 2) fun size =>
          Refines.andThen (refines_optName e ti.hasVariableInfo) fun n =>
          Refines.andThenOk _ (refines_take size)) r

theorem refines_count (e : Endian) (n : Nat) :
    Refines (count (dltArgument e) n) (rdArguments e n) := by
  induction n with
  | zero => intro i; rfl
  | succ n ih =>
    show Refines (fun i => (dltArgument e i).andThen fun v r => (count (dltArgument e) n r).map (v :: ·))
      ((rdArgument e).andThen fun a => (rdArguments e n).map (a :: ·))
    exact Refines.andThen (refines_argument e) fun a => Refines.map _ ih

-- payload ----------------------------------------------------------------------------------------

theorem fromValue_eq (sid : BitVec 8) :
    ControlType.fromValue sid
      = (if sid.toNat = 1 then .request else if sid.toNat = 2 then .response else .unknown sid) := by
  unfold ControlType.fromValue CTRL_TYPE_REQUEST CTRL_TYPE_RESPONSE
  by_cases h1 : sid = 1#8
  · subst h1; rfl
  · by_cases h2 : sid = 2#8
    · subst h2; rfl
    · have n1 : sid.toNat ≠ 1 := fun h => h1 (BitVec.eq_of_toNat_eq h)
      have n2 : sid.toNat ≠ 2 := fun h => h2 (BitVec.eq_of_toNat_eq h)
      simp [h1, h2, n1, n2]

/-- the payload parser applied to the declared payload slice, failure classes collapsed, is
    the Spec's payload decoder -/
theorem payload_refines (e : Endian) (vb : Bool) (argc : Nat) (mt : Option MessageType)
    (slice : Bytes) :
    (dltPayload e slice vb slice.length argc mt).toOpt.map (·.1)
      = decodePayloadWith e vb argc mt slice := by
  unfold dltPayload decodePayloadWith
  cases vb
  · -- non-verbose
    simp only [Bool.false_eq_true, if_false]
    have hnv : ((if slice.length < 4 then PRes.failure
          else (bitsN e 4 slice).andThen fun messageId i =>
            (take (slice.length - 4) i).andThen fun payload rest =>
              .ok (PayloadContent.nonVerbose messageId payload) rest).toOpt.map (·.1))
        = (if slice.length < 4 then none
           else some (PayloadContent.nonVerbose (BitVec.ofNat 32 (num e (slice.take 4))) (slice.drop 4))) := by
      by_cases h4 : slice.length < 4
      · simp [h4, PRes.toOpt]
      · simp only [h4, if_false]
        simp only [bitsN, uintN, h4, if_false, PRes.map_ok, PRes.andThen_ok, take, List.length_drop]
        have : ¬ slice.length - 4 < slice.length - 4 := by omega
        simp [this, PRes.toOpt, num_eq, List.take_of_length_le]
    cases mt with
    | none => exact hnv
    | some t =>
      cases t with
      | control c =>
        cases slice with
        | nil => simp [PRes.toOpt]
        | cons sid rest =>
          simp [beU8Complete, take, PRes.toOpt, fromValue_eq, List.take_of_length_le]
      | _ => exact hnv
  · -- verbose
    simp only [if_true]
    have hcount := refines_count e argc slice
    cases hc : count (dltArgument e) argc slice with
    | ok args rest =>
      rw [hc] at hcount
      simp only [PRes.toOpt] at hcount
      rw [← hcount]
      simp only []
      cases mt with
      | none => rfl
      | some t => cases t <;> rfl
    | incomplete n =>
      rw [hc] at hcount; simp only [PRes.toOpt] at hcount; rw [← hcount]; rfl
    | error =>
      rw [hc] at hcount; simp only [PRes.toOpt] at hcount; rw [← hcount]; rfl
    | failure =>
      rw [hc] at hcount; simp only [PRes.toOpt] at hcount; rw [← hcount]; rfl
    | panic =>
      rw [hc] at hcount; simp only [PRes.toOpt] at hcount; rw [← hcount]; rfl

end Dlt
