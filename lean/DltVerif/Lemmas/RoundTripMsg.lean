/-
  Round trip of the headers and of whole messages.
-/
import DltVerif.Lemmas.RoundTripArg

namespace Dlt

/-! ### bit-field codes -/

theorem htyp_facts_aux : ∀ (ext ecu sid tms big : Bool) (v : BitVec 8), v.toNat < 8 →
    let b := standardHeaderType ext (if big then Endian.big else Endian.little) ecu sid tms v
    (b &&& WITH_ECU_ID_FLAG != 0#8) = ecu ∧
    (b &&& WITH_SESSION_ID_FLAG != 0#8) = sid ∧
    (b &&& WITH_TIMESTAMP_FLAG != 0#8) = tms ∧
    (b &&& WITH_EXTENDED_HEADER_FLAG != 0#8) = ext ∧
    (b &&& BIG_ENDIAN_FLAG != 0#8) = big ∧
    ((b >>> 5) &&& 0b111#8) = v ∧
    calculateAllHeadersLength b = 4 + (if ecu then 4 else 0) + (if sid then 4 else 0)
      + (if tms then 4 else 0) + (if ext then 10 else 0) := by
  decide +kernel

theorem msin_log_invalid : ∀ (n : BitVec 8) (vb : Bool), (n.toNat = 0 ∨ (7 ≤ n.toNat ∧ n.toNat ≤ 15)) →
    MessageType.ofMsin ((MessageType.log (.invalid n)).toU8 ||| (if vb then 1#8 else 0#8)) = .log (.invalid n)
    ∧ (((MessageType.log (.invalid n)).toU8 ||| (if vb then 1#8 else 0#8)) &&& VERBOSE_FLAG != 0#8) = vb := by
  decide +kernel

theorem msin_app_invalid : ∀ (n : BitVec 8) (vb : Bool), (n.toNat = 0 ∨ (6 ≤ n.toNat ∧ n.toNat ≤ 15)) →
    MessageType.ofMsin ((MessageType.applicationTrace (.invalid n)).toU8 ||| (if vb then 1#8 else 0#8)) = .applicationTrace (.invalid n)
    ∧ (((MessageType.applicationTrace (.invalid n)).toU8 ||| (if vb then 1#8 else 0#8)) &&& VERBOSE_FLAG != 0#8) = vb := by
  decide +kernel

theorem msin_nw_user : ∀ (n : BitVec 8) (vb : Bool), (7 ≤ n.toNat ∧ n.toNat ≤ 15) →
    MessageType.ofMsin ((MessageType.networkTrace (.userDefined n)).toU8 ||| (if vb then 1#8 else 0#8)) = .networkTrace (.userDefined n)
    ∧ (((MessageType.networkTrace (.userDefined n)).toU8 ||| (if vb then 1#8 else 0#8)) &&& VERBOSE_FLAG != 0#8) = vb := by
  decide +kernel

theorem msin_ctrl_unknown : ∀ (n : BitVec 8) (vb : Bool), (n.toNat = 0 ∨ (3 ≤ n.toNat ∧ n.toNat ≤ 15)) →
    MessageType.ofMsin ((MessageType.control (.unknown n)).toU8 ||| (if vb then 1#8 else 0#8)) = .control (.unknown n)
    ∧ (((MessageType.control (.unknown n)).toU8 ||| (if vb then 1#8 else 0#8)) &&& VERBOSE_FLAG != 0#8) = vb := by
  decide +kernel

theorem msin_unknown : ∀ (mstp : BitVec 8) (vb : Bool), (4 ≤ mstp.toNat ∧ mstp.toNat ≤ 7) → ∀ (mtin : BitVec 8), mtin.toNat ≤ 15 →
    MessageType.ofMsin ((MessageType.unknown mstp mtin).toU8 ||| (if vb then 1#8 else 0#8)) = .unknown mstp mtin
    ∧ (((MessageType.unknown mstp mtin).toU8 ||| (if vb then 1#8 else 0#8)) &&& VERBOSE_FLAG != 0#8) = vb := by
  decide +kernel

theorem msin_roundtrip (mt : MessageType) (h : mt.canonical = true) (vb : Bool) :
    MessageType.ofMsin (mt.toU8 ||| (if vb then 1#8 else 0#8)) = mt
    ∧ ((mt.toU8 ||| (if vb then 1#8 else 0#8)) &&& VERBOSE_FLAG != 0#8) = vb := by
  cases mt with
  | log l =>
    cases l with
    | invalid n =>
      simp only [MessageType.canonical, decide_eq_true_eq] at h
      exact msin_log_invalid n vb h
    | _ => cases vb <;> decide
  | applicationTrace t =>
    cases t with
    | invalid n =>
      simp only [MessageType.canonical, decide_eq_true_eq] at h
      exact msin_app_invalid n vb h
    | _ => cases vb <;> decide
  | networkTrace t =>
    cases t with
    | userDefined n =>
      simp only [MessageType.canonical, decide_eq_true_eq] at h
      exact msin_nw_user n vb h
    | _ => cases vb <;> decide
  | control t =>
    cases t with
    | unknown n =>
      simp only [MessageType.canonical, decide_eq_true_eq] at h
      exact msin_ctrl_unknown n vb h
    | _ => cases vb <;> decide
  | unknown mstp mtin =>
    simp only [MessageType.canonical, decide_eq_true_eq] at h
    exact msin_unknown mstp vb ⟨h.1, h.2.1⟩ mtin h.2.2

theorem ControlType.fromValue_value (t : ControlType) (h : t.canonicalValue = true) :
    ControlType.fromValue t.value = t := by
  cases t with
  | request => decide
  | response => decide
  | unknown n =>
    simp only [ControlType.canonicalValue, decide_eq_true_eq] at h
    have h1 : n ≠ CTRL_TYPE_REQUEST := by
      intro hn; subst hn; exact h.1 (by decide)
    have h2 : n ≠ CTRL_TYPE_RESPONSE := by
      intro hn; subst hn; exact h.2 (by decide)
    simp [ControlType.fromValue, ControlType.value, h1, h2]

/-! ### storage header -/

theorem idOk_iff (s : Bytes) :
    idOk s = true ↔ s.length ≤ 4 ∧ noNul s = true ∧ Utf8.valid s = true := by
  simp only [idOk, Bool.and_eq_true, decide_eq_true_eq, and_assoc]

theorem findPattern_DLT_PATTERN (x : Bytes) :
    findPattern DLT_PATTERN (DLT_PATTERN ++ x) = some 0 := by
  simp [DLT_PATTERN, findPattern, List.isPrefixOf]

theorem StorageHeader.length_asBytes (sh : StorageHeader) (h : idOk sh.ecuId = true) :
    sh.asBytes.length = 16 := by
  obtain ⟨h1, _, _⟩ := (idOk_iff _).1 h
  simp only [StorageHeader.asBytes, List.length_append, length_bytesLE,
    length_putZeroTerminatedString _ 4 h1, DLT_PATTERN, List.length_cons, List.length_nil]

theorem dltStorageHeader_asBytes (sh : StorageHeader) (h : idOk sh.ecuId = true) (r : Bytes) :
    dltStorageHeader (sh.asBytes ++ r) = .ok (some (sh, 0)) r := by
  obtain ⟨h1, h2, h3⟩ := (idOk_iff _).1 h
  have hlen : ¬ (sh.asBytes ++ r).length < STORAGE_HEADER_LENGTH := by
    rw [List.length_append, StorageHeader.length_asBytes sh h, STORAGE_HEADER_LENGTH]; omega
  have hshape : sh.asBytes ++ r = DLT_PATTERN ++ (bytesLE 4 sh.timestamp.seconds.toNat
      ++ (bytesLE 4 sh.timestamp.microseconds.toNat ++ (putZeroTerminatedString sh.ecuId 4 ++ r))) := by
    simp only [StorageHeader.asBytes, List.append_assoc]
  have hfwd : forwardToNextStorageHeader (sh.asBytes ++ r) = some (0, sh.asBytes ++ r) := by
    rw [forwardToNextStorageHeader, hshape, findPattern_DLT_PATTERN]; rfl
  unfold dltStorageHeader
  rw [if_neg hlen, hfwd]
  simp only []
  rw [hshape]
  have hpat : ∀ x : Bytes, DLT_PATTERN ++ x = [0x44#8, 0x4C#8, 0x54#8] ++ ([0x01#8] ++ x) := by
    intro x; rfl
  rw [hpat, tag_append, PRes.andThen_ok, tag_append, PRes.andThen_ok]
  have b1 := bitsN_bytes .little 4 sh.timestamp.seconds
  have b2 := bitsN_bytes .little 4 sh.timestamp.microseconds
  simp only [Endian.bytes] at b1 b2
  rw [b1, PRes.andThen_ok, b2, PRes.andThen_ok, zts_padded 4 _ _ h2 h3 h1, PRes.andThen_ok]

/-! ### standard header -/

theorem htyp_facts (ext ecu sid tms : Bool) (e : Endian) (v : BitVec 8) (hv : v.toNat < 8) :
    (standardHeaderType ext e ecu sid tms v &&& WITH_ECU_ID_FLAG != 0#8) = ecu ∧
    (standardHeaderType ext e ecu sid tms v &&& WITH_SESSION_ID_FLAG != 0#8) = sid ∧
    (standardHeaderType ext e ecu sid tms v &&& WITH_TIMESTAMP_FLAG != 0#8) = tms ∧
    (standardHeaderType ext e ecu sid tms v &&& WITH_EXTENDED_HEADER_FLAG != 0#8) = ext ∧
    (if (standardHeaderType ext e ecu sid tms v &&& BIG_ENDIAN_FLAG != 0#8) = true
      then Endian.big else Endian.little) = e ∧
    ((standardHeaderType ext e ecu sid tms v >>> 5) &&& 0b111#8) = v ∧
    calculateAllHeadersLength (standardHeaderType ext e ecu sid tms v)
      = 4 + (if ecu then 4 else 0) + (if sid then 4 else 0)
        + (if tms then 4 else 0) + (if ext then 10 else 0) := by
  cases e with
  | little =>
    obtain ⟨a, b, c, d, f, g, i⟩ := htyp_facts_aux ext ecu sid tms false v hv
    simp only [Bool.false_eq_true, if_false] at a b c d f g i
    exact ⟨a, b, c, d, by rw [f]; rfl, g, i⟩
  | big =>
    obtain ⟨a, b, c, d, f, g, i⟩ := htyp_facts_aux ext ecu sid tms true v hv
    simp only [if_true] at a b c d f g i
    exact ⟨a, b, c, d, by rw [f]; rfl, g, i⟩

theorem StandardHeader.overallLengthNat_eq (h : StandardHeader) (hv : h.version.toNat < 8) :
    h.overallLengthNat = calculateAllHeadersLength h.headerTypeByte + h.payloadLength.toNat := by
  obtain ⟨_, _, _, _, _, _, hl⟩ := htyp_facts h.hasExtendedHeader h.ecuId.isSome h.sessionId.isSome
    h.timestamp.isSome h.endianness h.version hv
  rw [StandardHeader.headerTypeByte, hl]
  simp only [StandardHeader.overallLengthNat, HEADER_MIN_LENGTH, EXTENDED_HEADER_LENGTH]

theorem dltStandardHeader_asBytes (h : StandardHeader) (hv : h.version.toNat < 8)
    (hid : ∀ id, h.ecuId = some id → idOk id = true) (hlen : h.overallLengthNat ≤ 65535)
    (r : Bytes) : dltStandardHeader (h.asBytes ++ r) = .ok h r := by
  have hov := StandardHeader.overallLengthNat_eq h hv
  obtain ⟨f1, f2, f3, f4, f5, f6, f7⟩ := htyp_facts h.hasExtendedHeader h.ecuId.isSome
    h.sessionId.isSome h.timestamp.isSome h.endianness h.version hv
  have hol : h.overallLength = h.overallLengthNat := by
    simp only [StandardHeader.overallLength, asU16]; omega
  have hu := uintN_bytes .big 2 h.overallLength
  simp only [Endian.bytes] at hu
  rcases h with ⟨version, e, ext, mc, ecuId, sessionId, timestamp, pl⟩
  simp only [StandardHeader.headerTypeByte] at f1 f2 f3 f4 f5 f6 f7 hov
  simp only [StandardHeader.asBytes, StandardHeader.headerTypeByte, dltStandardHeader,
    List.cons_append, List.nil_append, List.append_assoc, beU8, PRes.andThen_ok]
  rw [hu _ (by rw [hol]; simp only [StandardHeader.overallLengthNat] at hlen ⊢; omega), PRes.andThen_ok]
  simp only [f1, f2, f3, f4, f5, f6]
  have hgt : ¬ (calculateAllHeadersLength (standardHeaderType ext e ecuId.isSome sessionId.isSome
      timestamp.isSome version) > StandardHeader.overallLength ⟨version, e, ext, mc, ecuId, sessionId, timestamp, pl⟩) := by
    rw [hol, hov]; omega
  have hpl : BitVec.ofNat 16 (StandardHeader.overallLength ⟨version, e, ext, mc, ecuId, sessionId, timestamp, pl⟩
      - calculateAllHeadersLength (standardHeaderType ext e ecuId.isSome sessionId.isSome
      timestamp.isSome version)) = pl := by
    rw [hol, hov, Nat.add_sub_cancel_left, BitVec.ofNat_toNat, BitVec.setWidth_eq]
  simp only [if_neg hgt, hpl]
  have hb := fun (v : BitVec 32) (r : Bytes) => bitsN_bytes .big 4 v r
  simp only [Endian.bytes] at hb
  cases ecuId with
  | none =>
    cases sessionId <;> cases timestamp <;>
      simp only [Option.isSome, if_true, Bool.false_eq_true, if_false, List.nil_append, hb,
        PRes.andThen_ok, PRes.map_ok]
  | some id =>
    obtain ⟨h1, h2, h3⟩ := (idOk_iff _).1 (hid id rfl)
    cases sessionId <;> cases timestamp <;>
      simp only [Option.isSome, if_true, Bool.false_eq_true, if_false, List.nil_append, hb,
        PRes.andThen_ok, PRes.map_ok, zts_padded 4 id _ h2 h3 h1]

/-! ### extended header -/

theorem ExtendedHeader.wf_iff (eh : ExtendedHeader) :
    eh.wf = true ↔ idOk eh.applicationId = true ∧ idOk eh.contextId = true
      ∧ eh.messageType.canonical = true := by
  simp only [ExtendedHeader.wf, Bool.and_eq_true, and_assoc]

theorem dltExtendedHeader_asBytes (eh : ExtendedHeader) (h : eh.wf = true) (r : Bytes) :
    dltExtendedHeader (eh.asBytes ++ r) = .ok eh r := by
  obtain ⟨ha, hc, hm⟩ := (ExtendedHeader.wf_iff eh).1 h
  obtain ⟨a1, a2, a3⟩ := (idOk_iff _).1 ha
  obtain ⟨c1, c2, c3⟩ := (idOk_iff _).1 hc
  obtain ⟨m1, m2⟩ := msin_roundtrip eh.messageType hm eh.verbose
  rcases eh with ⟨vb, ac, mt, app, ctx⟩
  simp only [ExtendedHeader.asBytes, dltExtendedHeader, List.cons_append, List.nil_append,
    List.append_assoc, beU8, PRes.andThen_ok, zts_padded 4 app _ a2 a3 a1,
    zts_padded 4 ctx _ c2 c3 c1, ExtendedHeader.msin, m1, m2]

/-- the extended header is 10 bytes as soon as both ids have at most 4 bytes -/
theorem ExtendedHeader.length_asBytes_of_le (eh : ExtendedHeader)
    (a1 : eh.applicationId.length ≤ 4) (c1 : eh.contextId.length ≤ 4) :
    eh.asBytes.length = 10 := by
  simp only [ExtendedHeader.asBytes, List.length_append, List.length_cons, List.length_nil,
    length_putZeroTerminatedString _ 4 a1, length_putZeroTerminatedString _ 4 c1]

theorem ExtendedHeader.length_asBytes (eh : ExtendedHeader) (h : eh.wf = true) :
    eh.asBytes.length = 10 := by
  obtain ⟨ha, hc, _⟩ := (ExtendedHeader.wf_iff eh).1 h
  obtain ⟨a1, _, _⟩ := (idOk_iff _).1 ha
  obtain ⟨c1, _, _⟩ := (idOk_iff _).1 hc
  exact ExtendedHeader.length_asBytes_of_le eh a1 c1

theorem StandardHeader.length_asBytes_of_le (h : StandardHeader)
    (hid : ∀ id, h.ecuId = some id → id.length ≤ 4) :
    h.asBytes.length = 4 + (if h.ecuId.isSome then 4 else 0) + (if h.sessionId.isSome then 4 else 0)
      + (if h.timestamp.isSome then 4 else 0) := by
  rcases h with ⟨version, e, ext, mc, ecuId, sessionId, timestamp, pl⟩
  have hb : ∀ n, (bytesBE 2 n).length = 2 := fun n => Endian.length_bytes .big 2 n
  have hb4 : ∀ n, (bytesBE 4 n).length = 4 := fun n => Endian.length_bytes .big 4 n
  cases ecuId with
  | none =>
    cases sessionId <;> cases timestamp <;>
      simp only [StandardHeader.asBytes, List.length_append, List.length_cons, List.length_nil, hb, hb4,
        Option.isSome, if_true, Bool.false_eq_true, if_false]
  | some id =>
    have h1 := hid id rfl
    cases sessionId <;> cases timestamp <;>
      simp only [StandardHeader.asBytes, List.length_append, List.length_cons, List.length_nil, hb, hb4,
        Option.isSome, if_true, Bool.false_eq_true, if_false, length_putZeroTerminatedString _ 4 h1]

theorem StandardHeader.length_asBytes (h : StandardHeader)
    (hid : ∀ id, h.ecuId = some id → idOk id = true) :
    h.asBytes.length = 4 + (if h.ecuId.isSome then 4 else 0) + (if h.sessionId.isSome then 4 else 0)
      + (if h.timestamp.isSome then 4 else 0) :=
  StandardHeader.length_asBytes_of_le h fun id hi => ((idOk_iff _).1 (hid id hi)).1

/-! ### payload -/

theorem filterMap_rawArg (f : Argument → Option Bytes) (hf : ∀ s, f (rawArg s) = some s)
    (slices : List Bytes) : (slices.map rawArg).filterMap f = slices := by
  induction slices with
  | nil => rfl
  | cons s t ih => simp only [List.map_cons, List.filterMap_cons, hf, ih]

theorem dltPayload_asBytes (e : Endian) (p : PayloadContent) (eh : Option ExtendedHeader)
    (hc : payloadConsistent p eh = true) (n : Nat) (hn : n = (p.asBytes e).length) :
    dltPayload e (p.asBytes e) (match (generalizing := false) eh with | some eh => eh.verbose | none => false) n
      (match (generalizing := false) eh with | some eh => eh.argumentCount.toNat | none => 0) (eh.map (·.messageType))
      = .ok p [] := by
  cases p with
  | verbose args =>
    cases eh with
    | none => simp [payloadConsistent] at hc
    | some eh =>
      simp only [payloadConsistent, Bool.and_eq_true, decide_eq_true_eq, Bool.not_eq_true'] at hc
      obtain ⟨⟨⟨hvb, hac⟩, hnt⟩, hall⟩ := hc
      have hcount := count_dltArgument_asBytes e args hall []
      rw [List.append_nil] at hcount
      simp only [dltPayload, hvb, if_true, hac, PayloadContent.asBytes, hcount, Option.map_some]
      cases hm : eh.messageType <;> simp only [] <;> simp [hm, MessageType.isNetworkTrace] at hnt
  | networkTrace slices =>
    cases eh with
    | none => simp [payloadConsistent] at hc
    | some eh =>
      simp only [payloadConsistent, Bool.and_eq_true, decide_eq_true_eq] at hc
      obtain ⟨⟨⟨hvb, hac⟩, hnt⟩, hall⟩ := hc
      have hcount := count_dltArgument_networkTrace e slices hall []
      rw [List.append_nil] at hcount
      simp only [dltPayload, hvb, if_true, hac, hcount, Option.map_some]
      cases hm : eh.messageType with
      | networkTrace t => simp only []; rw [filterMap_rawArg _ (fun s => rfl)]
      | _ => simp [hm, MessageType.isNetworkTrace] at hnt
  | controlMsg t payload =>
    cases eh with
    | none => simp [payloadConsistent] at hc
    | some eh =>
      simp only [payloadConsistent, Bool.and_eq_true, Bool.not_eq_true'] at hc
      obtain ⟨⟨hvb, hct⟩, hcv⟩ := hc
      simp only [PayloadContent.asBytes, List.length_cons] at hn
      have h1 : ¬ n < 1 := by omega
      have h2 : payload.length = n - 1 := by omega
      have ht := take_append' (n - 1) payload [] h2
      rw [List.append_nil] at ht
      cases hm : eh.messageType with
      | control t' =>
        simp only [dltPayload, hvb, Bool.false_eq_true, if_false, Option.map_some, hm,
            PayloadContent.asBytes, h1, beU8Complete, PRes.andThen_ok, ht,
            ControlType.fromValue_value t hcv]
      | _ => simp [hm, MessageType.isControl] at hct
  | nonVerbose id payload =>
    simp only [PayloadContent.asBytes, List.length_append, Endian.length_bytes] at hn
    have h1 : ¬ n < 4 := by omega
    have h2 : payload.length = n - 4 := by omega
    have ht := take_append' (n - 4) payload [] h2
    rw [List.append_nil] at ht
    have hb := bitsN_bytes e 4 id payload
    cases eh with
    | none =>
      simp only [dltPayload, Bool.false_eq_true, if_false, Option.map_none,
            PayloadContent.asBytes, h1, hb, PRes.andThen_ok, ht]
    | some eh =>
      simp only [payloadConsistent, Bool.and_eq_true, Bool.not_eq_true'] at hc
      obtain ⟨hvb, hct⟩ := hc
      cases hm : eh.messageType with
      | control t' => simp [hm, MessageType.isControl] at hct
      | _ =>
        simp only [dltPayload, hvb, Bool.false_eq_true, if_false, Option.map_some, hm,
            PayloadContent.asBytes, h1, hb, PRes.andThen_ok, ht]

/-! ### whole messages -/

/-- the conjuncts of `Message.wf` -/
theorem Message.wf_elim (m : Message) (h : m.wf = true) :
    (∀ sh, m.storageHeader = some sh → idOk sh.ecuId = true) ∧
    m.header.version.toNat < 8 ∧
    (∀ id, m.header.ecuId = some id → idOk id = true) ∧
    m.header.hasExtendedHeader = m.extendedHeader.isSome ∧
    (∀ eh, m.extendedHeader = some eh → eh.wf = true) ∧
    payloadConsistent m.payload m.extendedHeader = true ∧
    m.header.payloadLength.toNat = (m.payload.asBytes m.header.endianness).length ∧
    m.header.overallLengthNat ≤ 65535 := by
  simp only [Message.wf, Bool.and_eq_true, decide_eq_true_eq, beq_iff_eq] at h
  obtain ⟨⟨⟨⟨⟨⟨⟨h1, h2⟩, h3⟩, h4⟩, h5⟩, h6⟩, h7⟩, h8⟩ := h
  refine ⟨?_, h2, ?_, h4, ?_, h6, h7, h8⟩
  · intro sh hs; rw [hs] at h1; exact h1
  · intro id hs; rw [hs] at h3; exact h3
  · intro eh hs; rw [hs] at h5; exact h5

theorem validatedPayloadLength_ok (h : StandardHeader) (hv : h.version.toNat < 8)
    (hlen : h.overallLengthNat ≤ 65535) (n : Nat) (hn : h.overallLengthNat ≤ n) :
    validatedPayloadLength h n = some (.ok h.payloadLength.toNat) := by
  have hov := StandardHeader.overallLengthNat_eq h hv
  have hol : h.overallLength = h.overallLengthNat := by
    simp only [StandardHeader.overallLength, asU16]; omega
  have hp : h.overallLengthPanics = false := by
    simp only [StandardHeader.overallLengthPanics, decide_eq_false_iff_not]; omega
  have h1 : ¬ h.overallLength < calculateAllHeadersLength h.headerTypeByte := by omega
  have h2 : ¬ h.overallLength > n := by omega
  have h3 : h.overallLength - calculateAllHeadersLength h.headerTypeByte = h.payloadLength.toNat := by
    omega
  simp only [validatedPayloadLength, hp, Bool.false_eq_true, if_false, h1, h2, h3]

/-- a well-formed message serialises without overflow -/
theorem Message.wf_not_panics (m : Message) (h : m.wf = true) : m.asBytesPanics = false := by
  obtain ⟨_, _, _, _, _, hpc, _, hlen⟩ := Message.wf_elim m h
  have hp : m.header.overallLengthPanics = false := by
    simp only [StandardHeader.overallLengthPanics, decide_eq_false_iff_not]; omega
  simp only [Message.asBytesPanics, hp, Bool.false_or]
  cases hpl : m.payload with
  | verbose args =>
    rw [hpl] at hpc
    cases heh : m.extendedHeader with
    | none => rw [heh] at hpc; simp [payloadConsistent] at hpc
    | some eh =>
      rw [heh] at hpc
      simp only [payloadConsistent, Bool.and_eq_true, List.all_eq_true] at hpc
      simp only [PayloadContent.asBytesPanics, List.any_eq_false]
      intro a ha
      rw [Argument.wf_not_panics a (hpc.2 a ha)]
      simp
  | _ => rfl

/-- serialisation of an optional storage header -/
def shBytes : Option StorageHeader → Bytes
  | some sh => sh.asBytes
  | none => []

/-- serialisation of an optional extended header -/
def ehBytes : Option ExtendedHeader → Bytes
  | some eh => eh.asBytes
  | none => []

theorem Message.asBytes_eq (m : Message) :
    m.asBytes = shBytes m.storageHeader ++ (m.header.asBytes ++ (ehBytes m.extendedHeader
      ++ m.payload.asBytes m.header.endianness)) := by
  simp only [Message.asBytes, List.append_assoc]
  rfl

/-- header + extended header + payload have the declared overall length -/
theorem Message.wf_body_length (m : Message) (h : m.wf = true) :
    (m.header.asBytes ++ (ehBytes m.extendedHeader
      ++ m.payload.asBytes m.header.endianness)).length = m.header.overallLengthNat := by
  obtain ⟨_, _, hid, hext, hehwf, _, hpl, _⟩ := Message.wf_elim m h
  rw [List.length_append, List.length_append, StandardHeader.length_asBytes _ hid, ← hpl]
  simp only [StandardHeader.overallLengthNat, HEADER_MIN_LENGTH, EXTENDED_HEADER_LENGTH, hext]
  cases heh : m.extendedHeader with
  | none => simp only [ehBytes, Option.isSome, Bool.false_eq_true, if_false, List.length_nil]; omega
  | some eh =>
    simp only [ehBytes, Option.isSome, if_true, ExtendedHeader.length_asBytes eh (hehwf eh heh)]
    omega

/-- the serialised length is storage header + declared overall length -/
theorem Message.wf_length (m : Message) (h : m.wf = true) :
    m.asBytes.length = (if m.storageHeader.isSome then 16 else 0) + m.header.overallLengthNat := by
  obtain ⟨hsh, _⟩ := Message.wf_elim m h
  rw [Message.asBytes_eq, List.length_append, Message.wf_body_length m h]
  cases hs : m.storageHeader with
  | none => simp only [shBytes, Option.isSome, Bool.false_eq_true, if_false, List.length_nil]
  | some sh =>
    simp only [shBytes, Option.isSome, if_true, StorageHeader.length_asBytes sh (hsh sh hs)]

theorem filteredOut_none (eh : Option ExtendedHeader) (ecu : Option Bytes) :
    filteredOut eh none ecu = false := rfl

theorem Message.eq_of_parts (m : Message) (sh : Option StorageHeader) (eh : Option ExtendedHeader)
    (h1 : sh = m.storageHeader) (h2 : eh = m.extendedHeader) :
    ({ storageHeader := sh, header := m.header, extendedHeader := eh, payload := m.payload }
      : Message) = m := by
  subst h1 h2; rfl

/-- serialise-then-parse is the identity and consumes exactly the message -/
theorem dltMessageIntern_asBytes (m : Message) (h : m.wf = true) (sfx : Bytes) :
    dltMessageIntern (m.asBytes ++ sfx) none m.storageHeader.isSome = .ok (.item m) sfx := by
  obtain ⟨hsh, hv, hid, hext, hehwf, hpc, hpl, hlen⟩ := Message.wf_elim m h
  have hbl := Message.wf_body_length m h
  have hst : (if m.storageHeader.isSome = true then dltStorageHeader (m.asBytes ++ sfx)
        else PRes.ok none (m.asBytes ++ sfx))
      = .ok (m.storageHeader.map (fun sh => (sh, 0))) (m.header.asBytes
          ++ (ehBytes m.extendedHeader ++ (m.payload.asBytes m.header.endianness ++ sfx))) := by
    rw [Message.asBytes_eq]
    cases hs : m.storageHeader with
    | none =>
      simp only [shBytes, Option.isSome, Bool.false_eq_true, if_false, List.nil_append,
        List.append_assoc, Option.map_none]
    | some sh =>
      simp only [shBytes, Option.isSome, if_true, List.append_assoc,
        dltStorageHeader_asBytes sh (hsh sh hs), Option.map_some]
  have hn : m.header.overallLengthNat ≤ (m.header.asBytes ++ (ehBytes m.extendedHeader
      ++ (m.payload.asBytes m.header.endianness ++ sfx))).length := by
    rw [← hbl]
    simp only [List.length_append]
    omega
  have hp := dltPayload_asBytes m.header.endianness m.payload m.extendedHeader hpc _ hpl
  have htk := take_append' m.header.payloadLength.toNat (m.payload.asBytes m.header.endianness)
    sfx hpl.symm
  unfold dltMessageIntern
  rw [hst, PRes.andThen_ok, dltStandardHeader_asBytes m.header hv hid hlen, PRes.andThen_ok,
    validatedPayloadLength_ok m.header hv hlen _ hn]
  simp only [filteredOut_none, Bool.false_eq_true, if_false, hext]
  cases heh : m.extendedHeader with
  | none =>
    rw [heh] at hp
    simp only [] at hp
    simp only [ehBytes, Option.isSome, Bool.false_eq_true, if_false, PRes.andThen_ok,
      List.nil_append, htk, hp]
    rw [Message.eq_of_parts m _ _ (by cases m.storageHeader <;> rfl) heh.symm]
  | some eh =>
    rw [heh] at hp
    simp only [] at hp
    simp only [ehBytes, Option.isSome, if_true, dltExtendedHeader_asBytes eh (hehwf eh heh),
      PRes.map_ok, PRes.andThen_ok, htk, hp]
    rw [Message.eq_of_parts m _ _ (by cases m.storageHeader <;> rfl) heh.symm]

end Dlt
