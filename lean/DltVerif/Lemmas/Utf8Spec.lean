/-
  The two formulations of UTF-8 validity agree: the definition of the encoding form
  (Spec/Zts.lean: shortest-form encodings of scalar values, RFC 3629) and the byte-range
  table 3-7 of the Unicode standard (Model/Utf8.lean, the shape of `core::str`'s validator).
-/
import DltVerif.Spec.Zts
import DltVerif.Lemmas.Utf8

namespace Dlt
open Dlt.Utf8 Dlt.Spec

theorem cont_iff (b : BitVec 8) : cont b = decide (b.toNat / 64 = 2) := by
  have := b.isLt
  unfold cont inR
  by_cases h : b.toNat / 64 = 2
  · have h1 : 0x80 ≤ b.toNat := by omega
    have h2 : b.toNat ≤ 0xBF := by omega
    simp [h, h1, h2]
  · by_cases h1 : 0x80 ≤ b.toNat
    · have : ¬ b.toNat ≤ 0xBF := by omega
      simp [h, h1, this]
    · simp [h, h1]

theorem contBits_of_cont (b : BitVec 8) (h : cont b = true) : contBits b = some (b.toNat % 64) := by
  rw [cont_iff] at h
  unfold contBits
  rw [if_pos (by simpa using h)]

theorem contBits_of_not_cont (b : BitVec 8) (h : cont b = false) : contBits b = none := by
  rw [cont_iff] at h
  unfold contBits
  rw [if_neg (by simpa using h)]

theorem cont_range (b : BitVec 8) (h : cont b = true) : 0x80 ≤ b.toNat ∧ b.toNat ≤ 0xBF := by
  simpa [cont, inR] using h

theorem inR_eq (lo hi : Nat) (b : BitVec 8) : inR lo hi b = decide (lo ≤ b.toNat ∧ b.toNat ≤ hi) := by
  unfold inR
  by_cases h1 : lo ≤ b.toNat <;> by_cases h2 : b.toNat ≤ hi <;> simp [h1, h2]

/-- lead-byte classes of the table in terms of the lead bits -/
theorem lead_facts (b0 : BitVec 8) :
    (b0.toNat / 32 = 6 → inR 0xE0 0xEF b0 = false ∧ inR 0xF0 0xF4 b0 = false
        ∧ (inR 0xC2 0xDF b0 = decide (2 ≤ b0.toNat % 32)))
    ∧ (b0.toNat / 16 = 14 → inR 0xC2 0xDF b0 = false ∧ inR 0xE0 0xEF b0 = true)
    ∧ (b0.toNat / 8 = 30 → inR 0xC2 0xDF b0 = false ∧ inR 0xE0 0xEF b0 = false
        ∧ (inR 0xF0 0xF4 b0 = decide (b0.toNat % 8 ≤ 4)))
    ∧ (¬ b0.toNat < 0x80 → b0.toNat / 32 ≠ 6 → b0.toNat / 16 ≠ 14 → b0.toNat / 8 ≠ 30 →
        inR 0xC2 0xDF b0 = false ∧ inR 0xE0 0xEF b0 = false ∧ inR 0xF0 0xF4 b0 = false) := by
  have := b0.isLt
  simp only [inR_eq]
  refine ⟨fun h => ⟨?_, ?_, ?_⟩, fun h => ⟨?_, ?_⟩, fun h => ⟨?_, ?_, ?_⟩, fun h1 h2 h3 h4 => ⟨?_, ?_, ?_⟩⟩
  all_goals first
    | (rw [decide_eq_false_iff_not]; omega)
    | (rw [decide_eq_true_eq]; omega)
    | (rw [decide_eq_decide]; omega)

/-- the number of bytes the definition-based decoder uses is the length the table gives -/
theorem decodeScalar_len (bs : Bytes) :
    (decodeScalar bs).map (·.2) = if scalarLen bs = 0 then none else some (scalarLen bs) := by
  cases bs with
  | nil => rfl
  | cons b0 t =>
    have hb0 := b0.isLt
    obtain ⟨f2, f3, f4, f5⟩ := lead_facts b0
    by_cases h1 : b0.toNat < 0x80
    · simp [decodeScalar, scalarLen, h1]
    by_cases h2 : b0.toNat / 32 = 6
    · obtain ⟨e3, e4, e2⟩ := f2 h2
      cases t with
      | nil => cases hr : inR 0xC2 0xDF b0 <;> simp [decodeScalar, scalarLen, h1, h2, hr]
      | cons b1 t1 =>
        cases hc : cont b1
        · cases hr : inR 0xC2 0xDF b0 <;>
            simp [decodeScalar, scalarLen, h1, h2, hr, hc, e3, e4, contBits_of_not_cont b1 hc]
        · have hcr := cont_range b1 hc
          simp only [decodeScalar, scalarLen, h1, h2, hc, e3, e4, e2, contBits_of_cont b1 hc, if_true,
            if_false, Option.bind_some]
          by_cases hr : 2 ≤ b0.toNat % 32
          · have : 0x80 ≤ b0.toNat % 32 * 64 + b1.toNat % 64 := by omega
            simp [hr, this]
          · have : ¬ 0x80 ≤ b0.toNat % 32 * 64 + b1.toNat % 64 := by omega
            simp [hr, this]
    have n2 : ¬ b0.toNat / 32 = 6 := h2
    by_cases h3 : b0.toNat / 16 = 14
    · obtain ⟨e2, e3⟩ := f3 h3
      match t with
      | [] => simp [decodeScalar, scalarLen, h1, n2, h3, e2, e3]
      | [b1] => simp [decodeScalar, scalarLen, h1, n2, h3, e2, e3]
      | b1 :: b2 :: t2 =>
        have hb1 := b1.isLt
        have hb2 := b2.isLt
        cases hc1 : cont b1
        · have : (if b0.toNat = 0xE0 then inR 0xA0 0xBF b1 else if b0.toNat = 0xED then inR 0x80 0x9F b1
              else cont b1) = false := by
            have hn : ¬ (0x80 ≤ b1.toNat ∧ b1.toNat ≤ 0xBF) := by
              intro hh; have : cont b1 = true := by simp [cont, inR, hh.1, hh.2]
              rw [hc1] at this; cases this
            split
            · simp only [inR, Bool.and_eq_false_iff, decide_eq_false_iff_not]; omega
            · split
              · simp only [inR, Bool.and_eq_false_iff, decide_eq_false_iff_not]; omega
              · exact hc1
          simp [decodeScalar, scalarLen, h1, n2, h3, e2, e3, contBits_of_not_cont b1 hc1, this]
        · have hr1 := cont_range b1 hc1
          cases hc2 : cont b2
          · simp [decodeScalar, scalarLen, h1, n2, h3, e2, e3, contBits_of_cont b1 hc1,
              contBits_of_not_cont b2 hc2, hc2]
          · have hr2 := cont_range b2 hc2
            simp only [decodeScalar, scalarLen, h1, n2, h3, e2, e3, contBits_of_cont b1 hc1,
              contBits_of_cont b2 hc2, if_true, if_false, Option.bind_some, hc2, Bool.and_true, hc1]
            by_cases hE0 : b0.toNat = 0xE0
            · simp only [hE0, if_true, inR]
              by_cases hlo : 0xA0 ≤ b1.toNat
              · simp [hlo, hr1.2]; omega
              · simp [hlo]; omega
            · by_cases hED : b0.toNat = 0xED
              · have hne : ¬ (0xED : Nat) = 0xE0 := by decide
                simp only [hED, if_true, inR, hne, if_false]
                by_cases hhi : b1.toNat ≤ 0x9F
                · simp [hhi, hr1.1]; omega
                · simp [hhi]; omega
              · simp [hE0, hED]; omega
    have n3 : ¬ b0.toNat / 16 = 14 := h3
    by_cases h4 : b0.toNat / 8 = 30
    · obtain ⟨e2, e3, e4⟩ := f4 h4
      match t with
      | [] => cases hr : decide (b0.toNat % 8 ≤ 4) <;> simp [decodeScalar, scalarLen, h1, n2, n3, h4, e2, e3, e4, hr]
      | [b1] => cases hr : decide (b0.toNat % 8 ≤ 4) <;> simp [decodeScalar, scalarLen, h1, n2, n3, h4, e2, e3, e4, hr]
      | [b1, b2] => cases hr : decide (b0.toNat % 8 ≤ 4) <;> simp [decodeScalar, scalarLen, h1, n2, n3, h4, e2, e3, e4, hr]
      | b1 :: b2 :: b3 :: t3 =>
        have hb1 := b1.isLt
        have hb2 := b2.isLt
        have hb3 := b3.isLt
        cases hc1 : cont b1
        · have hn : ¬ (0x80 ≤ b1.toNat ∧ b1.toNat ≤ 0xBF) := by
            intro hh; have : cont b1 = true := by simp [cont, inR, hh.1, hh.2]
            rw [hc1] at this; cases this
          have : (if b0.toNat = 0xF0 then inR 0x90 0xBF b1 else if b0.toNat = 0xF4 then inR 0x80 0x8F b1
              else cont b1) = false := by
            split
            · simp only [inR, Bool.and_eq_false_iff, decide_eq_false_iff_not]; omega
            · split
              · simp only [inR, Bool.and_eq_false_iff, decide_eq_false_iff_not]; omega
              · exact hc1
          cases hr : decide (b0.toNat % 8 ≤ 4) <;>
            simp [decodeScalar, scalarLen, h1, n2, n3, h4, e2, e3, e4, hr, contBits_of_not_cont b1 hc1, this]
        · have hr1 := cont_range b1 hc1
          cases hc2 : cont b2
          · cases hr : decide (b0.toNat % 8 ≤ 4) <;>
              simp [decodeScalar, scalarLen, h1, n2, n3, h4, e2, e3, e4, hr, contBits_of_cont b1 hc1,
                contBits_of_not_cont b2 hc2, hc2]
          · have hr2 := cont_range b2 hc2
            cases hc3 : cont b3
            · cases hr : decide (b0.toNat % 8 ≤ 4) <;>
                simp [decodeScalar, scalarLen, h1, n2, n3, h4, e2, e3, e4, hr, contBits_of_cont b1 hc1,
                  contBits_of_cont b2 hc2, contBits_of_not_cont b3 hc3, hc3]
            · have hr3 := cont_range b3 hc3
              simp only [decodeScalar, scalarLen, h1, n2, n3, h4, e2, e3, e4, contBits_of_cont b1 hc1,
                contBits_of_cont b2 hc2, contBits_of_cont b3 hc3, if_true, if_false, Option.bind_some,
                hc2, hc3, Bool.and_true, hc1]
              by_cases hF0 : b0.toNat = 0xF0
              · have hle : b0.toNat % 8 ≤ 4 := by omega
                simp only [hF0, if_true, inR]
                by_cases hlo : 0x90 ≤ b1.toNat
                · simp [hlo, hr1.2]; omega
                · simp [hlo]; omega
              · by_cases hF4 : b0.toNat = 0xF4
                · have hne : ¬ (0xF4 : Nat) = 0xF0 := by decide
                  simp only [hF4, if_true, inR, hne, if_false]
                  by_cases hhi : b1.toNat ≤ 0x8F
                  · simp [hhi, hr1.1]; omega
                  · simp [hhi]; omega
                · by_cases hle : b0.toNat % 8 ≤ 4
                  · simp [hF0, hF4, hle]; omega
                  · simp [hF0, hF4, hle]; omega
    · obtain ⟨e2, e3, e4⟩ := f5 h1 h2 h3 h4
      simp [decodeScalar, scalarLen, h1, n2, n3, h4, e2, e3, e4]

theorem decodeScalar_none (bs : Bytes) (h : decodeScalar bs = none) : scalarLen bs = 0 := by
  have := decodeScalar_len bs
  rw [h] at this
  simp only [Option.map_none] at this
  by_cases h0 : scalarLen bs = 0
  · exact h0
  · rw [if_neg h0] at this; cases this

theorem decodeScalar_some (bs : Bytes) (cp k : Nat) (h : decodeScalar bs = some (cp, k)) :
    scalarLen bs = k ∧ k ≠ 0 := by
  have := decodeScalar_len bs
  rw [h] at this
  simp only [Option.map_some] at this
  by_cases h0 : scalarLen bs = 0
  · rw [if_pos h0] at this; cases this
  · rw [if_neg h0] at this
    injection this with this
    exact ⟨this.symm, by rw [this]; exact h0⟩

/-- the definition-based validity check is the table-based one -/
theorem isUtf8Fuel_eq (fuel : Nat) (bs : Bytes) (h : bs.length ≤ fuel) :
    isUtf8Fuel fuel bs = Utf8.valid bs := by
  induction fuel generalizing bs with
  | zero =>
    have : bs = [] := List.eq_nil_of_length_eq_zero (by omega)
    subst this
    simp [isUtf8Fuel, Utf8.valid, validUpTo_nil]
  | succ fuel ih =>
    cases bs with
    | nil => simp [isUtf8Fuel, Utf8.valid, validUpTo_nil]
    | cons b t =>
      unfold isUtf8Fuel
      cases hd : decodeScalar (b :: t) with
      | none =>
        have h0 := decodeScalar_none _ hd
        simp only [Utf8.valid, validUpTo_of_scalarLen_eq_zero _ h0, List.length_cons]
        simp
      | some x =>
        obtain ⟨cp, k⟩ := x
        obtain ⟨hk, hk0⟩ := decodeScalar_some _ cp k hd
        have hle := scalarLen_le (b :: t)
        simp only []
        rw [ih _ (by simp only [List.length_drop, List.length_cons] at h ⊢; omega)]
        have hne : scalarLen (b :: t) ≠ 0 := by rw [hk]; exact hk0
        simp only [Utf8.valid, validUpTo_of_scalarLen_ne_zero _ hne, hk, List.length_drop]
        rw [hk] at hle
        simp only [List.length_cons] at hle ⊢
        by_cases hv : validUpTo (List.drop k (b :: t)) = t.length + 1 - k
        · have : k + validUpTo (List.drop k (b :: t)) = t.length + 1 := by omega
          rw [hv]
          have e2 : k + (t.length + 1 - k) = t.length + 1 := by omega
          rw [e2]
          simp
        · have hn : ¬ k + validUpTo (List.drop k (b :: t)) = t.length + 1 := by omega
          rw [beq_eq_false_iff_ne.mpr hv, beq_eq_false_iff_ne.mpr hn]

theorem isUtf8_eq (bs : Bytes) : isUtf8 bs = Utf8.valid bs := isUtf8Fuel_eq _ _ (Nat.le_refl _)

/-- the Spec's longest valid prefix (by search) is the model's `validPrefix` -/
theorem longestValid_eq (b : Bytes) (k : Nat) (h1 : validUpTo b ≤ k) (h2 : k ≤ b.length) :
    longestValid b k = validPrefix b := by
  induction k with
  | zero =>
    have : validUpTo b = 0 := by omega
    simp [longestValid, validPrefix, this]
  | succ k ih =>
    unfold longestValid
    rw [isUtf8_eq]
    by_cases hv : Utf8.valid (b.take (k + 1)) = true
    · rw [if_pos hv]
      have := validPrefix_longest b (k + 1) h2 hv
      have hlen : (validPrefix b).length = validUpTo b := by
        unfold validPrefix; rw [List.length_take]; have := validUpTo_le b; omega
      have heq : validUpTo b = k + 1 := by omega
      unfold validPrefix
      rw [heq]
    · rw [if_neg hv]
      apply ih
      · by_cases hlt : validUpTo b ≤ k
        · exact hlt
        · exfalso
          have heq : validUpTo b = k + 1 := by omega
          apply hv
          have := valid_validPrefix b
          unfold validPrefix at this
          rw [heq] at this
          exact this
      · omega

theorem longestValid_self (b : Bytes) : longestValid b b.length = validPrefix b :=
  longestValid_eq b b.length (validUpTo_le b) (Nat.le_refl _)

end Dlt
