/-
  Facts about the UTF-8 recogniser (Model/Utf8.lean).
-/
import DltVerif.Model.Utf8

namespace Dlt.Utf8

/-! ### locality of `scalarLen` -/

/-- a successful match only inspects the matched prefix: appending preserves it -/
theorem scalarLen_append (p r : Bytes) (h : scalarLen p ≠ 0) :
    scalarLen (p ++ r) = scalarLen p := by
  rcases p with _ | ⟨b0, _ | ⟨b1, _ | ⟨b2, _ | ⟨b3, t⟩⟩⟩⟩
  all_goals simp only [scalarLen, List.cons_append, List.nil_append] at h ⊢
  all_goals (repeat' split) <;> simp_all

theorem scalarLen_take_aux (bs : Bytes) (j : Nat) (h : scalarLen bs = j) (hj : j ≠ 0) :
    scalarLen (bs.take j) = j := by
  rcases bs with _ | ⟨b0, _ | ⟨b1, _ | ⟨b2, _ | ⟨b3, t⟩⟩⟩⟩
  all_goals simp only [scalarLen] at h
  all_goals (repeat' split at h)
  all_goals first | omega | (subst h; simp_all [scalarLen])

/-- the matched scalar alone is recognised with the same length -/
theorem scalarLen_take_self (bs : Bytes) (h : scalarLen bs ≠ 0) :
    scalarLen (bs.take (scalarLen bs)) = scalarLen bs :=
  scalarLen_take_aux bs _ rfl h

/-- truncating after the matched scalar preserves the match -/
theorem scalarLen_take (bs : Bytes) (k : Nat) (h : scalarLen bs ≠ 0) (hk : scalarLen bs ≤ k) :
    scalarLen (bs.take k) = scalarLen bs := by
  have h1 : bs.take k = bs.take (scalarLen bs) ++ (bs.take k).drop (scalarLen bs) := by
    have := List.take_append_drop (scalarLen bs) (bs.take k)
    rw [List.take_take, Nat.min_eq_left hk] at this
    exact this.symm
  rw [h1, scalarLen_append _ _ (by rw [scalarLen_take_self bs h]; exact h),
    scalarLen_take_self bs h]

/-- a match in a prefix is a match in the whole -/
theorem scalarLen_of_take (bs : Bytes) (k : Nat) (h : scalarLen (bs.take k) ≠ 0) :
    scalarLen bs = scalarLen (bs.take k) := by
  have := scalarLen_append (bs.take k) (bs.drop k) h
  rwa [List.take_append_drop] at this

/-! ### `validUpTo` -/

theorem validUpTo_of_scalarLen_eq_zero (b : Bytes) (h : scalarLen b = 0) : validUpTo b = 0 := by
  rw [validUpTo]; simp [h]

theorem validUpTo_of_scalarLen_ne_zero (b : Bytes) (h : scalarLen b ≠ 0) :
    validUpTo b = scalarLen b + validUpTo (b.drop (scalarLen b)) := by
  rw [validUpTo]; simp [h]

theorem validUpTo_nil : validUpTo [] = 0 :=
  validUpTo_of_scalarLen_eq_zero [] rfl

theorem validUpTo_le (b : Bytes) : validUpTo b ≤ b.length := by
  induction hn : b.length using Nat.strongRecOn generalizing b with
  | _ n ih =>
    by_cases h : scalarLen b = 0
    · rw [validUpTo_of_scalarLen_eq_zero b h]; omega
    · rw [validUpTo_of_scalarLen_ne_zero b h]
      have hle := scalarLen_le b
      have := ih (b.drop (scalarLen b)).length (by rw [List.length_drop]; omega) _ rfl
      rw [List.length_drop] at this
      omega

theorem valid_iff (b : Bytes) : valid b = true ↔ validUpTo b = b.length := by
  simp [valid]

/-- a valid string followed by anything: the scan runs through the valid part -/
theorem validUpTo_append (a b : Bytes) (ha : valid a = true) :
    validUpTo (a ++ b) = a.length + validUpTo b := by
  induction hn : a.length using Nat.strongRecOn generalizing a with
  | _ n ih =>
    rw [valid_iff] at ha
    by_cases h : scalarLen a = 0
    · rw [validUpTo_of_scalarLen_eq_zero a h] at ha
      have : a = [] := List.eq_nil_of_length_eq_zero ha.symm
      subst this
      simp at hn
      simp [← hn]
    · have hle := scalarLen_le a
      rw [validUpTo_of_scalarLen_ne_zero a h] at ha
      have hsa : scalarLen (a ++ b) = scalarLen a := scalarLen_append a b h
      rw [validUpTo_of_scalarLen_ne_zero (a ++ b) (by rw [hsa]; exact h), hsa,
        List.drop_append_of_le_length hle]
      have hv : valid (a.drop (scalarLen a)) = true := by
        rw [valid_iff, List.length_drop]; omega
      rw [ih (a.drop (scalarLen a)).length (by rw [List.length_drop]; omega) _ hv rfl,
        List.length_drop]
      omega

/-- concatenation of valid strings is valid -/
theorem valid_append (a b : Bytes) (ha : valid a = true) (hb : valid b = true) :
    valid (a ++ b) = true := by
  rw [valid_iff, validUpTo_append a b ha, (valid_iff b).1 hb, List.length_append]

theorem validUpTo_take_validUpTo (b : Bytes) :
    validUpTo (b.take (validUpTo b)) = validUpTo b := by
  induction hn : b.length using Nat.strongRecOn generalizing b with
  | _ n ih =>
    by_cases h : scalarLen b = 0
    · rw [validUpTo_of_scalarLen_eq_zero b h, List.take_zero, validUpTo_nil]
    · have hle := scalarLen_le b
      rw [validUpTo_of_scalarLen_ne_zero b h]
      have hs : scalarLen (b.take (scalarLen b + validUpTo (b.drop (scalarLen b))))
          = scalarLen b := scalarLen_take b _ h (by omega)
      rw [validUpTo_of_scalarLen_ne_zero _ (by rw [hs]; exact h), hs, List.drop_take,
        Nat.add_sub_cancel_left,
        ih (b.drop (scalarLen b)).length (by rw [List.length_drop]; omega) _ rfl]

/-- the salvaged prefix is valid UTF-8 -/
theorem valid_validPrefix (b : Bytes) : valid (validPrefix b) = true := by
  rw [valid_iff, validPrefix, validUpTo_take_validUpTo, List.length_take]
  have := validUpTo_le b
  omega

/-- no longer prefix is valid -/
theorem validPrefix_longest (b : Bytes) :
    ∀ k, k ≤ b.length → valid (b.take k) = true → k ≤ (validPrefix b).length := by
  intro k hk hv
  have h1 := validUpTo_append (b.take k) (b.drop k) hv
  rw [List.take_append_drop, List.length_take] at h1
  rw [validPrefix, List.length_take]
  have := validUpTo_le b
  omega

/-- a valid string is its own valid prefix -/
theorem validPrefix_of_valid (b : Bytes) (h : valid b = true) : validPrefix b = b := by
  rw [validPrefix, (valid_iff b).1 h, List.take_length]

end Dlt.Utf8
