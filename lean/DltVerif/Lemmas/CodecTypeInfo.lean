/-
  The type-info decoder of the crate (`TryFrom<u32> for TypeInfo`, bit operations) equals
  the Spec's decoder by weights (Spec/Codec.lean `tiDecode`) on all 2^32 words, and accepts
  exactly the words Spec/TypeInfo.lean calls supported.

  Route: the kind depends on bits 0..12 only (masking lemmas), so it is compared over the
  8192 values of those bits by kernel evaluation; string coding and the two flags are single
  bit fields compared through `toNat`.
-/
import DltVerif.Spec.TypeInfo
import DltVerif.Model.Bits

namespace Dlt
open Dlt.Spec

/-- the kind part of `TypeInfo.ofU32` -/
def kindM (info : BitVec 32) : Option TypeInfoKind :=
  let isFixedPoint := info &&& TYPE_INFO_FIXED_POINT_FLAG != 0#32
  let k := (info >>> 4) &&& 0b1111111#32
  if k = 0b0000001#32 then some .bool
  else if k = 0b0000010#32 then
    if isFixedPoint then (typeLenFloat info).map .signedFixedPoint
    else (typeLen info).map .signed
  else if k = 0b0000100#32 then
    if isFixedPoint then (typeLenFloat info).map .unsignedFixedPoint
    else (typeLen info).map .unsigned
  else if k = 0b0001000#32 then (typeLenFloat info).map .float
  else if k = 0b0100000#32 then some .stringType
  else if k = 0b1000000#32 then some .raw
  else none

def codingM (info : BitVec 32) : StringCoding :=
  let c := (info >>> 15) &&& 0b111#32
  if c = 0#32 then StringCoding.ascii
  else if c = 1#32 then .utf8
  else .reserved (BitVec.truncate 8 c)

theorem ofU32_eq (info : BitVec 32) :
    TypeInfo.ofU32 info = (kindM info).map fun k =>
      { kind := k, coding := codingM info
        hasVariableInfo := info &&& TYPE_INFO_VARIABLE_INFO != 0#32
        hasTraceInfo := info &&& TYPE_INFO_TRACE_INFO_FLAG != 0#32 } := by
  unfold TypeInfo.ofU32 kindM codingM
  simp only []
  split <;> rename_i h <;> rw [h] <;> rfl

-- masking --------------------------------------------------------------------------------------

theorem and_mask (w m c : BitVec 32) (h : m &&& c = c) : (w &&& m) &&& c = w &&& c := by
  rw [BitVec.and_assoc, h]

theorem shift_mask (w m c : BitVec 32) (n : Nat) (h : (m >>> n) &&& c = c) :
    ((w &&& m) >>> n) &&& c = (w >>> n) &&& c := by
  rw [BitVec.ushiftRight_and_distrib, BitVec.and_assoc, h]

theorem kindM_mask (w : BitVec 32) : kindM (w &&& 0x1FFF#32) = kindM w := by
  have h1 : (w &&& 0x1FFF#32) &&& TYPE_INFO_FIXED_POINT_FLAG = w &&& TYPE_INFO_FIXED_POINT_FLAG :=
    and_mask w _ _ (by decide)
  have h2 : (w &&& 0x1FFF#32) &&& 0b1111#32 = w &&& 0b1111#32 := and_mask w _ _ (by decide)
  have h3 : ((w &&& 0x1FFF#32) >>> 4) &&& 0b1111111#32 = (w >>> 4) &&& 0b1111111#32 :=
    shift_mask w _ _ 4 (by decide)
  unfold kindM typeLen typeLenFloat
  simp only [h1, h2, h3]

theorem mask_eq_setWidth (w : BitVec 32) : w &&& 0x1FFF#32 = (w.setWidth 13).setWidth 32 := by
  apply BitVec.eq_of_toNat_eq
  simp only [BitVec.toNat_and, BitVec.toNat_setWidth, BitVec.toNat_ofNat]
  have : (0x1FFF % 2 ^ 32 : Nat) = 2 ^ 13 - 1 := by decide
  rw [this, Nat.and_two_pow_sub_one_eq_mod]
  omega

theorem tiBit_mod (n i : Nat) (hi : i < 13) : tiBit (n % 8192) i = tiBit n i := by
  unfold tiBit
  have h : n % 8192 / 2 ^ i % 2 = n / 2 ^ i % 2 := by
    have : i = 0 ∨ i = 1 ∨ i = 2 ∨ i = 3 ∨ i = 4 ∨ i = 5 ∨ i = 6 ∨ i = 7 ∨ i = 8 ∨ i = 9 ∨ i = 10
        ∨ i = 11 ∨ i = 12 := by omega
    rcases this with h | h | h | h | h | h | h | h | h | h | h | h | h <;> subst h <;>
      simp only [Nat.reducePow] <;> omega
  rw [h]

theorem tiKind_mod (n : Nat) : tiKind (n % 8192) = tiKind n := by
  unfold tiKind
  have h16 : n % 8192 % 16 = n % 16 := Nat.mod_mod_of_dvd n (by decide)
  simp only [h16, List.filter, tiBit_mod n 4 (by omega), tiBit_mod n 5 (by omega),
    tiBit_mod n 6 (by omega), tiBit_mod n 7 (by omega), tiBit_mod n 8 (by omega),
    tiBit_mod n 9 (by omega), tiBit_mod n 10 (by omega), tiBit_mod n 12 (by omega)]

/-- the kind, compared over all values of the 13 bits it depends on -/
theorem kind_table : ∀ v : BitVec 13, kindM (v.setWidth 32) = tiKind v.toNat := by
  decide +kernel

theorem kindM_eq (w : BitVec 32) : kindM w = tiKind w.toNat := by
  rw [← kindM_mask, mask_eq_setWidth, kind_table, BitVec.toNat_setWidth, tiKind_mod]

-- coding and flags ---------------------------------------------------------------------------------

theorem coding_eq (w : BitVec 32) : codingM w = tiCoding w.toNat := by
  unfold codingM tiCoding
  have hc : ((w >>> 15) &&& 0b111#32).toNat = w.toNat / 32768 % 8 := by
    simp only [BitVec.toNat_and, BitVec.toNat_ushiftRight, BitVec.toNat_ofNat, Nat.shiftRight_eq_div_pow]
    have : (0b111 % 2 ^ 32 : Nat) = 2 ^ 3 - 1 := by decide
    rw [this, Nat.and_two_pow_sub_one_eq_mod]
  generalize (w >>> 15) &&& 0b111#32 = c at hc
  simp only []
  rw [← hc]
  have hlt : c.toNat < 8 := by omega
  by_cases h0 : c = 0#32
  · subst h0; rfl
  · by_cases h1 : c = 1#32
    · subst h1; rfl
    · have hn0 : c.toNat ≠ 0 := fun h => h0 (BitVec.eq_of_toNat_eq h)
      have hn1 : c.toNat ≠ 1 := fun h => h1 (BitVec.eq_of_toNat_eq h)
      simp only [h0, h1, if_false]
      have htr : BitVec.truncate 8 c = BitVec.ofNat 8 c.toNat := by
        apply BitVec.eq_of_toNat_eq; simp [BitVec.truncate]
      rw [htr]

theorem flag_eq (w : BitVec 32) (i : Nat) (hi : i < 32) :
    (w &&& BitVec.twoPow 32 i != 0#32) = tiBit w.toNat i := by
  unfold tiBit
  rw [BitVec.and_twoPow]
  have hg : w.getLsbD i = decide (w.toNat / 2 ^ i % 2 = 1) := by
    rw [BitVec.getLsbD, Nat.testBit_eq_decide_div_mod_eq]
  have hne : BitVec.twoPow 32 i ≠ 0#32 := by
    intro h
    have := congrArg BitVec.toNat h
    rw [BitVec.toNat_twoPow, Nat.mod_eq_of_lt (Nat.pow_lt_pow_right (by omega) hi)] at this
    exact absurd this (Nat.pos_iff_ne_zero.mp (Nat.pow_pos (by omega)))
  rw [← hg]
  cases w.getLsbD i <;> simp [hne]

/-- all 2^32 words: the crate's decoder is the decoder by weights -/
theorem ofU32_eq_tiDecode (w : BitVec 32) : TypeInfo.ofU32 w = tiDecode w.toNat := by
  rw [ofU32_eq, kindM_eq, coding_eq]
  have hv := flag_eq w 11 (by omega)
  have ht := flag_eq w 13 (by omega)
  have e1 : TYPE_INFO_VARIABLE_INFO = BitVec.twoPow 32 11 := by decide
  have e2 : TYPE_INFO_TRACE_INFO_FLAG = BitVec.twoPow 32 13 := by decide
  rw [e1, e2, hv, ht]
  rfl

/-- supported = the kind is defined -/
theorem tiSupported_table : ∀ v : BitVec 13, tiSupported v.toNat = (tiKind v.toNat).isSome := by
  decide +kernel

theorem tiSupported_mod (n : Nat) : tiSupported (n % 8192) = tiSupported n := by
  unfold tiSupported
  have h16 : n % 8192 % 16 = n % 16 := Nat.mod_mod_of_dvd n (by decide)
  simp only [h16, List.filter, tiBit_mod n 4 (by omega), tiBit_mod n 5 (by omega),
    tiBit_mod n 6 (by omega), tiBit_mod n 7 (by omega), tiBit_mod n 8 (by omega),
    tiBit_mod n 9 (by omega), tiBit_mod n 10 (by omega), tiBit_mod n 12 (by omega)]

/-- a word is accepted exactly when it names one supported kind with a supported width -/
theorem ofU32_isSome (w : BitVec 32) : (TypeInfo.ofU32 w).isSome = tiSupported w.toNat := by
  rw [ofU32_eq_tiDecode]
  unfold tiDecode
  rw [Option.isSome_map, ← tiSupported_mod, ← tiKind_mod]
  have hlt : w.toNat % 8192 < 2 ^ 13 := Nat.mod_lt _ (by decide)
  have := tiSupported_table (BitVec.ofNat 13 (w.toNat % 8192))
  simp only [BitVec.toNat_ofNat, Nat.mod_eq_of_lt hlt] at this
  exact this.symm

end Dlt
