/-
  C11: the type vocabulary of the model (`typeInfoForSignalRef`, the chain of comparisons of
  `type_info_for_signal_ref`) is the table written out in Spec/Fibex.lean.
-/
import DltVerif.Lemmas.FibexBuild

namespace Dlt.Fibex
open Dlt.Fibex.Spec

/-- the chain of comparisons on the base data type, as a function -/
def baseChain (base : Bytes) : Option TypeInfo :=
  if base = N_A_UINT8 then some (plainType (.unsigned .b8))
  else if base = N_A_INT8 ∨ base = N_A_SINT8 then some (plainType (.signed .b8))
  else if base = N_A_UINT16 then some (plainType (.unsigned .b16))
  else if base = N_A_INT16 ∨ base = N_A_SINT16 then some (plainType (.signed .b16))
  else if base = N_A_UINT32 then some (plainType (.unsigned .b32))
  else if base = N_A_INT32 ∨ base = N_A_SINT32 then some (plainType (.signed .b32))
  else if base = N_A_UINT64 then some (plainType (.unsigned .b64))
  else if base = N_A_INT64 ∨ base = N_A_SINT64 then some (plainType (.signed .b64))
  else if base = N_A_FLOAT32 then some (plainType (.float .w32))
  else if base = N_A_FLOAT64 then some (plainType (.float .w64))
  else if base = N_A_ASCIISTRING then some (plainType .stringType)
  else if base = N_A_UNICODE2STRING then some (plainType .stringType .utf8)
  else none

theorem baseChain_eq (base : Bytes) : baseChain base = lookupName base baseTypes := by
  have e1 : nm ['A','_','U','I','N','T','8'] = N_A_UINT8 := by decide
  have e2 : nm ['A','_','I','N','T','8'] = N_A_INT8 := by decide
  have e3 : nm ['A','_','S','I','N','T','8'] = N_A_SINT8 := by decide
  have e4 : nm ['A','_','U','I','N','T','1','6'] = N_A_UINT16 := by decide
  have e5 : nm ['A','_','I','N','T','1','6'] = N_A_INT16 := by decide
  have e6 : nm ['A','_','S','I','N','T','1','6'] = N_A_SINT16 := by decide
  have e7 : nm ['A','_','U','I','N','T','3','2'] = N_A_UINT32 := by decide
  have e8 : nm ['A','_','I','N','T','3','2'] = N_A_INT32 := by decide
  have e9 : nm ['A','_','S','I','N','T','3','2'] = N_A_SINT32 := by decide
  have e10 : nm ['A','_','U','I','N','T','6','4'] = N_A_UINT64 := by decide
  have e11 : nm ['A','_','I','N','T','6','4'] = N_A_INT64 := by decide
  have e12 : nm ['A','_','S','I','N','T','6','4'] = N_A_SINT64 := by decide
  have e13 : nm ['A','_','F','L','O','A','T','3','2'] = N_A_FLOAT32 := by decide
  have e14 : nm ['A','_','F','L','O','A','T','6','4'] = N_A_FLOAT64 := by decide
  have e15 : nm ['A','_','A','S','C','I','I','S','T','R','I','N','G'] = N_A_ASCIISTRING := by decide
  have e16 : nm ['A','_','U','N','I','C','O','D','E','2','S','T','R','I','N','G'] = N_A_UNICODE2STRING := by decide
  by_cases h1 : base = N_A_UINT8
  · subst h1; decide
  by_cases h2 : base = N_A_INT8
  · subst h2; decide
  by_cases h3 : base = N_A_SINT8
  · subst h3; decide
  by_cases h4 : base = N_A_UINT16
  · subst h4; decide
  by_cases h5 : base = N_A_INT16
  · subst h5; decide
  by_cases h6 : base = N_A_SINT16
  · subst h6; decide
  by_cases h7 : base = N_A_UINT32
  · subst h7; decide
  by_cases h8 : base = N_A_INT32
  · subst h8; decide
  by_cases h9 : base = N_A_SINT32
  · subst h9; decide
  by_cases h10 : base = N_A_UINT64
  · subst h10; decide
  by_cases h11 : base = N_A_INT64
  · subst h11; decide
  by_cases h12 : base = N_A_SINT64
  · subst h12; decide
  by_cases h13 : base = N_A_FLOAT32
  · subst h13; decide
  by_cases h14 : base = N_A_FLOAT64
  · subst h14; decide
  by_cases h15 : base = N_A_ASCIISTRING
  · subst h15; decide
  by_cases h16 : base = N_A_UNICODE2STRING
  · subst h16; decide
  unfold baseTypes
  rw [lookupName, e1, if_neg h1, lookupName, e2, if_neg h2, lookupName, e3, if_neg h3, lookupName, e4, if_neg h4, lookupName, e5, if_neg h5, lookupName, e6, if_neg h6, lookupName, e7, if_neg h7, lookupName, e8, if_neg h8, lookupName, e9, if_neg h9, lookupName, e10, if_neg h10, lookupName, e11, if_neg h11, lookupName, e12, if_neg h12, lookupName, e13, if_neg h13, lookupName, e14, if_neg h14, lookupName, e15, if_neg h15, lookupName, e16, if_neg h16, lookupName]
  unfold baseChain
  simp only [h1, h2, h3, h4, h5, h6, h7, h8, h9, h10, h11, h12, h13, h14, h15, h16, or_self, if_false]

/-- the model's vocabulary is the Spec's table: a standard name decides, otherwise the base
    data type of the signal's coding is looked up -/
theorem typeInfoForSignalRef_eq_table (ref : Bytes) (s c : List (Bytes × Bytes)) :
    typeInfoForSignalRef ref s c
      = (match lookupName ref standardSignals with
         | some r => r
         | none => ((lookupKV s ref).bind (lookupKV c)).bind fun b => lookupName b baseTypes) := by
  have e1 : nm ['S','_','B','O','O','L'] = N_S_BOOL := by decide
  have e2 : nm ['S','_','S','I','N','T','8'] = N_S_SINT8 := by decide
  have e3 : nm ['S','_','U','I','N','T','8'] = N_S_UINT8 := by decide
  have e4 : nm ['S','_','S','I','N','T','1','6'] = N_S_SINT16 := by decide
  have e5 : nm ['S','_','U','I','N','T','1','6'] = N_S_UINT16 := by decide
  have e6 : nm ['S','_','S','I','N','T','3','2'] = N_S_SINT32 := by decide
  have e7 : nm ['S','_','U','I','N','T','3','2'] = N_S_UINT32 := by decide
  have e8 : nm ['S','_','S','I','N','T','6','4'] = N_S_SINT64 := by decide
  have e9 : nm ['S','_','U','I','N','T','6','4'] = N_S_UINT64 := by decide
  have e10 : nm ['S','_','F','L','O','A','1','6'] = N_S_FLOA16 := by decide
  have e11 : nm ['S','_','F','L','O','A','3','2'] = N_S_FLOA32 := by decide
  have e12 : nm ['S','_','F','L','O','A','6','4'] = N_S_FLOA64 := by decide
  have e13 : nm ['S','_','S','T','R','G','_','A','S','C','I','I'] = N_S_STRG_ASCII := by decide
  have e14 : nm ['S','_','S','T','R','G','_','U','T','F','8'] = N_S_STRG_UTF8 := by decide
  have e15 : nm ['S','_','R','A','W','D'] = N_S_RAWD := by decide
  have e16 : nm ['S','_','R','A','W'] = N_S_RAW := by decide
  by_cases h1 : ref = N_S_BOOL
  · subst h1; rfl
  by_cases h2 : ref = N_S_SINT8
  · subst h2; rfl
  by_cases h3 : ref = N_S_UINT8
  · subst h3; rfl
  by_cases h4 : ref = N_S_SINT16
  · subst h4; rfl
  by_cases h5 : ref = N_S_UINT16
  · subst h5; rfl
  by_cases h6 : ref = N_S_SINT32
  · subst h6; rfl
  by_cases h7 : ref = N_S_UINT32
  · subst h7; rfl
  by_cases h8 : ref = N_S_SINT64
  · subst h8; rfl
  by_cases h9 : ref = N_S_UINT64
  · subst h9; rfl
  by_cases h10 : ref = N_S_FLOA16
  · subst h10; rfl
  by_cases h11 : ref = N_S_FLOA32
  · subst h11; rfl
  by_cases h12 : ref = N_S_FLOA64
  · subst h12; rfl
  by_cases h13 : ref = N_S_STRG_ASCII
  · subst h13; rfl
  by_cases h14 : ref = N_S_STRG_UTF8
  · subst h14; rfl
  by_cases h15 : ref = N_S_RAWD
  · subst h15; rfl
  by_cases h16 : ref = N_S_RAW
  · subst h16; rfl
  unfold standardSignals
  rw [lookupName, e1, if_neg h1, lookupName, e2, if_neg h2, lookupName, e3, if_neg h3, lookupName, e4, if_neg h4, lookupName, e5, if_neg h5, lookupName, e6, if_neg h6, lookupName, e7, if_neg h7, lookupName, e8, if_neg h8, lookupName, e9, if_neg h9, lookupName, e10, if_neg h10, lookupName, e11, if_neg h11, lookupName, e12, if_neg h12, lookupName, e13, if_neg h13, lookupName, e14, if_neg h14, lookupName, e15, if_neg h15, lookupName, e16, if_neg h16, lookupName]
  unfold typeInfoForSignalRef
  simp only [h1, h2, h3, h4, h5, h6, h7, h8, h9, h10, h11, h12, h13, h14, h15, h16, or_self, if_false]
  cases (lookupKV s ref).bind (lookupKV c) with
  | none => rfl
  | some base => exact baseChain_eq base

/-- `Spec.typeOf` (phrased with the model's function) is the independent table `Spec.typeOfRef` -/
theorem typeOf_eq_typeOfRef (es : List Elem) (ref : Bytes) : typeOf es ref = typeOfRef es ref := by
  unfold typeOf typeOfRef
  rw [typeInfoForSignalRef_eq_table, lookupKV_inForce_self]
  have : (fun k => lookupKV ((codingsOf es).filterMap fun (id, _) =>
      (lastOf (codingsOf es) id).map fun b => (id, b)) k) = lastOf (codingsOf es) :=
    funext fun k => lookupKV_inForce_self _ k
  rw [show (lookupKV ((codingsOf es).filterMap fun (id, _) =>
      (lastOf (codingsOf es) id).map fun b => (id, b))) = lastOf (codingsOf es) from this]
  rfl

end Dlt.Fibex
