/-
  C18: where double precision is exact (the value and the mathematical product have at most
  53 significant bits), the model's truncated product is the mathematical one - so the exact
  dyadic Spec (Spec/Fixed.lean) and the model agree there.
-/
import DltVerif.Lemmas.Round53
import DltVerif.Lemmas.NearestDouble
import DltVerif.Spec.Fixed

namespace Dlt
open Dlt.Spec

theorem f32ToF64_of_dyadic (q : BitVec 32) (qneg : Bool) (m : Nat) (e : Int)
    (h : f32Dyadic q.toNat = some (qneg, m, e)) : f32ToF64 q = .fin qneg m e := by
  unfold f32Dyadic at h
  unfold f32ToF64
  have hneg : q.getLsbD 31 = decide (q.toNat / 2 ^ 31 % 2 = 1) := by
    rw [BitVec.getLsbD, Nat.testBit_eq_decide_div_mod_eq]
  simp only [Nat.shiftRight_eq_div_pow, hneg] at h ⊢
  split at h
  · cases h
  · rename_i h255
    rw [if_neg h255]
    split at h
    · rename_i h0
      rw [if_pos h0]
      simp only [Option.some.injEq, Prod.mk.injEq] at h
      obtain ⟨rfl, rfl, rfl⟩ := h
      rfl
    · rename_i h0
      rw [if_neg h0]
      simp only [Option.some.injEq, Prod.mk.injEq] at h
      obtain ⟨rfl, rfl, rfl⟩ := h
      rfl

/-- `floor (q * 2^E)` for an integer exponent, as `F64.toU64` computes it -/
def floorScale (q : Nat) (E : Int) : Nat := if E ≥ 0 then q <<< E.toNat else q >>> (-E).toNat

theorem floorScale_mul_pow (q K : Nat) (e : Int) :
    floorScale q ((K : Int) + e)
      = if e ≥ 0 then q * 2 ^ K * 2 ^ e.toNat else q * 2 ^ K / 2 ^ (-e).toNat := by
  unfold floorScale
  simp only [Nat.shiftLeft_eq, Nat.shiftRight_eq_div_pow]
  by_cases he : e ≥ 0
  · have hE : (K : Int) + e ≥ 0 := by omega
    rw [if_pos hE, if_pos he]
    have : ((K : Int) + e).toNat = K + e.toNat := by omega
    rw [this, Nat.pow_add, Nat.mul_assoc]
  · rw [if_neg he]
    by_cases hE : (K : Int) + e ≥ 0
    · rw [if_pos hE]
      -- K ≥ -e: exact division
      have hk : (-e).toNat ≤ K := by omega
      obtain ⟨d, hd⟩ := Nat.exists_eq_add_of_le hk
      have : ((K : Int) + e).toNat = d := by omega
      rw [this, hd, Nat.pow_add, ← Nat.mul_assoc, Nat.mul_comm (q * 2 ^ (-e).toNat) (2 ^ d),
        ← Nat.mul_assoc, Nat.mul_div_cancel _ (Nat.pow_pos (by omega)), Nat.mul_comm]
    · rw [if_neg hE]
      have hk : K ≤ (-e).toNat := by omega
      obtain ⟨d, hd⟩ := Nat.exists_eq_add_of_le hk
      have : (-((K : Int) + e)).toNat = d := by omega
      rw [this, hd, Nat.pow_add, Nat.mul_comm (2 ^ K) (2 ^ d),
        Nat.mul_div_mul_right _ _ (Nat.pow_pos (by omega))]

theorem toU64_fin (neg : Bool) (q : Nat) (E : Int) (h : neg = false ∨ q = 0) (hlt : floorScale q E < 2 ^ 64) :
    (F64.fin neg q E).toU64 = floorScale q E := by
  have hz : floorScale 0 E = 0 := by
    unfold floorScale; split <;> simp
  rcases h with h | h
  · subst h
    unfold F64.toU64
    simp only [Bool.false_eq_true, if_false]
    change (if floorScale q E ≥ 2 ^ 64 then 2 ^ 64 - 1 else floorScale q E) = _
    rw [if_neg (by omega)]
  · subst h
    cases neg
    · unfold F64.toU64
      simp only [Bool.false_eq_true, if_false]
      change (if floorScale 0 E ≥ 2 ^ 64 then 2 ^ 64 - 1 else floorScale 0 E) = _
      rw [if_neg (by omega)]
    · rw [hz]; rfl

/-- the double-precision product of the model, truncated toward zero, is the number the IEEE
    definition of the Spec prescribes: `value as f64` is `nearestDouble |v|`, the product is
    `nearestDouble` of the exact product of the two doubles, scaled by the quantization's
    exponent -/
theorem truncatedProduct_spec (v : Int) (q : BitVec 32) (qneg : Bool) (m : Nat) (e : Int)
    (hq : f32Dyadic q.toNat = some (qneg, m, e))
    (hs : ¬ (nearestDouble (nearestDouble v.natAbs * m) ≠ 0 ∧ ((decide (v < 0)) != qneg) = true))
    (hp : (if e ≥ 0 then nearestDouble (nearestDouble v.natAbs * m) * 2 ^ e.toNat
           else nearestDouble (nearestDouble v.natAbs * m) / 2 ^ (-e).toNat) < 2 ^ 64) :
    truncatedProduct v q
      = (if e ≥ 0 then nearestDouble (nearestDouble v.natAbs * m) * 2 ^ e.toNat
         else nearestDouble (nearestDouble v.natAbs * m) / 2 ^ (-e).toNat) := by
  -- the value converts to the nearest double
  obtain ⟨k1, q1, r1, e1⟩ := round53_value v.natAbs 0
  -- the product of the two doubles is rounded to the nearest double
  obtain ⟨k2, q2, r2, e2⟩ := round53_value (q1 * m) ((0 : Int) + (k1 : Int) + e)
  have hy : nearestDouble (nearestDouble v.natAbs * m) = q2 * 2 ^ (k2 + k1) := by
    rw [← e1, Nat.mul_assoc, Nat.mul_comm (2 ^ k1) m, ← Nat.mul_assoc, nearestDouble_scale, ← e2,
      Nat.pow_add, Nat.mul_assoc]
  rw [hy] at hs hp ⊢
  unfold truncatedProduct
  rw [f32ToF64_of_dyadic q qneg m e hq]
  simp only [intToF64, r1, F64.mul, r2]
  have hE : (0 : Int) + (k1 : Int) + e + (k2 : Int) = ((k2 + k1 : Nat) : Int) + e := by omega
  rw [hE]
  have hfs := floorScale_mul_pow q2 (k2 + k1) e
  rw [toU64_fin _ _ _ _ (by rw [hfs]; exact hp), hfs]
  -- sign: not negative, or zero
  by_cases hz : q2 = 0
  · exact Or.inr hz
  · left
    have hne : q2 * 2 ^ (k2 + k1) ≠ 0 :=
      Nat.mul_ne_zero hz (Nat.pos_iff_ne_zero.mp (Nat.pow_pos (by omega)))
    have := fun hx => hs ⟨hne, hx⟩
    cases hb : (decide (v < 0) != qneg)
    · rfl
    · exact absurd hb this

end Dlt
