/-
  C18: where double precision is exact (the value and the mathematical product have at most
  53 significant bits), the model's truncated product is the mathematical one - so the exact
  dyadic Spec (Spec/Fixed.lean) and the model agree there.
-/
import DltVerif.Lemmas.Round53
import DltVerif.Spec.Fixed

namespace Dlt
open Dlt.Spec

theorem fits53_witness (n : Nat) (h : fits53 n = true) : ∃ j, n % 2 ^ j = 0 ∧ n / 2 ^ j < 2 ^ 53 := by
  unfold fits53 at h
  rw [List.any_eq_true] at h
  obtain ⟨j, _, hj⟩ := h
  simp only [Bool.and_eq_true, beq_iff_eq, decide_eq_true_eq] at hj
  exact ⟨j, hj.1, hj.2⟩

/-- a factor `2^k` does not change whether a number has at most 53 significant bits -/
theorem dyadic_of_mul_pow (x k j : Nat) (h1 : (x * 2 ^ k) % 2 ^ j = 0) (h2 : (x * 2 ^ k) / 2 ^ j < 2 ^ 53) :
    ∃ j', x % 2 ^ j' = 0 ∧ x / 2 ^ j' < 2 ^ 53 := by
  by_cases hjk : k ≤ j
  · -- x * 2^k = c * 2^j with j = k + d: x = c * 2^d
    obtain ⟨d, rfl⟩ := Nat.exists_eq_add_of_le hjk
    refine ⟨d, ?_, ?_⟩
    · have hp : 0 < 2 ^ k := Nat.pow_pos (by omega)
      rw [Nat.pow_add, Nat.mul_comm (2 ^ k) (2 ^ d), Nat.mul_mod_mul_right] at h1
      rcases Nat.mul_eq_zero.mp h1 with h | h
      · exact h
      · omega
    · rw [Nat.pow_add, Nat.mul_comm (2 ^ k) (2 ^ d), Nat.mul_div_mul_right _ _ (Nat.pow_pos (by omega))] at h2
      exact h2
  · -- j < k: x * 2^(k-j) < 2^53, so x < 2^53
    refine ⟨0, by simp [Nat.mod_one], ?_⟩
    have hj : j ≤ k := by omega
    obtain ⟨d, rfl⟩ := Nat.exists_eq_add_of_le hj
    have e1 : x * 2 ^ (j + d) = x * 2 ^ d * 2 ^ j := by
      rw [Nat.pow_add, Nat.mul_comm (2 ^ j) (2 ^ d), Nat.mul_assoc]
    rw [e1, Nat.mul_div_cancel _ (Nat.pow_pos (by omega))] at h2
    have : x ≤ x * 2 ^ d := Nat.le_mul_of_pos_right _ (Nat.pow_pos (by omega))
    simp only [Nat.pow_zero, Nat.div_one]
    omega

theorem f32ToF64_of_dyadic (q : BitVec 32) (qneg : Bool) (m : Nat) (e : Int)
    (h : f32Dyadic q.toNat = some (qneg, m, e)) : f32ToF64 q = .fin qneg m e := by
  unfold f32Dyadic at h
  unfold f32ToF64
  have hneg : q.getLsbD 31 = decide (q.toNat / 2 ^ 31 % 2 = 1) := by
    rw [BitVec.getLsbD, Nat.testBit_eq_decide_div_mod_eq]
  simp only [Nat.shiftRight_eq_div_pow, hneg] at h ⊢
  split at h
  · cases h
  · rename_i h255
    rw [if_neg h255]
    split at h
    · rename_i h0
      rw [if_pos h0]
      simp only [Option.some.injEq, Prod.mk.injEq] at h
      obtain ⟨rfl, rfl, rfl⟩ := h
      rfl
    · rename_i h0
      rw [if_neg h0]
      simp only [Option.some.injEq, Prod.mk.injEq] at h
      obtain ⟨rfl, rfl, rfl⟩ := h
      rfl

/-- `floor (q * 2^E)` for an integer exponent, as `F64.toU64` computes it -/
def floorScale (q : Nat) (E : Int) : Nat := if E ≥ 0 then q <<< E.toNat else q >>> (-E).toNat

theorem floorScale_mul_pow (q K : Nat) (e : Int) :
    floorScale q ((K : Int) + e)
      = if e ≥ 0 then q * 2 ^ K * 2 ^ e.toNat else q * 2 ^ K / 2 ^ (-e).toNat := by
  unfold floorScale
  simp only [Nat.shiftLeft_eq, Nat.shiftRight_eq_div_pow]
  by_cases he : e ≥ 0
  · have hE : (K : Int) + e ≥ 0 := by omega
    rw [if_pos hE, if_pos he]
    have : ((K : Int) + e).toNat = K + e.toNat := by omega
    rw [this, Nat.pow_add, Nat.mul_assoc]
  · rw [if_neg he]
    by_cases hE : (K : Int) + e ≥ 0
    · rw [if_pos hE]
      -- K ≥ -e: exact division
      have hk : (-e).toNat ≤ K := by omega
      obtain ⟨d, hd⟩ := Nat.exists_eq_add_of_le hk
      have : ((K : Int) + e).toNat = d := by omega
      rw [this, hd, Nat.pow_add, ← Nat.mul_assoc, Nat.mul_comm (q * 2 ^ (-e).toNat) (2 ^ d),
        ← Nat.mul_assoc, Nat.mul_div_cancel _ (Nat.pow_pos (by omega)), Nat.mul_comm]
    · rw [if_neg hE]
      have hk : K ≤ (-e).toNat := by omega
      obtain ⟨d, hd⟩ := Nat.exists_eq_add_of_le hk
      have : (-((K : Int) + e)).toNat = d := by omega
      rw [this, hd, Nat.pow_add, Nat.mul_comm (2 ^ K) (2 ^ d),
        Nat.mul_div_mul_right _ _ (Nat.pow_pos (by omega))]

theorem toU64_fin (neg : Bool) (q : Nat) (E : Int) (h : neg = false ∨ q = 0) (hlt : floorScale q E < 2 ^ 64) :
    (F64.fin neg q E).toU64 = floorScale q E := by
  have hz : floorScale 0 E = 0 := by
    unfold floorScale; split <;> simp
  rcases h with h | h
  · subst h
    unfold F64.toU64
    simp only [Bool.false_eq_true, if_false]
    change (if floorScale q E ≥ 2 ^ 64 then 2 ^ 64 - 1 else floorScale q E) = _
    rw [if_neg (by omega)]
  · subst h
    cases neg
    · unfold F64.toU64
      simp only [Bool.false_eq_true, if_false]
      change (if floorScale 0 E ≥ 2 ^ 64 then 2 ^ 64 - 1 else floorScale 0 E) = _
      rw [if_neg (by omega)]
    · rw [hz]; rfl

/-- where `v` and `v * q` have at most 53 significant bits and the product is not negative,
    the double-precision product truncated toward zero is the mathematical one -/
theorem truncatedProduct_exact (v : Int) (q : BitVec 32) (qneg : Bool) (m : Nat) (e : Int)
    (hq : f32Dyadic q.toNat = some (qneg, m, e))
    (h1 : fits53 v.natAbs = true) (h2 : fits53 (v.natAbs * m) = true)
    (hs : ¬ (v.natAbs * m ≠ 0 ∧ ((decide (v < 0)) != qneg) = true))
    (hp : (if e ≥ 0 then v.natAbs * m * 2 ^ e.toNat else v.natAbs * m / 2 ^ (-e).toNat) < 2 ^ 64) :
    truncatedProduct v q
      = (if e ≥ 0 then v.natAbs * m * 2 ^ e.toNat else v.natAbs * m / 2 ^ (-e).toNat) := by
  obtain ⟨j1, a1, a2⟩ := fits53_witness _ h1
  obtain ⟨j2, b1, b2⟩ := fits53_witness _ h2
  -- the value converts exactly
  obtain ⟨k1, q1, r1, e1⟩ := round53_exact v.natAbs 0 j1 a1 a2
  -- the product rounds exactly
  have hmag : v.natAbs * m = (q1 * m) * 2 ^ k1 := by
    rw [← e1, Nat.mul_assoc, Nat.mul_comm (2 ^ k1) m, ← Nat.mul_assoc]
  rw [hmag] at b1 b2
  obtain ⟨j3, c1, c2⟩ := dyadic_of_mul_pow (q1 * m) k1 j2 b1 b2
  obtain ⟨k2, q2, r2, e2⟩ := round53_exact (q1 * m) ((0 : Int) + (k1 : Int) + e) j3 c1 c2
  unfold truncatedProduct
  rw [f32ToF64_of_dyadic q qneg m e hq]
  simp only [intToF64, r1, F64.mul, r2]
  -- the value of the result
  have hval : v.natAbs * m = q2 * 2 ^ (k2 + k1) := by
    rw [hmag, ← e2, Nat.pow_add, Nat.mul_assoc]
  have hE : (0 : Int) + (k1 : Int) + e + (k2 : Int) = ((k2 + k1 : Nat) : Int) + e := by omega
  rw [hE]
  have hfs := floorScale_mul_pow q2 (k2 + k1) e
  rw [← hval] at hfs
  rw [toU64_fin _ _ _ _ (by rw [hfs]; exact hp), hfs]
  -- sign: not negative, or zero
  by_cases hz : q2 = 0
  · exact Or.inr hz
  · left
    have hne : v.natAbs * m ≠ 0 := by
      rw [hval]
      exact Nat.mul_ne_zero hz (Nat.pos_iff_ne_zero.mp (Nat.pow_pos (by omega)))
    have := fun hx => hs ⟨hne, hx⟩
    cases hb : (decide (v < 0) != qneg)
    · rfl
    · exact absurd hb this

end Dlt
