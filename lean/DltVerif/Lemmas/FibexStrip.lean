/-
  C11: events a loader passes over may stand anywhere between elements - also between the
  children of a PDU, a FRAME or an instance (pretty-printed files, comments, vendor elements).
  `Spec.significant` drops them; the reader cannot tell a file from its significant events.
-/
import DltVerif.Lemmas.FibexRead

namespace Dlt.Fibex
open Dlt.Fibex.Spec

theorem readText_significant (x : XmlEv) (r : List XmlEv) :
    readText (x :: significant r) = ((readText (x :: r)).1, significant (readText (x :: r)).2) := by
  cases x with
  | text t => cases t <;> rfl
  | _ => rfl

theorem significant_start_plain (t : Tag) (a : List Attr) (rest : List XmlEv) (h1 : t ≠ .other)
    (h2 : readsText t = false) : significant (.start t a :: rest) = .start t a :: significant rest := by
  cases rest with
  | nil => simp [significant, h1]
  | cons x r => simp [significant, h1, h2]

theorem significant_start_other (a : List Attr) (rest : List XmlEv) :
    significant (.start .other a :: rest) = significant rest := by
  cases rest <;> simp [significant]

theorem sig_PDU (a : List Attr) (rest : List XmlEv) :
    significant (.start .PDU a :: rest) = .start .PDU a :: significant rest :=
  significant_start_plain _ _ _ (by decide) rfl

theorem sig_SIGNAL_INSTANCE (a : List Attr) (rest : List XmlEv) :
    significant (.start .SIGNAL_INSTANCE a :: rest) = .start .SIGNAL_INSTANCE a :: significant rest :=
  significant_start_plain _ _ _ (by decide) rfl

theorem sig_SIGNAL_REF (a : List Attr) (rest : List XmlEv) :
    significant (.start .SIGNAL_REF a :: rest) = .start .SIGNAL_REF a :: significant rest :=
  significant_start_plain _ _ _ (by decide) rfl

theorem sig_FRAME (a : List Attr) (rest : List XmlEv) :
    significant (.start .FRAME a :: rest) = .start .FRAME a :: significant rest :=
  significant_start_plain _ _ _ (by decide) rfl

theorem sig_PDU_INSTANCE (a : List Attr) (rest : List XmlEv) :
    significant (.start .PDU_INSTANCE a :: rest) = .start .PDU_INSTANCE a :: significant rest :=
  significant_start_plain _ _ _ (by decide) rfl

theorem sig_PDU_REF (a : List Attr) (rest : List XmlEv) :
    significant (.start .PDU_REF a :: rest) = .start .PDU_REF a :: significant rest :=
  significant_start_plain _ _ _ (by decide) rfl

theorem sig_MANUFACTURER_EXTENSION (a : List Attr) (rest : List XmlEv) :
    significant (.start .MANUFACTURER_EXTENSION a :: rest) = .start .MANUFACTURER_EXTENSION a :: significant rest :=
  significant_start_plain _ _ _ (by decide) rfl

theorem sig_CODING (a : List Attr) (rest : List XmlEv) :
    significant (.start .CODING a :: rest) = .start .CODING a :: significant rest :=
  significant_start_plain _ _ _ (by decide) rfl

theorem sig_SIGNAL (a : List Attr) (rest : List XmlEv) :
    significant (.start .SIGNAL a :: rest) = .start .SIGNAL a :: significant rest :=
  significant_start_plain _ _ _ (by decide) rfl

theorem sig_CODED_TYPE (a : List Attr) (rest : List XmlEv) :
    significant (.start .CODED_TYPE a :: rest) = .start .CODED_TYPE a :: significant rest :=
  significant_start_plain _ _ _ (by decide) rfl

theorem sig_CODING_REF (a : List Attr) (rest : List XmlEv) :
    significant (.start .CODING_REF a :: rest) = .start .CODING_REF a :: significant rest :=
  significant_start_plain _ _ _ (by decide) rfl

/-- behind the start tag of a text element the next event is kept as it is -/
def sigTail : List XmlEv → List XmlEv
  | [] => []
  | x :: r => x :: significant r

theorem readText_sigTail (rest : List XmlEv) :
    readText (sigTail rest) = ((readText rest).1, significant (readText rest).2) := by
  cases rest with
  | nil => rfl
  | cons x r => exact readText_significant x r

theorem significant_start_text (t : Tag) (a : List Attr) (rest : List XmlEv) (h1 : t ≠ .other)
    (h2 : readsText t = true) : significant (.start t a :: rest) = .start t a :: sigTail rest := by
  cases rest with
  | nil => simp [significant, sigTail, h1]
  | cons x r => simp [significant, sigTail, h1, h2]

theorem sigt_SHORT_NAME (a : List Attr) (rest : List XmlEv) :
    significant (.start .SHORT_NAME a :: rest) = .start .SHORT_NAME a :: sigTail rest :=
  significant_start_text _ _ _ (by decide) rfl

theorem sigt_BYTE_LENGTH (a : List Attr) (rest : List XmlEv) :
    significant (.start .BYTE_LENGTH a :: rest) = .start .BYTE_LENGTH a :: sigTail rest :=
  significant_start_text _ _ _ (by decide) rfl

theorem sigt_SEQUENCE_NUMBER (a : List Attr) (rest : List XmlEv) :
    significant (.start .SEQUENCE_NUMBER a :: rest) = .start .SEQUENCE_NUMBER a :: sigTail rest :=
  significant_start_text _ _ _ (by decide) rfl

theorem sigt_PDU_TYPE (a : List Attr) (rest : List XmlEv) :
    significant (.start .PDU_TYPE a :: rest) = .start .PDU_TYPE a :: sigTail rest :=
  significant_start_text _ _ _ (by decide) rfl

theorem sigt_FRAME_TYPE (a : List Attr) (rest : List XmlEv) :
    significant (.start .FRAME_TYPE a :: rest) = .start .FRAME_TYPE a :: sigTail rest :=
  significant_start_text _ _ _ (by decide) rfl

theorem sigt_APPLICATION_ID (a : List Attr) (rest : List XmlEv) :
    significant (.start .APPLICATION_ID a :: rest) = .start .APPLICATION_ID a :: sigTail rest :=
  significant_start_text _ _ _ (by decide) rfl

theorem sigt_CONTEXT_ID (a : List Attr) (rest : List XmlEv) :
    significant (.start .CONTEXT_ID a :: rest) = .start .CONTEXT_ID a :: sigTail rest :=
  significant_start_text _ _ _ (by decide) rfl

theorem sigt_MESSAGE_INFO (a : List Attr) (rest : List XmlEv) :
    significant (.start .MESSAGE_INFO a :: rest) = .start .MESSAGE_INFO a :: sigTail rest :=
  significant_start_text _ _ _ (by decide) rfl

theorem sigt_MESSAGE_TYPE (a : List Attr) (rest : List XmlEv) :
    significant (.start .MESSAGE_TYPE a :: rest) = .start .MESSAGE_TYPE a :: sigTail rest :=
  significant_start_text _ _ _ (by decide) rfl

theorem sigt_DESC (a : List Attr) (rest : List XmlEv) :
    significant (.start .DESC a :: rest) = .start .DESC a :: sigTail rest :=
  significant_start_text _ _ _ (by decide) rfl

/-- `read_event` on the significant events: same event, same state, and what is left is the
    significant part of what is left -/
theorem readEvent_significant (st : RState) (evs : List XmlEv) :
    readEvent st (significant evs)
      = ((readEvent st evs).1, (readEvent st evs).2.1, significant (readEvent st evs).2.2) := by
  fun_induction readEvent st evs
  all_goals first
    | (simp [significant, readEvent]; done)
    | (simp_all [significant, readEvent]; done)
    | (simp_all [significant_start_other, sig_PDU, sig_SIGNAL_INSTANCE, sig_SIGNAL_REF, sig_FRAME, sig_PDU_INSTANCE, sig_PDU_REF, sig_MANUFACTURER_EXTENSION, sig_CODING, sig_SIGNAL, sig_CODED_TYPE, sig_CODING_REF, readEvent]; done)
    | (simp_all (config := { zetaDelta := true }) [significant_start_other, sig_PDU, sig_SIGNAL_INSTANCE, sig_SIGNAL_REF, sig_FRAME, sig_PDU_INSTANCE, sig_PDU_REF, sig_MANUFACTURER_EXTENSION, sig_CODING, sig_SIGNAL, sig_CODED_TYPE, sig_CODING_REF, readEvent]; done)
    | (simp_all (config := { zetaDelta := true }) [readText_sigTail, sigt_SHORT_NAME, sigt_BYTE_LENGTH, sigt_SEQUENCE_NUMBER, sigt_PDU_TYPE, sigt_FRAME_TYPE, sigt_APPLICATION_ID, sigt_CONTEXT_ID, sigt_MESSAGE_INFO, sigt_MESSAGE_TYPE, sigt_DESC, readEvent]; done)
    | (have hr := ‹readText _ = _›
       simp only [sigt_SHORT_NAME, sigt_BYTE_LENGTH, sigt_SEQUENCE_NUMBER, sigt_PDU_TYPE, sigt_FRAME_TYPE, sigt_APPLICATION_ID, sigt_CONTEXT_ID, sigt_MESSAGE_INFO, sigt_MESSAGE_TYPE, sigt_DESC]
       rw [readEvent]
       split <;> (rename_i heq; rw [readText_sigTail, hr] at heq; cases heq) <;>
         first | rfl | assumption | (simp_all; done))
    | (cases ‹Tag› <;> simp_all [significant, significant_start_other, sig_PDU, sig_SIGNAL_INSTANCE, sig_SIGNAL_REF, sig_FRAME, sig_PDU_INSTANCE, sig_PDU_REF, sig_MANUFACTURER_EXTENSION, sig_CODING, sig_SIGNAL, sig_CODED_TYPE, sig_CODING_REF, readEvent]; done)
    | (simp_all (config := { zetaDelta := true }) [significant, readEvent]; done)

/-- one unfolding of the file loop in terms of the result of `read_event` -/
def fileStep (r : Res Event) (st' : RState) (evs' : List XmlEv) (acc : Acc) : Res Acc :=
  match r with
  | .err => .err
  | .panic => .panic
  | .ok ev =>
    match ev with
    | .eof => .ok acc
    | .pduStart id =>
      (match readPdu st' evs' [] with
       | (.ok p, st'', evs'') => readFile st'' evs'' { acc with pdus := acc.pdus ++ [(id, p)] }
       | (.err, _, _) => .err
       | (.panic, _, _) => .panic)
    | .frameStart id =>
      (match readFrame st' evs' [] {} with
       | (.ok f, st'', evs'') => readFile st'' evs'' { acc with frames := acc.frames ++ [(id, f)] }
       | (.err, _, _) => .err
       | (.panic, _, _) => .panic)
    | .signal id codingRef => readFile st' evs' { acc with signals := insertKV acc.signals id codingRef }
    | .coding id base => readFile st' evs' { acc with codings := insertKV acc.codings id base }
    | _ => readFile st' evs' acc

theorem readFile_of {st st' : RState} {evs evs' : List XmlEv} {acc : Acc} {r : Res Event}
    (h : readEvent st evs = (r, st', evs')) : readFile st evs acc = fileStep r st' evs' acc := by
  rw [readFile]
  split <;> (rename_i heq; rw [h] at heq; cases heq)
  · rfl
  · rfl
  · unfold fileStep
    cases ‹Event› <;> first
      | rfl
      | (dsimp only; split <;> (rename_i hq; simp only [hq]))

/-- a transformation of event lists that `read_event` cannot see: same event, same state, and
    the remainder is the transformed remainder -/
def Invisible (T : List XmlEv → List XmlEv) : Prop :=
  ∀ (st : RState) (evs : List XmlEv),
    readEvent st (T evs) = ((readEvent st evs).1, (readEvent st evs).2.1, T (readEvent st evs).2.2)

section
variable {T : List XmlEv → List XmlEv} (hT : Invisible T)
include hT

/-- `read_pdu` cannot see it either -/
theorem readPdu_invisible : ∀ (n : Nat) (st : RState) (evs : List XmlEv) (acc : List (Nat × Bytes)),
    evs.length < n →
    readPdu st (T evs) acc
      = ((readPdu st evs acc).1, (readPdu st evs acc).2.1, T (readPdu st evs acc).2.2) := by
  intro n
  induction n with
  | zero =>
    intro st evs acc h
    omega
  | succ n ih =>
    intro st evs acc h
    have hs := hT st evs
    rw [readPdu_of (r := (readEvent st evs).1) (st' := (readEvent st evs).2.1)
          (evs' := T (readEvent st evs).2.2) hs,
        readPdu_of (st := st) (evs := evs) (r := (readEvent st evs).1)
          (st' := (readEvent st evs).2.1) (evs' := (readEvent st evs).2.2) rfl]
    have hle : (readEvent st evs).1 ≠ .ok .eof → (readEvent st evs).2.2.length < n := by
      intro hne
      have := readEvent_lt (st := st) (evs := evs) (r := (readEvent st evs).1)
        (st' := (readEvent st evs).2.1) (evs' := (readEvent st evs).2.2) rfl hne
      omega
    generalize (readEvent st evs).1 = r at *
    generalize (readEvent st evs).2.1 = st' at *
    generalize (readEvent st evs).2.2 = evs' at *
    unfold pduStep
    cases r with
    | err => rfl
    | panic => rfl
    | ok ev =>
      cases ev <;> first
        | rfl
        | exact ih _ _ _ (hle (by simp))

/-- ... nor `read_frame` -/
theorem readFrame_invisible : ∀ (n : Nat) (st : RState) (evs : List XmlEv) (acc : List (Nat × Bytes))
    (ext : FrameExt), evs.length < n →
    readFrame st (T evs) acc ext
      = ((readFrame st evs acc ext).1, (readFrame st evs acc ext).2.1,
         T (readFrame st evs acc ext).2.2) := by
  intro n
  induction n with
  | zero =>
    intro st evs acc ext h
    omega
  | succ n ih =>
    intro st evs acc ext h
    have hs := hT st evs
    rw [readFrame_of (r := (readEvent st evs).1) (st' := (readEvent st evs).2.1)
          (evs' := T (readEvent st evs).2.2) hs,
        readFrame_of (st := st) (evs := evs) (r := (readEvent st evs).1)
          (st' := (readEvent st evs).2.1) (evs' := (readEvent st evs).2.2) rfl]
    have hle : (readEvent st evs).1 ≠ .ok .eof → (readEvent st evs).2.2.length < n := by
      intro hne
      have := readEvent_lt (st := st) (evs := evs) (r := (readEvent st evs).1)
        (st' := (readEvent st evs).2.1) (evs' := (readEvent st evs).2.2) rfl hne
      omega
    generalize (readEvent st evs).1 = r at *
    generalize (readEvent st evs).2.1 = st' at *
    generalize (readEvent st evs).2.2 = evs' at *
    unfold frameStep
    cases r with
    | err => rfl
    | panic => rfl
    | ok ev =>
      cases ev <;> first
        | rfl
        | exact ih _ _ _ _ (hle (by simp))

/-- ... nor the file loop -/
theorem readFile_invisible : ∀ (n : Nat) (st : RState) (evs : List XmlEv) (acc : Acc),
    evs.length < n → readFile st (T evs) acc = readFile st evs acc := by
  intro n
  induction n with
  | zero => intro st evs acc h; omega
  | succ n ih =>
    intro st evs acc h
    have hs := hT st evs
    rw [readFile_of (r := (readEvent st evs).1) (st' := (readEvent st evs).2.1)
          (evs' := T (readEvent st evs).2.2) hs,
        readFile_of (st := st) (evs := evs) (r := (readEvent st evs).1)
          (st' := (readEvent st evs).2.1) (evs' := (readEvent st evs).2.2) rfl]
    have hle : (readEvent st evs).1 ≠ .ok .eof → (readEvent st evs).2.2.length < n := by
      intro hne
      have := readEvent_lt (st := st) (evs := evs) (r := (readEvent st evs).1)
        (st' := (readEvent st evs).2.1) (evs' := (readEvent st evs).2.2) rfl hne
      omega
    generalize (readEvent st evs).1 = r at *
    generalize (readEvent st evs).2.1 = st' at *
    generalize (readEvent st evs).2.2 = evs' at *
    unfold fileStep
    cases r with
    | err => rfl
    | panic => rfl
    | ok ev =>
      cases ev with
      | eof => rfl
      | pduStart id =>
        have hl := hle (by simp)
        simp only
        rw [readPdu_invisible hT (evs'.length + 1) st' evs' [] (by omega)]
        have hlen := readPdu_length st' evs' []
        generalize readPdu st' evs' [] = res at *
        obtain ⟨r2, st2, evs2⟩ := res
        cases r2 with
        | ok p => exact ih _ _ _ (by simp only at hlen ⊢; omega)
        | err => rfl
        | panic => rfl
      | frameStart id =>
        have hl := hle (by simp)
        simp only
        rw [readFrame_invisible hT (evs'.length + 1) st' evs' [] {} (by omega)]
        have hlen := readFrame_length st' evs' [] {}
        generalize readFrame st' evs' [] {} = res at *
        obtain ⟨r2, st2, evs2⟩ := res
        cases r2 with
        | ok f => exact ih _ _ _ (by simp only at hlen ⊢; omega)
        | err => rfl
        | panic => rfl
      | _ => exact ih _ _ _ (hle (by simp))

/-- all files -/
theorem readFiles_invisible (files : List (List XmlEv)) (acc : Acc) :
    readFiles (files.map fun evs => some (T evs)) acc
      = readFiles (files.map some) acc := by
  induction files generalizing acc with
  | nil => rfl
  | cons evs files ih =>
    simp only [List.map_cons, readFiles]
    rw [readFile_invisible hT (evs.length + 1) {} evs acc (by omega)]
    cases readFile {} evs acc with
    | ok acc' => exact ih acc'
    | err => rfl
    | panic => rfl

end

theorem significant_invisible : Invisible significant := readEvent_significant

theorem Invisible.comp {T U : List XmlEv → List XmlEv} (hT : Invisible T) (hU : Invisible U) :
    Invisible (T ∘ U) := by
  intro st evs
  simp only [Function.comp_def]
  rw [hT st (U evs), hU st evs]

/-- the file loop cannot tell a file from its significant events -/
theorem readFiles_significant (files : List (List XmlEv)) (acc : Acc) :
    readFiles (files.map fun evs => some (significant evs)) acc = readFiles (files.map some) acc :=
  readFiles_invisible significant_invisible files acc

end Dlt.Fibex
