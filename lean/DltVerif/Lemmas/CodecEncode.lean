/-
  C02, encoding: the writer model produces exactly the Spec's layout for well-formed messages.
-/
import DltVerif.Lemmas.CodecNum
import DltVerif.Lemmas.RoundTripMsg

namespace Dlt
open Dlt.Spec

-- codes ------------------------------------------------------------------------------------------

theorem htyp_weights : ∀ (ext ecu sid tms big : Bool) (v : BitVec 8), v.toNat < 8 →
    BitVec.ofNat 8 ((if ext then 1 else 0) + 2 * (if big then 1 else 0) + 4 * (if ecu then 1 else 0)
        + 8 * (if sid then 1 else 0) + 16 * (if tms then 1 else 0) + 32 * v.toNat)
      = standardHeaderType ext (if big then Endian.big else Endian.little) ecu sid tms v := by
  decide +kernel

theorem msin_weights_log : ∀ (n : BitVec 8) (vb : Bool),
    BitVec.ofNat 8 (msinByte vb (.log (.invalid n)))
      = (MessageType.log (.invalid n)).toU8 ||| (if vb then 1#8 else 0#8) := by
  decide +kernel

theorem msin_weights_app : ∀ (n : BitVec 8) (vb : Bool), n.toNat ≤ 15 →
    BitVec.ofNat 8 (msinByte vb (.applicationTrace (.invalid n)))
      = (MessageType.applicationTrace (.invalid n)).toU8 ||| (if vb then 1#8 else 0#8) := by
  decide +kernel

theorem msin_weights_nw : ∀ (n : BitVec 8) (vb : Bool), n.toNat ≤ 15 →
    BitVec.ofNat 8 (msinByte vb (.networkTrace (.userDefined n)))
      = (MessageType.networkTrace (.userDefined n)).toU8 ||| (if vb then 1#8 else 0#8) := by
  decide +kernel

theorem msin_weights_ctrl : ∀ (n : BitVec 8) (vb : Bool), n.toNat ≤ 15 →
    BitVec.ofNat 8 (msinByte vb (.control (.unknown n)))
      = (MessageType.control (.unknown n)).toU8 ||| (if vb then 1#8 else 0#8) := by
  decide +kernel

theorem msin_weights_unknown : ∀ (mstp : BitVec 8) (vb : Bool), (4 ≤ mstp.toNat ∧ mstp.toNat ≤ 7) →
    ∀ (mtin : BitVec 8), mtin.toNat ≤ 15 →
    BitVec.ofNat 8 (msinByte vb (.unknown mstp mtin))
      = (MessageType.unknown mstp mtin).toU8 ||| (if vb then 1#8 else 0#8) := by
  decide +kernel

theorem msinByte_eq (mt : MessageType) (h : mt.canonical = true) (vb : Bool) :
    BitVec.ofNat 8 (msinByte vb mt) = mt.toU8 ||| (if vb then 1#8 else 0#8) := by
  cases mt with
  | log l =>
    cases l with
    | invalid n => exact msin_weights_log n vb
    | _ => cases vb <;> decide
  | applicationTrace t =>
    cases t with
    | invalid n =>
      simp only [MessageType.canonical, decide_eq_true_eq] at h
      exact msin_weights_app n vb (by omega)
    | _ => cases vb <;> decide
  | networkTrace t =>
    cases t with
    | userDefined n =>
      simp only [MessageType.canonical, decide_eq_true_eq] at h
      exact msin_weights_nw n vb (by omega)
    | _ => cases vb <;> decide
  | control t =>
    cases t with
    | unknown n =>
      simp only [MessageType.canonical, decide_eq_true_eq] at h
      exact msin_weights_ctrl n vb (by omega)
    | _ => cases vb <;> decide
  | unknown mstp mtin =>
    simp only [MessageType.canonical, decide_eq_true_eq] at h
    exact msin_weights_unknown mstp vb ⟨h.1, h.2.1⟩ mtin h.2.2

theorem tiWord_eq (t : TypeInfo) (hc : t.coding.canonical = true) : tiWord t = t.toU32.toNat := by
  rcases t with ⟨kind, coding, vari, trai⟩
  cases coding with
  | ascii => cases vari <;> cases trai <;> cases kind <;> (try rename_i l; cases l) <;> decide
  | utf8 => cases vari <;> cases trai <;> cases kind <;> (try rename_i l; cases l) <;> decide
  | reserved v =>
    simp only [StringCoding.canonical, decide_eq_true_eq] at hc
    have : v = 2#8 ∨ v = 3#8 ∨ v = 4#8 ∨ v = 5#8 ∨ v = 6#8 ∨ v = 7#8 := by
      have hv : v = BitVec.ofNat 8 v.toNat := by simp
      have : v.toNat = 2 ∨ v.toNat = 3 ∨ v.toNat = 4 ∨ v.toNat = 5 ∨ v.toNat = 6 ∨ v.toNat = 7 := by
        omega
      rcases this with h | h | h | h | h | h <;> rw [hv, h] <;> simp
    rcases this with h | h | h | h | h | h <;> subst h <;>
      cases vari <;> cases trai <;> cases kind <;> (try rename_i l; cases l) <;> decide

-- arguments ----------------------------------------------------------------------------------------

theorem lenOf_eq (e : Endian) (s : Bytes) (h : s.length + 1 ≤ 65535) :
    lenOf e s = e.bytes 2 (lenPlus1 s.length) := by
  unfold lenOf
  rw [digits_eq, lenPlus1_eq h]

theorem textOk_len {s : Bytes} (h : textOk s = true) : s.length + 1 ≤ 65535 := (textOk_inv h).2.2

theorem asU16_of_le {n : Nat} (h : n ≤ 65535) : asU16 n = n := by
  unfold asU16; omega

theorem bytes_one (e : Endian) (v : BitVec 8) : e.bytes 1 v.toNat = [v] := by
  cases e <;> simp [Endian.bytes, bytesBE, bytesLE]

/-- the writer's bytes of a well-formed argument are the Spec's layout -/
theorem layoutArgument_eq (e : Endian) (a : Argument) (h : a.wf = true) :
    a.asBytes e = layoutArgument e a := by
  obtain ⟨⟨kind, coding, vari, trai⟩, name, unit, fp, value⟩ := a
  simp only [Argument.wf, Bool.and_eq_true] at h
  obtain ⟨hc, h⟩ := h
  have hti : ∀ k, TypeInfo.asBytes e ⟨k, coding, vari, trai⟩ = digits e 4 (tiWord ⟨k, coding, vari, trai⟩) := by
    intro k
    rw [digits_eq, tiWord_eq _ hc]; rfl
  split at h
  case h_20 => exact absurd h (by simp)
  case h_1 =>
    simp only [Bool.and_eq_true] at h
    obtain ⟨h1, _⟩ := h
    rcases name with _ | n
    · simp [Argument.asBytes, layoutArgument, bufTypeInfoName, hti]
    · have hn := textOk_len (by simpa [optText] using h1 : vari = true ∧ textOk n = true).2
      simp [Argument.asBytes, layoutArgument, bufTypeInfoName, hti, lenOf_eq e n hn]
  case h_18 s =>
    simp only [Bool.and_eq_true] at h
    obtain ⟨⟨hn, _⟩, hs⟩ := h
    have hsl := textOk_len hs
    cases vari <;> rcases name with _ | n <;> simp [optText] at hn
    · simp [Argument.asBytes, layoutArgument, hti, lenOf_eq e s hsl]
    · have hnl := textOk_len hn
      simp [Argument.asBytes, layoutArgument, hti, lenOf_eq e s hsl, lenOf_eq e n hnl]
  case h_19 b =>
    simp only [Bool.and_eq_true, decide_eq_true_eq] at h
    obtain ⟨⟨hn, _⟩, hb⟩ := h
    cases vari <;> rcases name with _ | n <;> simp [optText] at hn
    · simp [Argument.asBytes, layoutArgument, hti, digits_eq, asU16_of_le hb]
    · have hnl := textOk_len hn
      simp [Argument.asBytes, layoutArgument, hti, digits_eq, asU16_of_le hb, lenOf_eq e n hnl]
  all_goals
    simp only [Bool.and_eq_true] at h
    obtain ⟨h1, h2⟩ := h
    cases vari <;> rcases name with _ | n <;> rcases unit with _ | u <;>
      simp [optText] at h1 h2
    · simp [Argument.asBytes, layoutArgument, bufTypeInfoNameUnit, hti, digits_eq,
        putSignedValue, putUnsignedValue, putFloatValue, bytes_one]
    · have hnl := textOk_len h1
      have hul := textOk_len h2
      simp [Argument.asBytes, layoutArgument, bufTypeInfoNameUnit, hti, digits_eq,
        putSignedValue, putUnsignedValue, putFloatValue, lenOf_eq e n hnl, lenOf_eq e u hul, bytes_one]

-- payload and message --------------------------------------------------------------------------------

theorem layoutPayload_eq (e : Endian) (p : PayloadContent) (eh : Option ExtendedHeader)
    (h : payloadConsistent p eh = true) : p.asBytes e = layoutPayload e p := by
  cases p with
  | verbose args =>
    have hall : args.all Argument.wf = true := by
      cases eh with
      | none => simp [payloadConsistent] at h
      | some x => simp only [payloadConsistent, Bool.and_eq_true] at h; exact h.2
    simp only [PayloadContent.asBytes, layoutPayload]
    congr 1
    apply List.map_congr_left
    intro a ha
    exact layoutArgument_eq e a (List.all_eq_true.mp hall a ha)
  | nonVerbose id data => simp [PayloadContent.asBytes, layoutPayload, digits_eq]
  | controlMsg t data =>
    simp only [PayloadContent.asBytes, layoutPayload]
    cases t <;> rfl
  | networkTrace slices =>
    have hall : slices.all (fun s => decide (s.length ≤ 65535)) = true := by
      cases eh with
      | none => simp [payloadConsistent] at h
      | some x => simp only [payloadConsistent, Bool.and_eq_true] at h; exact h.2
    simp only [PayloadContent.asBytes, layoutPayload]
    congr 1
    apply List.map_congr_left
    intro s hs
    have hle : s.length ≤ 65535 := by simpa using List.all_eq_true.mp hall s hs
    have hraw : TYPE_INFO_RAW_FLAG.toNat = 1024 := by decide
    simp only [digits_eq, asU16_of_le hle, hraw]

theorem length_idField (s : Bytes) (h : s.length ≤ 4) : (idField s).length = 4 := by
  unfold idField; simp; omega

theorem htyp_eq (h : StandardHeader) (hv : h.version.toNat < 8) :
    BitVec.ofNat 8 (htypOf h) = h.headerTypeByte := by
  have := htyp_weights h.hasExtendedHeader h.ecuId.isSome h.sessionId.isSome h.timestamp.isSome
    (h.endianness == .big) h.version hv
  unfold StandardHeader.headerTypeByte htypOf
  cases he : h.endianness <;> simp only [he] at this ⊢ <;> exact this

theorem layoutStorage_eq (sh : Option StorageHeader) : layoutStorage sh = shBytes sh := by
  cases sh with
  | none => rfl
  | some sh => simp [layoutStorage, shBytes, StorageHeader.asBytes, DLT_PATTERN, digitsLE_eq, idField,
      putZeroTerminatedString]

theorem layoutExtended_eq (eh : Option ExtendedHeader) (h : ∀ x, eh = some x → x.wf = true) :
    layoutExtended eh = ehBytes eh := by
  cases eh with
  | none => rfl
  | some x =>
    have hw := h x rfl
    simp only [ExtendedHeader.wf, Bool.and_eq_true] at hw
    simp [layoutExtended, ehBytes, ExtendedHeader.asBytes, ExtendedHeader.msin,
      msinByte_eq x.messageType hw.2 x.verbose, idField, putZeroTerminatedString]

theorem stdHeader_asBytes_eq (h : StandardHeader) :
    h.asBytes = [h.headerTypeByte, h.messageCounter] ++ bytesBE 2 h.overallLength ++ layoutOptional h := by
  obtain ⟨ver, e, hasExt, mcnt, ecu, sid, tms, pl⟩ := h
  cases ecu <;> cases sid <;> cases tms <;>
    simp [StandardHeader.asBytes, layoutOptional, digitsLE_eq, bytesBE, idField, putZeroTerminatedString]

/-- the writer's bytes of a well-formed message are the Spec's layout -/
theorem layout_eq (m : Message) (h : m.wf = true) : m.asBytes = layout m := by
  obtain ⟨hsh, hver, hid, hext, hehwf, hpc, hpl, htot⟩ := Message.wf_elim m h
  have hpay := layoutPayload_eq m.header.endianness m.payload m.extendedHeader hpc
  have hbody := Message.wf_body_length m h
  rw [Message.asBytes_eq, stdHeader_asBytes_eq]
  unfold layout
  simp only [← hpay, layoutStorage_eq, layoutExtended_eq m.extendedHeader hehwf, htyp_eq m.header hver]
  -- the length field
  have hlen : 4 + (layoutOptional m.header).length + (ehBytes m.extendedHeader).length
      + (m.payload.asBytes m.header.endianness).length = m.header.overallLength := by
    rw [stdHeader_asBytes_eq] at hbody
    simp only [List.length_append, List.length_cons, List.length_nil, bytesBE, List.length_reverse,
      length_bytesLE] at hbody
    unfold StandardHeader.overallLength asU16
    omega
  rw [hlen]
  simp only [digitsLE_eq, bytesBE, List.append_assoc]

end Dlt
