/-
  The `read_exact` loops meet their contract for every schedule; the reader loop refines
  the Spec's cut-and-parse.
-/
import DltVerif.Model.Reader
import DltVerif.Spec.Reader
import DltVerif.Lemmas.Basic
import DltVerif.Lemmas.RoundTripMsg

namespace Dlt

/-- contract of a `read_exact`: with `n` bytes left (buffered or in the source) it returns
    exactly the next `n` bytes and leaves the rest; otherwise it reports end of file and the
    stream is exhausted — whatever the schedule -/
def ExactContract (rx : Src → Nat → Src × Exact) : Prop :=
  ∀ (s : Src) (n : Nat),
    (n ≤ (s.buf ++ s.data).length →
      ∃ s', rx s n = (s', .ok ((s.buf ++ s.data).take n)) ∧ s'.buf ++ s'.data = (s.buf ++ s.data).drop n)
    ∧ ((s.buf ++ s.data).length < n →
      ∃ s', rx s n = (s', .eof) ∧ s'.buf ++ s'.data = [])

/-! ### one `read` of the buffered source -/

/-- a `read` that returns bytes takes them from the front of what is left (buffer, then
    source), at most `want` of them, and returns none only at the end of the data -/
theorem Src.read_bytes (s s' : Src) (want : Nat) (b : Bytes) (hw : want ≠ 0)
    (h : s.read want = (s', .bytes b)) :
    b ++ (s'.buf ++ s'.data) = s.buf ++ s.data ∧ b.length ≤ want ∧
      (b = [] → s.buf ++ s.data = []) := by
  unfold Src.read at h
  split at h
  · rename_i hb
    simp only [Prod.mk.injEq, ReadOut.bytes.injEq] at h
    obtain ⟨rfl, rfl⟩ := h
    refine ⟨?_, ?_, ?_⟩
    · simp only [← List.append_assoc, List.take_append_drop]
    · rw [List.length_take]; omega
    · intro h0
      rcases List.take_eq_nil_iff.1 h0 with h1 | h1
      · exact absurd h1 hw
      · exact absurd h1 hb
  · rename_i hb
    have hb : s.buf = [] := by simpa using hb
    split at h
    · simp only [Prod.mk.injEq, ReadOut.bytes.injEq] at h
      obtain ⟨rfl, rfl⟩ := h
      refine ⟨?_, ?_, ?_⟩
      · simp only [hb, List.append_nil, List.nil_append, List.take_append_drop]
      · rw [List.length_take]; omega
      · intro h0
        rcases List.take_eq_nil_iff.1 h0 with h1 | h1
        · exact absurd h1 hw
        · simp [hb, h1]
    · simp at h
    · rename_i k rest hs
      simp only [Prod.mk.injEq, ReadOut.bytes.injEq] at h
      obtain ⟨rfl, rfl⟩ := h
      refine ⟨?_, ?_, ?_⟩
      · simp only [hb, List.nil_append, ← List.append_assoc, List.take_append_drop]
      · rw [List.length_take]; omega
      · intro h0
        rcases List.take_eq_nil_iff.1 h0 with h1 | h1
        · exact absurd h1 hw
        · rcases List.take_eq_nil_iff.1 h1 with h2 | h2
          · omega
          · simp [hb, h2]

/-- an interrupted read loses nothing -/
theorem Src.read_stall (s s' : Src) (want : Nat)
    (h : s.read want = (s', .stall)) : s'.buf ++ s'.data = s.buf ++ s.data := by
  unfold Src.read at h
  split at h
  · simp at h
  · split at h
    · simp at h
    · simp only [Prod.mk.injEq] at h
      obtain ⟨rfl, _⟩ := h
      rfl
    · simp at h

/-! ### blocking `read_exact` -/

/-- one unfolding of the loop, with a plain `match` -/
theorem readExactLoop_eq (s : Src) (acc : Bytes) (want : Nat) :
    readExactLoop s acc want =
      if want = 0 then (s, .ok acc)
      else
        match s.read want with
        | (s', .stall) => readExactLoop s' acc want
        | (s', .bytes b) =>
          if b = [] then (s', .eof) else readExactLoop s' (acc ++ b) (want - b.length) := by
  rw [readExactLoop]
  split
  · rfl
  · split <;> simp_all

theorem take_append_ge {α : Type} (b r : List α) (n : Nat) (h : b.length ≤ n) :
    (b ++ r).take n = b ++ r.take (n - b.length) := by
  rw [List.take_append, List.take_of_length_le h]

theorem drop_append_ge {α : Type} (b r : List α) (n : Nat) (h : b.length ≤ n) :
    (b ++ r).drop n = r.drop (n - b.length) := by
  rw [List.drop_append, List.drop_of_length_le h, List.nil_append]

theorem Src.read_measure (s s' : Src) (want : Nat) (hw : want ≠ 0) (o : ReadOut)
    (h : s.read want = (s', o)) (ho : o ≠ .bytes []) : s'.measure < s.measure := by
  have := Src.read_progress s want hw
  rw [h] at this
  rcases this with h1 | ⟨s'', h2⟩
  · exact h1
  · simp only [Prod.mk.injEq] at h2
    exact absurd h2.2 ho

/-- the loop invariant in closed form: with `want` bytes left the loop returns `acc` plus the
    next `want` bytes; otherwise end of file with the stream exhausted -/
theorem readExactLoop_spec (n : Nat) : ∀ (s : Src) (acc : Bytes) (want : Nat), s.measure = n →
    (want ≤ (s.buf ++ s.data).length →
      ∃ s', readExactLoop s acc want = (s', .ok (acc ++ (s.buf ++ s.data).take want)) ∧
        s'.buf ++ s'.data = (s.buf ++ s.data).drop want) ∧
    ((s.buf ++ s.data).length < want →
      ∃ s', readExactLoop s acc want = (s', .eof) ∧ s'.buf ++ s'.data = []) := by
  induction n using Nat.strongRecOn with
  | _ n ih =>
    intro s acc want hn
    rw [readExactLoop_eq]
    by_cases hw : want = 0
    · subst hw
      simp only [if_true, List.take_zero, List.append_nil, List.drop_zero]
      exact ⟨fun _ => ⟨s, rfl, rfl⟩, fun h => absurd h (by omega)⟩
    · rw [if_neg hw]
      cases hr : s.read want with
      | mk s' o =>
        cases o with
        | stall =>
          simp only []
          have hm := Src.read_measure s s' want hw _ hr (by simp)
          have hb := Src.read_stall s s' want hr
          have := ih s'.measure (by omega) s' acc want rfl
          rw [hb] at this
          exact this
        | bytes b =>
          simp only []
          obtain ⟨h1, h2, h3⟩ := Src.read_bytes s s' want b hw hr
          by_cases hb : b = []
          · rw [if_pos hb]
            have h0 := h3 hb
            subst hb
            simp only [List.nil_append] at h1
            constructor
            · intro hle; rw [h0] at hle; simp at hle; exact absurd hle hw
            · intro _; exact ⟨s', rfl, by rw [h1, h0]⟩
          · rw [if_neg hb]
            have hm := Src.read_measure s s' want hw _ hr (by simp [hb])
            have := ih s'.measure (by omega) s' (acc ++ b) (want - b.length) rfl
            rw [← h1]
            obtain ⟨t1, t2⟩ := this
            constructor
            · intro hle
              rw [List.length_append] at hle
              obtain ⟨s'', e1, e2⟩ := t1 (by omega)
              refine ⟨s'', ?_, ?_⟩
              · rw [e1, take_append_ge _ _ _ h2, List.append_assoc]
              · rw [e2, drop_append_ge _ _ _ h2]
            · intro hlt
              rw [List.length_append] at hlt
              exact t2 (by omega)

/-- blocking: the retry loop over short and interrupted reads -/
theorem readExact_contract : ExactContract readExact := by
  intro s n
  have := readExactLoop_spec s.measure s [] n rfl
  simpa [readExact] using this

/-! ### asynchronous `read_exact` -/

/-- closed form of a `read_exact` on the bytes `bs` left: outcome and bytes left afterwards -/
def exactResult (acc : Bytes) (want : Nat) (bs : Bytes) : Exact × Bytes :=
  if want ≤ bs.length then (.ok (acc ++ bs.take want), bs.drop want) else (.eof, [])

/-- copying `b` from the front of the stream into `acc` does not change the closed form -/
theorem exactResult_consume (acc b bs' : Bytes) (want : Nat) (h : b.length ≤ want) :
    exactResult (acc ++ b) (want - b.length) bs' = exactResult acc want (b ++ bs') := by
  unfold exactResult
  rw [List.length_append]
  by_cases hle : want ≤ b.length + bs'.length
  · rw [if_pos hle, if_pos (by omega), take_append_ge _ _ _ h, drop_append_ge _ _ _ h,
      List.append_assoc]
  · rw [if_neg hle, if_neg (by omega)]

/-- one unfolding of the poll loop, with a plain `match` -/
theorem ReadExactFut.poll_eq (fut : ReadExactFut) (s : Src) :
    fut.poll s =
      if fut.want = 0 then (s, fut, .ready (.ok fut.acc))
      else
        match s.read fut.want with
        | (s', .stall) => (s', fut, .pending)
        | (s', .bytes b) =>
          if b = [] then (s', fut, .ready .eof)
          else ReadExactFut.poll { acc := fut.acc ++ b, want := fut.want - b.length } s' := by
  rw [ReadExactFut.poll]
  split
  · rfl
  · split <;> simp_all

/-- a poll is `Ready` with the closed form, or `Pending` having used up a schedule step and
    kept the closed form of what is still to do -/
theorem ReadExactFut.poll_spec (n : Nat) : ∀ (s : Src) (fut : ReadExactFut), s.measure = n →
    (∃ s' fut' r, fut.poll s = (s', fut', .ready r) ∧
      (r, s'.buf ++ s'.data) = exactResult fut.acc fut.want (s.buf ++ s.data)) ∨
    (∃ s' fut', fut.poll s = (s', fut', .pending) ∧ s'.sched.length < s.sched.length ∧
      exactResult fut'.acc fut'.want (s'.buf ++ s'.data)
        = exactResult fut.acc fut.want (s.buf ++ s.data)) := by
  induction n using Nat.strongRecOn with
  | _ n ih =>
    intro s fut hn
    rw [ReadExactFut.poll_eq]
    by_cases hw : fut.want = 0
    · rw [if_pos hw]
      left
      refine ⟨s, fut, _, rfl, ?_⟩
      simp [exactResult, hw]
    · rw [if_neg hw]
      cases hr : s.read fut.want with
      | mk s' o =>
        cases o with
        | stall =>
          simp only []
          right
          refine ⟨s', fut, rfl, Src.read_stall_sched s _ s' hr, ?_⟩
          rw [Src.read_stall s s' _ hr]
        | bytes b =>
          simp only []
          obtain ⟨h1, h2, h3⟩ := Src.read_bytes s s' fut.want b hw hr
          by_cases hb : b = []
          · rw [if_pos hb]
            left
            refine ⟨s', fut, _, rfl, ?_⟩
            have h0 := h3 hb
            subst hb
            simp only [List.nil_append] at h1
            rw [h1, h0, exactResult, if_neg (by simp; omega)]
          · rw [if_neg hb]
            have hm := Src.read_measure s s' fut.want hw _ hr (by simp [hb])
            have hs : s'.sched.length ≤ s.sched.length := by
              have := Src.read_sched_le s fut.want
              rw [hr] at this
              exact this
            have hc := exactResult_consume fut.acc b (s'.buf ++ s'.data) fut.want h2
            rw [h1] at hc
            rcases ih s'.measure (by omega) s' { acc := fut.acc ++ b, want := fut.want - b.length } rfl
              with ⟨s'', fut'', r, e1, e2⟩ | ⟨s'', fut'', e1, e2, e3⟩
            · left
              exact ⟨s'', fut'', r, e1, e2.trans hc⟩
            · right
              exact ⟨s'', fut'', e1, by omega, e3.trans hc⟩

/-- with more fuel than schedule steps the executor ends with the closed form -/
theorem blockOnReadExact_spec (fuel : Nat) : ∀ (fut : ReadExactFut) (s : Src),
    s.sched.length < fuel →
    ∃ s' r, blockOnReadExact fuel fut s = (s', r) ∧
      (r, s'.buf ++ s'.data) = exactResult fut.acc fut.want (s.buf ++ s.data) := by
  induction fuel with
  | zero => intro fut s h; omega
  | succ fuel ih =>
    intro fut s h
    rw [blockOnReadExact]
    rcases ReadExactFut.poll_spec s.measure s fut rfl
      with ⟨s', fut', r, e1, e2⟩ | ⟨s', fut', e1, e2, e3⟩
    · rw [e1]
      exact ⟨s', r, rfl, e2⟩
    · rw [e1]
      simp only []
      obtain ⟨s'', r, f1, f2⟩ := ih fut' s' (by omega)
      exact ⟨s'', r, f1, f2.trans e3⟩

/-- asynchronous: the poll loop re-polled by the executor after every `Pending` -/
theorem readExactAsync_contract : ExactContract readExactAsync := by
  intro s n
  obtain ⟨s', r, h1, h2⟩ := blockOnReadExact_spec (s.sched.length + 1) { acc := [], want := n } s
    (by omega)
  unfold readExactAsync
  rw [h1]
  unfold exactResult at h2
  simp only [List.nil_append] at h2
  constructor
  · intro hle
    rw [if_pos hle] at h2
    simp only [Prod.mk.injEq] at h2
    exact ⟨s', by rw [h2.1], h2.2⟩
  · intro hlt
    rw [if_neg (by omega)] at h2
    simp only [Prod.mk.injEq] at h2
    exact ⟨s', by rw [h2.1], h2.2⟩

/-! ### the LEN field -/

theorem declaredLen_lt (x : Bytes) : Spec.declaredLen x < 65536 := by
  match x with
  | [] | [_] | [_, _] | [_, _, _] => simp [Spec.declaredLen]
  | _ :: _ :: hi :: lo :: _ =>
    simp only [Spec.declaredLen]
    have := hi.isLt
    have := lo.isLt
    omega

theorem declaredLen_append (x r : Bytes) (h : 4 ≤ x.length) :
    Spec.declaredLen (x ++ r) = Spec.declaredLen x := by
  match x, h with
  | _ :: _ :: hi :: lo :: _, _ => rfl

theorem declaredLen_take (x : Bytes) (k : Nat) (h : 4 ≤ k) :
    Spec.declaredLen (x.take k) = Spec.declaredLen x := by
  obtain ⟨j, rfl⟩ : ∃ j, k = j + 4 := ⟨k - 4, by omega⟩
  match x with
  | [] | [_] | [_, _] | [_, _, _] => simp [Spec.declaredLen]
  | _ :: _ :: hi :: lo :: _ => rfl

theorem parseLength_take4 (x : Bytes) (h : 4 ≤ x.length) :
    parseLength (x.take 4) = .ok (Spec.declaredLen x) [] := by
  match x, h with
  | a :: b :: hi :: lo :: t, _ =>
    simp [parseLength, take, uintN, Endian.value, fromBE, fromLE, Spec.declaredLen]
    omega

/-! ### the Spec's cut -/

theorem cutFuel_succ (w : Bool) (fuel : Nat) (bs : Bytes) :
    Spec.cutFuel w (fuel + 1) bs =
      if bs.length < (if w then 16 else 0) + 4 then []
      else if Spec.declaredLen (bs.drop (if w then 16 else 0)) < 4 then
        .badLen :: Spec.cutFuel w fuel (bs.drop ((if w then 16 else 0) + 4))
      else if bs.length < (if w then 16 else 0) + Spec.declaredLen (bs.drop (if w then 16 else 0)) then
        [.truncated]
      else
        .msg (bs.take ((if w then 16 else 0) + Spec.declaredLen (bs.drop (if w then 16 else 0))))
          :: Spec.cutFuel w fuel
              (bs.drop ((if w then 16 else 0) + Spec.declaredLen (bs.drop (if w then 16 else 0)))) :=
  rfl

/-- every piece is at least 4 bytes long, so any fuel above the length is enough -/
theorem cutFuel_fuel_irrelevant (w : Bool) : ∀ (f1 f2 : Nat) (bs : Bytes),
    bs.length < f1 → bs.length < f2 → Spec.cutFuel w f1 bs = Spec.cutFuel w f2 bs := by
  intro f1
  induction f1 with
  | zero => intro f2 bs h; omega
  | succ f1 ih =>
    intro f2 bs h1 h2
    cases f2 with
    | zero => omega
    | succ f2 =>
      rw [cutFuel_succ, cutFuel_succ]
      generalize (if w = true then 16 else 0) = sl
      by_cases c1 : bs.length < sl + 4
      · rw [if_pos c1, if_pos c1]
      · rw [if_neg c1, if_neg c1]
        by_cases c2 : Spec.declaredLen (bs.drop sl) < 4
        · rw [if_pos c2, if_pos c2, ih f2 (bs.drop (sl + 4)) (by rw [List.length_drop]; omega)
            (by rw [List.length_drop]; omega)]
        · rw [if_neg c2, if_neg c2]
          by_cases c3 : bs.length < sl + Spec.declaredLen (bs.drop sl)
          · rw [if_pos c3, if_pos c3]
          · rw [if_neg c3, if_neg c3, ih f2 _ (by rw [List.length_drop]; omega)
              (by rw [List.length_drop]; omega)]

theorem cut_eq_cutFuel (w : Bool) (fuel : Nat) (bs : Bytes) (h : bs.length < fuel) :
    Spec.cut w bs = Spec.cutFuel w fuel bs :=
  cutFuel_fuel_irrelevant w _ _ bs (by omega) h

/-! ### `next_message_slice` over a `read_exact` that meets the contract -/

/-- fewer bytes left than a header: end of stream -/
theorem nextMessageSliceWith_short (rx : Src → Nat → Src × Exact) (hrx : ExactContract rx)
    (w : Bool) (s : Src) (h : (s.buf ++ s.data).length < (if w then 16 else 0) + 4) :
    ∃ s', nextMessageSliceWith rx w s = (s', .empty) := by
  obtain ⟨s1, e1, _⟩ := (hrx s ((if w then 16 else 0) + 4)).2 h
  unfold nextMessageSliceWith
  simp only [STORAGE_HEADER_LENGTH, HEADER_MIN_LENGTH]
  rw [e1]
  exact ⟨s1, rfl⟩

/-- a header is left: it is consumed, LEN is read from it, and the body is read -/
theorem nextMessageSliceWith_header (rx : Src → Nat → Src × Exact) (hrx : ExactContract rx)
    (w : Bool) (s : Src) (sl : Nat) (hsl : sl = if w then 16 else 0)
    (h : sl + 4 ≤ (s.buf ++ s.data).length) :
    ∃ s1, s1.buf ++ s1.data = (s.buf ++ s.data).drop (sl + 4) ∧
      nextMessageSliceWith rx w s =
        if Spec.declaredLen ((s.buf ++ s.data).drop sl) < 4 then (s1, .hickup)
        else
          match rx s1 (Spec.declaredLen ((s.buf ++ s.data).drop sl) - 4) with
          | (s2, .eof) => (s2, .ioError)
          | (s2, .ok body) => (s2, .slice ((s.buf ++ s.data).take (sl + 4) ++ body)) := by
  have hsl16 : sl ≤ 16 := by subst hsl; split <;> omega
  obtain ⟨s1, e1, e2⟩ := (hrx s (sl + 4)).1 h
  refine ⟨s1, e2, ?_⟩
  unfold nextMessageSliceWith
  simp only [STORAGE_HEADER_LENGTH, HEADER_MIN_LENGTH]
  simp only [← hsl]
  rw [e1]
  simp only []
  have hd : List.drop sl (List.take (sl + 4) (s.buf ++ s.data))
      = List.take 4 (List.drop sl (s.buf ++ s.data)) := by
    rw [List.drop_take, Nat.add_sub_cancel_left]
  rw [hd, parseLength_take4 _ (by rw [List.length_drop]; omega)]
  simp only []
  have hlt := declaredLen_lt (List.drop sl (s.buf ++ s.data))
  by_cases c : Spec.declaredLen (List.drop sl (s.buf ++ s.data)) < 4
  · rw [if_pos c, if_pos c]
  · rw [if_neg c, if_neg c]
    have hp : ¬ (sl + Spec.declaredLen (List.drop sl (s.buf ++ s.data)) < sl + 4
        ∨ DEFAULT_MESSAGE_MAX_LEN < sl + Spec.declaredLen (List.drop sl (s.buf ++ s.data))) := by
      unfold DEFAULT_MESSAGE_MAX_LEN STORAGE_HEADER_LENGTH
      omega
    rw [if_neg hp]
    have hn : sl + Spec.declaredLen (List.drop sl (s.buf ++ s.data)) - (sl + 4)
        = Spec.declaredLen (List.drop sl (s.buf ++ s.data)) - 4 := by omega
    rw [hn]
    rcases rx s1 (Spec.declaredLen (List.drop sl (s.buf ++ s.data)) - 4) with ⟨s2, _ | _⟩ <;> rfl

theorem readAllWith_nil (rx : Src → Nat → Src × Exact) (hrx : ExactContract rx) (w : Bool)
    (f : Option ProcessedFilter) (fuel : Nat) (s : Src) (h : s.buf ++ s.data = []) :
    readAllWith rx w f fuel s = [] := by
  cases fuel with
  | zero => rfl
  | succ fuel =>
    obtain ⟨s', e⟩ := nextMessageSliceWith_short rx hrx w s (by rw [h, List.length_nil]; omega)
    simp only [readAllWith, readMessageWith, e]

/-- the reader loop and the Spec's cut run in lockstep -/
theorem readAllWith_cutFuel (rx : Src → Nat → Src × Exact) (hrx : ExactContract rx) (w : Bool)
    (f : Option ProcessedFilter) : ∀ (fuel : Nat) (s : Src), (s.buf ++ s.data).length < fuel →
    readAllWith rx w f fuel s = (Spec.cutFuel w fuel (s.buf ++ s.data)).map (Spec.deliver w f) := by
  intro fuel
  induction fuel with
  | zero => intro s h; omega
  | succ fuel ih =>
    intro s h
    rw [cutFuel_succ]
    generalize hsl : (if w = true then 16 else 0) = sl
    by_cases c1 : (s.buf ++ s.data).length < sl + 4
    · rw [if_pos c1]
      obtain ⟨s', e⟩ := nextMessageSliceWith_short rx hrx w s (by rw [hsl]; exact c1)
      simp only [readAllWith, readMessageWith, e, List.map_nil]
    · rw [if_neg c1]
      obtain ⟨s1, e1, e2⟩ := nextMessageSliceWith_header rx hrx w s sl hsl.symm (by omega)
      by_cases c2 : Spec.declaredLen ((s.buf ++ s.data).drop sl) < 4
      · rw [if_pos c2] at e2 ⊢
        simp only [readAllWith, readMessageWith, e2, List.map_cons, Spec.deliver]
        rw [ih s1 (by rw [e1, List.length_drop]; omega), e1]
      · rw [if_neg c2] at e2 ⊢
        by_cases c3 : (s.buf ++ s.data).length < sl + Spec.declaredLen ((s.buf ++ s.data).drop sl)
        · rw [if_pos c3]
          obtain ⟨s2, f1, f2⟩ := (hrx s1 (Spec.declaredLen ((s.buf ++ s.data).drop sl) - 4)).2
            (by rw [e1, List.length_drop]; omega)
          rw [f1] at e2
          simp only [] at e2
          simp only [readAllWith, readMessageWith, e2, List.map_cons, List.map_nil, Spec.deliver]
          rw [readAllWith_nil rx hrx w f fuel s2 f2]
        · rw [if_neg c3]
          obtain ⟨s2, f1, f2⟩ := (hrx s1 (Spec.declaredLen ((s.buf ++ s.data).drop sl) - 4)).1
            (by rw [e1, List.length_drop]; omega)
          rw [f1] at e2
          simp only [] at e2
          have hslice : List.take (sl + 4) (s.buf ++ s.data)
              ++ List.take (Spec.declaredLen ((s.buf ++ s.data).drop sl) - 4) (s1.buf ++ s1.data)
              = List.take (sl + Spec.declaredLen ((s.buf ++ s.data).drop sl)) (s.buf ++ s.data) := by
            rw [e1, ← List.take_add]
            congr 1
            omega
          have hrest : s2.buf ++ s2.data
              = List.drop (sl + Spec.declaredLen ((s.buf ++ s.data).drop sl)) (s.buf ++ s.data) := by
            rw [f2, e1, List.drop_drop]
            congr 1
            omega
          rw [hslice] at e2
          simp only [readAllWith, readMessageWith, e2, List.map_cons, Spec.deliver]
          have hih := ih s2 (by rw [hrest, List.length_drop]; omega)
          rw [hrest] at hih
          cases hd : dltMessage (List.take (sl + Spec.declaredLen ((s.buf ++ s.data).drop sl))
              (s.buf ++ s.data)) f w with
          | ok v => simp only [hih]
          | error e => simp only [hih]

/-- any `read_exact` that meets the contract makes the reader loop deliver the Spec's
    cut-and-parse of the bytes that were left -/
theorem readAllWith_refines (rx : Src → Nat → Src × Exact) (hrx : ExactContract rx) (w : Bool)
    (f : Option ProcessedFilter) (s : Src) (fuel : Nat) (hf : (s.buf ++ s.data).length < fuel) :
    readAllWith rx w f fuel s = Spec.readStream w f (s.buf ++ s.data) := by
  rw [readAllWith_cutFuel rx hrx w f fuel s hf, Spec.readStream, cut_eq_cutFuel w fuel _ hf]

/-- Spec level: a complete piece at the front is cut off as one message -/
theorem cut_append_piece (w : Bool) (b rest : Bytes)
    (hlen : (if w then 16 else 0) + 4 ≤ b.length)
    (hdecl : b.length = (if w then 16 else 0) + Spec.declaredLen (b.drop (if w then 16 else 0)))
    : Spec.cut w (b ++ rest) = .msg b :: Spec.cut w rest := by
  rw [Spec.cut, cutFuel_succ]
  generalize (if w = true then 16 else 0) = sl at *
  have hd : Spec.declaredLen (List.drop sl (b ++ rest)) = Spec.declaredLen (List.drop sl b) := by
    rw [List.drop_append_of_le_length (by omega),
      declaredLen_append _ _ (by rw [List.length_drop]; omega)]
  rw [hd, ← hdecl, List.length_append, if_neg (by omega), if_neg (by omega), if_neg (by omega),
    List.take_left' rfl, List.drop_left' rfl]
  rw [cut_eq_cutFuel w (b.length + rest.length) rest (by omega)]

/-- Spec level: a strict prefix of a complete piece yields no message: nothing, or the
    truncation error -/
theorem cut_strict_prefix (w : Bool) (b : Bytes) (k : Nat)
    (hlen : (if w then 16 else 0) + 4 ≤ b.length)
    (hdecl : b.length = (if w then 16 else 0) + Spec.declaredLen (b.drop (if w then 16 else 0)))
    (hk : k < b.length) :
    Spec.cut w (b.take k) = [] ∨ Spec.cut w (b.take k) = [.truncated] := by
  rw [Spec.cut, cutFuel_succ]
  generalize (if w = true then 16 else 0) = sl at *
  have hl : (b.take k).length = k := by rw [List.length_take]; omega
  rw [hl]
  by_cases c1 : k < sl + 4
  · left; rw [if_pos c1]
  · right
    have hd : Spec.declaredLen (List.drop sl (b.take k)) = Spec.declaredLen (List.drop sl b) := by
      rw [List.drop_take, declaredLen_take _ _ (by omega)]
    rw [if_neg c1, hd, if_neg (by omega), if_pos (by omega)]

/-- the LEN field of a serialised standard header is its overall length -/
theorem declaredLen_standardHeader (h : StandardHeader) (r : Bytes)
    (hl : h.overallLengthNat ≤ 65535) :
    Spec.declaredLen (h.asBytes ++ r) = h.overallLengthNat := by
  have hb : bytesBE 2 h.overallLength
      = [BitVec.ofNat 8 (h.overallLength / 256), BitVec.ofNat 8 h.overallLength] := rfl
  have ho : h.overallLength = h.overallLengthNat := by
    simp only [StandardHeader.overallLength, asU16]; omega
  rw [StandardHeader.asBytes, hb, ho]
  simp only [List.cons_append, List.nil_append, List.append_assoc, Spec.declaredLen,
    BitVec.toNat_ofNat]
  omega

/-- the serialisation of a well-formed message is a complete piece -/
theorem Message.wf_piece (m : Message) (h : m.wf = true) :
    let s := if m.storageHeader.isSome then 16 else 0
    s + 4 ≤ m.asBytes.length ∧ m.asBytes.length = s + Spec.declaredLen (m.asBytes.drop s) := by
  intro s
  obtain ⟨hsh, _, _, _, _, _, _, hlen⟩ := Message.wf_elim m h
  have hl := Message.wf_length m h
  have h4 : 4 ≤ m.header.overallLengthNat := by
    simp only [StandardHeader.overallLengthNat, HEADER_MIN_LENGTH]; omega
  have hs : (shBytes m.storageHeader).length = s := by
    cases hs : m.storageHeader with
    | none => simp only [s, hs, shBytes, Option.isSome, Bool.false_eq_true, if_false, List.length_nil]
    | some sh =>
      simp only [s, hs, shBytes, Option.isSome, if_true, StorageHeader.length_asBytes sh (hsh sh hs)]
  have hd : Spec.declaredLen (m.asBytes.drop s) = m.header.overallLengthNat := by
    rw [Message.asBytes_eq, List.drop_left' hs, declaredLen_standardHeader _ _ hlen]
  rw [hd]
  exact ⟨by rw [hl]; omega, hl⟩

/-- `Message.wf_piece` with the storage mode named -/
theorem Message.wf_piece_of (m : Message) (w : Bool) (h : m.wf = true)
    (hw : m.storageHeader.isSome = w) :
    (if w then 16 else 0) + 4 ≤ m.asBytes.length ∧
      m.asBytes.length = (if w then 16 else 0) + Spec.declaredLen (m.asBytes.drop (if w then 16 else 0)) := by
  subst hw
  exact Message.wf_piece m h

/-- the piece that is the serialisation of a well-formed message is delivered as that message -/
theorem deliver_asBytes (m : Message) (w : Bool) (h : m.wf = true)
    (hw : m.storageHeader.isSome = w) :
    Spec.deliver w none (.msg m.asBytes) = .parsed (.item m) := by
  subst hw
  have hp := dltMessageIntern_asBytes m h []
  rw [List.append_nil] at hp
  simp only [Spec.deliver, dltMessage, hp, PRes.toResult]

end Dlt
