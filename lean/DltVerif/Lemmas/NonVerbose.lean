/-
  The offset-based `constructArguments` (Model/NonVerbose.lean) refines the
  consumer-style `Spec.construct` (Spec/NonVerbose.lean).
-/
import DltVerif.Model.NonVerbose
import DltVerif.Spec.NonVerbose
import DltVerif.Lemmas.Basic

namespace Dlt

/-- result of the model translated to the spec's vocabulary (`panic` has no counterpart) -/
def CRes.toOption {α : Type} : CRes α → Option (Option α)
  | .ok v => some (some v)
  | .err => some none
  | .panic => none

-- helpers ------------------------------------------------------------------

theorem uintN_of_le (e : Endian) (k : Nat) (i : Bytes) (h : k ≤ i.length) :
    uintN e k i = .ok (e.value (i.take k)) (i.drop k) := by
  have : ¬ i.length < k := by omega
  simp only [uintN, this, if_false]

theorem bitsN_of_le (e : Endian) (k : Nat) (i : Bytes) (h : k ≤ i.length) :
    bitsN e k i = .ok (BitVec.ofNat (8 * k) (e.value (i.take k))) (i.drop k) := by
  simp only [bitsN, uintN_of_le e k i h, PRes.map_ok]

theorem uintN_of_lt (e : Endian) (k : Nat) (i : Bytes) (h : i.length < k) :
    uintN e k i = .incomplete (needed (k - i.length)) := by
  simp only [uintN, h, if_true]

theorem bitsN_of_lt (e : Endian) (k : Nat) (i : Bytes) (h : i.length < k) :
    bitsN e k i = .incomplete (needed (k - i.length)) := by
  simp only [bitsN, uintN_of_lt e k i h, PRes.map_incomplete]

theorem Endian.value_singleton (e : Endian) (b : BitVec 8) : e.value [b] = b.toNat := by
  cases e <;> simp [Endian.value, fromBE, fromLE]

theorem slice_eq (data : Bytes) (off w : Nat) (h : off + w ≤ data.length) :
    slice data off (off + w) = some ((data.drop off).take w) := by
  have : off ≤ off + w ∧ off + w ≤ data.length := ⟨by omega, h⟩
  simp only [slice, this, and_self, if_true, Nat.add_sub_cancel_left]

theorem sliceFrom_eq (data : Bytes) (off : Nat) (h : off ≤ data.length) :
    sliceFrom data off = some (data.drop off) := by
  simp only [sliceFrom, h, if_true]


theorem beU8_drop (data : Bytes) (n : Nat) (h : n < data.length) :
    beU8 (data.drop n) = .ok data[n] (data.drop (n + 1)) := by
  rw [List.drop_eq_getElem_cons h]
  rfl

theorem take_one_drop (data : Bytes) (n : Nat) (h : n < data.length) :
    (data.drop n).take 1 = [data[n]] := by
  rw [List.drop_eq_getElem_cons h]
  rfl

set_option hygiene false in
local macro "num_case " k:num rd:ident : tactic => `(tactic| (
  simp only [constructOne, hk, Spec.field, Spec.fixedWidth, TypeLength.bytes, FloatWidth.bytes]
  by_cases hl : data.length < off + $k
  · have hl' : (data.drop off).length < $k := by omega
    simp only [hl, hl', if_true]
  · have hl' : ¬ (data.drop off).length < $k := by omega
    simp only [hl, hl', if_false, sliceFrom_eq data off h, $rd:ident,
      bitsN_of_le e $k (data.drop off) (by omega), PRes.map_ok, List.drop_drop]
    exact ⟨_, rfl, by omega, by rw [Nat.add_comm]⟩))

set_option hygiene false in
local macro "float_case " k:num : tactic => `(tactic| (
  simp only [constructOne, hk, Spec.field, Spec.fixedWidth, FloatWidth.bytes]
  by_cases hl : data.length < off + $k
  · have hl' : (data.drop off).length < $k := by omega
    simp only [hl, hl', if_true]
  · have hl' : ¬ (data.drop off).length < $k := by omega
    have hs : $k ≤ ((data.drop off).take $k).length := by rw [List.length_take]; omega
    simp only [hl, hl', if_false, slice_eq data off $k (by omega), dltFint,
      bitsN_of_le e $k _ hs, PRes.map_ok, List.drop_drop, List.take_take, Nat.min_self]
    exact ⟨_, rfl, by omega, by rw [Nat.add_comm]⟩))

set_option hygiene false in
local macro "fp_case " k:num j:num : tactic => `(tactic| (
  simp only [constructOne, hk, Spec.field, FloatWidth.bytes]
  by_cases hl : data.length < off + $k
  · simp only [hl, if_true]
  · have hs : 4 ≤ ((data.drop off).take $k).length := by rw [List.length_take]; omega
    have hs2 : (((data.drop off).take $k).drop 4).length < $j := by
      rw [List.length_drop, List.length_take]; omega
    simp only [hl, if_false, slice_eq data off $k (by omega), dltFixedPoint,
      bitsN_of_le e 4 _ hs, PRes.andThen_ok, bitsN_of_lt e $j _ hs2, PRes.map_incomplete]))

/-- one loop iteration at offset `off ≤ data.length` is the spec's field decoder on
    `data.drop off`, and the new offset is where the spec's remainder starts -/
theorem constructOne_refines (e : Endian) (ti : TypeInfo) (data : Bytes) (off : Nat)
    (h : off ≤ data.length) :
    match Spec.field e ti.kind (data.drop off) with
    | none => constructOne e ti data off = .err
    | some (v, rest') =>
      ∃ off', constructOne e ti data off =
          .ok ({ typeInfo := ti, name := none, unit := none, fixedPoint := none, value := v }, off')
        ∧ off' ≤ data.length ∧ rest' = data.drop off' := by
  have hlen : (data.drop off).length = data.length - off := List.length_drop
  cases hk : ti.kind with
  | bool =>
    simp only [constructOne, hk, Spec.field, Spec.fixedWidth]
    by_cases hl : data.length < off + 1
    · have hl' : (data.drop off).length < 1 := by omega
      simp only [hl, hl', if_true]
    · have hl' : ¬ (data.drop off).length < 1 := by omega
      have hlt : off < data.length := by omega
      simp only [hl, hl', if_false, Nat.add_sub_cancel, List.getElem?_eq_getElem hlt,
        take_one_drop data off hlt, List.headD_cons, List.drop_drop]
      exact ⟨off + 1, rfl, by omega, by rw [Nat.add_comm]⟩
  | signed l =>
    cases l
    · simp only [constructOne, hk, Spec.field, Spec.fixedWidth, TypeLength.bytes]
      by_cases hl : data.length < off + 1
      · have hl' : (data.drop off).length < 1 := by omega
        simp only [hl, hl', if_true]
      · have hl' : ¬ (data.drop off).length < 1 := by omega
        have hlt : off < data.length := by omega
        simp only [hl, hl', if_false, sliceFrom_eq data off h, dltSint, beU8_drop data off hlt,
          take_one_drop data off hlt, PRes.map_ok, Endian.value_singleton, BitVec.ofNat_toNat,
          BitVec.setWidth_eq, List.drop_drop]
        exact ⟨off + 1, rfl, by omega, by rw [Nat.add_comm]⟩
    · num_case 2 dltSint
    · num_case 4 dltSint
    · num_case 8 dltSint
    · num_case 16 dltSint
  | unsigned l =>
    cases l
    · simp only [constructOne, hk, Spec.field, Spec.fixedWidth, TypeLength.bytes]
      by_cases hl : data.length < off + 1
      · have hl' : (data.drop off).length < 1 := by omega
        simp only [hl, hl', if_true]
      · have hl' : ¬ (data.drop off).length < 1 := by omega
        have hlt : off < data.length := by omega
        simp only [hl, hl', if_false, sliceFrom_eq data off h, dltUint, beU8_drop data off hlt,
          take_one_drop data off hlt, PRes.map_ok, Endian.value_singleton, BitVec.ofNat_toNat,
          BitVec.setWidth_eq, List.drop_drop]
        exact ⟨off + 1, rfl, by omega, by rw [Nat.add_comm]⟩
    · num_case 2 dltUint
    · num_case 4 dltUint
    · num_case 8 dltUint
    · num_case 16 dltUint
  | float w =>
    cases w
    · float_case 4
    · float_case 8
  | signedFixedPoint w =>
    cases w
    · fp_case 4 4
    · fp_case 8 8
  | unsignedFixedPoint w =>
    cases w
    · fp_case 4 4
    · fp_case 8 8
  | stringType =>
    have hb : (TypeInfoKind.stringType == TypeInfoKind.stringType) = true := by decide
    simp only [constructOne, hk, Spec.field, hb, if_true, List.drop_drop]
    by_cases hl : data.length < off + 2
    · have hl' : (data.drop off).length < 2 := by omega
      simp only [hl, hl', if_true]
    · have hl' : ¬ (data.drop off).length < 2 := by omega
      simp only [hl, hl', if_false, slice_eq data off 2 (by omega)]
      generalize e.value ((data.drop off).take 2) = len
      have hlen2 : (data.drop (off + 2)).length = data.length - (off + 2) := List.length_drop
      by_cases hl2 : data.length < off + 2 + len
      · have hl2' : (data.drop (off + 2)).length < len := by omega
        simp only [hl2, hl2', if_true]
      · have hl2' : ¬ (data.drop (off + 2)).length < len := by omega
        simp only [hl2, hl2', if_false, slice_eq data (off + 2) len (by omega)]
        by_cases hv : Utf8.valid ((data.drop (off + 2)).take len) = true
        · simp only [hv, if_true]
          exact ⟨_, rfl, by omega, rfl⟩
        · simp only [hv]
          rfl
  | raw =>
    have hb : (TypeInfoKind.raw == TypeInfoKind.stringType) = false := by decide
    simp only [constructOne, hk, Spec.field, hb, Bool.false_eq_true, if_false, List.drop_drop]
    by_cases hl : data.length < off + 2
    · have hl' : (data.drop off).length < 2 := by omega
      simp only [hl, hl', if_true]
    · have hl' : ¬ (data.drop off).length < 2 := by omega
      simp only [hl, hl', if_false, slice_eq data off 2 (by omega)]
      generalize e.value ((data.drop off).take 2) = len
      have hlen2 : (data.drop (off + 2)).length = data.length - (off + 2) := List.length_drop
      by_cases hl2 : data.length < off + 2 + len
      · have hl2' : (data.drop (off + 2)).length < len := by omega
        simp only [hl2, hl2', if_true]
      · have hl2' : ¬ (data.drop (off + 2)).length < len := by omega
        simp only [hl2, hl2', if_false, slice_eq data (off + 2) len (by omega)]
        exact ⟨_, rfl, by omega, rfl⟩

theorem constructFrom_refines (e : Endian) (data : Bytes) (tis : List TypeInfo) (off : Nat)
    (h : off ≤ data.length) :
    (constructFrom e data tis off).toOption = some (Spec.construct e tis (data.drop off)) := by
  induction tis generalizing off with
  | nil => rfl
  | cons ti tis ih =>
    have h1 := constructOne_refines e ti data off h
    simp only [constructFrom, Spec.construct]
    cases hf : Spec.field e ti.kind (data.drop off) with
    | none =>
      rw [hf] at h1
      simp only at h1
      rw [h1]
      rfl
    | some p =>
      obtain ⟨v, rest'⟩ := p
      rw [hf] at h1
      obtain ⟨off', h2, h3, h4⟩ := h1
      have h5 := ih off' h3
      rw [h2, h4]
      simp only
      cases hc : constructFrom e data tis off' with
      | ok as =>
        rw [hc] at h5
        simp only [CRes.toOption, Option.some.injEq] at h5
        rw [← h5]
        rfl
      | err =>
        rw [hc] at h5
        simp only [CRes.toOption, Option.some.injEq] at h5
        rw [← h5]
        rfl
      | panic =>
        rw [hc] at h5
        simp [CRes.toOption] at h5

set_option hygiene false in
local macro "fw_append" : tactic => `(tactic| (
  simp only [Spec.field, Spec.fixedWidth] at h ⊢
  split at h
  · cases h
  · rename_i hl
    simp only [Option.some.injEq, Prod.mk.injEq] at h
    obtain ⟨hv, hr⟩ := h
    split
    · rename_i hl2
      rw [List.length_append] at hl2
      omega
    · rw [List.take_append_of_le_length (by omega),
        List.drop_append_of_le_length (by omega), hv, hr]))

/-- appending bytes to a payload on which a field decodes changes nothing but the remainder -/
theorem Spec.field_append (e : Endian) (k : TypeInfoKind) (rest extra : Bytes) (v : Value)
    (rest' : Bytes) (h : Spec.field e k rest = some (v, rest')) :
    Spec.field e k (rest ++ extra) = some (v, rest' ++ extra) := by
  cases k with
  | bool => fw_append
  | signed l => cases l <;> fw_append
  | unsigned l => cases l <;> fw_append
  | float w => cases w <;> fw_append
  | signedFixedPoint w => simp only [Spec.field] at h; cases h
  | unsignedFixedPoint w => simp only [Spec.field] at h; cases h
  | stringType =>
    have hb : (TypeInfoKind.stringType == TypeInfoKind.stringType) = true := by decide
    simp only [Spec.field, hb, if_true] at h ⊢
    split at h
    · cases h
    · rename_i hl
      have hl2 : ¬ (rest ++ extra).length < 2 := by rw [List.length_append]; omega
      have ht : (rest ++ extra).take 2 = rest.take 2 := List.take_append_of_le_length (by omega)
      have hd : (rest ++ extra).drop 2 = rest.drop 2 ++ extra :=
        List.drop_append_of_le_length (by omega)
      rw [if_neg hl2, ht, hd]
      generalize e.value (rest.take 2) = len at h ⊢
      generalize rest.drop 2 = body at h ⊢
      split at h
      · cases h
      · rename_i hl3
        have hl4 : ¬ (body ++ extra).length < len := by rw [List.length_append]; omega
        rw [if_neg hl4, List.take_append_of_le_length (by omega),
          List.drop_append_of_le_length (by omega)]
        split at h
        · rename_i hv
          simp only [Option.some.injEq, Prod.mk.injEq] at h
          rw [if_pos hv, h.1, h.2]
        · cases h
  | raw =>
    have hb : (TypeInfoKind.raw == TypeInfoKind.stringType) = false := by decide
    simp only [Spec.field, hb, Bool.false_eq_true, if_false] at h ⊢
    split at h
    · cases h
    · rename_i hl
      have hl2 : ¬ (rest ++ extra).length < 2 := by rw [List.length_append]; omega
      have ht : (rest ++ extra).take 2 = rest.take 2 := List.take_append_of_le_length (by omega)
      have hd : (rest ++ extra).drop 2 = rest.drop 2 ++ extra :=
        List.drop_append_of_le_length (by omega)
      rw [if_neg hl2, ht, hd]
      generalize e.value (rest.take 2) = len at h ⊢
      generalize rest.drop 2 = body at h ⊢
      split at h
      · cases h
      · rename_i hl3
        have hl4 : ¬ (body ++ extra).length < len := by rw [List.length_append]; omega
        simp only [Option.some.injEq, Prod.mk.injEq] at h
        rw [if_neg hl4, List.take_append_of_le_length (by omega),
          List.drop_append_of_le_length (by omega), h.1, h.2]

end Dlt
