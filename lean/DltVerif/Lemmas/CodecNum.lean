/-
  C02: the Spec's digit sums are the model's byte-order readers / writers.
-/
import DltVerif.Spec.Codec
import DltVerif.Lemmas.Basic

namespace Dlt
open Dlt.Spec

theorem digitsLE_eq (k n : Nat) : digitsLE k n = bytesLE k n := by
  induction k generalizing n with
  | zero => rfl
  | succ k ih =>
    unfold digitsLE at *
    rw [List.range_succ_eq_map, List.map_cons, List.map_map, bytesLE]
    congr 1
    · apply BitVec.eq_of_toNat_eq
      simp
    · rw [← ih (n / 256)]
      apply List.map_congr_left
      intro i _
      simp only [Function.comp, Nat.pow_succ, Nat.div_div_eq_div_mul, Nat.mul_comm]

theorem digits_eq (e : Endian) (k n : Nat) : digits e k n = e.bytes k n := by
  cases e <;> simp [digits, Endian.bytes, bytesBE, digitsLE_eq]

theorem numBE_eq_fromBE (bs : Bytes) : numBE bs = fromBE bs := by
  unfold numBE fromBE
  rw [← List.foldr_reverse]
  generalize bs.reverse = l
  induction l with
  | nil => rfl
  | cons b l ih => simp only [List.foldr_cons, fromLE, ih]; omega

theorem num_eq (e : Endian) (bs : Bytes) : num e bs = e.value bs := by
  cases e
  · simp [num, Endian.value, numBE_eq_fromBE, fromBE]
  · simp [num, Endian.value, numBE_eq_fromBE]

end Dlt
