/-
  Helper lemmas for the property files C04, C05, C06, C09: inversion of the framing
  refinement on successful parses, prefixes of framed messages, independence of the
  storage-header parse of the junk in front of the pattern, and the filter tables.
-/
import DltVerif.Lemmas.FramingStorage
import DltVerif.Lemmas.RoundTripMsg
import DltVerif.Model.Filter

namespace Dlt
open FramingStorage

/-! ### `dltMessage` versus `dltMessageIntern` -/

theorem dltMessage_ok_iff (bs : Bytes) (f : Option ProcessedFilter) (w : Bool)
    (res : ParsedMessage) (rest : Bytes) :
    dltMessage bs f w = .ok (res, rest) ↔ dltMessageIntern bs f w = .ok res rest := by
  unfold dltMessage
  cases dltMessageIntern bs f w with
  | ok v r =>
    simp only [PRes.toResult]
    constructor
    · intro h
      injection h with h
      injection h with h1 h2
      rw [h1, h2]
    · intro h
      injection h with h1 h2
      rw [h1, h2]
  | incomplete n => simp only [PRes.toResult]; constructor <;> (intro h; cases h)
  | error => simp only [PRes.toResult]; constructor <;> (intro h; cases h)
  | failure => simp only [PRes.toResult]; constructor <;> (intro h; cases h)
  | panic => simp only [PRes.toResult]; constructor <;> (intro h; cases h)

theorem dltMessage_of_incomplete {bs : Bytes} {f : Option ProcessedFilter} {w : Bool}
    {hint : Option Nat} (h : dltMessageIntern bs f w = .incomplete hint) :
    dltMessage bs f w = .error (.incomplete hint) := by
  unfold dltMessage
  rw [h]
  rfl

/-! ### inversion of `framing_refines` on a successful parse -/

/-- a successful no-storage parse: the Spec framing is complete and everything
    `framing_refines` says about the result holds -/
theorem framing_of_ok {bs : Bytes} {f : Option ProcessedFilter} {res : ParsedMessage}
    {rest : Bytes} (h : dltMessageIntern bs f false = .ok res rest) :
    ∃ d, Spec.framing bs = .complete d ∧ rest = bs.drop d ∧ res ≠ .invalid
      ∧ (∀ n, res = .filteredOut n → n = d - Spec.allHeadersLen (bs.headD 0#8))
      ∧ (∀ m, res = .item m → m.storageHeader = none) := by
  have hr := framing_refines bs f
  cases hf : Spec.framing bs with
  | incomplete b =>
    rw [hf] at hr
    obtain ⟨hint, hh, _⟩ := hr
    rw [hh] at h
    cases h
  | reject =>
    rw [hf] at hr
    simp only [] at hr
    rw [hr] at h
    cases h
  | complete d =>
    rw [hf] at hr
    simp only [] at hr
    rcases hr with ⟨res', h1, h2, h3, h4⟩ | h1 | h1
    · rw [h1] at h
      injection h with hv hrest
      subst hv hrest
      exact ⟨d, rfl, rfl, h2, h3, h4⟩
    · rw [h1] at h
      cases h
    · rw [h1] at h
      cases h

/-- a successful storage-mode parse: 16 bytes behind the first pattern are present and the
    no-storage parser succeeds on what follows -/
theorem storage_of_ok {bs : Bytes} {f : Option ProcessedFilter} {res : ParsedMessage}
    {rest : Bytes} (h : dltMessageIntern bs f true = .ok res rest) :
    ∃ skip sh res', 16 ≤ bs.length ∧ Spec.firstPattern bs = some skip ∧ 16 ≤ bs.length - skip
      ∧ dltMessageIntern (bs.drop (skip + 16)) f false = .ok res' rest
      ∧ res = res'.withStorage sh := by
  by_cases h16 : bs.length < 16
  · rw [dltMessageIntern_storage_short bs f h16] at h
    cases h
  · have h16' : 16 ≤ bs.length := by omega
    cases hs : Spec.firstPattern bs with
    | none =>
      rw [dltMessageIntern_storage_nopattern bs f h16' hs] at h
      cases h
    | some skip =>
      by_cases hc : bs.length - skip < 16
      · obtain ⟨n, hn, _⟩ := dltMessageIntern_storage_cut bs f skip h16' hs hc
        rw [hn] at h
        cases h
      · obtain ⟨sh, _, he⟩ := dltMessageIntern_storage bs f skip h16' hs (by omega)
        rw [he] at h
        cases hi : dltMessageIntern (bs.drop (skip + 16)) f false with
        | ok res' rest' =>
          rw [hi, PRes.map_ok] at h
          injection h with h1 h2
          subst h1 h2
          exact ⟨skip, sh, res', h16', rfl, by omega, hi, rfl⟩
        | incomplete n => rw [hi] at h; cases h
        | error => rw [hi] at h; cases h
        | failure => rw [hi] at h; cases h
        | panic => rw [hi] at h; cases h

theorem withStorage_ne_invalid (sh : StorageHeader) (r : ParsedMessage) (h : r ≠ .invalid) :
    r.withStorage sh ≠ .invalid := by
  cases r with
  | item m => intro hc; cases hc
  | filteredOut n => intro hc; cases hc
  | invalid => exact absurd rfl h

theorem withStorage_eq_filteredOut (sh : StorageHeader) (r : ParsedMessage) (n : Nat)
    (h : r.withStorage sh = .filteredOut n) : r = .filteredOut n := by
  cases r with
  | item m => cases h
  | filteredOut k => exact h
  | invalid => cases h

/-- the Spec's storage framing in the situation of `storage_of_ok` -/
theorem storageFraming_complete (bs : Bytes) (skip d : Nat) (h16 : 16 ≤ bs.length)
    (hs : Spec.firstPattern bs = some skip) (hc : 16 ≤ bs.length - skip)
    (hf : Spec.framing (bs.drop (skip + 16)) = .complete d) :
    Spec.storageFraming bs = .complete skip d := by
  unfold Spec.storageFraming
  rw [if_neg (by omega), hs]
  simp only []
  rw [if_neg (by omega), hf]

/-- C04 with the quantitative progress bound: at least 4 bytes are consumed -/
theorem consume_aux (bs : Bytes) (f : Option ProcessedFilter) (w : Bool) (res : ParsedMessage)
    (rest : Bytes) (h : dltMessageIntern bs f w = .ok res rest) :
    ∃ skip d,
      (if w then Spec.storageFraming bs = .complete skip d
       else (skip = 0 ∧ Spec.framing bs = .complete d))
      ∧ rest = bs.drop (skip + (if w then 16 else 0) + d)
      ∧ rest.length + 4 ≤ bs.length
      ∧ res ≠ .invalid
      ∧ ∀ n, res = .filteredOut n →
          n = d - Spec.allHeadersLen ((bs.drop (skip + (if w then 16 else 0))).headD 0#8) := by
  cases w with
  | false =>
    obtain ⟨d, hf, hr, hne, hfo, _⟩ := framing_of_ok h
    obtain ⟨hd4, hdl, _⟩ := framing_complete_le bs d hf
    refine ⟨0, d, ?_, ?_, ?_, hne, ?_⟩
    · rw [if_neg (by decide)]
      exact ⟨rfl, hf⟩
    · simp only [Bool.false_eq_true, if_false, Nat.zero_add]
      exact hr
    · rw [hr, List.length_drop]
      omega
    · simp only [Bool.false_eq_true, if_false, Nat.zero_add, List.drop_zero]
      exact hfo
  | true =>
    obtain ⟨skip, sh, res', h16, hs, hc, hi, hres⟩ := storage_of_ok h
    obtain ⟨d, hf, hr, hne, hfo, _⟩ := framing_of_ok hi
    obtain ⟨hd4, hdl, _⟩ := framing_complete_le _ d hf
    rw [List.length_drop] at hdl
    refine ⟨skip, d, ?_, ?_, ?_, ?_, ?_⟩
    · simp only [if_true]
      exact storageFraming_complete bs skip d h16 hs hc hf
    · simp only [if_true]
      rw [hr, List.drop_drop]
    · rw [hr, List.length_drop, List.length_drop]
      omega
    · rw [hres]
      exact withStorage_ne_invalid sh res' hne
    · intro n hn
      simp only [if_true]
      rw [hres] at hn
      exact hfo n (withStorage_eq_filteredOut sh res' n hn)

/-! ### prefixes of a framed message (C05) -/

/-- a successful no-storage parse that consumes everything: the framing is the whole input -/
theorem framing_of_ok_nil {bs : Bytes} {f : Option ProcessedFilter} {res : ParsedMessage}
    (h : dltMessageIntern bs f false = .ok res []) : Spec.framing bs = .complete bs.length := by
  obtain ⟨d, hf, hr, _⟩ := framing_of_ok h
  obtain ⟨_, hdl, _⟩ := framing_complete_le bs d hf
  have hge : bs.length ≤ d := List.drop_eq_nil_iff.1 hr.symm
  have : d = bs.length := by omega
  rw [hf, this]

/-- every proper prefix of a framed message is incomplete for the no-storage parser -/
theorem prefix_nostorage (bs : Bytes) (f : Option ProcessedFilter) (d : Nat)
    (hf : Spec.framing bs = .complete d) (k : Nat) (hk : k < d) :
    ∃ hint, dltMessageIntern (bs.take k) f false = .incomplete hint
      ∧ ∀ n, hint = some n → 1 ≤ n ∧ n ≤ d - k := by
  obtain ⟨b, hb, hbl⟩ := framing_take_of_complete bs d hf k hk
  have hr := framing_refines (bs.take k) f
  rw [hb] at hr
  obtain ⟨hint, hh, hn⟩ := hr
  refine ⟨hint, hh, fun n hn' => ?_⟩
  obtain ⟨h1, h2⟩ := hn n hn'
  exact ⟨h1, by omega⟩

/-- the pattern at the very start is the first occurrence -/
theorem firstPattern_zero (bs : Bytes) (hp : bs.take 4 = DLT_PATTERN) :
    Spec.firstPattern bs = some 0 := by
  rw [firstPattern_some_iff]
  refine ⟨?_, fun k hk => by omega⟩
  rw [List.drop_zero]
  exact hp

/-- every proper prefix of (storage header ++ framed message) is incomplete for the
    storage-mode parser, with a safe hint -/
theorem prefix_storage (bs : Bytes) (f : Option ProcessedFilter) (d : Nat)
    (hp : bs.take 4 = DLT_PATTERN) (hf : Spec.framing (bs.drop 16) = .complete d)
    (k : Nat) (hk : k < 16 + d) :
    ∃ hint, dltMessageIntern (bs.take k) f true = .incomplete hint
      ∧ ∀ n, hint = some n → 1 ≤ n ∧ n ≤ 16 + d - k := by
  obtain ⟨_, hdl, _⟩ := framing_complete_le _ d hf
  rw [List.length_drop] at hdl
  by_cases c : k < 16
  · have hl : (bs.take k).length < 16 := by
      rw [List.length_take]
      omega
    exact ⟨none, dltMessageIntern_storage_short _ f hl, fun n hn => by cases hn⟩
  · have hl : (bs.take k).length = k := by
      rw [List.length_take]
      omega
    have hp' : (bs.take k).take 4 = DLT_PATTERN := by
      rw [List.take_take, Nat.min_eq_left (by omega)]
      exact hp
    obtain ⟨sh, _, he⟩ := dltMessageIntern_storage (bs.take k) f 0 (by omega)
      (firstPattern_zero _ hp') (by omega)
    have hd : (bs.take k).drop (0 + 16) = (bs.drop 16).take (k - 16) := by
      rw [Nat.zero_add, List.drop_take]
    rw [hd] at he
    obtain ⟨hint, hh, hn⟩ := prefix_nostorage (bs.drop 16) f d hf (k - 16) (by omega)
    rw [hh, PRes.map_incomplete] at he
    refine ⟨hint, he, fun n hn' => ?_⟩
    obtain ⟨h1, h2⟩ := hn n hn'
    exact ⟨h1, by omega⟩

/-- a serialised message with storage header starts with the pattern -/
theorem Message.asBytes_take4 (m : Message) (hs : m.storageHeader.isSome = true) :
    m.asBytes.take 4 = DLT_PATTERN := by
  rw [Message.asBytes_eq]
  cases hsh : m.storageHeader with
  | none => rw [hsh] at hs; cases hs
  | some sh =>
    simp only [shBytes, StorageHeader.asBytes, List.append_assoc]
    rfl

/-- the layout facts about a well-formed message with storage header: pattern first, 16
    header bytes, then a framed message that fills the rest -/
theorem Message.storage_facts (m : Message) (h : m.wf = true)
    (hs : m.storageHeader.isSome = true) :
    m.asBytes.take 4 = DLT_PATTERN ∧ 16 ≤ m.asBytes.length
      ∧ Spec.framing (m.asBytes.drop 16) = .complete (m.asBytes.length - 16) := by
  have hp := Message.asBytes_take4 m hs
  have hlen := Message.wf_length m h
  rw [hs, if_pos rfl] at hlen
  have hrt := dltMessageIntern_asBytes m h []
  rw [List.append_nil, hs] at hrt
  obtain ⟨skip, sh, res', h16, hfp, hc, hi, _⟩ := storage_of_ok hrt
  rw [firstPattern_zero _ hp] at hfp
  injection hfp with hfp
  subst hfp
  rw [Nat.zero_add] at hi
  have := framing_of_ok_nil hi
  rw [List.length_drop] at this
  exact ⟨hp, h16, this⟩

/-- a well-formed message without storage header is a framed message -/
theorem Message.nostorage_facts (m : Message) (h : m.wf = true)
    (hs : m.storageHeader.isSome = false) :
    Spec.framing m.asBytes = .complete m.asBytes.length := by
  have hrt := dltMessageIntern_asBytes m h []
  rw [List.append_nil, hs] at hrt
  exact framing_of_ok_nil hrt

/-! ### junk in front of the pattern (C06) -/

/-- the number of skipped bytes is only recorded, it does not influence the header read -/
theorem storageHeaderAt_shift (c : Nat) (r : Bytes) :
    storageHeaderAt c r
      = (storageHeaderAt 0 r).map (fun o => o.map (fun p => (p.1, c))) := by
  unfold storageHeaderAt
  cases tag [0x44#8, 0x4C#8, 0x54#8] r with
  | ok v1 r1 =>
    simp only [PRes.andThen_ok]
    cases tag [0x01#8] r1 with
    | ok v2 r2 =>
      simp only [PRes.andThen_ok]
      cases bitsN .little 4 r2 with
      | ok v3 r3 =>
        simp only [PRes.andThen_ok]
        cases bitsN .little 4 r3 with
        | ok v4 r4 =>
          simp only [PRes.andThen_ok]
          cases zts 4 r4 with
          | ok v5 r5 => rfl
          | _ => rfl
        | _ => rfl
      | _ => rfl
    | _ => rfl
  | _ => rfl

/-- the message parsed behind a storage header does not depend on the recorded shift -/
theorem storageHeaderAt_msgBody (c : Nat) (r : Bytes) (f : Option ProcessedFilter) :
    ((storageHeaderAt c r).andThen fun s a => msgBody (s.map (·.1)) a f)
      = ((storageHeaderAt 0 r).andThen fun s a => msgBody (s.map (·.1)) a f) := by
  rw [storageHeaderAt_shift c r]
  cases storageHeaderAt 0 r with
  | ok o a =>
    simp only [PRes.map_ok, PRes.andThen_ok]
    cases o <;> rfl
  | _ => rfl

/-- below the junk length, the 4-byte windows of `j ++ x` are those of `j ++ DLT_PATTERN` -/
theorem junk_window (j x : Bytes) (hp : x.take 4 = DLT_PATTERN) (k : Nat) (hk : k < j.length) :
    ((j ++ x).drop k).take 4 = ((j ++ DLT_PATTERN).drop k).take 4 := by
  obtain ⟨y, rfl⟩ : ∃ y, x = DLT_PATTERN ++ y :=
    ⟨x.drop 4, by conv => lhs; rw [← List.take_append_drop 4 x, hp]⟩
  have hl : k ≤ (j ++ DLT_PATTERN).length := by
    rw [List.length_append]
    omega
  have hl4 : 4 ≤ ((j ++ DLT_PATTERN).drop k).length := by
    rw [List.length_drop, List.length_append]
    simp only [DLT_PATTERN, List.length_cons, List.length_nil]
    omega
  rw [← List.append_assoc, List.drop_append_of_le_length hl, List.take_append_of_le_length hl4]

/-- junk without an occurrence of the pattern (complete or straddling) is skipped: the
    first occurrence in `j ++ x` is at `j.length` -/
theorem firstPattern_junk (j x : Bytes) (hp : x.take 4 = DLT_PATTERN)
    (hj : ∀ k, k < j.length → ((j ++ DLT_PATTERN).drop k).take 4 ≠ DLT_PATTERN) :
    Spec.firstPattern (j ++ x) = some j.length := by
  rw [firstPattern_some_iff]
  refine ⟨?_, fun k hk => ?_⟩
  · rw [List.drop_left]
    exact hp
  · rw [junk_window j x hp k hk]
    exact hj k hk

/-- storage mode: junk in front of a storage header is invisible in the result -/
theorem dltMessageIntern_junk (j x : Bytes) (f : Option ProcessedFilter) (h16 : 16 ≤ x.length)
    (hp : x.take 4 = DLT_PATTERN)
    (hj : ∀ k, k < j.length → ((j ++ DLT_PATTERN).drop k).take 4 ≠ DLT_PATTERN) :
    dltMessageIntern (j ++ x) f true = dltMessageIntern x f true := by
  have hl : ¬ (j ++ x).length < 16 := by
    rw [List.length_append]
    omega
  rw [dltMessageIntern_true_eq, dltMessageIntern_true_eq, dltStorageHeader_eq,
    dltStorageHeader_eq, if_neg hl, if_neg (by omega), firstPattern_junk j x hp hj,
    firstPattern_zero x hp]
  simp only []
  rw [List.drop_left, List.drop_zero]
  exact storageHeaderAt_msgBody j.length x f

/-- C06_junk on the level of `dltMessageIntern` -/
theorem dltMessageIntern_junk_asBytes (j : Bytes)
    (hj : ∀ k, k < j.length → ((j ++ DLT_PATTERN).drop k).take 4 ≠ DLT_PATTERN)
    (m : Message) (h : m.wf = true) (hs : m.storageHeader.isSome = true) (sfx : Bytes) :
    dltMessageIntern (j ++ (m.asBytes ++ sfx)) none true = .ok (.item m) sfx := by
  obtain ⟨hp, h16, _⟩ := Message.storage_facts m h hs
  have hp' : (m.asBytes ++ sfx).take 4 = DLT_PATTERN := by
    rw [List.take_append_of_le_length (by omega)]
    exact hp
  have hl : 16 ≤ (m.asBytes ++ sfx).length := by
    rw [List.length_append]
    omega
  have hrt := dltMessageIntern_asBytes m h sfx
  rw [hs] at hrt
  rw [dltMessageIntern_junk j _ none hl hp' hj, hrt]

/-- a window starting inside 'D'-free junk does not start with 'D' -/
theorem noD_window (j : Bytes) (hj : ∀ b ∈ j, b ≠ 0x44#8) (k : Nat) (hk : k < j.length) :
    ((j ++ DLT_PATTERN).drop k).take 4 ≠ DLT_PATTERN := by
  rw [List.drop_append_of_le_length (by omega), List.drop_eq_getElem_cons hk]
  intro hc
  simp only [List.cons_append, List.take_succ_cons, DLT_PATTERN] at hc
  injection hc with h1 _
  exact hj _ (List.getElem_mem hk) h1

/-- junk that does not contain the pattern has no occurrence starting inside it either, not even
    one that straddles into the real pattern: the four bytes of the pattern are pairwise
    different, so no proper prefix of it is a suffix of it -/
theorem notContains_window (j : Bytes) (hj : ∀ k, (j.drop k).take 4 ≠ DLT_PATTERN) (k : Nat)
    (hk : k < j.length) : ((j ++ DLT_PATTERN).drop k).take 4 ≠ DLT_PATTERN := by
  rw [List.drop_append_of_le_length (by omega)]
  have h := hj k
  have hlen : (j.drop k).length = j.length - k := List.length_drop
  generalize j.drop k = t at *
  rcases t with _ | ⟨a, _ | ⟨b, _ | ⟨c, _ | ⟨e, rest⟩⟩⟩⟩
  · simp only [List.length_nil] at hlen; omega
  · intro hc
    simp only [DLT_PATTERN, List.cons_append, List.nil_append, List.take_succ_cons, List.take_zero,
      List.cons.injEq, and_true] at hc
    exact absurd hc.2.1 (by decide)
  · intro hc
    simp only [DLT_PATTERN, List.cons_append, List.nil_append, List.take_succ_cons, List.take_zero,
      List.cons.injEq, and_true] at hc
    exact absurd hc.2.2.1 (by decide)
  · intro hc
    simp only [DLT_PATTERN, List.cons_append, List.nil_append, List.take_succ_cons, List.take_zero,
      List.cons.injEq, and_true] at hc
    exact absurd hc.2.2.2 (by decide)
  · simpa only [List.cons_append, List.take_succ_cons, List.take_zero] using h

/-- the converse: an occurrence inside the junk is an occurrence starting inside it -/
theorem window_notContains (j : Bytes)
    (hj : ∀ k, k < j.length → ((j ++ DLT_PATTERN).drop k).take 4 ≠ DLT_PATTERN) (k : Nat) :
    (j.drop k).take 4 ≠ DLT_PATTERN := by
  intro hc
  have hl : ((j.drop k).take 4).length = 4 := by rw [hc]; rfl
  rw [List.length_take, List.length_drop] at hl
  have hk : k < j.length := by omega
  apply hj k hk
  rw [List.drop_append_of_le_length (by omega), List.take_append_of_le_length (by rw [List.length_drop]; omega)]
  exact hc

/-! ### one step of the stream of C06 -/

/-- junk without the byte 'D' in front of a well-formed message with storage header: the
    message is parsed and the remainder is what follows it -/
theorem dltMessage_noD_junk_step (j : Bytes) (hj : ∀ b ∈ j, b ≠ 0x44#8) (m : Message)
    (hwf : m.wf = true) (hs : m.storageHeader.isSome = true) (sfx : Bytes) :
    dltMessage (j ++ (m.asBytes ++ sfx)) none true = .ok (.item m, sfx) :=
  (dltMessage_ok_iff _ _ _ _ _).2 (dltMessageIntern_junk_asBytes j (noD_window j hj) m hwf hs sfx)

/-! ### filter tables (C09) -/

/-- the fold of `dedupIds` is the loop of `List.eraseDups` (first occurrences, in order) -/
theorem dedup_foldl_eq_loop (l acc : List Bytes) :
    l.foldl (fun acc x => if acc.contains x then acc else acc ++ [x]) acc
      = List.eraseDupsBy.loop (· == ·) l acc.reverse := by
  induction l generalizing acc with
  | nil => simp [List.eraseDupsBy.loop]
  | cons x xs ih =>
    have hany : acc.reverse.any (fun y => x == y) = acc.contains x := by
      rw [List.any_reverse, List.contains_eq_any_beq]
    rw [List.foldl_cons, ih, List.eraseDupsBy.loop, hany]
    cases hc : acc.contains x with
    | true => simp only [if_true]
    | false =>
      simp only [Bool.false_eq_true, if_false, List.reverse_append, List.reverse_cons,
        List.reverse_nil, List.nil_append, List.cons_append]

theorem dedupIds_eq_eraseDups (l : List Bytes) : dedupIds l = l.eraseDups := by
  unfold dedupIds List.eraseDups List.eraseDupsBy
  rw [dedup_foldl_eq_loop]
  rfl

theorem length_dedupIds (l : List Bytes) : (dedupIds l).length = Spec.distinctCount l := by
  rw [dedupIds_eq_eraseDups]
  rfl

theorem contains_dedupIds (l : List Bytes) (x : Bytes) :
    (dedupIds l).contains x = l.contains x := by
  rw [dedupIds_eq_eraseDups, Bool.eq_iff_iff, List.contains_iff_mem, List.contains_iff_mem,
    List.mem_eraseDups]

/-- `u8_to_log_level` as a table over the numeric value -/
theorem u8ToLogLevel_table (lv : BitVec 8) :
    u8ToLogLevel lv =
      if lv.toNat = 1 then some .fatal else if lv.toNat = 2 then some .error
      else if lv.toNat = 3 then some .warn else if lv.toNat = 4 then some .info
      else if lv.toNat = 5 then some .debug else if lv.toNat = 6 then some .verbose
      else none := by
  revert lv; decide

theorem u8ToLogLevel_some {lv : BitVec 8} {l : LogLevel} (h : u8ToLogLevel lv = some l) :
    Spec.levelCode l = some lv.toNat := by
  rw [u8ToLogLevel_table] at h
  repeat' split at h
  all_goals first
    | (injection h with h; subst h; simp only [Spec.levelCode, *])
    | cases h

theorem u8ToLogLevel_none {lv : BitVec 8} (h : u8ToLogLevel lv = none) :
    lv.toNat = 0 ∨ 6 < lv.toNat := by
  rw [u8ToLogLevel_table] at h
  repeat' split at h
  all_goals first
    | omega
    | cases h

theorem skipWithLevel_eq (h : ExtendedHeader) (l : LogLevel) (lv : BitVec 8)
    (hc : Spec.levelCode l = some lv.toNat) :
    h.skipWithLevel l = Spec.levelDrops (some lv) h.messageType := by
  unfold ExtendedHeader.skipWithLevel Spec.levelDrops
  cases h.messageType with
  | log n =>
    cases n <;> cases l <;> simp [Spec.levelCode, LogLevel.rank] at hc ⊢ <;> omega
  | _ => rfl

theorem levelDrops_outside (lv : BitVec 8) (hout : lv.toNat = 0 ∨ 6 < lv.toNat) (mt : MessageType) :
    Spec.levelDrops (some lv) mt = false := by
  unfold Spec.levelDrops
  cases mt with
  | log l =>
    simp only []
    cases Spec.levelCode l with
    | none => rfl
    | some c =>
      simp only [decide_eq_false_iff_not]
      omega
  | _ => rfl

theorem level_agree_none (minL : Option (BitVec 8)) (h : ExtendedHeader)
    (hb : minL.bind u8ToLogLevel = none) : Spec.levelDrops minL h.messageType = false := by
  cases minL with
  | none => simp only [Spec.levelDrops]
  | some lv =>
    rw [Option.bind_some] at hb
    exact levelDrops_outside lv (u8ToLogLevel_none hb) _

theorem level_agree_some (minL : Option (BitVec 8)) (h : ExtendedHeader) (l : LogLevel)
    (hb : minL.bind u8ToLogLevel = some l) :
    h.skipWithLevel l = Spec.levelDrops minL h.messageType := by
  cases minL with
  | none => rw [Option.bind_none] at hb; cases hb
  | some lv =>
    rw [Option.bind_some] at hb
    exact skipWithLevel_eq h l lv (u8ToLogLevel_some hb)

/-- C09_decision -/
theorem filteredOut_processFilter (cfg : Spec.FilterConfig) (eh : Option ExtendedHeader) (ecu : Option Bytes) :
    filteredOut eh (some (processFilter cfg)) ecu = Spec.drops cfg eh ecu := by
  obtain ⟨minL, appIds, ecuIds, ctxIds, ac, cc⟩ := cfg
  cases eh with
  | none =>
    cases appIds <;> cases ctxIds <;>
      simp only [filteredOut, processFilter, Spec.drops, Option.map_none, Option.map_some,
        length_dedupIds]
  | some h =>
    cases hb : minL.bind u8ToLogLevel with
    | none =>
      have hlev := level_agree_none minL h hb
      cases appIds <;> cases ctxIds <;> cases ecuIds <;> cases ecu <;>
        simp only [filteredOut, processFilter, Spec.drops, Option.map_none, Option.map_some,
          contains_dedupIds, hb, hlev]
    | some l =>
      have hlev := level_agree_some minL h l hb
      cases appIds <;> cases ctxIds <;> cases ecuIds <;> cases ecu <;>
        simp only [filteredOut, processFilter, Spec.drops, Option.map_none, Option.map_some,
          contains_dedupIds, hb, hlev]
end Dlt
