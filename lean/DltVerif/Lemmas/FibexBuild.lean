/-
  C11, layer L2b: from what the reader accumulated over all files (`Acc`) to the metadata
  (`buildPdus`, `buildFrames`) — equal to `Spec.model` of the documents.

  `accOf es` is the accumulation the reader must produce for the elements `es` (proved for
  rendered documents in Lemmas/FibexRead.lean).
-/
import DltVerif.Model.Fibex
import DltVerif.Spec.Fibex

namespace Dlt.Fibex
open Dlt.Fibex.Spec

/-- `<DESC/>`, `<DESC></DESC>` yield no text event: no description -/
def descOf (p : PduDoc) : Option Bytes := p.desc.bind fun d => if d = [] then none else some d

def frameReadOf (f : FrameDoc) : FrameReadData :=
  { shortName := f.shortName
    contextId := f.ext.bind (·.contextId)
    applicationId := f.ext.bind (·.applicationId)
    messageType := f.ext.bind (·.messageType)
    messageInfo := f.ext.bind (·.messageInfo)
    pduRefs := ordered f.pdus }

def insertAll (l : List (Bytes × Bytes)) (m : List (Bytes × Bytes)) : List (Bytes × Bytes) :=
  l.foldl (fun m kv => insertKV m kv.1 kv.2) m

/-- what `read_fibexes` has accumulated after reading the elements `es` -/
def accOf (es : List Elem) : Acc :=
  { pdus := (pdusOf es).map fun p => (p.id, (descOf p, ordered p.signals))
    frames := (framesOf es).map fun f => (f.id, frameReadOf f)
    signals := insertAll (signalsOf es) []
    codings := insertAll (codingsOf es) [] }

-- association lists -------------------------------------------------------------------

theorem lookupKV_cons {α : Type} (e : Bytes × α) (m : List (Bytes × α)) (k : Bytes) :
    lookupKV (e :: m) k = if e.1 = k then some e.2 else lookupKV m k := by
  unfold lookupKV
  rw [List.find?_cons]
  split <;> simp_all

theorem lookupKV_map_replace (m : List (Bytes × Bytes)) (k v k' : Bytes) :
    lookupKV (m.map (fun e => if e.1 == k then (k, v) else e)) k'
      = if k = k' then (if m.any (·.1 == k) then some v else none) else lookupKV m k' := by
  induction m with
  | nil => simp [lookupKV]
  | cons e m ih =>
    rw [List.map_cons, lookupKV_cons, lookupKV_cons, ih, List.any_cons]
    by_cases h1 : e.1 = k <;> by_cases h2 : k = k' <;> simp_all <;> grind

theorem lookupKV_append {α : Type} (m n : List (Bytes × α)) (k : Bytes) :
    lookupKV (m ++ n) k = (lookupKV m k).or (lookupKV n k) := by
  induction m with
  | nil => simp [lookupKV]
  | cons e m ih =>
    rw [List.cons_append, lookupKV_cons, lookupKV_cons, ih]
    split <;> simp

theorem any_key_iff {α : Type} (m : List (Bytes × α)) (k : Bytes) :
    m.any (·.1 == k) = (lookupKV m k).isSome := by
  induction m with
  | nil => rfl
  | cons e m ih =>
    rw [List.any_cons, lookupKV_cons, ih]
    split <;> simp_all

theorem lookupKV_nil' {α : Type} (k : Bytes) : lookupKV ([] : List (Bytes × α)) k = none := rfl

theorem lookupKV_insertKV (m : List (Bytes × Bytes)) (k v k' : Bytes) :
    lookupKV (insertKV m k v) k' = if k = k' then some v else lookupKV m k' := by
  unfold insertKV
  split
  · rename_i h
    rw [lookupKV_map_replace, h]; simp
  · rename_i h
    rw [lookupKV_append, lookupKV_cons]
    rw [any_key_iff] at h
    have hn : lookupKV m k = none := by
      cases hh : lookupKV m k with
      | none => rfl
      | some x => rw [hh] at h; simp at h
    by_cases hk : k = k'
    · subst hk; simp [hn]
    · simp [hk, lookupKV_nil']

theorem lastOf_cons (a b : Bytes) (l : List (Bytes × Bytes)) (k : Bytes) :
    lastOf ((a, b) :: l) k = (lastOf l k).or (if a = k then some b else none) := by
  unfold lastOf
  rw [List.reverse_cons, List.find?_append]
  cases h : List.find? (fun x => x.1 == k) l.reverse with
  | some x => simp
  | none =>
    simp only [Option.none_or, Option.map_none]
    by_cases hk : a = k
    · subst hk; simp
    · have hb : (a == k) = false := by simpa using hk
      simp [hb, hk]

theorem lookupKV_insertAll (l m : List (Bytes × Bytes)) (k : Bytes) :
    lookupKV (insertAll l m) k = (lastOf l k).or (lookupKV m k) := by
  induction l generalizing m with
  | nil => simp [insertAll, lastOf]
  | cons e l ih =>
    obtain ⟨a, b⟩ := e
    have : insertAll ((a, b) :: l) m = insertAll l (insertKV m a b) := rfl
    rw [this, ih, lookupKV_insertKV, lastOf_cons]
    cases lastOf l k <;> by_cases hk : a = k <;> simp [hk]

theorem lastOf_isSome_of_mem (l : List (Bytes × Bytes)) (k v : Bytes) (h : (k, v) ∈ l) :
    (lastOf l k).isSome = true := by
  unfold lastOf
  rw [Option.isSome_map, List.find?_isSome]
  exact ⟨(k, v), by simpa using h, by simp⟩

/-- the Spec's "definition in force" list looks up as `lastOf` -/
theorem lookupKV_inForce (L l : List (Bytes × Bytes)) (hl : ∀ e ∈ l, e ∈ L) (k : Bytes) :
    lookupKV (l.filterMap fun (id, _) => (lastOf L id).map fun c => (id, c)) k
      = if l.any (·.1 == k) then lastOf L k else none := by
  induction l with
  | nil => rfl
  | cons e l ih =>
    obtain ⟨a, b⟩ := e
    have hsome := lastOf_isSome_of_mem L a b (hl _ (List.mem_cons_self ..))
    obtain ⟨c, hc⟩ := Option.isSome_iff_exists.mp hsome
    rw [List.filterMap_cons]
    simp only [hc, Option.map_some]
    rw [lookupKV_cons, ih (fun e he => hl e (List.mem_cons_of_mem _ he)), List.any_cons]
    by_cases hk : a = k
    · subst hk; simp [hc]
    · have hb : (a == k) = false := by simpa using hk
      rw [if_neg hk, hb, Bool.false_or]

theorem lookupKV_inForce_self (L : List (Bytes × Bytes)) (k : Bytes) :
    lookupKV (L.filterMap fun (id, _) => (lastOf L id).map fun c => (id, c)) k = lastOf L k := by
  rw [lookupKV_inForce L L (fun _ h => h)]
  split
  · rfl
  · rename_i h
    unfold lastOf
    cases hf : List.find? (fun x => x.1 == k) L.reverse with
    | none => rfl
    | some x =>
      exfalso; apply h
      have hm := List.mem_of_find?_eq_some hf
      have hp := List.find?_some hf
      rw [List.any_eq_true]
      exact ⟨x, by simpa using hm, hp⟩

/-- the type vocabulary depends on the signal / coding maps only through lookups -/
theorem typeInfoForSignalRef_congr (ref : Bytes) (s1 s2 c1 c2 : List (Bytes × Bytes))
    (hs : ∀ k, lookupKV s1 k = lookupKV s2 k) (hc : ∀ k, lookupKV c1 k = lookupKV c2 k) :
    typeInfoForSignalRef ref s1 c1 = typeInfoForSignalRef ref s2 c2 := by
  unfold typeInfoForSignalRef
  have : (lookupKV s1 ref).bind (lookupKV c1) = (lookupKV s2 ref).bind (lookupKV c2) := by
    rw [hs]; cases lookupKV s2 ref <;> simp [hc]
  rw [this]

/-- the reader's signal and coding maps give the Spec's types -/
theorem typeOf_accOf (es : List Elem) (ref : Bytes) :
    typeInfoForSignalRef ref (accOf es).signals (accOf es).codings = typeOf es ref := by
  unfold typeOf accOf
  apply typeInfoForSignalRef_congr
  · intro k; rw [lookupKV_insertAll, lookupKV_inForce_self]; simp [lookupKV_nil']
  · intro k; rw [lookupKV_insertAll, lookupKV_inForce_self]; simp [lookupKV_nil']

-- PDUs -----------------------------------------------------------------------------------

def mkPdu (signals codings : List (Bytes × Bytes)) (e : Option Bytes × List Bytes) : PduMetadata :=
  { description := e.1, signalTypes := e.2.filterMap fun r => typeInfoForSignalRef r signals codings }

/-- first definition of a PDU id wins -/
theorem lookupKV_buildPdus (s c : List (Bytes × Bytes))
    (pdus : List (Bytes × (Option Bytes × List Bytes))) (m : List (Bytes × PduMetadata)) (id : Bytes) :
    lookupKV (buildPdus s c pdus m) id
      = (lookupKV m id).or ((pdus.find? (·.1 == id)).map fun e => mkPdu s c e.2) := by
  induction pdus generalizing m with
  | nil => simp [buildPdus]
  | cons e pdus ih =>
    obtain ⟨id0, desc, refs⟩ := e
    unfold buildPdus
    split
    · rename_i hany
      rw [ih, any_key_iff] at *
      by_cases hk : id0 = id
      · subst hk
        obtain ⟨x, hx⟩ := Option.isSome_iff_exists.mp hany
        simp [hx]
      · have hb : (id0 == id) = false := by simpa using hk
        simp [hb]
    · rename_i hany
      rw [ih, lookupKV_append, lookupKV_cons]
      by_cases hk : id0 = id
      · subst hk; cases lookupKV m id0 <;> simp [mkPdu]
      · have hb : (id0 == id) = false := by simpa using hk
        simp [hk, hb, lookupKV_nil']

theorem lookupKV_pduById (es : List Elem) (r : Bytes) :
    lookupKV (buildPdus (accOf es).signals (accOf es).codings (accOf es).pdus []) r
      = (firstPdu es r).map (pduMeta es) := by
  rw [lookupKV_buildPdus, lookupKV_nil', Option.none_or]
  unfold firstPdu
  have : (accOf es).pdus = (pdusOf es).map fun p => (p.id, (descOf p, ordered p.signals)) := rfl
  rw [this, List.find?_map]
  cases h : List.find? ((fun x => x.1 == r) ∘ fun p => (p.id, (descOf p, ordered p.signals))) (pdusOf es) with
  | none =>
    have : List.find? (fun p => p.id == r) (pdusOf es) = none := h
    simp [this]
  | some p =>
    have : List.find? (fun p => p.id == r) (pdusOf es) = some p := h
    simp only [this, Option.map_some, mkPdu, pduMeta, descOf]
    have hf : (fun r => typeInfoForSignalRef r (accOf es).signals (accOf es).codings) = typeOf es :=
      funext (typeOf_accOf es)
    rw [hf]

theorem resolvePdus_eq (m : List (Bytes × PduMetadata)) (refs : List Bytes) :
    resolvePdus m refs
      = if refs.all (fun r => (lookupKV m r).isSome) then some (refs.filterMap (lookupKV m)) else none := by
  induction refs with
  | nil => rfl
  | cons r refs ih =>
    unfold resolvePdus
    rw [ih]
    cases h : lookupKV m r with
    | none => simp [h]
    | some p =>
      by_cases ha : refs.all (fun r => (lookupKV m r).isSome) <;> simp [h, ha]

-- frames ---------------------------------------------------------------------------------

/-- the metadata of one frame as `read_fibexes` builds it (`none`: unknown PDU reference) -/
def mkFrame (pduById : List (Bytes × PduMetadata)) (fr : FrameReadData) : Option FrameMetadata :=
  (resolvePdus pduById fr.pduRefs).map fun pdus =>
    { shortName := fr.shortName, pdus := pdus, applicationId := fr.applicationId
      contextId := fr.contextId, messageType := fr.messageType, messageInfo := fr.messageInfo }

def keyOf (e : Bytes × FrameMetadata) : Option (FrameKey × FrameMetadata) :=
  match e.2.contextId, e.2.applicationId with
  | some ctx, some app => some (({ contextId := ctx, appId := app, frameId := e.1 } : FrameKey), e.2)
  | _, _ => none

theorem firstPerKey_cons {κ α : Type} [BEq κ] (k : κ) (v : α) (rest acc : List (κ × α)) :
    firstPerKey ((k, v) :: rest) acc
      = if acc.any (·.1 == k) then firstPerKey rest acc else firstPerKey rest (acc ++ [(k, v)]) := by
  rw [firstPerKey]

theorem buildFrames_eq (pduById : List (Bytes × PduMetadata)) (frames : List (Bytes × FrameReadData))
    (md : FibexMetadata) :
    buildFrames pduById frames md
      = if frames.all (fun e => (mkFrame pduById e.2).isSome) then
          some { frameMap := firstPerKey
                   (frames.filterMap fun e => (mkFrame pduById e.2).map fun m => (e.1, m)) md.frameMap
                 frameMapWithKey := firstPerKey
                   ((frames.filterMap fun e => (mkFrame pduById e.2).map fun m => (e.1, m)).filterMap keyOf)
                   md.frameMapWithKey }
        else none := by
  induction frames generalizing md with
  | nil => simp [buildFrames, firstPerKey]
  | cons e frames ih =>
    obtain ⟨id, sn, ctx, app, mt, mi, refs⟩ := e
    unfold buildFrames
    cases hr : resolvePdus pduById refs with
    | none =>
      have hm : mkFrame pduById ⟨sn, ctx, app, mt, mi, refs⟩ = none := by simp [mkFrame, hr]
      simp [hm]
    | some pdus =>
      have hm : mkFrame pduById ⟨sn, ctx, app, mt, mi, refs⟩
          = some { shortName := sn, pdus := pdus, applicationId := app, contextId := ctx
                   messageType := mt, messageInfo := mi } := by simp [mkFrame, hr]
      have hm2 : (fun (e : Bytes × FrameReadData) => (mkFrame pduById e.2).map fun m => (e.1, m))
            (id, ⟨sn, ctx, app, mt, mi, refs⟩)
          = some (id, ({ shortName := sn, pdus := pdus, applicationId := app, contextId := ctx
                         messageType := mt, messageInfo := mi } : FrameMetadata)) := by
        simp only [hm, Option.map_some]
      simp only [List.all_cons, hm, Option.isSome_some, Bool.true_and]
      rw [List.filterMap_cons_some
        (f := fun (e : Bytes × FrameReadData) => (mkFrame pduById e.2).map fun m => (e.1, m))
        (a := (id, ⟨sn, ctx, app, mt, mi, refs⟩)) (l := frames) hm2, ih]
      by_cases hall : (frames.all fun e => (mkFrame pduById e.2).isSome) = true
      · rw [if_pos hall, if_pos hall]
        congr 1
        rw [firstPerKey_cons]
        have hk : ∀ (l : List (Bytes × FrameMetadata)),
            firstPerKey
              (List.filterMap keyOf
                ((id, ({ shortName := sn, pdus := pdus, applicationId := app, contextId := ctx
                         messageType := mt, messageInfo := mi } : FrameMetadata)) :: l))
              md.frameMapWithKey
            = firstPerKey (List.filterMap keyOf l)
                (match ctx, app with
                 | some ctx, some app =>
                   if md.frameMapWithKey.any
                       (·.1 == ({ contextId := ctx, appId := app, frameId := id } : FrameKey))
                   then md.frameMapWithKey
                   else md.frameMapWithKey ++ [(({ contextId := ctx, appId := app, frameId := id } : FrameKey),
                     ({ shortName := sn, pdus := pdus, applicationId := some app, contextId := some ctx
                        messageType := mt, messageInfo := mi } : FrameMetadata))]
                 | _, _ => md.frameMapWithKey) := by
          intro l
          cases ctx <;> cases app <;> simp only [keyOf, List.filterMap_cons]
          rw [firstPerKey_cons]
          split <;> rfl
        rw [hk]
        by_cases hc : (md.frameMap.any fun x => x.1 == id) = true
        · simp only [hc, if_true]
          cases ctx <;> cases app <;> rfl
        · simp only [hc]
          cases ctx <;> cases app <;> rfl
      · rw [if_neg hall, if_neg hall]

theorem mkFrame_accOf (es : List Elem) (f : FrameDoc) :
    mkFrame (buildPdus (accOf es).signals (accOf es).codings (accOf es).pdus []) (frameReadOf f)
      = frameMeta es f := by
  have hl : lookupKV (buildPdus (accOf es).signals (accOf es).codings (accOf es).pdus [])
      = fun r => (firstPdu es r).map (pduMeta es) := funext (lookupKV_pduById es)
  unfold mkFrame frameMeta
  rw [resolvePdus_eq, hl]
  simp only [frameReadOf, Option.isSome_map]
  split <;> rfl

/-- L2b: the metadata built from the accumulated elements is the Spec's model -/
theorem build_accOf (files : List FileDoc) :
    buildFrames
        (buildPdus (accOf files.flatten).signals (accOf files.flatten).codings (accOf files.flatten).pdus [])
        (accOf files.flatten).frames {}
      = Spec.model files := by
  rw [buildFrames_eq]
  unfold Spec.model
  have hfr : (accOf files.flatten).frames
      = (framesOf files.flatten).map fun f => (f.id, frameReadOf f) := rfl
  simp only [hfr, List.all_map, List.filterMap_map, Function.comp_def, mkFrame_accOf]
  split
  · congr 1
  · rfl

end Dlt.Fibex
