/-
  C11: attributes a loader does not ask for do not matter - `Spec.plainAttrs` removes them and
  the reader cannot see the difference.
-/
import DltVerif.Lemmas.FibexStrip

namespace Dlt.Fibex
open Dlt.Fibex.Spec

/-- the matcher of `attr_opt` decides "names the attribute" -/
theorem keyMatches_eq (key name : Bytes) : keyMatches key name = some (namesAttr key name) := by
  unfold keyMatches namesAttr
  by_cases h : key = name
  · simp [h]
  · rw [if_neg h]
    have hb : (key == name) = false := by simpa using h
    rw [hb, Bool.false_or]
    by_cases hl : key.length > name.length
    · rw [if_pos hl]
      have hlt : key.length - name.length - 1 < key.length := by omega
      rw [List.getElem?_eq_getElem hlt]
      simp only [hl, decide_true, Bool.true_and]
      congr 1
      rw [List.drop_eq_getElem_cons hlt]
      have : key.length - name.length - 1 + 1 = key.length - name.length := by omega
      rw [this]
      cases hc : (key[key.length - name.length - 1] == 0x3A#8) with
      | true =>
        have := beq_iff_eq.mp hc
        rw [this]
        simp
      | false =>
        have hne : key[key.length - name.length - 1] ≠ 0x3A#8 := by simpa using hc
        simp [hne]
    · rw [if_neg hl]
      simp [hl]

theorem attrOpt_filter (name : Bytes) (attrs : List Attr) :
    attrOpt name (attrs.filter (keepAttr name))
      = attrOpt name attrs := by
  induction attrs with
  | nil => rfl
  | cons a rest ih =>
    cases a with
    | err =>
      rw [List.filter_cons, show keepAttr name Attr.err = true from rfl, if_pos rfl]
      rfl
    | ok key value =>
      rw [List.filter_cons, show keepAttr name (Attr.ok key value) = namesAttr key name from rfl]
      by_cases hk : namesAttr key name = true
      · rw [if_pos hk]
        unfold attrOpt
        rw [keyMatches_eq, hk]
      · have hk' : namesAttr key name = false := by simpa using hk
        rw [if_neg hk, ih]
        conv => rhs; unfold attrOpt
        rw [keyMatches_eq, hk']

theorem attrReq_filter (name : Bytes) (attrs : List Attr) :
    attrReq name (attrs.filter (keepAttr name))
      = attrReq name attrs := by
  unfold attrReq
  rw [attrOpt_filter]

theorem readText_map (rest : List XmlEv) :
    readText (rest.map plainAttrs) = ((readText rest).1, (readText rest).2.map plainAttrs) := by
  cases rest with
  | nil => rfl
  | cons x r =>
    cases x with
    | text t => cases t <;> rfl
    | _ => rfl

/-- `read_event` cannot see the attributes it does not ask for -/
theorem plainAttrs_invisible : Invisible (List.map plainAttrs) := by
  intro st evs
  fun_induction readEvent st evs
  all_goals first
    | (simp [plainAttrs, readEvent]; done)
    | (simp_all (config := { zetaDelta := true })
        [plainAttrs, askedOnly, askedAttr, attrReq_filter, readEvent]; done)
    | (have hr := ‹readText _ = _›
       simp only [List.map_cons, plainAttrs, askedOnly, askedAttr]
       rw [readEvent]
       split <;> (rename_i heq; rw [readText_map, hr] at heq; cases heq) <;>
         first | rfl | assumption | (simp_all; done))
    | (cases ‹Tag› <;> simp_all (config := { zetaDelta := true })
        [plainAttrs, askedOnly, askedAttr, attrReq_filter, readEvent]; done)

end Dlt.Fibex
