/-
  The association-list statistics maps behave like finite maps of counters.
-/
import DltVerif.Model.Stats
import DltVerif.Spec.Stats

namespace Dlt

open Spec

def keys (m : IdMap) : List Bytes := m.map (·.1)

/-- sum of all eight buckets of all entries -/
def totalOf (m : IdMap) : Nat :=
  (m.map fun e => e.2.nonLog + e.2.logFatal + e.2.logError + e.2.logWarning + e.2.logInfo
    + e.2.logDebug + e.2.logVerbose + e.2.logInvalid).sum

/-! ### helpers -/

theorem keys_nil : keys [] = [] := rfl

theorem keys_cons (k : Bytes) (n : LevelDistribution) (m : IdMap) :
    keys ((k, n) :: m) = k :: keys m := rfl

theorem keys_append (m m' : IdMap) : keys (m ++ m') = keys m ++ keys m' := by
  simp [keys]

theorem lookup_nil (id : Bytes) (b : Bucket) : lookup [] id b = 0 := rfl

theorem lookup_cons (k : Bytes) (n : LevelDistribution) (rest : IdMap) (id : Bytes) (b : Bucket) :
    lookup ((k, n) :: rest) id b = if k = id then LevelDistribution.get n b else lookup rest id b := by
  unfold lookup
  by_cases h : k = id <;> simp [h]

theorem lookup_of_not_mem (m : IdMap) (id : Bytes) (b : Bucket) (h : id ∉ keys m) :
    lookup m id b = 0 := by
  induction m with
  | nil => rfl
  | cons e rest ih =>
    obtain ⟨k, n⟩ := e
    rw [keys_cons, List.mem_cons, not_or] at h
    have hk : ¬ k = id := fun h' => h.1 h'.symm
    rw [lookup_cons, if_neg hk]
    exact ih h.2

theorem lookup_append (m m' : IdMap) (id : Bytes) (b : Bucket) :
    lookup (m ++ m') id b = if id ∈ keys m then lookup m id b else lookup m' id b := by
  induction m with
  | nil => simp [keys]
  | cons e rest ih =>
    obtain ⟨k, n⟩ := e
    rw [List.cons_append, lookup_cons, lookup_cons, keys_cons, ih]
    by_cases hk : k = id
    · simp [hk]
    · have : ¬ id = k := fun h => hk h.symm
      simp [hk, this]

theorem get_bump (n : LevelDistribution) (level : Option LogLevel) (b : Bucket) :
    LevelDistribution.get (n.bump level) b
      = LevelDistribution.get n b + (if bucketOf level = b then 1 else 0) := by
  cases level with
  | none => cases b <;> simp [LevelDistribution.bump, LevelDistribution.get, bucketOf]
  | some l =>
    cases l <;> cases b <;> simp [LevelDistribution.bump, LevelDistribution.get, bucketOf]

theorem get_new (level : Option LogLevel) (b : Bucket) :
    LevelDistribution.get (LevelDistribution.new level) b
      = (if bucketOf level = b then 1 else 0) := by
  cases level with
  | none => cases b <;> simp [LevelDistribution.new, LevelDistribution.get, bucketOf]
  | some l =>
    cases l <;> cases b <;> simp [LevelDistribution.new, LevelDistribution.get, bucketOf]

theorem get_merge (x y : LevelDistribution) (b : Bucket) :
    LevelDistribution.get (x.merge y) b
      = LevelDistribution.get x b + LevelDistribution.get y b := by
  cases b <;> rfl

theorem addForLevel_keys (level : Option LogLevel) (m : IdMap) (id : Bytes) :
    keys (addForLevel level m id) = if id ∈ keys m then keys m else keys m ++ [id] := by
  induction m with
  | nil => simp [addForLevel, keys]
  | cons e rest ih =>
    obtain ⟨k, n⟩ := e
    simp only [addForLevel]
    by_cases hk : k = id
    · simp [hk, keys]
    · have hk' : ¬ id = k := fun h => hk h.symm
      rw [if_neg hk, keys_cons, keys_cons, ih]
      by_cases hm : id ∈ keys rest
      · simp [hm]
      · simp [hm, hk']

theorem nodup_snoc_of_not_mem (l : List Bytes) (id : Bytes) (h : l.Nodup) (hm : id ∉ l) :
    (l ++ [id]).Nodup := by
  rw [List.nodup_append]
  refine ⟨h, by simp, ?_⟩
  intro a ha b hb
  rw [List.mem_singleton] at hb
  subst hb
  intro hab
  exact hm (hab ▸ ha)

/-! ### `add_for_level` -/

theorem addForLevel_keys_nodup (level : Option LogLevel) (m : IdMap) (id : Bytes)
    (h : (keys m).Nodup) : (keys (addForLevel level m id)).Nodup := by
  rw [addForLevel_keys]
  by_cases hm : id ∈ keys m
  · rw [if_pos hm]; exact h
  · rw [if_neg hm]; exact nodup_snoc_of_not_mem _ _ h hm

/-- `add_for_level` increments exactly the bucket of `level` under `id` -/
theorem addForLevel_lookup (level : Option LogLevel) (m : IdMap) (id : Bytes) (h : (keys m).Nodup)
    (id' : Bytes) (b : Bucket) :
    lookup (addForLevel level m id) id' b
      = lookup m id' b + (if id' = id ∧ bucketOf level = b then 1 else 0) := by
  induction m with
  | nil =>
    simp only [addForLevel]
    rw [lookup_cons, lookup_nil, get_new]
    by_cases h1 : id = id'
    · subst h1; by_cases h2 : bucketOf level = b <;> simp [h2]
    · have : ¬ id' = id := fun h => h1 h.symm
      simp [h1, this]
  | cons e rest ih =>
    obtain ⟨k, n⟩ := e
    simp only [addForLevel]
    by_cases hk : k = id
    · subst hk
      rw [if_pos rfl, lookup_cons, lookup_cons, get_bump]
      by_cases h1 : k = id'
      · subst h1; by_cases h2 : bucketOf level = b <;> simp [h2]
      · have : ¬ id' = k := fun h => h1 h.symm
        simp [h1, this]
    · rw [keys_cons, List.nodup_cons] at h
      rw [if_neg hk, lookup_cons, lookup_cons, ih h.2]
      by_cases h1 : k = id'
      · subst h1; simp [hk]
      · simp [h1]

theorem totalOf_nil : totalOf [] = 0 := rfl

theorem totalOf_cons (e : Bytes × LevelDistribution) (m : IdMap) :
    totalOf (e :: m) = (e.2.nonLog + e.2.logFatal + e.2.logError + e.2.logWarning + e.2.logInfo
      + e.2.logDebug + e.2.logVerbose + e.2.logInvalid) + totalOf m := by
  simp [totalOf]

theorem addForLevel_total (level : Option LogLevel) (m : IdMap) (id : Bytes) :
    totalOf (addForLevel level m id) = totalOf m + 1 := by
  induction m with
  | nil =>
    simp only [addForLevel, totalOf_cons, totalOf_nil]
    cases level with
    | none => simp [LevelDistribution.new]
    | some l => cases l <;> simp [LevelDistribution.new]
  | cons e rest ih =>
    obtain ⟨k, n⟩ := e
    simp only [addForLevel]
    by_cases hk : k = id
    · rw [if_pos hk, totalOf_cons, totalOf_cons]
      cases level with
      | none => simp only [LevelDistribution.bump]; omega
      | some l => cases l <;> simp only [LevelDistribution.bump] <;> omega
    · rw [if_neg hk, totalOf_cons, totalOf_cons, ih]
      omega

/-! ### `merge_levels` -/

/-- one step of `merge_levels` -/
def mergeStep (owner : IdMap) (id : Bytes) (income : LevelDistribution) : IdMap :=
  if owner.any (fun e => e.1 = id) then
    owner.map (fun e => if e.1 = id then (e.1, e.2.merge income) else e)
  else owner ++ [(id, income)]

theorem mergeLevels_cons (owner : IdMap) (id : Bytes) (income : LevelDistribution) (rest : IdMap) :
    mergeLevels owner ((id, income) :: rest) = mergeLevels (mergeStep owner id income) rest := rfl

theorem any_key_iff (m : IdMap) (id : Bytes) :
    (m.any (fun e => decide (e.1 = id))) = true ↔ id ∈ keys m := by
  simp only [keys, List.any_eq_true, List.mem_map, decide_eq_true_eq]

theorem keys_map_merge (m : IdMap) (id : Bytes) (income : LevelDistribution) :
    keys (m.map (fun e => if e.1 = id then (e.1, e.2.merge income) else e)) = keys m := by
  induction m with
  | nil => rfl
  | cons e rest ih =>
    obtain ⟨k, n⟩ := e
    rw [List.map_cons]
    by_cases hk : k = id
    · simp only [hk, if_true]; rw [keys_cons, keys_cons, ← ih]
    · simp only [hk, if_false]; rw [keys_cons, keys_cons, ← ih]

theorem lookup_map_merge (m : IdMap) (id : Bytes) (income : LevelDistribution)
    (id' : Bytes) (b : Bucket) :
    lookup (m.map (fun e => if e.1 = id then (e.1, e.2.merge income) else e)) id' b
      = lookup m id' b + (if id' = id ∧ id ∈ keys m then LevelDistribution.get income b else 0) := by
  induction m with
  | nil => simp [lookup_nil, keys]
  | cons e rest ih =>
    obtain ⟨k, n⟩ := e
    rw [List.map_cons]
    by_cases hk : k = id
    · subst hk
      simp only [if_true]
      rw [lookup_cons, lookup_cons, get_merge, keys_cons]
      by_cases h1 : k = id'
      · subst h1; simp
      · have : ¬ id' = k := fun h => h1 h.symm
        rw [if_neg h1, if_neg h1, ih]
        simp [this]
    · simp only [hk, if_false]
      rw [lookup_cons, lookup_cons, ih, keys_cons]
      have hk' : ¬ id = k := fun h => hk h.symm
      by_cases h1 : k = id'
      · subst h1; simp [hk]
      · simp [h1, hk']

theorem mergeStep_keys (owner : IdMap) (id : Bytes) (income : LevelDistribution) :
    keys (mergeStep owner id income)
      = if id ∈ keys owner then keys owner else keys owner ++ [id] := by
  unfold mergeStep
  by_cases hm : id ∈ keys owner
  · rw [if_pos ((any_key_iff owner id).2 hm), if_pos hm, keys_map_merge]
  · have : ¬ (owner.any (fun e => decide (e.1 = id))) = true := fun h => hm ((any_key_iff owner id).1 h)
    rw [if_neg this, if_neg hm, keys_append]; rfl

theorem mergeStep_keys_nodup (owner : IdMap) (id : Bytes) (income : LevelDistribution)
    (h : (keys owner).Nodup) : (keys (mergeStep owner id income)).Nodup := by
  rw [mergeStep_keys]
  by_cases hm : id ∈ keys owner
  · rw [if_pos hm]; exact h
  · rw [if_neg hm]; exact nodup_snoc_of_not_mem _ _ h hm

theorem mergeStep_lookup (owner : IdMap) (id : Bytes) (income : LevelDistribution)
    (id' : Bytes) (b : Bucket) :
    lookup (mergeStep owner id income) id' b
      = lookup owner id' b + (if id' = id then LevelDistribution.get income b else 0) := by
  unfold mergeStep
  by_cases hm : id ∈ keys owner
  · rw [if_pos ((any_key_iff owner id).2 hm), lookup_map_merge]
    simp [hm]
  · have : ¬ (owner.any (fun e => decide (e.1 = id))) = true := fun h => hm ((any_key_iff owner id).1 h)
    rw [if_neg this, lookup_append]
    by_cases h1 : id' = id
    · subst h1
      rw [if_neg hm, lookup_of_not_mem _ _ _ hm, lookup_cons]
      simp
    · by_cases h2 : id' ∈ keys owner
      · simp [h2, h1]
      · have : ¬ id = id' := fun h => h1 h.symm
        rw [if_neg h2, lookup_of_not_mem _ _ _ h2, lookup_cons, if_neg this, lookup_nil]
        simp [h1]

theorem mergeLevels_keys_nodup (a b : IdMap) (ha : (keys a).Nodup) :
    (keys (mergeLevels a b)).Nodup := by
  induction b generalizing a with
  | nil => exact ha
  | cons e rest ih =>
    obtain ⟨id, income⟩ := e
    rw [mergeLevels_cons]
    exact ih _ (mergeStep_keys_nodup a id income ha)

/-- `merge_levels` adds the counters id by id -/
theorem mergeLevels_lookup (a b : IdMap) (ha : (keys a).Nodup) (hb : (keys b).Nodup)
    (id : Bytes) (bk : Bucket) :
    lookup (mergeLevels a b) id bk = lookup a id bk + lookup b id bk := by
  induction b generalizing a with
  | nil => simp [mergeLevels, lookup_nil]
  | cons e rest ih =>
    obtain ⟨id0, income⟩ := e
    rw [keys_cons, List.nodup_cons] at hb
    rw [mergeLevels_cons, ih _ (mergeStep_keys_nodup a id0 income ha) hb.2, mergeStep_lookup,
      lookup_cons]
    by_cases h1 : id = id0
    · subst h1
      rw [lookup_of_not_mem _ _ _ hb.1]
      simp
    · have : ¬ id0 = id := fun h => h1 h.symm
      simp [h1, this]

/-! ### the collector as a fold -/

/-- the id map of a collector for a keying (mirrors `Spec.mapOf`) -/
def collMap : Keying → Collector → IdMap
  | .ecu, c => c.ecuIds
  | .app, c => c.appIds
  | .ctx, c => c.contextIds

theorem collectStatistic_keys_nodup (c : Collector) (st : Statistic) (k : Keying)
    (h : (keys (collMap k c)).Nodup) : (keys (collMap k (c.collectStatistic st))).Nodup := by
  obtain ⟨lvl, ecu, ext, vb⟩ := st
  cases k with
  | ecu => exact addForLevel_keys_nodup _ _ _ h
  | app =>
    cases ext with
    | none => exact h
    | some p => exact addForLevel_keys_nodup _ _ _ h
  | ctx =>
    cases ext with
    | none => exact h
    | some p => exact addForLevel_keys_nodup _ _ _ h

theorem collectStatistic_lookup (c : Collector) (st : Statistic) (k : Keying)
    (h : (keys (collMap k c)).Nodup) (id : Bytes) (b : Bucket) :
    lookup (collMap k (c.collectStatistic st)) id b
      = lookup (collMap k c) id b
        + (if (keyOf k st = some id && bucketOf st.logLevel == b) = true then 1 else 0) := by
  obtain ⟨lvl, ecu, ext, vb⟩ := st
  cases k with
  | ecu =>
    show lookup (addForLevel lvl c.ecuIds (ecu.getD NONE_ID)) id b = lookup c.ecuIds id b + _
    rw [addForLevel_lookup _ _ _ (show (keys c.ecuIds).Nodup from h)]
    simp only [keyOf, Option.some.injEq, Bool.and_eq_true, decide_eq_true_eq, beq_iff_eq]
    by_cases h1 : id = ecu.getD NONE_ID
    · simp [h1]
    · have : ¬ ecu.getD NONE_ID = id := fun h => h1 h.symm
      simp [h1, this]
  | app =>
    cases ext with
    | none => simp [Collector.collectStatistic, collMap, keyOf]
    | some p =>
      obtain ⟨app, ctx⟩ := p
      show lookup (addForLevel lvl c.appIds app) id b = lookup c.appIds id b + _
      rw [addForLevel_lookup _ _ _ (show (keys c.appIds).Nodup from h)]
      simp only [keyOf, Option.map_some, Option.some.injEq, Bool.and_eq_true, decide_eq_true_eq,
        beq_iff_eq]
      by_cases h1 : id = app
      · simp [h1]
      · have : ¬ app = id := fun h => h1 h.symm
        simp [h1, this]
  | ctx =>
    cases ext with
    | none => simp [Collector.collectStatistic, collMap, keyOf]
    | some p =>
      obtain ⟨app, ctx⟩ := p
      show lookup (addForLevel lvl c.contextIds ctx) id b = lookup c.contextIds id b + _
      rw [addForLevel_lookup _ _ _ (show (keys c.contextIds).Nodup from h)]
      simp only [keyOf, Option.map_some, Option.some.injEq, Bool.and_eq_true, decide_eq_true_eq,
        beq_iff_eq]
      by_cases h1 : id = ctx
      · simp [h1]
      · have : ¬ ctx = id := fun h => h1 h.symm
        simp [h1, this]

theorem foldl_collect_keys_nodup (sts : List Statistic) (c : Collector) (k : Keying)
    (h : (keys (collMap k c)).Nodup) :
    (keys (collMap k (sts.foldl Collector.collectStatistic c))).Nodup := by
  induction sts generalizing c with
  | nil => exact h
  | cons st rest ih =>
    rw [List.foldl_cons]
    exact ih _ (collectStatistic_keys_nodup c st k h)

theorem foldl_collect_lookup (sts : List Statistic) (c : Collector) (k : Keying)
    (h : (keys (collMap k c)).Nodup) (id : Bytes) (b : Bucket) :
    lookup (collMap k (sts.foldl Collector.collectStatistic c)) id b
      = lookup (collMap k c) id b + tally k sts id b := by
  induction sts generalizing c with
  | nil => simp [tally]
  | cons st rest ih =>
    rw [List.foldl_cons, ih _ (collectStatistic_keys_nodup c st k h),
      collectStatistic_lookup c st k h]
    unfold tally
    rw [List.countP_cons]
    omega

theorem foldl_collect_nonverbose (sts : List Statistic) (c : Collector) :
    (sts.foldl Collector.collectStatistic c).containedNonVerbose
      = (c.containedNonVerbose || anyNonVerbose sts) := by
  induction sts generalizing c with
  | nil => simp [anyNonVerbose]
  | cons st rest ih =>
    rw [List.foldl_cons, ih]
    simp [anyNonVerbose, Collector.collectStatistic, Bool.or_assoc]

theorem foldl_collect_total (sts : List Statistic) (c : Collector) :
    totalOf (sts.foldl Collector.collectStatistic c).ecuIds = totalOf c.ecuIds + sts.length := by
  induction sts generalizing c with
  | nil => simp
  | cons st rest ih =>
    rw [List.foldl_cons, ih]
    show totalOf (addForLevel _ _ _) + _ = _
    rw [addForLevel_total, List.length_cons]
    omega

theorem mapOf_collectInfo (k : Keying) (sts : List Statistic) :
    mapOf k (collectInfo sts) = collMap k (sts.foldl Collector.collectStatistic {}) := by
  cases k <;> rfl

/-! ### `StatisticInfo::merge` and lists of parts -/

theorem mapOf_merge (k : Keying) (a b : StatisticInfo) :
    mapOf k (a.merge b) = mergeLevels (mapOf k a) (mapOf k b) := by
  cases k <;> rfl

theorem mapOf_empty (k : Keying) : mapOf k {} = [] := by
  cases k <;> rfl

theorem map_getD_range {α : Type} (l : List α) (d : α) :
    (List.range l.length).map (fun i => l.getD i d) = l := by
  apply List.ext_getElem
  · simp
  · intro i h1 h2
    simp [List.getD_eq_getElem?_getD, h2]

theorem tally_flatten (k : Keying) (parts : List (List Statistic)) (id : Bytes) (b : Bucket) :
    tally k parts.flatten id b = (parts.map fun p => tally k p id b).sum := by
  unfold tally
  rw [List.countP_flatten]

theorem anyNonVerbose_flatten (parts : List (List Statistic)) :
    anyNonVerbose parts.flatten = parts.any anyNonVerbose := by
  unfold anyNonVerbose
  rw [List.any_flatten]

end Dlt
