/-
  Round trip of verbose arguments: `dlt_argument` inverts `Argument::as_bytes` on
  well-formed arguments, for every byte order and whatever follows.
-/
import DltVerif.Model.Decode
import DltVerif.Spec.WF
import DltVerif.Lemmas.Basic
import DltVerif.Lemmas.Bits

namespace Dlt

theorem bitsN_bytes16 (e : Endian) (v : BitVec 16) (r : Bytes) :
    bitsN e 2 (e.bytes 2 v.toNat ++ r) = .ok v r := bitsN_bytes e 2 v r
theorem bitsN_bytes32 (e : Endian) (v : BitVec 32) (r : Bytes) :
    bitsN e 4 (e.bytes 4 v.toNat ++ r) = .ok v r := bitsN_bytes e 4 v r
theorem bitsN_bytes64 (e : Endian) (v : BitVec 64) (r : Bytes) :
    bitsN e 8 (e.bytes 8 v.toNat ++ r) = .ok v r := bitsN_bytes e 8 v r
theorem bitsN_bytes128 (e : Endian) (v : BitVec 128) (r : Bytes) :
    bitsN e 16 (e.bytes 16 v.toNat ++ r) = .ok v r := bitsN_bytes e 16 v r

theorem dltTypeInfo_asBytes (e : Endian) (t : TypeInfo) (h : t.coding.canonical = true) (r : Bytes) :
    dltTypeInfo e (t.asBytes e ++ r) = .ok t r := by
  unfold dltTypeInfo TypeInfo.asBytes
  rw [bitsN_bytes32]
  simp only [PRes.andThen_ok, ti_reencode t h]

-- text fields ---------------------------------------------------------------

theorem textOk_inv {s : Bytes} (h : textOk s = true) :
    noNul s = true ∧ Utf8.valid s = true ∧ s.length + 1 ≤ 65535 := by
  simpa [textOk, and_assoc] using h

theorem lenPlus1_eq {n : Nat} (h : n + 1 ≤ 65535) : lenPlus1 n = n + 1 := by
  unfold lenPlus1 asU16; omega

theorem lenPlus1_lt (n : Nat) : lenPlus1 n < 256 ^ 2 := by
  unfold lenPlus1; omega

theorem asU16_lt (n : Nat) : asU16 n < 256 ^ 2 := by
  unfold asU16; omega

theorem lenPlus1Overflows_textOk {s : Bytes} (h : textOk s = true) :
    lenPlus1Overflows s.length = false := by
  have := (textOk_inv h).2.2
  simp only [lenPlus1Overflows, asU16, beq_eq_false_iff_ne, ne_eq]
  omega

/-- a NUL-free valid string followed by its terminator reads back with the written size -/
theorem zts_text (s r : Bytes) (h : textOk s = true) :
    zts (lenPlus1 s.length) (s ++ 0#8 :: r) = .ok s r := by
  obtain ⟨h1, h2, h3⟩ := textOk_inv h
  rw [lenPlus1_eq h3]
  exact zts_terminated s r h1 h2

theorem dltVariableName_enc (e : Endian) (n r : Bytes) (h : textOk n = true) :
    dltVariableName e (e.bytes 2 (lenPlus1 n.length) ++ (n ++ 0#8 :: r)) = .ok n r := by
  unfold dltVariableName
  rw [uintN_bytes e 2 _ _ (lenPlus1_lt _)]
  simp only [PRes.andThen_ok]
  exact zts_text n r h

/-- the optional name of the bool / string / raw layouts -/
def optNameBytes (e : Endian) : Option Bytes → Bytes
  | some n => e.bytes 2 (lenPlus1 n.length) ++ (n ++ [0#8])
  | none => []

theorem optName_enc (e : Endian) (vari : Bool) (name : Option Bytes) (r : Bytes)
    (h : optText vari name = true) :
    (if vari = true then (dltVariableName e (optNameBytes e name ++ r)).map some
      else PRes.ok none (optNameBytes e name ++ r)) = .ok name r := by
  cases name with
  | none =>
    cases vari
    · simp [optNameBytes]
    · simp [optText] at h
  | some n =>
    cases vari
    · simp [optText] at h
    · simp only [optText, Bool.true_and] at h
      simp only [optNameBytes, List.append_assoc, List.singleton_append, if_true]
      rw [dltVariableName_enc e n r h]
      rfl

/-- the name/unit block of the numeric layouts -/
def nameUnitBytes (e : Endian) (vari : Bool) (name unit : Option Bytes) : Bytes :=
  if vari then
    (match name with | some n => e.bytes 2 (lenPlus1 n.length) | none => e.bytes 2 1)
    ++ (match unit with | some u => e.bytes 2 (lenPlus1 u.length) | none => e.bytes 2 1)
    ++ (match name with | some n => n ++ [0#8] | none => [0#8])
    ++ (match unit with | some u => u ++ [0#8] | none => [0#8])
  else []

def fixedPointBytes (e : Endian) : Option FixedPoint → Bytes
  | some fp =>
    e.bytes 4 fp.quantization.toNat
      ++ (match fp.offset with
          | .i32 v => e.bytes 4 v.toNat
          | .i64 v => e.bytes 8 v.toNat)
  | none => []

theorem bufTypeInfoNameUnit_eq (e : Endian) (info : TypeInfo) (name unit : Option Bytes)
    (fp : Option FixedPoint) :
    bufTypeInfoNameUnit e info name unit fp
      = info.asBytes e ++ (nameUnitBytes e info.hasVariableInfo name unit ++ fixedPointBytes e fp) := by
  unfold bufTypeInfoNameUnit nameUnitBytes fixedPointBytes
  rw [List.append_assoc]
  cases fp <;> rfl

theorem bufTypeInfoName_eq (e : Endian) (info : TypeInfo) (name : Option Bytes) :
    bufTypeInfoName e info name = info.asBytes e ++ optNameBytes e name := by
  unfold bufTypeInfoName optNameBytes
  cases name <;> simp only [List.append_assoc]

theorem dltVariableNameAndUnit_enc (e : Endian) (ti : TypeInfo) (name unit : Option Bytes)
    (r : Bytes) (hn : optText ti.hasVariableInfo name = true)
    (hu : optText ti.hasVariableInfo unit = true) :
    dltVariableNameAndUnit e ti (nameUnitBytes e ti.hasVariableInfo name unit ++ r)
      = .ok (name, unit) r := by
  unfold dltVariableNameAndUnit nameUnitBytes
  cases hv : ti.hasVariableInfo with
  | false =>
    rw [hv] at hn hu
    cases name <;> cases unit <;> simp_all [optText]
  | true =>
    rw [hv] at hn hu
    cases name with
    | none => simp [optText] at hn
    | some n =>
      cases unit with
      | none => simp [optText] at hu
      | some u =>
        simp only [optText, Bool.true_and] at hn hu
        simp only [if_true, List.append_assoc, List.cons_append, List.nil_append]
        rw [uintN_bytes e 2 _ _ (lenPlus1_lt _)]
        simp only [PRes.andThen_ok]
        rw [uintN_bytes e 2 _ _ (lenPlus1_lt _)]
        simp only [PRes.andThen_ok]
        rw [zts_text n _ hn]
        simp only [PRes.andThen_ok]
        rw [zts_text u _ hu]
        simp only [PRes.andThen_ok]

theorem dltFixedPoint_enc32 (e : Endian) (q v : BitVec 32) (r : Bytes) :
    dltFixedPoint e .w32 (fixedPointBytes e (some ⟨q, .i32 v⟩) ++ r) = .ok ⟨q, .i32 v⟩ r := by
  simp only [dltFixedPoint, fixedPointBytes, List.append_assoc]
  rw [bitsN_bytes32]
  simp only [PRes.andThen_ok]
  rw [bitsN_bytes32]
  rfl

theorem dltFixedPoint_enc64 (e : Endian) (q : BitVec 32) (v : BitVec 64) (r : Bytes) :
    dltFixedPoint e .w64 (fixedPointBytes e (some ⟨q, .i64 v⟩) ++ r) = .ok ⟨q, .i64 v⟩ r := by
  simp only [dltFixedPoint, fixedPointBytes, List.append_assoc]
  rw [bitsN_bytes32]
  simp only [PRes.andThen_ok]
  rw [bitsN_bytes64]
  rfl

theorem asBytes_string (e : Endian) (coding : StringCoding) (vari trai : Bool)
    (name unit : Option Bytes) (fp : Option FixedPoint) (s : Bytes)
    (hn : optText vari name = true) :
    Argument.asBytes e ⟨⟨.stringType, coding, vari, trai⟩, name, unit, fp, .stringVal s⟩
      = TypeInfo.asBytes e ⟨.stringType, coding, vari, trai⟩
          ++ (e.bytes 2 (lenPlus1 s.length) ++ (optNameBytes e name ++ (s ++ [0#8]))) := by
  cases vari <;> cases name <;> simp [optText] at hn <;>
    simp [Argument.asBytes, optNameBytes]

theorem asBytes_raw (e : Endian) (coding : StringCoding) (vari trai : Bool)
    (name unit : Option Bytes) (fp : Option FixedPoint) (b : Bytes)
    (hn : optText vari name = true) :
    Argument.asBytes e ⟨⟨.raw, coding, vari, trai⟩, name, unit, fp, .raw b⟩
      = TypeInfo.asBytes e ⟨.raw, coding, vari, trai⟩
          ++ (e.bytes 2 (asU16 b.length) ++ (optNameBytes e name ++ b)) := by
  cases vari <;> cases name <;> simp [optText] at hn <;>
    simp [Argument.asBytes, optNameBytes]

/-- `dlt_argument` is the inverse of `Argument::as_bytes` -/
theorem dltArgument_asBytes (e : Endian) (a : Argument) (h : a.wf = true) (r : Bytes) :
    dltArgument e (a.asBytes e ++ r) = .ok a r := by
  obtain ⟨⟨kind, coding, vari, trai⟩, name, unit, fp, value⟩ := a
  simp only [Argument.wf, Bool.and_eq_true] at h
  obtain ⟨hc, h⟩ := h
  split at h
  case h_20 => exact absurd h (by simp)
  case h_1 =>
    simp only [Bool.and_eq_true, Option.isNone_iff_eq_none] at h
    obtain ⟨hn, rfl⟩ := h
    simp only [Argument.asBytes, bufTypeInfoName_eq, List.append_assoc]
    unfold dltArgument
    rw [dltTypeInfo_asBytes e _ hc]
    simp only [PRes.andThen_ok]
    rw [optName_enc e vari name _ hn]
    simp only [PRes.andThen_ok, List.cons_append, List.nil_append, beU8]
  case h_18 s =>
    simp only [Bool.and_eq_true, Option.isNone_iff_eq_none] at h
    obtain ⟨⟨hn, rfl⟩, hs⟩ := h
    rw [asBytes_string e _ _ _ _ _ _ _ hn]
    simp only [List.append_assoc]
    unfold dltArgument
    rw [dltTypeInfo_asBytes e _ hc]
    simp only [PRes.andThen_ok]
    rw [uintN_bytes e 2 _ _ (lenPlus1_lt _)]
    simp only [PRes.andThen_ok]
    rw [optName_enc e vari name _ hn]
    simp only [PRes.andThen_ok, List.cons_append, List.nil_append]
    rw [zts_text s r hs]
    simp only [PRes.andThen_ok]
  case h_19 b =>
    simp only [Bool.and_eq_true, Option.isNone_iff_eq_none, decide_eq_true_eq] at h
    obtain ⟨⟨hn, rfl⟩, hb⟩ := h
    rw [asBytes_raw e _ _ _ _ _ _ _ hn]
    simp only [List.append_assoc]
    unfold dltArgument
    rw [dltTypeInfo_asBytes e _ hc]
    simp only [PRes.andThen_ok]
    rw [uintN_bytes e 2 _ _ (asU16_lt _)]
    simp only [PRes.andThen_ok]
    rw [optName_enc e vari name _ hn]
    simp only [PRes.andThen_ok]
    rw [take_append' _ b r (by unfold asU16; omega)]
    simp only [PRes.andThen_ok]
  case h_12 | h_13 | h_14 | h_15 =>
    simp only [Bool.and_eq_true] at h
    simp only [Argument.asBytes, bufTypeInfoNameUnit_eq, List.append_assoc]
    unfold dltArgument
    rw [dltTypeInfo_asBytes e _ hc]
    simp only [PRes.andThen_ok]
    rw [dltVariableNameAndUnit_enc e _ _ _ _ h.1 h.2]
    simp only [PRes.andThen_ok]
    first | rw [dltFixedPoint_enc32] | rw [dltFixedPoint_enc64]
    simp only [PRes.andThen_ok, putSignedValue, putUnsignedValue, FloatWidth.toTypeLength,
      dltSint, dltUint]
    first
      | rw [bitsN_bytes32]
      | rw [bitsN_bytes64]
    rfl
  all_goals
    simp only [Bool.and_eq_true] at h
    simp only [Argument.asBytes, bufTypeInfoNameUnit_eq, List.append_assoc]
    unfold dltArgument
    rw [dltTypeInfo_asBytes e _ hc]
    simp only [PRes.andThen_ok]
    rw [dltVariableNameAndUnit_enc e _ _ _ _ h.1 h.2]
    simp only [PRes.andThen_ok, fixedPointBytes, List.nil_append, putSignedValue, putUnsignedValue,
      putFloatValue, dltSint, dltUint, dltFint]
    first
      | rw [bitsN_bytes16]
      | rw [bitsN_bytes32]
      | rw [bitsN_bytes64]
      | rw [bitsN_bytes128]
      | simp only [List.cons_append, List.nil_append, beU8]
    rfl

theorem optText_some {vari : Bool} {s : Bytes} (h : optText vari (some s) = true) :
    lenPlus1Overflows s.length = false := by
  simp only [optText, Bool.and_eq_true] at h
  exact lenPlus1Overflows_textOk h.2

/-- a well-formed argument serialises without overflow -/
theorem Argument.wf_not_panics (a : Argument) (h : a.wf = true) : a.asBytesPanics = false := by
  obtain ⟨⟨kind, coding, vari, trai⟩, name, unit, fp, value⟩ := a
  simp only [Argument.wf, Bool.and_eq_true] at h
  obtain ⟨hc, h⟩ := h
  split at h
  case h_20 => exact absurd h (by simp)
  case h_1 =>
    simp only [Bool.and_eq_true] at h
    obtain ⟨h1, _⟩ := h
    rcases name with _ | n
    · simp [Argument.asBytesPanics]
    · simp [Argument.asBytesPanics, optText_some h1]
  case h_18 s =>
    simp only [Bool.and_eq_true] at h
    obtain ⟨⟨hn, _⟩, hs⟩ := h
    cases vari <;> cases name <;> simp [optText] at hn <;>
      simp [Argument.asBytesPanics, lenPlus1Overflows_textOk, hs, hn]
  case h_19 b =>
    simp only [Bool.and_eq_true] at h
    obtain ⟨⟨hn, _⟩, _⟩ := h
    cases vari <;> cases name <;> simp [optText] at hn <;>
      simp [Argument.asBytesPanics, lenPlus1Overflows_textOk, hn]
  all_goals
    simp only [Bool.and_eq_true] at h
    obtain ⟨h1, h2⟩ := h
    rcases name with _ | n <;> rcases unit with _ | u
    · simp [Argument.asBytesPanics]
    · simp [Argument.asBytesPanics, optText_some h2]
    · simp [Argument.asBytesPanics, optText_some h1]
    · simp [Argument.asBytesPanics, optText_some h1, optText_some h2]

theorem count_dltArgument_asBytes (e : Endian) (args : List Argument)
    (h : args.all Argument.wf = true) (r : Bytes) :
    count (dltArgument e) args.length ((args.map (Argument.asBytes e)).flatten ++ r)
      = .ok args r := by
  induction args with
  | nil => rfl
  | cons a as ih =>
    simp only [List.all_cons, Bool.and_eq_true] at h
    simp only [List.map_cons, List.flatten_cons, List.length_cons, List.append_assoc, count]
    rw [dltArgument_asBytes e a h.1]
    simp only [PRes.andThen_ok]
    rw [ih h.2]
    rfl

/-- the arguments a network-trace payload is read back as: plain raw-data arguments -/
def rawArg (s : Bytes) : Argument :=
  { typeInfo := { kind := .raw, coding := .ascii, hasVariableInfo := false, hasTraceInfo := false }
    name := none, unit := none, fixedPoint := none, value := .raw s }

theorem rawArg_asBytes (e : Endian) (s : Bytes) :
    (rawArg s).asBytes e = e.bytes 4 TYPE_INFO_RAW_FLAG.toNat ++ e.bytes 2 (asU16 s.length) ++ s := by
  have : TypeInfo.toU32 ⟨.raw, .ascii, false, false⟩ = TYPE_INFO_RAW_FLAG := by decide
  simp only [rawArg, Argument.asBytes, TypeInfo.asBytes, this]

theorem rawArg_wf (s : Bytes) (h : s.length ≤ 65535) : (rawArg s).wf = true := by
  simp [rawArg, Argument.wf, StringCoding.canonical, optText, h]

theorem count_dltArgument_networkTrace (e : Endian) (slices : List Bytes)
    (h : slices.all (fun s => decide (s.length ≤ 65535)) = true) (r : Bytes) :
    count (dltArgument e) slices.length ((PayloadContent.networkTrace slices).asBytes e ++ r)
      = .ok (slices.map rawArg) r := by
  have h1 : (PayloadContent.networkTrace slices).asBytes e
      = ((slices.map rawArg).map (Argument.asBytes e)).flatten := by
    simp only [PayloadContent.asBytes, List.map_map]
    congr 1
    apply List.map_congr_left
    intro s _
    exact (rawArg_asBytes e s).symm
  have h2 : (slices.map rawArg).all Argument.wf = true := by
    simp only [List.all_eq_true, List.mem_map, decide_eq_true_eq] at h ⊢
    rintro _ ⟨s, hs, rfl⟩
    exact rawArg_wf s (h s hs)
  have := count_dltArgument_asBytes e (slices.map rawArg) h2 r
  rw [List.length_map] at this
  rw [h1]
  exact this

end Dlt
