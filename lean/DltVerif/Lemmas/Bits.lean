/-
  Type-info code lemmas shared by C14 and the round-trip proofs.
-/
import DltVerif.Model.Bits
import DltVerif.Spec.WF

namespace Dlt

theorem ti_decode_canonical (w : BitVec 32) (d : TypeInfo) (h : TypeInfo.ofU32 w = some d) :
    d.coding.canonical = true := by
  unfold TypeInfo.ofU32 at h
  simp only [] at h
  split at h
  · simp at h
  · rename_i kind hk
    simp only [Option.some.injEq] at h
    subst h
    simp only [StringCoding.canonical]
    have hle : ((w >>> 15) &&& 7#32).toNat ≤ 7 := by
      rw [BitVec.toNat_and]; exact Nat.and_le_right
    generalize (w >>> 15) &&& 7#32 = c at *
    by_cases h0 : c = 0#32
    · simp [h0]
    · by_cases h1 : c = 1#32
      · simp [h1]
      · have hn0 : c.toNat ≠ 0 := fun hc => h0 (BitVec.eq_of_toNat_eq hc)
        have hn1 : c.toNat ≠ 1 := fun hc => h1 (BitVec.eq_of_toNat_eq hc)
        simp only [h0, h1, if_false, BitVec.truncate, BitVec.toNat_setWidth, decide_eq_true_eq]
        omega

/-- every canonical description re-decodes from its own encoding -/
theorem ti_reencode (d : TypeInfo) (hc : d.coding.canonical = true) :
    TypeInfo.ofU32 d.toU32 = some d := by
  rcases d with ⟨kind, coding, vari, trai⟩
  cases coding with
  | ascii =>
    cases vari <;> cases trai <;> cases kind <;> (try rename_i l; cases l) <;> decide
  | utf8 =>
    cases vari <;> cases trai <;> cases kind <;> (try rename_i l; cases l) <;> decide
  | reserved v =>
    simp only [StringCoding.canonical, decide_eq_true_eq] at hc
    have : v = 2#8 ∨ v = 3#8 ∨ v = 4#8 ∨ v = 5#8 ∨ v = 6#8 ∨ v = 7#8 := by
      have hv : v = BitVec.ofNat 8 v.toNat := by simp
      have : v.toNat = 2 ∨ v.toNat = 3 ∨ v.toNat = 4 ∨ v.toNat = 5 ∨ v.toNat = 6 ∨ v.toNat = 7 := by
        omega
      rcases this with h | h | h | h | h | h <;> rw [hv, h] <;> simp
    rcases this with h | h | h | h | h | h <;> subst h <;>
      cases vari <;> cases trai <;> cases kind <;> (try rename_i l; cases l) <;> decide

end Dlt
