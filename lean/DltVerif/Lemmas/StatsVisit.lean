/-
  C10: the scan of `collect_statistics` over a byte stream visits exactly the headers of the
  messages the stream is made of, once each, in order.
-/
import DltVerif.Lemmas.Reader
import DltVerif.Lemmas.RoundTripMsg
import DltVerif.Model.Stats
import DltVerif.Spec.Stats

namespace Dlt

/-- what the scan makes of the Spec's pieces: every piece must be a message whose headers
    parse; a bad length or a truncated tail is an error -/
def visitPieces (w : Bool) : List Spec.Piece → Option (List Statistic)
  | [] => some []
  | .msg b :: rest =>
    match statisticOfSlice w b with
    | none => none
    | some st =>
      match visitPieces w rest with
      | none => none
      | some r => some (st :: r)
  | _ :: _ => none

theorem visitWith_nil (rx : Src → Nat → Src × Exact) (hrx : ExactContract rx) (w : Bool)
    (fuel : Nat) (s : Src) (h : s.buf ++ s.data = []) : visitWith rx w fuel s = some [] := by
  cases fuel with
  | zero => rfl
  | succ fuel =>
    obtain ⟨s', e⟩ := nextMessageSliceWith_short rx hrx w s (by rw [h, List.length_nil]; omega)
    simp only [visitWith, e]

/-- the scan and the Spec's cut run in lockstep -/
theorem visitWith_cutFuel (rx : Src → Nat → Src × Exact) (hrx : ExactContract rx) (w : Bool) :
    ∀ (fuel : Nat) (s : Src), (s.buf ++ s.data).length < fuel →
    visitWith rx w fuel s = visitPieces w (Spec.cutFuel w fuel (s.buf ++ s.data)) := by
  intro fuel
  induction fuel with
  | zero => intro s h; omega
  | succ fuel ih =>
    intro s h
    rw [cutFuel_succ]
    generalize hsl : (if w = true then 16 else 0) = sl
    by_cases c1 : (s.buf ++ s.data).length < sl + 4
    · rw [if_pos c1]
      obtain ⟨s', e⟩ := nextMessageSliceWith_short rx hrx w s (by rw [hsl]; exact c1)
      simp only [visitWith, e, visitPieces]
    · rw [if_neg c1]
      obtain ⟨s1, e1, e2⟩ := nextMessageSliceWith_header rx hrx w s sl hsl.symm (by omega)
      by_cases c2 : Spec.declaredLen ((s.buf ++ s.data).drop sl) < 4
      · rw [if_pos c2] at e2 ⊢
        simp only [visitWith, e2, visitPieces]
      · rw [if_neg c2] at e2 ⊢
        by_cases c3 : (s.buf ++ s.data).length < sl + Spec.declaredLen ((s.buf ++ s.data).drop sl)
        · rw [if_pos c3]
          obtain ⟨s2, f1, f2⟩ := (hrx s1 (Spec.declaredLen ((s.buf ++ s.data).drop sl) - 4)).2
            (by rw [e1, List.length_drop]; omega)
          rw [f1] at e2
          simp only [] at e2
          simp only [visitWith, e2, visitPieces]
        · rw [if_neg c3]
          obtain ⟨s2, f1, f2⟩ := (hrx s1 (Spec.declaredLen ((s.buf ++ s.data).drop sl) - 4)).1
            (by rw [e1, List.length_drop]; omega)
          rw [f1] at e2
          simp only [] at e2
          have hslice : List.take (sl + 4) (s.buf ++ s.data)
              ++ List.take (Spec.declaredLen ((s.buf ++ s.data).drop sl) - 4) (s1.buf ++ s1.data)
              = List.take (sl + Spec.declaredLen ((s.buf ++ s.data).drop sl)) (s.buf ++ s.data) := by
            rw [e1, ← List.take_add]
            congr 1
            omega
          have hrest : s2.buf ++ s2.data
              = List.drop (sl + Spec.declaredLen ((s.buf ++ s.data).drop sl)) (s.buf ++ s.data) := by
            rw [f2, e1, List.drop_drop]
            congr 1
            omega
          rw [hslice] at e2
          simp only [visitWith, e2, visitPieces]
          have hih := ih s2 (by rw [hrest, List.length_drop]; omega)
          rw [hrest] at hih
          rw [hih]
          cases statisticOfSlice w (List.take (sl + Spec.declaredLen ((s.buf ++ s.data).drop sl))
              (s.buf ++ s.data)) with
          | none => rfl
          | some st =>
            simp only []
            cases visitPieces w (Spec.cutFuel w fuel
              (List.drop (sl + Spec.declaredLen ((s.buf ++ s.data).drop sl)) (s.buf ++ s.data))) <;> rfl

/-- the scan of a byte stream is determined by the Spec's cut of the stream -/
theorem visit_eq (w : Bool) (bs : Bytes) : visit w bs = visitPieces w (Spec.cut w bs) := by
  unfold visit
  rw [visitWith_cutFuel readExact readExact_contract w (bs.length + 1)
    { buf := [], data := bs, sched := [] } (by simp)]
  rfl

/-- what the collector is handed for a message: the Spec's reading of its headers
    (`Spec.statisticOfMessage`: log level, ECU id, application and context id, verbose flag) -/
abbrev statOf (m : Message) : Statistic := Spec.statisticOfMessage m

/-- the headers of the serialisation of a well-formed message decode to `statOf` -/
theorem statisticOfSlice_asBytes (m : Message) (w : Bool) (h : m.wf = true)
    (hw : m.storageHeader.isSome = w) : statisticOfSlice w m.asBytes = some (statOf m) := by
  obtain ⟨hsh, hver, hid, hext, hehwf, _, _, htot⟩ := Message.wf_elim m h
  subst hw
  rw [Message.asBytes_eq]
  unfold statisticOfSlice statOf Spec.statisticOfMessage
  have hstd := dltStandardHeader_asBytes m.header hver hid htot
    (ehBytes m.extendedHeader ++ m.payload.asBytes m.header.endianness)
  cases hs : m.storageHeader with
  | none =>
    simp only [Option.isSome_none, Bool.false_eq_true, if_false, shBytes, List.nil_append, hstd, hext]
    cases hx : m.extendedHeader with
    | none => simp
    | some eh =>
      simp only [Option.isSome_some, if_true, ehBytes]
      rw [dltExtendedHeader_asBytes eh (hehwf eh hx)]
      simp
      cases eh.messageType <;> rfl
  | some sh =>
    simp only [Option.isSome_some, if_true, shBytes]
    rw [dltStorageHeader_asBytes sh (hsh sh hs)]
    simp only [hstd, hext]
    cases hx : m.extendedHeader with
    | none => simp
    | some eh =>
      simp only [Option.isSome_some, if_true, ehBytes]
      rw [dltExtendedHeader_asBytes eh (hehwf eh hx)]
      simp
      cases eh.messageType <;> rfl

end Dlt
