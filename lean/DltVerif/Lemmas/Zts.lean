/-
  Closed form of `zts` (`dlt_zero_terminated_string_intern`).
-/
import DltVerif.Model.Nom

namespace Dlt

theorem firstIdx_lt (p : BitVec 8 → Bool) (s : Bytes) (i : Nat) (h : firstIdx p s = some i) :
    i < s.length := by
  induction s generalizing i with
  | nil => simp [firstIdx] at h
  | cons b t ih =>
    simp only [firstIdx] at h
    split at h
    · simp at h; subst h; simp
    · cases hf : firstIdx p t with
      | none => simp [hf] at h
      | some j =>
        simp [hf] at h
        subst h
        have := ih j hf
        simp; omega

/-- the bytes before the first `p`-byte -/
theorem takeWhile_not_eq_take_firstIdx (p : BitVec 8 → Bool) (s : Bytes) :
    s.takeWhile (fun b => !p b) = s.take ((firstIdx p s).getD s.length) := by
  induction s with
  | nil => simp [firstIdx]
  | cons b t ih =>
    simp only [firstIdx, List.takeWhile_cons]
    by_cases hp : p b = true
    · simp [hp]
    · simp only [hp, Bool.false_eq_true, if_false, Bool.not_false, if_true]
      cases hf : firstIdx p t with
      | none => simp [hf] at ih ⊢; exact ih
      | some j => simp [hf] at ih ⊢; exact ih

theorem takeWhile_take (q : BitVec 8 → Bool) (s : Bytes) (n : Nat) :
    (s.take n).takeWhile q = (s.takeWhile q).take n := by
  induction s generalizing n with
  | nil => simp
  | cons b t ih =>
    cases n with
    | zero => simp
    | succ m =>
      simp only [List.take_succ_cons, List.takeWhile_cons]
      split
      · simp [ih]
      · simp

/-- the field content: bytes before the first NUL among the first `n` -/
theorem take_takeWhile_notNul (n : Nat) (s : Bytes) :
    (s.take n).takeWhile (fun b => !isNul b)
      = s.take (min n ((firstIdx isNul s).getD s.length)) := by
  rw [takeWhile_take, takeWhile_not_eq_take_firstIdx, List.take_take]

theorem zts_ok (n : Nat) (s : Bytes) (h : n ≤ s.length) :
    zts n s = .ok (Utf8.validPrefix ((s.take n).takeWhile (fun b => !isNul b))) (s.drop n) := by
  rw [take_takeWhile_notNul]
  unfold zts takeWhileNotNul
  cases hf : firstIdx isNul s with
  | none =>
    simp only [Option.getD_none, ge_iff_le, h, if_true, PRes.andThen_ok, List.length_take,
      Nat.min_eq_left h, Nat.lt_irrefl, if_false, Nat.sub_self]
    simp [take]
  | some idx =>
    have hlt := firstIdx_lt _ _ _ hf
    simp only [Option.getD_some, PRes.andThen_ok, List.length_take]
    by_cases hi : idx ≤ n
    · simp only [hi, if_true, Nat.min_eq_right hi]
      have h1 : min idx s.length = idx := by omega
      rw [h1]
      have h2 : ¬ n < idx := by omega
      simp only [h2, if_false, take, List.length_drop]
      have h3 : ¬ s.length - idx < n - idx := by omega
      simp only [h3, if_false, PRes.andThen_ok, List.drop_drop]
      have h4 : idx + (n - idx) = n := by omega
      rw [h4]
    · simp only [hi, if_false]
      have h0 : min n idx = n := by omega
      have h1 : min n s.length = n := by omega
      rw [h0, h1]
      simp [take]

theorem zts_short (n : Nat) (s : Bytes) (h : s.length < n) :
    ∃ hint, zts n s = .incomplete hint ∧ ∀ k, hint = some k → 1 ≤ k ∧ k ≤ n - s.length := by
  unfold zts takeWhileNotNul
  cases hf : firstIdx isNul s with
  | none =>
    have h1 : ¬ s.length ≥ n := by omega
    refine ⟨some 1, ?_, ?_⟩
    · simp [h1, needed]
    · intro k hk
      simp at hk
      omega
  | some idx =>
    have hlt := firstIdx_lt _ _ _ hf
    have hi : idx ≤ n := by omega
    refine ⟨some (n - s.length), ?_, ?_⟩
    · simp only [hi, if_true, PRes.andThen_ok, List.length_take]
      have h1 : min idx s.length = idx := by omega
      rw [h1]
      have h2 : ¬ n < idx := by omega
      simp only [h2, if_false, take, List.length_drop]
      have h3 : s.length - idx < n - idx := by omega
      simp only [h3, if_true, PRes.andThen_incomplete, needed]
      have h4 : n - idx - (s.length - idx) = n - s.length := by omega
      have h5 : n - s.length ≠ 0 := by omega
      simp [h4, h5]
    · intro k hk
      simp at hk
      omega

end Dlt
