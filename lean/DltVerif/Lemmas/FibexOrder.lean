/-
  C11: the order of the elements in the documents does not matter when ids are distinct.
-/
import DltVerif.Lemmas.FibexBuild

namespace Dlt.Fibex
open Dlt.Fibex.Spec

theorem find?_perm {α : Type} (key : α → Bytes) (k : Bytes) {l l' : List α} (hp : l.Perm l')
    (hn : (l.map key).Nodup) :
    l.find? (fun x => key x == k) = l'.find? (fun x => key x == k) := by
  induction hp with
  | nil => rfl
  | cons x _ ih =>
    rw [List.map_cons, List.nodup_cons] at hn
    rw [List.find?_cons, List.find?_cons, ih hn.2]
  | swap x y l =>
    rw [List.map_cons, List.map_cons, List.nodup_cons] at hn
    have hne : key y ≠ key x := fun h => hn.1 (by rw [h]; exact List.mem_cons_self ..)
    simp only [List.find?_cons]
    by_cases hx : key x = k <;> by_cases hy : key y = k
    · exact absurd (hy.trans hx.symm) hne
    · have bx : (key x == k) = true := by simpa using hx
      have by' : (key y == k) = false := by simpa using hy
      simp only [bx, by']
    · have bx : (key x == k) = false := by simpa using hx
      have by' : (key y == k) = true := by simpa using hy
      simp only [bx, by']
    · have bx : (key x == k) = false := by simpa using hx
      have by' : (key y == k) = false := by simpa using hy
      simp only [bx, by']
  | trans p1 _ ih1 ih2 =>
    rw [ih1 hn, ih2 ((p1.map key).nodup_iff.mp hn)]

/-- distinct keys: the last definition is the only one, so `lastOf` is a `find?` -/
theorem lastOf_eq_find (l : List (Bytes × Bytes)) (hn : (l.map (·.1)).Nodup) (k : Bytes) :
    lastOf l k = (l.find? (fun e => e.1 == k)).map (·.2) := by
  unfold lastOf
  have hp : l.reverse.Perm l := List.reverse_perm l
  have hn' : (l.reverse.map (·.1)).Nodup := (hp.map (·.1)).nodup_iff.mpr hn
  rw [find?_perm (·.1) k hp hn']

theorem lastOf_perm {l l' : List (Bytes × Bytes)} (hp : l.Perm l') (hn : (l.map (·.1)).Nodup)
    (k : Bytes) : lastOf l k = lastOf l' k := by
  rw [lastOf_eq_find l hn, lastOf_eq_find l' ((hp.map (·.1)).nodup_iff.mp hn),
    find?_perm (·.1) k hp hn]

/-- the ids of each kind of element are pairwise distinct -/
def DistinctIds (es : List Elem) : Prop :=
  ((pdusOf es).map (·.id)).Nodup ∧ ((framesOf es).map (·.id)).Nodup
    ∧ ((signalsOf es).map (·.1)).Nodup ∧ ((codingsOf es).map (·.1)).Nodup

theorem typeOf_perm {es es' : List Elem} (hp : es.Perm es') (hd : DistinctIds es) (ref : Bytes) :
    typeOf es ref = typeOf es' ref := by
  unfold typeOf
  apply typeInfoForSignalRef_congr
  · intro k
    rw [lookupKV_inForce_self, lookupKV_inForce_self]
    exact lastOf_perm (hp.filterMap _) hd.2.2.1 k
  · intro k
    rw [lookupKV_inForce_self, lookupKV_inForce_self]
    exact lastOf_perm (hp.filterMap _) hd.2.2.2 k

theorem firstPdu_perm {es es' : List Elem} (hp : es.Perm es') (hd : DistinctIds es) (r : Bytes) :
    firstPdu es r = firstPdu es' r := by
  unfold firstPdu
  exact find?_perm (fun (p : PduDoc) => p.id) r (hp.filterMap _) hd.1

theorem pduMeta_perm {es es' : List Elem} (hp : es.Perm es') (hd : DistinctIds es) (p : PduDoc) :
    pduMeta es p = pduMeta es' p := by
  unfold pduMeta
  have : typeOf es = typeOf es' := funext (typeOf_perm hp hd)
  rw [this]

theorem frameMeta_perm {es es' : List Elem} (hp : es.Perm es') (hd : DistinctIds es) (f : FrameDoc) :
    frameMeta es f = frameMeta es' f := by
  unfold frameMeta
  have h1 : firstPdu es = firstPdu es' := funext (firstPdu_perm hp hd)
  have h2 : pduMeta es = pduMeta es' := funext (pduMeta_perm hp hd)
  rw [h1, h2]

end Dlt.Fibex
