/-
  Storage-header mode, the message skipper, and Spec-level facts about prefixes.
-/
import DltVerif.Lemmas.Framing

namespace Dlt

-- the pattern search -----------------------------------------------------------------

namespace FramingStorage

theorem isPrefixOf_pattern (l : Bytes) :
    DLT_PATTERN.isPrefixOf l = true ↔ l.take 4 = DLT_PATTERN := by
  rw [List.isPrefixOf_iff_prefix, List.prefix_iff_eq_take]
  exact ⟨fun h => h.symm, fun h => h.symm⟩

theorem patternAt_zero (l : Bytes) : Spec.patternAt l 0 = true ↔ l.take 4 = DLT_PATTERN := by
  unfold Spec.patternAt DLT_PATTERN
  rcases l with _ | ⟨a, _ | ⟨b, _ | ⟨c, _ | ⟨d, l⟩⟩⟩⟩ <;> simp [and_assoc]

theorem patternAt_drop (bs : Bytes) (n : Nat) :
    Spec.patternAt bs n = Spec.patternAt (bs.drop n) 0 := by
  unfold Spec.patternAt
  simp only [List.getElem?_drop, Nat.add_zero, Nat.zero_add]

theorem patternAt_iff (bs : Bytes) (n : Nat) :
    Spec.patternAt bs n = true ↔ (bs.drop n).take 4 = DLT_PATTERN := by
  rw [patternAt_drop, patternAt_zero]

theorem pattern_lt_length (bs : Bytes) (n : Nat) (h : (bs.drop n).take 4 = DLT_PATTERN) :
    n + 4 ≤ bs.length := by
  have := congrArg List.length h
  simp only [List.length_take, List.length_drop, DLT_PATTERN, List.length_cons, List.length_nil] at this
  omega

theorem findPattern_spec (bs : Bytes) :
    match findPattern DLT_PATTERN bs with
    | some n => (bs.drop n).take 4 = DLT_PATTERN ∧ ∀ k, k < n → (bs.drop k).take 4 ≠ DLT_PATTERN
    | none => ∀ k, (bs.drop k).take 4 ≠ DLT_PATTERN := by
  induction bs with
  | nil => simp [findPattern, DLT_PATTERN]
  | cons b t ih =>
    unfold findPattern
    by_cases hp : DLT_PATTERN.isPrefixOf (b :: t) = true
    · simp only [hp, if_true]
      exact ⟨(isPrefixOf_pattern _).1 hp, fun k hk => absurd hk (Nat.not_lt_zero k)⟩
    · have hp' : (b :: t).take 4 ≠ DLT_PATTERN := fun h => hp ((isPrefixOf_pattern _).2 h)
      simp only [hp]
      cases hf : findPattern DLT_PATTERN t with
      | none =>
        rw [hf] at ih
        simp only [Option.map_none]
        intro k
        cases k with
        | zero => simpa using hp'
        | succ j => simpa using ih j
      | some m =>
        rw [hf] at ih
        simp only [Option.map_some]
        refine ⟨by simpa using ih.1, ?_⟩
        intro k hk
        cases k with
        | zero => simpa using hp'
        | succ j => simpa using ih.2 j (by omega)

theorem firstPattern_some_iff_aux (bs : Bytes) (n : Nat) :
    Spec.firstPattern bs = some n ↔
      ((bs.drop n).take 4 = DLT_PATTERN ∧ ∀ k, k < n → (bs.drop k).take 4 ≠ DLT_PATTERN) := by
  unfold Spec.firstPattern
  rw [List.find?_range_eq_some]
  constructor
  · rintro ⟨h1, _, h3⟩
    refine ⟨(patternAt_iff bs n).1 h1, fun k hk hc => ?_⟩
    have := h3 k hk
    rw [(patternAt_iff bs k).2 hc] at this
    simp at this
  · rintro ⟨h1, h2⟩
    refine ⟨(patternAt_iff bs n).2 h1, ?_, fun j hj => ?_⟩
    · have := pattern_lt_length bs n h1
      exact List.mem_range.2 (by omega)
    · cases hq : Spec.patternAt bs j with
      | false => rfl
      | true => exact absurd ((patternAt_iff bs j).1 hq) (h2 j hj)

theorem firstPattern_none_iff_aux (bs : Bytes) :
    Spec.firstPattern bs = none ↔ ∀ k, (bs.drop k).take 4 ≠ DLT_PATTERN := by
  unfold Spec.firstPattern
  rw [List.find?_range_eq_none]
  constructor
  · intro h k hc
    have hl := pattern_lt_length bs k hc
    have := h k (by omega)
    rw [(patternAt_iff bs k).2 hc] at this
    simp at this
  · intro h i _
    cases hq : Spec.patternAt bs i with
    | false => rfl
    | true => exact absurd ((patternAt_iff bs i).1 hq) (h i)

end FramingStorage
open FramingStorage

/-- the model's scan (memmem contract) finds what the index-based Spec search finds -/
theorem findPattern_eq_firstPattern (bs : Bytes) :
    findPattern DLT_PATTERN bs = Spec.firstPattern bs := by
  have h := findPattern_spec bs
  cases hf : findPattern DLT_PATTERN bs with
  | none => rw [hf] at h; exact ((firstPattern_none_iff_aux bs).2 h).symm
  | some n => rw [hf] at h; exact ((firstPattern_some_iff_aux bs n).2 h).symm

/-- characterisation of the first occurrence: the pattern is at `n`, and nowhere before -/
theorem firstPattern_some_iff (bs : Bytes) (n : Nat) :
    Spec.firstPattern bs = some n ↔
      ((bs.drop n).take 4 = DLT_PATTERN ∧ ∀ k, k < n → (bs.drop k).take 4 ≠ DLT_PATTERN) :=
  firstPattern_some_iff_aux bs n

theorem firstPattern_none_iff (bs : Bytes) :
    Spec.firstPattern bs = none ↔ ∀ k, (bs.drop k).take 4 ≠ DLT_PATTERN :=
  firstPattern_none_iff_aux bs

-- storage-header mode ------------------------------------------------------------------

def ParsedMessage.withStorage (sh : StorageHeader) : ParsedMessage → ParsedMessage
  | .item m => .item { m with storageHeader := some sh }
  | x => x

namespace FramingStorage

/-- a strengthening of `zts_short`: the hint is always a size -/
theorem zts_short_some (n : Nat) (s : Bytes) (h : s.length < n) :
    ∃ k, zts n s = .incomplete (some k) ∧ 1 ≤ k ∧ k ≤ n - s.length := by
  unfold zts takeWhileNotNul
  cases hf : firstIdx isNul s with
  | none =>
    have h1 : ¬ s.length ≥ n := by omega
    refine ⟨1, ?_, by omega, by omega⟩
    simp [h1, needed]
  | some idx =>
    have hlt := firstIdx_lt _ _ _ hf
    have hi : idx ≤ n := by omega
    refine ⟨n - s.length, ?_, by omega, by omega⟩
    simp only [hi, if_true, PRes.andThen_ok, List.length_take]
    have h1 : min idx s.length = idx := by omega
    rw [h1]
    have h2 : ¬ n < idx := by omega
    simp only [h2, if_false, take, List.length_drop]
    have h3 : s.length - idx < n - idx := by omega
    simp only [h3, if_true, PRes.andThen_incomplete, needed]
    have h4 : n - idx - (s.length - idx) = n - s.length := by omega
    have h5 : n - s.length ≠ 0 := by omega
    simp [h4, h5]

/-- the part of `dlt_storage_header` behind the pattern search -/
def storageHeaderAt (consumed : Nat) (rest : Bytes) : PRes (Option (StorageHeader × Nat)) :=
  (tag [0x44#8, 0x4C#8, 0x54#8] rest).andThen fun _ i =>
  (tag [0x01#8] i).andThen fun _ i =>
  (bitsN .little 4 i).andThen fun seconds i =>
  (bitsN .little 4 i).andThen fun microseconds i =>
  (zts 4 i).andThen fun ecuId afterString =>
    .ok (some ({ timestamp := { seconds := seconds, microseconds := microseconds },
                 ecuId := ecuId }, consumed)) afterString

theorem dltStorageHeader_eq (bs : Bytes) :
    dltStorageHeader bs =
      if bs.length < 16 then .incomplete none
      else match Spec.firstPattern bs with
        | some skip => storageHeaderAt skip (bs.drop skip)
        | none => .ok none [] := by
  unfold dltStorageHeader forwardToNextStorageHeader
  rw [findPattern_eq_firstPattern]
  cases Spec.firstPattern bs <;> rfl

theorem eq_pattern_append (r : Bytes) (hp : r.take 4 = DLT_PATTERN) :
    r = [0x44#8, 0x4C#8, 0x54#8] ++ ([0x01#8] ++ r.drop 4) := by
  conv => lhs; rw [← List.take_append_drop 4 r, hp]
  rfl

/-- behind the pattern: two little-endian words and a 4-byte id -/
def storageHeaderTail (consumed : Nat) (i : Bytes) : PRes (Option (StorageHeader × Nat)) :=
  (bitsN .little 4 i).andThen fun seconds i =>
  (bitsN .little 4 i).andThen fun microseconds i =>
  (zts 4 i).andThen fun ecuId afterString =>
    .ok (some ({ timestamp := { seconds := seconds, microseconds := microseconds },
                 ecuId := ecuId }, consumed)) afterString

theorem storageHeaderAt_pattern (c : Nat) (r : Bytes) (hp : r.take 4 = DLT_PATTERN) :
    storageHeaderAt c r = storageHeaderTail c (r.drop 4) := by
  unfold storageHeaderAt
  rw [eq_pattern_append r hp, tag_append, PRes.andThen_ok, tag_append, PRes.andThen_ok]
  rfl

theorem storageHeaderTail_short (c : Nat) (i : Bytes) (h : i.length < 12) :
    ∃ n, storageHeaderTail c i = .incomplete (some n) ∧ 1 ≤ n ∧ n ≤ 12 - i.length := by
  unfold storageHeaderTail
  rcases bitsN_total .little 4 i with ⟨v1, r1, h1⟩ | ⟨hl, h1⟩
  · obtain ⟨hl1, hr1, _⟩ := bitsN_ok_inv h1
    have hlen1 : r1.length = i.length - 4 := by rw [hr1, List.length_drop]
    rw [h1, PRes.andThen_ok]
    rcases bitsN_total .little 4 r1 with ⟨v2, r2, h2⟩ | ⟨hl, h2⟩
    · obtain ⟨hl2, hr2, _⟩ := bitsN_ok_inv h2
      have hlen2 : r2.length = r1.length - 4 := by rw [hr2, List.length_drop]
      rw [h2, PRes.andThen_ok]
      obtain ⟨k, hk, hk1, hk2⟩ := zts_short_some 4 r2 (by omega)
      rw [hk, PRes.andThen_incomplete]
      exact ⟨k, rfl, hk1, by omega⟩
    · rw [h2, PRes.andThen_incomplete]
      exact ⟨_, rfl, by omega, by omega⟩
  · rw [h1, PRes.andThen_incomplete]
    exact ⟨_, rfl, by omega, by omega⟩

theorem storageHeaderTail_ok (c : Nat) (i : Bytes) (h : 12 ≤ i.length) :
    ∃ sh, idOk sh.ecuId = true ∧ storageHeaderTail c i = .ok (some (sh, c)) (i.drop 12) := by
  unfold storageHeaderTail
  rcases bitsN_total .little 4 i with ⟨v1, r1, h1⟩ | ⟨hl, h1⟩
  · obtain ⟨hl1, hr1, _⟩ := bitsN_ok_inv h1
    have hlen1 : r1.length = i.length - 4 := by rw [hr1, List.length_drop]
    rw [h1, PRes.andThen_ok]
    rcases bitsN_total .little 4 r1 with ⟨v2, r2, h2⟩ | ⟨hl, h2⟩
    · obtain ⟨hl2, hr2, _⟩ := bitsN_ok_inv h2
      have hlen2 : r2.length = r1.length - 4 := by rw [hr2, List.length_drop]
      rw [h2, PRes.andThen_ok]
      rcases zts_total 4 r2 with ⟨_, v, hz⟩ | ⟨hl, _⟩
      · obtain ⟨hz1, hz2, hz3⟩ := zts_ok_value hz
        rw [hz, PRes.andThen_ok]
        have hd : r2.drop 4 = i.drop 12 := by
          rw [hr2, hr1, List.drop_drop, List.drop_drop]
        refine ⟨{ timestamp := { seconds := v1, microseconds := v2 }, ecuId := v }, ?_, ?_⟩
        · simp [idOk, hz1, hz2, hz3]
        · rw [hd]
      · omega
    · omega
  · omega

/-- `dlt_message_intern` behind the storage header -/
def msgBody (so : Option StorageHeader) (afterStorageHeader : Bytes) (cfg : Option ProcessedFilter) :
    PRes ParsedMessage :=
  (dltStandardHeader afterStorageHeader).andThen fun header afterStorageAndNormalHeader =>
    match validatedPayloadLength header afterStorageHeader.length with
    | none => .panic
    | some payloadLengthRes =>
      (if header.hasExtendedHeader then (dltExtendedHeader afterStorageAndNormalHeader).map some
       else .ok none afterStorageAndNormalHeader).andThen fun extendedHeader afterHeaders =>
        let verbose := match extendedHeader with | some eh => eh.verbose | none => false
        let argCount := match extendedHeader with | some eh => eh.argumentCount.toNat | none => 0
        let msgType := extendedHeader.map (·.messageType)
        match payloadLengthRes with
        | .incomplete n => .incomplete n
        | .hickup => .ok .invalid afterStorageAndNormalHeader
        | .ok payloadLength =>
          if filteredOut extendedHeader cfg header.ecuId then
            (take payloadLength afterHeaders).andThen fun _ afterMessage =>
              .ok (.filteredOut payloadLength) afterMessage
          else
            (take payloadLength afterHeaders).andThen fun payloadBytes afterMessage =>
              match dltPayload header.endianness payloadBytes verbose payloadLength argCount
                      msgType with
              | .ok payload _ =>
                .ok (.item { storageHeader := so
                             header := header
                             extendedHeader := extendedHeader
                             payload := payload }) afterMessage
              | .incomplete _ => .error
              | .error => .error
              | .failure => .failure
              | .panic => .panic

theorem dltMessageIntern_true_eq (bs : Bytes) (f : Option ProcessedFilter) :
    dltMessageIntern bs f true =
      (dltStorageHeader bs).andThen fun s a => msgBody (s.map (·.1)) a f := rfl

theorem dltMessageIntern_false_eq (bs : Bytes) (f : Option ProcessedFilter) :
    dltMessageIntern bs f false = msgBody none bs f := rfl

theorem msgBody_some (sh : StorageHeader) (body : Bytes) (f : Option ProcessedFilter) :
    msgBody (some sh) body f = (msgBody none body f).map (ParsedMessage.withStorage sh) := by
  unfold msgBody
  cases dltStandardHeader body with
  | ok h r =>
    simp only [PRes.andThen_ok]
    cases validatedPayloadLength h body.length with
    | none => rfl
    | some pl =>
      simp only []
      generalize (if h.hasExtendedHeader = true then (dltExtendedHeader r).map some
        else PRes.ok none r) = e
      cases e with
      | ok eo ah =>
        simp only [PRes.andThen_ok]
        cases pl with
        | incomplete n => rfl
        | hickup => rfl
        | ok n =>
          simp only []
          split
          · cases take n ah <;> rfl
          · cases take n ah with
            | ok pb am =>
              simp only [PRes.andThen_ok]
              generalize dltPayload _ _ _ _ _ _ = dp
              cases dp <;> rfl
            | _ => rfl
      | _ => rfl
  | _ => rfl

end FramingStorage
open FramingStorage

theorem dltMessageIntern_storage_short (bs : Bytes) (f : Option ProcessedFilter)
    (h : bs.length < 16) : dltMessageIntern bs f true = .incomplete none := by
  rw [dltMessageIntern_true_eq, dltStorageHeader_eq, if_pos h]
  rfl

theorem dltMessageIntern_storage_nopattern (bs : Bytes) (f : Option ProcessedFilter)
    (h16 : 16 ≤ bs.length) (h : Spec.firstPattern bs = none) :
    dltMessageIntern bs f true = .incomplete (some 1) := by
  have hd : dltStandardHeader [] = .incomplete (some 1) := rfl
  rw [dltMessageIntern_true_eq, dltStorageHeader_eq, if_neg (by omega), h]
  simp only [PRes.andThen_ok]
  unfold msgBody
  rw [hd]
  rfl

theorem dltMessageIntern_storage_cut (bs : Bytes) (f : Option ProcessedFilter) (skip : Nat)
    (h16 : 16 ≤ bs.length) (hs : Spec.firstPattern bs = some skip) (h : bs.length - skip < 16) :
    ∃ n, dltMessageIntern bs f true = .incomplete (some n) ∧ 1 ≤ n ∧ n ≤ 16 - (bs.length - skip) := by
  have hp := ((firstPattern_some_iff bs skip).1 hs).1
  have hl : skip + 4 ≤ bs.length := by
    have := congrArg List.length hp
    simp only [List.length_take, List.length_drop, DLT_PATTERN, List.length_cons,
      List.length_nil] at this
    omega
  rw [dltMessageIntern_true_eq, dltStorageHeader_eq, if_neg (by omega), hs]
  simp only []
  rw [storageHeaderAt_pattern skip _ hp]
  have hlen : ((bs.drop skip).drop 4).length = bs.length - skip - 4 := by
    simp only [List.length_drop]
  obtain ⟨n, hn, hn1, hn2⟩ := storageHeaderTail_short skip ((bs.drop skip).drop 4) (by omega)
  rw [hn, PRes.andThen_incomplete]
  exact ⟨n, rfl, hn1, by omega⟩

/-- with the 16 storage-header bytes present behind the junk, parsing continues exactly as
    the no-storage parser on what follows, and the storage header is attached to the item -/
theorem dltMessageIntern_storage (bs : Bytes) (f : Option ProcessedFilter) (skip : Nat)
    (h16 : 16 ≤ bs.length) (hs : Spec.firstPattern bs = some skip) (h : 16 ≤ bs.length - skip) :
    ∃ sh, idOk sh.ecuId = true ∧
      dltMessageIntern bs f true =
        (dltMessageIntern (bs.drop (skip + 16)) f false).map (ParsedMessage.withStorage sh) := by
  have hp := ((firstPattern_some_iff bs skip).1 hs).1
  have hlen : ((bs.drop skip).drop 4).length = bs.length - skip - 4 := by
    simp only [List.length_drop]
  obtain ⟨sh, hid, hsh⟩ := storageHeaderTail_ok skip ((bs.drop skip).drop 4) (by omega)
  refine ⟨sh, hid, ?_⟩
  rw [dltMessageIntern_true_eq, dltStorageHeader_eq, if_neg (by omega), hs]
  simp only []
  rw [storageHeaderAt_pattern skip _ hp, hsh, PRes.andThen_ok, dltMessageIntern_false_eq]
  have hd : (((bs.drop skip).drop 4).drop 12) = bs.drop (skip + 16) := by
    rw [List.drop_drop, List.drop_drop]
  rw [hd]
  exact msgBody_some sh _ f

-- Spec-level facts about prefixes --------------------------------------------------------

namespace FramingStorage

theorem stdHeaderLen_ge (b : BitVec 8) : 4 ≤ Spec.stdHeaderLen b := by
  unfold Spec.stdHeaderLen; omega

theorem stdHeaderLen_le_all (b : BitVec 8) : Spec.stdHeaderLen b ≤ Spec.allHeadersLen b := by
  unfold Spec.allHeadersLen; omega

theorem declaredLen_lt (bs : Bytes) : Spec.declaredLen bs < 65536 := by
  rcases bs with _ | ⟨a, _ | ⟨b, _ | ⟨c, _ | ⟨d, l⟩⟩⟩⟩ <;> simp only [Spec.declaredLen] <;> omega

theorem declaredLen_take (bs : Bytes) (k : Nat) (hk : 4 ≤ k) :
    Spec.declaredLen (bs.take k) = Spec.declaredLen bs := by
  obtain ⟨j, rfl⟩ : ∃ j, k = j + 4 := ⟨k - 4, by omega⟩
  rcases bs with _ | ⟨a, _ | ⟨b, _ | ⟨c, _ | ⟨d, l⟩⟩⟩⟩ <;> simp [Spec.declaredLen, List.take_succ_cons]

theorem declaredLen_append (bs sfx : Bytes) (h : 4 ≤ bs.length) :
    Spec.declaredLen (bs ++ sfx) = Spec.declaredLen bs := by
  rcases bs with _ | ⟨a, _ | ⟨b, _ | ⟨c, _ | ⟨d, l⟩⟩⟩⟩ <;> simp at h <;> try omega
  simp [Spec.declaredLen]

theorem framing_cons (htyp : BitVec 8) (t : Bytes) :
    Spec.framing (htyp :: t) =
      if (htyp :: t).length < Spec.stdHeaderLen htyp then
        .incomplete (Spec.stdHeaderLen htyp - (htyp :: t).length)
      else if Spec.declaredLen (htyp :: t) < Spec.allHeadersLen htyp then .reject
      else if (htyp :: t).length < Spec.allHeadersLen htyp then
        .incomplete (Spec.allHeadersLen htyp - (htyp :: t).length)
      else if (htyp :: t).length < Spec.declaredLen (htyp :: t) then
        .incomplete (Spec.declaredLen (htyp :: t) - (htyp :: t).length)
      else .complete (Spec.declaredLen (htyp :: t)) := rfl

theorem framing_complete_iff (bs : Bytes) (d : Nat) :
    Spec.framing bs = .complete d ↔
      ∃ htyp t, bs = htyp :: t ∧ Spec.stdHeaderLen htyp ≤ bs.length ∧ Spec.allHeadersLen htyp ≤ d
        ∧ d ≤ bs.length ∧ d = Spec.declaredLen bs := by
  cases bs with
  | nil => simp [Spec.framing]
  | cons htyp t =>
    have h1 := stdHeaderLen_le_all htyp
    rw [framing_cons]
    constructor
    · intro h
      split at h
      · cases h
      · split at h
        · cases h
        · split at h
          · cases h
          · split at h
            · cases h
            · injection h with h
              exact ⟨htyp, t, rfl, by omega, by omega, by omega, h.symm⟩
    · rintro ⟨htyp', t', he, h2, h3, h4, h5⟩
      injection he with he1 he2
      subst he1 he2
      rw [if_neg (by omega), if_neg (by omega), if_neg (by omega), if_neg (by omega), h5]

end FramingStorage
open FramingStorage

/-- Spec level: if a complete message of `d` bytes starts `bs`, every shorter prefix is
    incomplete and the bound never exceeds what is missing -/
theorem framing_take_of_complete (bs : Bytes) (d : Nat) (h : Spec.framing bs = .complete d)
    (k : Nat) (hk : k < d) :
    ∃ b, Spec.framing (bs.take k) = .incomplete b ∧ b ≤ d - k := by
  obtain ⟨htyp, t, rfl, h2, h3, h4, h5⟩ := (framing_complete_iff bs d).1 h
  have h0 := stdHeaderLen_ge htyp
  have h1 := stdHeaderLen_le_all htyp
  cases k with
  | zero => exact ⟨1, rfl, by omega⟩
  | succ j =>
    have hlen : ((htyp :: t).take (j + 1)).length = j + 1 := by
      rw [List.length_take]; omega
    rw [List.take_succ_cons] at hlen ⊢
    rw [framing_cons]
    simp only [hlen]
    by_cases c1 : j + 1 < Spec.stdHeaderLen htyp
    · rw [if_pos c1]; exact ⟨_, rfl, by omega⟩
    · have hd : Spec.declaredLen (htyp :: t.take j) = d := by
        rw [← List.take_succ_cons, declaredLen_take _ _ (by omega), h5]
      rw [if_neg c1, hd, if_neg (by omega)]
      by_cases c2 : j + 1 < Spec.allHeadersLen htyp
      · rw [if_pos c2]; exact ⟨_, rfl, by omega⟩
      · rw [if_neg c2, if_pos hk]; exact ⟨_, rfl, by omega⟩

/-- Spec level: framing only looks at the first `d` bytes -/
theorem framing_append_of_complete (bs sfx : Bytes) (d : Nat) (h : Spec.framing bs = .complete d) :
    Spec.framing (bs ++ sfx) = .complete d := by
  obtain ⟨htyp, t, rfl, h2, h3, h4, h5⟩ := (framing_complete_iff bs d).1 h
  have h0 := stdHeaderLen_ge htyp
  rw [framing_complete_iff]
  refine ⟨htyp, t ++ sfx, rfl, ?_, h3, ?_, ?_⟩
  · rw [List.length_append]; omega
  · rw [List.length_append]; omega
  · rw [declaredLen_append _ _ (by omega), h5]

theorem framing_complete_le (bs : Bytes) (d : Nat) (h : Spec.framing bs = .complete d) :
    4 ≤ d ∧ d ≤ bs.length ∧ Spec.allHeadersLen (bs.headD 0#8) ≤ d := by
  obtain ⟨htyp, t, rfl, h2, h3, h4, h5⟩ := (framing_complete_iff bs d).1 h
  have h0 := stdHeaderLen_ge htyp
  have h1 := stdHeaderLen_le_all htyp
  exact ⟨by omega, h4, h3⟩

-- the message skipper --------------------------------------------------------------

namespace FramingStorage

theorem tag_cases (t i : Bytes) :
    tag t i = .error ∨ (∃ h, tag t i = .incomplete h) ∨ (∃ r, i = t ++ r ∧ tag t i = .ok t r) := by
  cases h : tag t i with
  | ok v r =>
    obtain ⟨h1, h2⟩ := tag_ok_inv h
    right; right
    exact ⟨r, h1, by rw [h2]⟩
  | incomplete n => right; left; exact ⟨n, rfl⟩
  | error => left; rfl
  | failure =>
    unfold tag at h
    split at h
    · cases h
    · split at h <;> cases h
  | panic =>
    unfold tag at h
    split at h
    · cases h
    · split at h <;> cases h

theorem skipStorageHeader_pattern (r : Bytes) :
    skipStorageHeader (DLT_PATTERN ++ r) =
      if r.length < 12 then .incomplete (some (12 - r.length)) else .ok 16 (r.drop 12) := by
  unfold skipStorageHeader
  rw [show DLT_PATTERN ++ r = [0x44#8, 0x4C#8, 0x54#8] ++ ([0x01#8] ++ r) from rfl,
    tag_append, PRes.andThen_ok, tag_append, PRes.andThen_ok]
  rcases take_total 12 r with ⟨h1, h2⟩ | ⟨h1, h2⟩
  · rw [h2, PRes.andThen_ok]
    have e1 : ¬ r.length < 12 := by omega
    have e2 : ¬ 3 + (1 + r.length) < r.length - 12 := by omega
    have e3 : 3 + (1 + r.length) - (r.length - 12) = 16 := by omega
    simp only [List.length_append, List.length_cons, List.length_nil, List.length_drop,
      STORAGE_HEADER_LENGTH, Nat.zero_add, e1, e2, e3, if_false, if_true]
  · rw [h2, PRes.andThen_incomplete, if_pos h1]

theorem skipStorageHeader_cases (bs : Bytes) :
    (bs.take 4 = DLT_PATTERN ∧ skipStorageHeader bs =
        if bs.length < 16 then .incomplete (some (16 - bs.length)) else .ok 16 (bs.drop 16))
    ∨ (bs.take 4 ≠ DLT_PATTERN ∧
        (skipStorageHeader bs = .error ∨ ∃ h, skipStorageHeader bs = .incomplete h)) := by
  by_cases hp : bs.take 4 = DLT_PATTERN
  · left
    refine ⟨hp, ?_⟩
    have e : bs = DLT_PATTERN ++ bs.drop 4 := by
      conv => lhs; rw [← List.take_append_drop 4 bs, hp]
    have hl : bs.length = 4 + (bs.drop 4).length := by
      conv => lhs; rw [e]
      simp only [List.length_append, DLT_PATTERN, List.length_cons, List.length_nil]
    have hd : (bs.drop 4).drop 12 = bs.drop 16 := by rw [List.drop_drop]
    rw [e, skipStorageHeader_pattern, ← e, hd]
    by_cases c : (bs.drop 4).length < 12
    · rw [if_pos c, if_pos (by omega)]
      congr 2
      omega
    · rw [if_neg c, if_neg (by omega)]
  · right
    refine ⟨hp, ?_⟩
    unfold skipStorageHeader
    rcases tag_cases [0x44#8, 0x4C#8, 0x54#8] bs with h | ⟨n, h⟩ | ⟨r, hr, h⟩
    · left; rw [h]; rfl
    · right; exact ⟨n, by rw [h]; rfl⟩
    · rw [h, PRes.andThen_ok]
      rcases tag_cases [0x01#8] r with h' | ⟨n, h'⟩ | ⟨r', hr', h'⟩
      · left; rw [h']; rfl
      · right; exact ⟨n, by rw [h']; rfl⟩
      · exfalso
        apply hp
        rw [hr, hr']
        rfl

end FramingStorage
open FramingStorage

theorem skipStorageHeader_ne_panic (bs : Bytes) : skipStorageHeader bs ≠ .panic := by
  rcases skipStorageHeader_cases bs with ⟨_, h⟩ | ⟨_, h | ⟨n, h⟩⟩
  · rw [h]; split <;> (intro h'; cases h')
  · rw [h]; intro h'; cases h'
  · rw [h]; intro h'; cases h'

namespace FramingStorage

/-- `dlt_consume_msg` behind the storage header -/
def consumeTail (skipped : Nat) (afterStorageHeader : Bytes) : PRes (Option Nat) :=
  (dltStandardHeader afterStorageHeader).andThen fun header _ =>
    if header.overallLengthPanics then .panic
    else
      (take header.overallLength afterStorageHeader).andThen fun _ afterMessage =>
        .ok (some (skipped + header.overallLength)) afterMessage

theorem dltConsumeMsg_cons (b : BitVec 8) (t : Bytes) :
    dltConsumeMsg (b :: t) = (skipStorageHeader (b :: t)).andThen consumeTail := rfl

theorem dltConsumeMsg_of_ne_nil (bs : Bytes) (h : bs ≠ []) :
    dltConsumeMsg bs = (skipStorageHeader bs).andThen consumeTail := by
  cases bs with
  | nil => exact absurd rfl h
  | cons b t => rfl

theorem consumeTail_closed (s : Nat) (q : Bytes) :
    match q with
    | [] => consumeTail s q = .incomplete (some 1)
    | htyp :: _ =>
      if q.length < Spec.stdHeaderLen htyp then
        ∃ n, consumeTail s q = .incomplete (some n) ∧ 1 ≤ n ∧ n ≤ Spec.stdHeaderLen htyp - q.length
      else if Spec.declaredLen q < Spec.allHeadersLen htyp then consumeTail s q = .error
      else if q.length < Spec.declaredLen q then
        consumeTail s q = .incomplete (some (Spec.declaredLen q - q.length))
      else consumeTail s q = .ok (some (s + Spec.declaredLen q)) (q.drop (Spec.declaredLen q)) := by
  have hc := dltStandardHeader_closed q
  cases q with
  | nil =>
    simp only [] at hc ⊢
    unfold consumeTail
    rw [hc]; rfl
  | cons htyp t =>
    simp only [] at hc ⊢
    by_cases c1 : (htyp :: t).length < Spec.stdHeaderLen htyp
    · rw [if_pos c1] at hc ⊢
      obtain ⟨n, hn, h1, h2⟩ := hc
      exact ⟨n, by unfold consumeTail; rw [hn]; rfl, h1, h2⟩
    · rw [if_neg c1] at hc ⊢
      by_cases c2 : Spec.declaredLen (htyp :: t) < Spec.allHeadersLen htyp
      · rw [if_pos c2] at hc ⊢
        unfold consumeTail; rw [hc]; rfl
      · rw [if_neg c2] at hc ⊢
        obtain ⟨h, hh, hlen, _⟩ := hc
        have hlt := declaredLen_lt (htyp :: t)
        have hp : h.overallLengthPanics = false := by
          simp only [StandardHeader.overallLengthPanics, hlen, decide_eq_false_iff_not]
          omega
        have ho : h.overallLength = Spec.declaredLen (htyp :: t) := by
          unfold StandardHeader.overallLength asU16
          rw [hlen]; omega
        unfold consumeTail
        rw [hh, PRes.andThen_ok, hp, ho]
        simp only [Bool.false_eq_true, if_false]
        rcases take_total (Spec.declaredLen (htyp :: t)) (htyp :: t) with ⟨h1, h2⟩ | ⟨h1, h2⟩
        · rw [if_neg (by omega), h2]; rfl
        · rw [if_pos h1, h2]; rfl

theorem consumeTail_cases (s : Nat) (q : Bytes) :
    (∃ n, consumeTail s q = .incomplete (some n)) ∨ consumeTail s q = .error
      ∨ ∃ c r, consumeTail s q = .ok (some c) r := by
  have hc := consumeTail_closed s q
  cases q with
  | nil => simp only [] at hc; exact Or.inl ⟨_, hc⟩
  | cons htyp t =>
    simp only [] at hc
    split at hc
    · obtain ⟨n, hn, _⟩ := hc; exact Or.inl ⟨n, hn⟩
    · split at hc
      · exact Or.inr (Or.inl hc)
      · split at hc
        · exact Or.inl ⟨_, hc⟩
        · exact Or.inr (Or.inr ⟨_, _, hc⟩)

theorem consumeTail_ok_iff (s : Nat) (q : Bytes) (c : Nat) (rest : Bytes) :
    consumeTail s q = .ok (some c) rest ↔
      ∃ d, Spec.framing q = .complete d ∧ c = s + d ∧ rest = q.drop d := by
  have hc := consumeTail_closed s q
  cases q with
  | nil =>
    simp only [] at hc
    rw [hc]
    simp [Spec.framing]
  | cons htyp t =>
    simp only [] at hc
    have h1 := stdHeaderLen_le_all htyp
    rw [framing_cons]
    by_cases c1 : (htyp :: t).length < Spec.stdHeaderLen htyp
    · rw [if_pos c1] at hc ⊢
      obtain ⟨n, hn, _⟩ := hc
      rw [hn]; simp
    · rw [if_neg c1] at hc ⊢
      by_cases c2 : Spec.declaredLen (htyp :: t) < Spec.allHeadersLen htyp
      · rw [if_pos c2] at hc ⊢
        rw [hc]; simp
      · rw [if_neg c2] at hc ⊢
        by_cases c3 : (htyp :: t).length < Spec.declaredLen (htyp :: t)
        · rw [if_pos c3] at hc
          rw [if_pos c3, hc]
          split <;> simp
        · rw [if_neg c3] at hc
          rw [if_neg (by omega), if_neg c3, hc]
          constructor
          · intro h
            injection h with h1 h2
            injection h1 with h1
            exact ⟨_, rfl, h1.symm, h2.symm⟩
          · rintro ⟨d, hd, rfl, rfl⟩
            injection hd with hd
            rw [hd]

end FramingStorage
open FramingStorage

/-- the message skipper: closed form -/
theorem dltConsumeMsg_ok_some_iff (bs : Bytes) (c : Nat) (rest : Bytes) :
    dltConsumeMsg bs = .ok (some c) rest ↔
      (bs.take 4 = DLT_PATTERN ∧ 16 ≤ bs.length ∧
        ∃ d, Spec.framing (bs.drop 16) = .complete d ∧ c = 16 + d ∧ rest = bs.drop c) := by
  cases bs with
  | nil => simp [dltConsumeMsg, DLT_PATTERN]
  | cons b t =>
    rw [dltConsumeMsg_cons]
    rcases skipStorageHeader_cases (b :: t) with ⟨hp, h⟩ | ⟨hp, h | ⟨n, h⟩⟩
    · by_cases c1 : (b :: t).length < 16
      · rw [if_pos c1] at h
        rw [h]
        constructor
        · intro h; cases h
        · rintro ⟨_, h2, _⟩; omega
      · rw [if_neg c1] at h
        rw [h, PRes.andThen_ok, consumeTail_ok_iff]
        constructor
        · rintro ⟨d, hd, rfl, rfl⟩
          exact ⟨hp, by omega, d, hd, rfl, by rw [List.drop_drop]⟩
        · rintro ⟨_, _, d, hd, rfl, rfl⟩
          exact ⟨d, hd, rfl, by rw [List.drop_drop]⟩
    · rw [h]
      constructor
      · intro h; cases h
      · rintro ⟨h1, _⟩; exact absurd h1 hp
    · rw [h]
      constructor
      · intro h; cases h
      · rintro ⟨h1, _⟩; exact absurd h1 hp

namespace FramingStorage

theorem dltConsumeMsg_cons_cases (b : BitVec 8) (t : Bytes) :
    (∃ n, dltConsumeMsg (b :: t) = .incomplete n) ∨ dltConsumeMsg (b :: t) = .error
      ∨ ∃ c r, dltConsumeMsg (b :: t) = .ok (some c) r := by
  rw [dltConsumeMsg_cons]
  rcases skipStorageHeader_cases (b :: t) with ⟨hp, h⟩ | ⟨hp, h | ⟨n, h⟩⟩
  · rw [h]
    split
    · exact Or.inl ⟨_, rfl⟩
    · rw [PRes.andThen_ok]
      rcases consumeTail_cases 16 ((b :: t).drop 16) with ⟨n, h⟩ | h | h
      · exact Or.inl ⟨_, h⟩
      · exact Or.inr (Or.inl h)
      · exact Or.inr (Or.inr h)
  · rw [h]; exact Or.inr (Or.inl rfl)
  · rw [h]; exact Or.inl ⟨_, rfl⟩

end FramingStorage
open FramingStorage

theorem dltConsumeMsg_ok_none_iff (bs rest : Bytes) :
    dltConsumeMsg bs = .ok none rest ↔ (bs = [] ∧ rest = []) := by
  cases bs with
  | nil =>
    constructor
    · intro h
      simp only [dltConsumeMsg, List.isEmpty_nil, if_true] at h
      injection h with _ h2
      exact ⟨rfl, h2.symm⟩
    · rintro ⟨_, rfl⟩; rfl
  | cons b t =>
    constructor
    · intro h
      rcases dltConsumeMsg_cons_cases b t with ⟨n, h'⟩ | h' | ⟨c, r, h'⟩ <;> rw [h'] at h <;> cases h
    · rintro ⟨h, _⟩; cases h

theorem dltConsumeMsg_ne_panic (bs : Bytes) : dltConsumeMsg bs ≠ .panic := by
  cases bs with
  | nil => simp [dltConsumeMsg]
  | cons b t =>
    intro h
    rcases dltConsumeMsg_cons_cases b t with ⟨n, h'⟩ | h' | ⟨c, r, h'⟩ <;> rw [h'] at h <;> cases h

namespace FramingStorage

theorem skipStorageHeader_take_short (bs : Bytes) (hp : bs.take 4 = DLT_PATTERN) (k : Nat)
    (hk0 : 0 < k) (hk : k < 16) (hl : k ≤ bs.length) :
    ∃ n, skipStorageHeader (bs.take k) = .incomplete (some n) ∧ 1 ≤ n ∧ n ≤ 16 - k := by
  by_cases h4 : 4 ≤ k
  · have hp' : (bs.take k).take 4 = DLT_PATTERN := by
      rw [List.take_take, Nat.min_eq_left h4, hp]
    have hlen : (bs.take k).length = k := by rw [List.length_take]; omega
    rcases skipStorageHeader_cases (bs.take k) with ⟨_, h⟩ | ⟨h, _⟩
    · rw [hlen, if_pos hk] at h
      exact ⟨_, h, by omega, by omega⟩
    · exact absurd hp' h
  · have e : bs.take k = DLT_PATTERN.take k := by
      rw [← hp, List.take_take, Nat.min_eq_left (by omega)]
    rw [e]
    have : k = 1 ∨ k = 2 ∨ k = 3 := by omega
    rcases this with rfl | rfl | rfl
    · exact ⟨2, by decide, by omega, by omega⟩
    · exact ⟨1, by decide, by omega, by omega⟩
    · exact ⟨1, by decide, by omega, by omega⟩

end FramingStorage
open FramingStorage

/-- every non-empty proper prefix of (storage header ++ complete message) is reported
    incomplete by the skipper, with a safe hint -/
theorem dltConsumeMsg_take (bs : Bytes) (d : Nat) (hp : bs.take 4 = DLT_PATTERN)
    (h16 : 16 ≤ bs.length) (hf : Spec.framing (bs.drop 16) = .complete d)
    (k : Nat) (hk0 : 0 < k) (hk : k < 16 + d) :
    ∃ hint, dltConsumeMsg (bs.take k) = .incomplete hint
      ∧ ∀ n, hint = some n → 1 ≤ n ∧ n ≤ 16 + d - k := by
  obtain ⟨htyp, t, hq, h2, h3, h4, h5⟩ := (framing_complete_iff _ d).1 hf
  have h0 := stdHeaderLen_ge htyp
  have h1 := stdHeaderLen_le_all htyp
  rw [List.length_drop] at h2 h4
  have hkl : k ≤ bs.length := by omega
  have hlen : (bs.take k).length = k := by rw [List.length_take]; omega
  have hne : bs.take k ≠ [] := by
    intro h
    rw [h] at hlen
    simp at hlen
    omega
  rw [dltConsumeMsg_of_ne_nil _ hne]
  by_cases c : k < 16
  · obtain ⟨n, hn, hn1, hn2⟩ := skipStorageHeader_take_short bs hp k hk0 c hkl
    rw [hn]
    refine ⟨some n, rfl, ?_⟩
    intro m hm
    injection hm with hm
    omega
  · have hp' : (bs.take k).take 4 = DLT_PATTERN := by
      rw [List.take_take, Nat.min_eq_left (by omega), hp]
    rcases skipStorageHeader_cases (bs.take k) with ⟨_, h⟩ | ⟨h, _⟩
    · rw [hlen, if_neg c] at h
      rw [h, PRes.andThen_ok, List.drop_take, hq]
      have hc := consumeTail_closed 16 ((htyp :: t).take (k - 16))
      obtain ⟨j, hj⟩ : ∃ j, j = k - 16 := ⟨_, rfl⟩
      rw [← hj] at hc ⊢
      cases j with
      | zero =>
        simp only [List.take_zero] at hc ⊢
        refine ⟨_, hc, ?_⟩
        intro m hm
        injection hm with hm
        omega
      | succ i =>
        have hlen' : ((htyp :: t).take (i + 1)).length = i + 1 := by
          rw [List.length_take, ← hq, List.length_drop]; omega
        have hd : Spec.declaredLen ((htyp :: t).take (i + 1)) = if 4 ≤ i + 1 then d else
            Spec.declaredLen ((htyp :: t).take (i + 1)) := by
          split
          · rw [declaredLen_take _ _ (by omega), ← hq, h5]
          · rfl
        rw [List.take_succ_cons] at hc hlen' hd ⊢
        simp only [hlen'] at hc
        by_cases c1 : i + 1 < Spec.stdHeaderLen htyp
        · rw [if_pos c1] at hc
          obtain ⟨n, hn, hn1, hn2⟩ := hc
          refine ⟨_, hn, ?_⟩
          intro m hm
          injection hm with hm
          omega
        · rw [if_pos (by omega)] at hd
          rw [if_neg c1, hd, if_neg (by omega), if_pos (by omega)] at hc
          refine ⟨_, hc, ?_⟩
          intro m hm
          injection hm with hm
          omega
    · exact absurd hp' h

end Dlt
