/-
  C18: the rounding of the double-precision model (`round53`) is round-to-nearest, ties to
  even, onto a 53-bit significand - the rounding IEEE-754 prescribes for `f64` results
  (binary64, default rounding mode; exponent range aside, which the values of C18 never leave).
-/
import DltVerif.Model.Fixed

namespace Dlt

theorem bitLen_bounds (m : Nat) (h : m ≠ 0) : 2 ^ (bitLen m - 1) ≤ m ∧ m < 2 ^ bitLen m := by
  unfold bitLen
  rw [if_neg h]
  exact ⟨by simpa using Nat.log2_self_le h, Nat.lt_log2_self⟩

/-- `round53 m e = (q, e + k)`: `q * 2^k` is a nearest multiple of `2^k` to `m`, an exact tie is
    resolved to the even `q`, and `q` fits a 53-bit significand (`2^52 <= q <= 2^53` when bits
    were dropped; `q = m` when `m` has at most 53 bits) -/
theorem round53_nearest_even (m : Nat) (e : Int) :
    ∃ k q : Nat, round53 m e = (q, e + (k : Int))
      ∧ 2 * m ≤ 2 * (q * 2 ^ k) + 2 ^ k ∧ 2 * (q * 2 ^ k) ≤ 2 * m + 2 ^ k
      ∧ ((2 * m = 2 * (q * 2 ^ k) + 2 ^ k ∨ 2 * (q * 2 ^ k) = 2 * m + 2 ^ k) → k ≠ 0 → q % 2 = 0)
      ∧ q ≤ 2 ^ 53 ∧ ((k = 0 ∧ q = m) ∨ 2 ^ 52 ≤ q) ∧ k = bitLen m - 53 := by
  unfold round53
  by_cases hl : bitLen m ≤ 53
  · refine ⟨0, m, ?_, by omega, by omega, ?_, ?_, Or.inl ⟨rfl, rfl⟩, by omega⟩
    · simp [hl]
    · intro _ h; exact absurd rfl h
    · by_cases hm : m = 0
      · subst hm; decide
      · have := (bitLen_bounds m hm).2
        have : 2 ^ bitLen m ≤ 2 ^ 53 := Nat.pow_le_pow_right (by omega) hl
        omega
  · have hm : m ≠ 0 := by
      intro h; subst h; simp [bitLen] at hl
    obtain ⟨hlo, hhi⟩ := bitLen_bounds m hm
    -- k bits are dropped
    generalize hk : bitLen m - 53 = k at *
    have hk1 : 1 ≤ k := by omega
    have hbl : bitLen m = 53 + k := by omega
    rw [hbl] at hlo hhi
    have hP : 2 ^ k = 2 * 2 ^ (k - 1) := by
      rw [← Nat.pow_succ']; congr 1; omega
    have hhi' : m < 2 ^ 53 * 2 ^ k := by rw [← Nat.pow_add]; exact hhi
    have hlo' : 2 ^ 52 * 2 ^ k ≤ m := by
      rw [← Nat.pow_add]
      have : 53 + k - 1 = 52 + k := by omega
      rw [this] at hlo; exact hlo
    have hdm := Nat.div_add_mod m (2 ^ k)
    have hr : m % 2 ^ k < 2 ^ k := Nat.mod_lt _ (Nat.pow_pos (by omega))
    have hq_hi : m / 2 ^ k < 2 ^ 53 := by
      rw [Nat.div_lt_iff_lt_mul (Nat.pow_pos (by omega))]; exact hhi'
    have hq_lo : 2 ^ 52 ≤ m / 2 ^ k := by
      rw [Nat.le_div_iff_mul_le (Nat.pow_pos (by omega))]; exact hlo'
    simp only [hl, if_false, Nat.shiftRight_eq_div_pow]
    generalize hq0 : m / 2 ^ k = q0 at *
    generalize hrr : m % 2 ^ k = r at *
    generalize hH : 2 ^ (k - 1) = half at *
    generalize hPP : 2 ^ k = P at *
    have ht : P * q0 + r = m := hdm
    by_cases hup : r > half ∨ (r = half ∧ q0 % 2 = 1)
    · refine ⟨k, q0 + 1, ?_, ?_, ?_, ?_, by omega, Or.inr (by omega), rfl⟩
      · simp only [hk, hPP, hH, hrr, hq0, hup, if_true]
      · rw [hPP]; have : (q0 + 1) * P = P * q0 + P := by rw [Nat.add_mul, Nat.mul_comm]; omega
        omega
      · rw [hPP]; have : (q0 + 1) * P = P * q0 + P := by rw [Nat.add_mul, Nat.mul_comm]; omega
        omega
      · rw [hPP]
        have : (q0 + 1) * P = P * q0 + P := by rw [Nat.add_mul, Nat.mul_comm]; omega
        intro htie _
        rcases hup with h | ⟨h1, h2⟩
        · omega
        · omega
    · refine ⟨k, q0, ?_, ?_, ?_, ?_, by omega, Or.inr hq_lo, rfl⟩
      · simp only [hk, hPP, hH, hrr, hq0, hup, if_false]
      · rw [hPP, Nat.mul_comm q0 P]; omega
      · rw [hPP, Nat.mul_comm q0 P]; omega
      · rw [hPP, Nat.mul_comm q0 P]
        intro htie _
        have : ¬ (r = half ∧ q0 % 2 = 1) := fun h => hup (Or.inr h)
        have hrh : r = half := by omega
        have := Nat.mod_two_eq_zero_or_one q0
        omega

/-- a number with at most 53 significant bits is not changed by the rounding -/
theorem round53_exact (m : Nat) (e : Int) (j : Nat) (hj : m % 2 ^ j = 0) (hc : m / 2 ^ j < 2 ^ 53) :
    ∃ k q : Nat, round53 m e = (q, e + (k : Int)) ∧ q * 2 ^ k = m := by
  obtain ⟨k, q, h, h1, h2, _, _, h5, hk⟩ := round53_nearest_even m e
  refine ⟨k, q, h, ?_⟩
  rcases h5 with ⟨h0, hq⟩ | _
  · subst h0; simp [hq]
  · by_cases hm : m = 0
    · subst hm
      have : 2 * (q * 2 ^ k) ≤ 2 ^ k := by omega
      have hp : 0 < 2 ^ k := Nat.pow_pos (by omega)
      have : q * 2 ^ k = 0 := by
        rcases Nat.eq_zero_or_pos q with h | h
        · simp [h]
        · have : 2 ^ k ≤ q * 2 ^ k := Nat.le_mul_of_pos_left _ h
          omega
      exact this
    · -- k ≤ j, so 2^k divides m
      have hlt : m < 2 ^ (53 + j) := by
        rw [Nat.pow_add]
        exact (Nat.div_lt_iff_lt_mul (Nat.pow_pos (by omega))).mp hc
      have hbl : bitLen m ≤ 53 + j := by
        have := (bitLen_bounds m hm).1
        have h2lt : 2 ^ (bitLen m - 1) < 2 ^ (53 + j) := Nat.lt_of_le_of_lt this hlt
        have := (Nat.pow_lt_pow_iff_right (by omega : 1 < 2)).mp h2lt
        omega
      have hkj : k ≤ j := by omega
      have hdvd : 2 ^ k ∣ m := by
        have h1 : 2 ^ k ∣ 2 ^ j := Nat.pow_dvd_pow 2 hkj
        exact Nat.dvd_trans h1 (Nat.dvd_of_mod_eq_zero hj)
      obtain ⟨a, ha⟩ := hdvd
      have hp : 0 < 2 ^ k := Nat.pow_pos (by omega)
      rw [ha] at h1 h2 ⊢
      rw [Nat.mul_comm (2 ^ k) a] at h1 h2 ⊢
      have e1 : (2 * a) * 2 ^ k ≤ (2 * q + 1) * 2 ^ k := by
        rw [Nat.add_mul, Nat.mul_assoc, Nat.mul_assoc]; omega
      have e2 : (2 * q) * 2 ^ k ≤ (2 * a + 1) * 2 ^ k := by
        rw [Nat.add_mul, Nat.mul_assoc, Nat.mul_assoc]; omega
      have f1 := Nat.le_of_mul_le_mul_right e1 hp
      have f2 := Nat.le_of_mul_le_mul_right e2 hp
      have : a = q := by omega
      rw [this]

end Dlt
